(* Proofs for props/C07.v: type words, multiplex tokens and decimal texts of model/FmtNum.v read back what was written. *)
From CM Require Import lib.Prelude model.FmtNum.

(* ================= digits ================= *)
Lemma llen_app {A} (a b : list A) : llen (a ++ b) = llen a + llen b.
Proof. unfold llen. rewrite app_length. lia. Qed.
Lemma llen_nonneg {A} (l : list A) : 0 <= llen l.
Proof. unfold llen. lia. Qed.
Lemma llen_zeros k : llen (zeros k) = Z.max 0 k.
Proof. unfold llen, zeros. rewrite repeat_length. lia. Qed.
Lemma llen_firstn {A} (l : list A) k : 0 <= k <= llen l -> llen (firstn (Z.to_nat k) l) = k.
Proof. unfold llen. intros H. rewrite firstn_length_le by lia. lia. Qed.
Lemma llen_skipn {A} (l : list A) k : 0 <= k <= llen l -> llen (skipn (Z.to_nat k) l) = llen l - k.
Proof. unfold llen. intros H. rewrite skipn_length. lia. Qed.

Lemma undigits_snoc base l d : undigits base (l ++ [d]) = base * undigits base l + d.
Proof. unfold undigits. rewrite fold_left_app. reflexivity. Qed.

Lemma undigits_cons0 base l : undigits base (0 :: l) = undigits base l.
Proof. unfold undigits. cbn [fold_left]. replace (base * 0 + 0) with 0 by lia. reflexivity. Qed.

Lemma undigits_zeros_app base k l : undigits base (zeros k ++ l) = undigits base l.
Proof.
  unfold zeros. induction (Z.to_nat k) as [|n IH]; [reflexivity|].
  cbn [repeat app]. rewrite undigits_cons0. exact IH.
Qed.

Lemma undigits_app_zeros0 base l : undigits base (l ++ zeros 0) = undigits base l.
Proof. unfold zeros. cbn. now rewrite app_nil_r. Qed.

Lemma digs_val base : 2 <= base -> forall f n, 0 <= n < 2 ^ Z.of_nat f -> undigits base (digs base f n) = n.
Proof.
  intros Hb. induction f as [|f IH]; intros n Hn.
  - change (2 ^ Z.of_nat 0) with 1 in Hn. unfold undigits; cbn [digs fold_left]. lia.
  - cbn [digs]. destruct (n <? base) eqn:E.
    + unfold undigits. cbn. lia.
    + rewrite undigits_snoc. rewrite IH.
      * pose proof (Z.div_mod n base). lia.
      * rewrite Nat2Z.inj_succ, Z.pow_succ_r in Hn by lia.
        split; [apply Z.div_pos; lia|].
        apply Z.le_lt_trans with (n / 2); [apply Z.div_le_compat_l; lia|].
        apply Z.div_lt_upper_bound; lia.
Qed.

Lemma digits_val base n : 2 <= base -> 0 <= n -> undigits base (digits base n) = n.
Proof.
  intros Hb Hn. unfold digits. apply digs_val; [exact Hb|].
  rewrite Nat2Z.inj_succ, Z2Nat.id by apply Z.log2_nonneg.
  split; [exact Hn|].
  destruct (Z.eq_dec n 0) as [->|Hz]; [cbn; lia|].
  apply Z.log2_spec. lia.
Qed.

Lemma digs_len_pos base f n : 1 <= llen (digs base (S f) n).
Proof.
  cbn [digs]. destruct (n <? base); [cbn; lia|].
  rewrite llen_app. pose proof (llen_nonneg (digs base f (n / base))). cbn. lia.
Qed.
Lemma digits_len_pos base n : 1 <= llen (digits base n).
Proof. unfold digits. apply digs_len_pos. Qed.
Lemma digits_nonempty base n : digits base n <> [].
Proof. intros H. pose proof (digits_len_pos base n) as L. rewrite H in L. cbn in L. lia. Qed.

(* ================= SYM selector token ================= *)
Lemma sym_selector_roundtrip mux_size v : 0 <= v -> sym_read_selector (sym_write_selector mux_size v) = v.
Proof.
  intros Hv. unfold sym_read_selector, sym_write_selector.
  destruct (v <? 10); cbn [fst snd].
  - apply digits_val; lia.
  - rewrite undigits_zeros_app. apply digits_val; lia.
Qed.

(* ================= type words ================= *)
Ltac open_type t := destruct t as [size signed float]; cbn [ty_size ty_signed ty_float].

Lemma dbc_type_roundtrip t : dbc_read_type (dbc_write_type t) = Some (ty_signed t, ty_float t).
Proof. open_type t. unfold dbc_read_type, dbc_write_type; cbn [gnth nth ty_size ty_signed ty_float]. destruct signed, float, (size >? 32); reflexivity. Qed.

Lemma json_type_roundtrip t : json_read_type (json_write_type t) = Some (ty_signed t, ty_float t).
Proof. open_type t. unfold json_read_type, json_write_type; cbn [gnth nth ty_size ty_signed ty_float]. destruct signed, float; reflexivity. Qed.

Lemma dbf_type_roundtrip t :
  exists s f, dbf_read_type (dbf_write_type t) = Some (s, f) /\ type_meaning s f = type_meaning (ty_signed t) (ty_float t).
Proof. open_type t. unfold dbf_read_type, dbf_write_type; cbn [gnth nth ty_size ty_signed ty_float]. destruct signed, float, (size >? 32); cbn; eauto. Qed.

Lemma kcd_type_roundtrip t :
  exists s f, kcd_read_type (kcd_write_type t) = Some (s, f) /\ type_meaning s f = type_meaning (ty_signed t) (ty_float t).
Proof. open_type t. unfold kcd_read_type, kcd_write_type; cbn [gnth nth ty_size ty_signed ty_float]. destruct signed, float, (size >? 32); cbn; eauto. Qed.

Lemma sym_type_roundtrip t :
  exists s f, sym_read_type (sym_write_type t) = Some (s, f) /\ type_meaning s f = type_meaning (ty_signed t) (ty_float t).
Proof. open_type t. unfold sym_read_type, sym_write_type; cbn [gnth nth ty_size ty_signed ty_float]. destruct signed, float, (size >? 32); cbn; eauto. Qed.

Lemma arxml4_type_roundtrip t :
  exists s f, arxml4_read_type (arxml4_write_type t) = Some (s, f) /\ type_meaning s f = type_meaning (ty_signed t) (ty_float t).
Proof.
  open_type t. unfold arxml4_read_type, arxml4_write_type; cbn [ty_size ty_signed ty_float].
  destruct signed, float; cbn; eauto.
Qed.

(* AUTOSAR 3 output: float-ness is carried, the sign of an integer is not *)
Lemma arxml3_type_float t :
  exists s f, arxml3_read_type (arxml3_write_type t) = Some (s, f) /\ f = ty_float t /\ (ty_float t = false -> s = false).
Proof. open_type t. unfold arxml3_read_type, arxml3_write_type; cbn [ty_size ty_signed ty_float]. destruct float; cbn; eauto. Qed.

Lemma width_class_covers size : 1 <= size <= 64 -> size <= width_class size /\ In (width_class size) [8; 16; 32; 64].
Proof.
  intros H. unfold width_class.
  destruct (size >? 32) eqn:A; [cbn; lia|].
  destruct (size >? 16) eqn:B; [cbn; lia|].
  destruct (size >? 8) eqn:C; cbn; lia.
Qed.

(* ================= multiplex tokens ================= *)
Lemma dbc_mux_roundtrip r : dbc_read_mux (dbc_write_mux r) = Some r.
Proof. destruct r as [is [v|]]; destruct is; reflexivity. Qed.

Lemma simple_mux_roundtrip r : role_simple r -> simple_read_mux (simple_write_mux r) = Some r.
Proof.
  destruct r as [is [v|]]; unfold role_simple; cbn [mx_is mx_val]; intros H; destruct is; try reflexivity.
  specialize (H eq_refl). discriminate.
Qed.

(* ================= decimal texts ================= *)
Lemma parse_num_int t :
  t_int t <> [] ->
  parse_num t = Some (mkDec (t_neg t) (undigits 10 (t_int t ++ t_frac t)) (exp_value (t_exp t) - llen (t_frac t))).
Proof.
  intros H. unfold parse_num. destruct (t_int t) as [|x r] eqn:E; [congruence|]. reflexivity.
Qed.

Lemma firstn_nonempty {A} (l : list A) k : l <> [] -> 1 <= k -> firstn (Z.to_nat k) l <> [].
Proof.
  intros Hl Hk. destruct l as [|x r]; [congruence|].
  destruct (Z.to_nat k) eqn:E; [lia|]. cbn. discriminate.
Qed.

Lemma exp_value_digits e :
  exp_value (Some (e <? 0, digits 10 (Z.abs e))) = e.
Proof.
  unfold exp_value. rewrite digits_val by lia. destruct (e <? 0) eqn:E; lia.
Qed.

Lemma str_parse_exact d : dec_ok d -> parse_num (str_dec d) = Some d.
Proof.
  destruct d as [neg coef e]. unfold dec_ok; cbn [d_coef]. intros Hc.
  unfold str_dec; cbn [d_neg d_coef d_exp].
  pose proof (digits_val 10 coef ltac:(lia) Hc) as Hv.
  pose proof (digits_len_pos 10 coef) as Hl.
  pose proof (digits_nonempty 10 coef) as Hne.
  set (ds := digits 10 coef) in *.
  destruct ((e <=? 0) && (e + llen ds >? -6)) eqn:Hplain.
  - destruct (e + llen ds <=? 0) eqn:H1.
    + rewrite parse_num_int by (cbn; discriminate). cbn [t_neg t_int t_frac t_exp exp_value].
      change ([0] ++ zeros (- (e + llen ds)) ++ ds) with (0 :: (zeros (- (e + llen ds)) ++ ds)).
      rewrite undigits_cons0, undigits_zeros_app, Hv, llen_app, llen_zeros.
      f_equal. f_equal. lia.
    + destruct (e + llen ds >=? llen ds) eqn:H2.
      * assert (e = 0) by lia. subst e.
        rewrite parse_num_int by (cbn [t_int]; intros C; apply app_eq_nil in C; tauto).
        cbn [t_neg t_int t_frac t_exp exp_value].
        replace (0 + llen ds - llen ds) with 0 by lia.
        rewrite app_nil_r, undigits_app_zeros0, Hv. reflexivity.
      * rewrite parse_num_int by (cbn [t_int]; apply firstn_nonempty; [exact Hne | lia]).
        cbn [t_neg t_int t_frac t_exp exp_value].
        rewrite firstn_skipn, Hv, llen_skipn by lia. f_equal. f_equal. lia.
  - rewrite parse_num_int by (cbn [t_int]; apply (firstn_nonempty ds 1); [exact Hne | lia]).
    cbn [t_neg t_int t_frac t_exp].
    change 1%nat with (Z.to_nat 1).
    rewrite firstn_skipn, Hv, llen_skipn by lia.
    destruct (e + llen ds =? 1) eqn:H1.
    + cbn [exp_value]. f_equal. f_equal. lia.
    + rewrite exp_value_digits. f_equal. f_equal. lia.
Qed.

(* format_float keeps the number (possibly in another representation: 1.0 -> 1) *)
Lemma same_value_refl d : dec_same_value d d.
Proof. split; reflexivity. Qed.

Lemma exp_value_pad neg eds k : exp_value (Some (neg, zeros k ++ eds)) = exp_value (Some (neg, eds)).
Proof. unfold exp_value. now rewrite undigits_zeros_app. Qed.

Lemma format_float_parse t d :
  t_int t <> [] ->
  parse_num t = Some d ->
  exists d', parse_num (format_float t) = Some d' /\ dec_same_value d' d.
Proof.
  destruct t as [neg ip fp ex]. cbn [t_int]. intros Hip.
  destruct ip as [|i0 ir]; [congruence|]. clear Hip.
  unfold parse_num, format_float; cbn [t_neg t_int t_frac t_exp app].
  destruct ex as [[en eds]|].
  - (* exponent present: only padded to three digits *)
    intros H. inversion H; subst; clear H.
    eexists. split; [reflexivity|]. rewrite exp_value_pad. apply same_value_refl.
  - destruct (is_single_zero fp) eqn:Z.
    + (* "x.0" -> "x" *)
      destruct fp as [|z fr]; [discriminate|]. destruct z; try discriminate. destruct fr; [|discriminate].
      intros H. inversion H; subst; clear H.
      eexists. split; [reflexivity|]. unfold dec_same_value; cbn [d_neg d_coef d_exp exp_value].
      split; [reflexivity|].
      rewrite app_nil_r.
      change (i0 :: ir ++ [0]) with ((i0 :: ir) ++ [0]). rewrite undigits_snoc.
      unfold llen; cbn [length].
      match goal with |- _ * 10 ^ ?a = _ * 10 ^ ?b => replace a with 1 by (cbn; lia); replace b with 0 by (cbn; lia) end.
      change (10 ^ 1) with 10. change (10 ^ 0) with 1. lia.
    + intros H. eexists. split; [exact H|]. apply same_value_refl.
Qed.

Lemma str_dec_int_nonempty d : t_int (str_dec d) <> [].
Proof.
  destruct d as [neg coef e]. unfold str_dec; cbn [d_neg d_coef d_exp].
  pose proof (digits_len_pos 10 coef) as Hl.
  pose proof (digits_nonempty 10 coef) as Hne.
  set (ds := digits 10 coef) in *.
  destruct ((e <=? 0) && (e + llen ds >? -6)).
  - destruct (e + llen ds <=? 0) eqn:H1; [cbn; discriminate|].
    destruct (e + llen ds >=? llen ds) eqn:H2; cbn [t_int].
    + intros C. apply app_eq_nil in C. tauto.
    + apply firstn_nonempty; [exact Hne | lia].
  - cbn [t_int]. apply (firstn_nonempty ds 1); [exact Hne | lia].
Qed.

Lemma format_float_str_value d :
  dec_ok d -> exists d', parse_num (format_float (str_dec d)) = Some d' /\ dec_same_value d' d.
Proof.
  intros H. apply format_float_parse; [apply str_dec_int_nonempty | now apply str_parse_exact].
Qed.

(* same value is what the decoded physical value depends on: raw * factor + offset *)
Lemma same_value_scale a b raw :
  dec_same_value a b ->
  let m := Z.min (d_exp a) (d_exp b) in
  raw * (d_coef a * 10 ^ (d_exp a - m)) = raw * (d_coef b * 10 ^ (d_exp b - m)).
Proof. intros [_ H] m. subst m. now rewrite H. Qed.
