(* C09  CAN identifiers: range-checked, lossless compound form, correct J1939 view.
   Statements only; every proof is `exact <lemma>`; Print Assumptions follows each. *)
From CM Require Import lib.Prelude model.ArbId proofs.ArbId_proofs.

(* an identifier is constructible iff it lies in the 11-bit resp. 29-bit range (negatives rejected) *)
Theorem C09_constructible_iff_in_range :
  forall id ext,
    (mk_arbid id ext = Some (id, ext) <-> 0 <= id < (if ext then 2 ^ 29 else 2 ^ 11)) /\
    (mk_arbid id ext = None <-> ~ (0 <= id < (if ext then 2 ^ 29 else 2 ^ 11))).
Proof. exact constructible_iff_in_range. Qed.
Print Assumptions C09_constructible_iff_in_range.

(* compound integer: lossless both ways, top bit marks extended *)
Theorem C09_compound_roundtrip_id :
  forall a, valid_ext a \/ valid_std a -> from_compound_integer (to_compound_integer a) = Some a.
Proof. exact compound_roundtrip_id. Qed.
Print Assumptions C09_compound_roundtrip_id.

Theorem C09_compound_roundtrip_int :
  forall c a, 0 <= c < 2 ^ 32 -> from_compound_integer c = Some a ->
    to_compound_integer a = c - (c / 2 ^ 29 mod 4) * 2 ^ 29 /\
    (0 <= c < 2 ^ 11 \/ 2 ^ 31 <= c < 2 ^ 31 + 2 ^ 29 -> to_compound_integer a = c).
Proof. exact compound_roundtrip_int. Qed.
Print Assumptions C09_compound_roundtrip_int.

Theorem C09_compound_rejects_wide_standard :
  forall c, 2 ^ 11 <= c < 2 ^ 29 -> from_compound_integer c = None.
Proof. exact compound_rejects_wide_standard. Qed.
Print Assumptions C09_compound_rejects_wide_standard.

(* the J1939 getters are the arithmetic fields, and the fields recompose to the identifier *)
Theorem C09_fields_and_recompose :
  forall a, valid_ext a ->
    let id := fst a in
    j1939_source a = Some (f_sa id) /\ j1939_ps a = Some (f_ps id) /\ j1939_pf a = Some (f_pf id) /\
    j1939_dp a = Some (f_dp id) /\ j1939_edp a = Some (f_edp id) /\ j1939_priority a = Some (f_prio id) /\
    id = f_prio id * 2 ^ 26 + f_edp id * 2 ^ 25 + f_dp id * 2 ^ 24 + f_pf id * 2 ^ 16 + f_ps id * 2 ^ 8 + f_sa id.
Proof. exact fields_and_recompose. Qed.
Print Assumptions C09_fields_and_recompose.

Theorem C09_getters_need_extended :
  forall a, snd a = false ->
    j1939_source a = None /\ j1939_ps a = None /\ j1939_pf a = None /\ j1939_dp a = None /\
    j1939_edp a = None /\ j1939_priority a = None /\ pgn a = None /\ j1939_destination a = None.
Proof. exact getters_need_extended. Qed.
Print Assumptions C09_getters_need_extended.

(* PGN rule of J1939-21, destination only for PDU1 *)
Theorem C09_pgn_rule :
  forall a, valid_ext a ->
    pgn a = Some (spec_pgn (fst a)) /\
    j1939_destination a = Some (if f_pf (fst a) <? 240 then Some (f_ps (fst a)) else None).
Proof. exact pgn_rule. Qed.
Print Assumptions C09_pgn_rule.

(* setting one field leaves the others unchanged (values are masked to the field's width) *)
Theorem C09_set_priority_frame :
  forall a v, valid_ext a ->
    let b := set_priority a v in
    valid_ext b /\ f_prio (fst b) = v mod 8 /\ f_edp (fst b) = f_edp (fst a) /\ f_dp (fst b) = f_dp (fst a) /\
    f_pf (fst b) = f_pf (fst a) /\ f_ps (fst b) = f_ps (fst a) /\ f_sa (fst b) = f_sa (fst a).
Proof. exact set_priority_frame. Qed.
Print Assumptions C09_set_priority_frame.

Theorem C09_set_source_frame :
  forall a v, valid_ext a ->
    let b := set_source a v in
    valid_ext b /\ f_sa (fst b) = v mod 256 /\ f_prio (fst b) = f_prio (fst a) /\ f_edp (fst b) = f_edp (fst a) /\
    f_dp (fst b) = f_dp (fst a) /\ f_pf (fst b) = f_pf (fst a) /\ f_ps (fst b) = f_ps (fst a).
Proof. exact set_source_frame. Qed.
Print Assumptions C09_set_source_frame.

Theorem C09_set_pgn_frame :
  forall a v, valid_ext a ->
    let b := set_pgn a v in
    valid_ext b /\ f_prio (fst b) = f_prio (fst a) /\ f_sa (fst b) = f_sa (fst a) /\
    f_edp (fst b) = (v / 2 ^ 17) mod 2 /\ f_dp (fst b) = (v / 2 ^ 16) mod 2 /\
    f_pf (fst b) = (v / 2 ^ 8) mod 256 /\ f_ps (fst b) = v mod 256.
Proof. exact set_pgn_frame. Qed.
Print Assumptions C09_set_pgn_frame.

(* the PGN does not depend on priority, source address, or (for PDU1) destination address;
   conversely identifiers with one PGN agree on every PGN field *)
Theorem C09_pgn_eq_iff :
  forall id id', 0 <= id < 2 ^ 29 -> 0 <= id' < 2 ^ 29 ->
    (spec_pgn id = spec_pgn id' <->
     f_edp id = f_edp id' /\ f_dp id = f_dp id' /\ f_pf id = f_pf id' /\ (240 <= f_pf id -> f_ps id = f_ps id')).
Proof. exact pgn_eq_iff. Qed.
Print Assumptions C09_pgn_eq_iff.

Theorem C09_from_pgn_normalises :
  forall a, valid_ext a ->
    exists fp, from_pgn (spec_pgn (fst a)) = Some fp /\ pgn fp = Some (spec_pgn (fst a)).
Proof. exact from_pgn_normalises. Qed.
Print Assumptions C09_from_pgn_normalises.

(* frame selection for a received identifier in a matrix that contains J1939 frames, any mix and order
   of 11-bit and 29-bit frames: the exact-id frame if there is one, else the first 29-bit frame with the
   same PGN, else nothing; an 11-bit identifier decodes to nothing.  Never an exception. *)
Theorem C09_decode_select_spec :
  forall a frames,
    existsb fr_j1939 frames = true ->
    Forall (fun f => valid_ext (fr_id f) \/ valid_std (fr_id f)) frames ->
    (valid_ext a ->
       decode_select a frames =
         match scan_by_id a frames with
         | Some f => SelFrame f
         | None => match first_with_pgn (spec_pgn (fst a)) frames with
                   | Some f => SelFrame f
                   | None => SelEmpty
                   end
         end) /\
    (valid_std a -> decode_select a frames = SelEmpty).
Proof. exact decode_select_spec. Qed.
Print Assumptions C09_decode_select_spec.

(* non-vacuity: a mixed matrix; the probe differs from the J1939 frame in priority and source only *)
Example C09_example :
  let frames := [(1, (0x123, false), false); (2, (0x18FEF100, true), true)] in
  decode_select (0x0CFEF133, true) frames = SelFrame (2, (0x18FEF100, true), true) /\
  decode_select (0x0CFEF233, true) frames = SelEmpty /\
  pgn (0x18FEF100, true) = Some 0xFEF1 /\ pgn (0x18EF1200, true) = Some 0xEF00.
Proof. vm_compute. repeat split. Qed.
