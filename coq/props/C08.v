(* C08  All start-bit notations denote the same physical bits.
   This file holds only statements; every proof is `exact <lemma>`.  Print Assumptions follows each. *)
From CM Require Import lib.Prelude model.Startbit model.Codec proofs.Startbit_proofs proofs.Startbit_bridge.

(* Querying in the notation used for setting returns the number that was set: every byte order, width,
   position and notation - not only 0..511 / 1..64. *)
Theorem C08_get_after_set_same_notation :
  forall le size sb bn sl i,
    set_startbit le size sb bn sl = Some i -> get_startbit le size i bn sl = sb.
Proof. exact get_after_set. Qed.
Print Assumptions C08_get_after_set_same_notation.

(* ... and conversely every stored non-negative internal position is reachable in every notation. *)
Theorem C08_set_after_get :
  forall le size i bn sl, 0 <= i -> set_startbit le size (get_startbit le size i bn sl) bn sl = Some i.
Proof. exact set_after_get. Qed.
Print Assumptions C08_set_after_get.

(* The number passed to set denotes, in the caller's numbering (LSB0: byte n/8, bit n mod 8; MSB0: byte
   p/8, bit 7 - p mod 8), the physical bit the notation refers to (Intel: always the LSB; Motorola:
   the MSB, or the LSB with start_little) of the stored signal. *)
Theorem C08_set_denotes_referenced_bit :
  forall le size sb bn sl i,
    bn_ok bn -> set_startbit le size sb bn sl = Some i ->
    num_coord (eff_lsb0 le bn) sb = bit_coord le size i (ref_bit le size sl).
Proof. exact set_denotes. Qed.
Print Assumptions C08_set_denotes_referenced_bit.

(* Querying in any notation returns that notation's number of the physical bit it refers to. *)
Theorem C08_get_denotes_referenced_bit :
  forall le size i bn sl,
    bn_ok bn ->
    num_coord (eff_lsb0 le bn) (get_startbit le size i bn sl) = bit_coord le size i (ref_bit le size sl).
Proof. exact get_denotes. Qed.
Print Assumptions C08_get_denotes_referenced_bit.

(* Set in notation A, query in notation B: both numbers denote bits of the same stored signal. *)
Theorem C08_cross_notation_consistent :
  forall le size sb bnA slA bnB slB i,
    bn_ok bnA -> bn_ok bnB -> set_startbit le size sb bnA slA = Some i ->
    num_coord (eff_lsb0 le bnA) sb = bit_coord le size i (ref_bit le size slA) /\
    num_coord (eff_lsb0 le bnB) (get_startbit le size i bnB slB) = bit_coord le size i (ref_bit le size slB).
Proof. exact cross_notation. Qed.
Print Assumptions C08_cross_notation_consistent.

(* A number denotes exactly one physical bit in each numbering (so "the same physical bits" is meaningful). *)
Theorem C08_numberings_injective :
  forall a b, (coord_lsb0 a = coord_lsb0 b -> a = b) /\ (coord_msb0 a = coord_msb0 b -> a = b).
Proof. intros a b. split; [apply coord_lsb0_inj | apply coord_msb0_inj]. Qed.
Print Assumptions C08_numberings_injective.

(* A position that would lie before bit 0 is rejected (None = StartbitLowerZero, nothing stored), and
   only such positions are. *)
Theorem C08_set_rejects_exactly_negative :
  forall le size sb bn sl,
    (set_startbit le size sb bn sl = None <-> converted le size sb bn sl < 0) /\
    (forall i, set_startbit le size sb bn sl = Some i -> i = converted le size sb bn sl /\ 0 <= i).
Proof. exact set_rejects_negative. Qed.
Print Assumptions C08_set_rejects_exactly_negative.

(* For Intel signals only the numbering switch matters. *)
Theorem C08_intel_ignores_start_little :
  forall size sb bn sl sl' i,
    set_startbit true size sb bn sl = set_startbit true size sb bn sl' /\
    get_startbit true size i bn sl = get_startbit true size i bn sl'.
Proof. exact intel_ignores_start_little. Qed.
Print Assumptions C08_intel_ignores_start_little.

(* Bridge to the codec (C01's model): the bit of significance k that decoding reads is the payload bit at the physical
   coordinate the notations talk about ... *)
Theorem C08_codec_reads_the_denoted_coordinates :
  forall d s k, 0 <= s_start s -> 1 <= s_size s -> (k < Z.to_nat (s_size s))%nat ->
    sig_bit d s k = coord_bit d (bit_coord (s_le s) (s_size s) (s_start s) (Z.of_nat k)).
Proof. exact sig_bit_is_coord_bit. Qed.
Print Assumptions C08_codec_reads_the_denoted_coordinates.

(* ... so a payload in which, among the signal's own bits, exactly the physical bit denoted by the number `sb` (in the
   caller's numbering) is set decodes to the weight of the bit the notation refers to: 2^(size-1) for the MSB, 1 for the LSB. *)
Theorem C08_single_bit_payload_decodes_to_weight :
  forall d s sb bn sl i,
    bn_ok bn -> set_startbit (s_le s) (s_size s) sb bn sl = Some i -> s_start s = i ->
    inside (8 * zlen d) s = true -> s_float s = false -> s_signed s = false ->
    (forall j, (j < Z.to_nat (s_size s))%nat ->
        coord_bit d (bit_coord (s_le s) (s_size s) i (Z.of_nat j)) =
        (if coord_eqb (bit_coord (s_le s) (s_size s) i (Z.of_nat j)) (num_coord (eff_lsb0 (s_le s) bn) sb) then true else false)) ->
    decode_signal d (8 * zlen d) s = Some (RInt (2 ^ ref_bit (s_le s) (s_size s) sl)).
Proof. exact denoted_bit_decodes_to_weight. Qed.
Print Assumptions C08_single_bit_payload_decodes_to_weight.

(* non-vacuity: Motorola, width 12, set with DBC number 7 for the MSB: only payload byte 0 bit 7 set decodes to 2^11 *)
Example C08_example :
  set_startbit false 12 7 (Some 1) false = Some 0 /\
  decode_signal [128; 0; 0] 24 (mkSignal 0 0 12 false false false) = Some (RInt (2 ^ 11)) /\
  decode_signal [0; 16; 0] 24 (mkSignal 0 0 12 false false false) = Some (RInt 1).
Proof. vm_compute. repeat split. Qed.
