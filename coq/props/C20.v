(* C20  Readers tolerate bad lines and truncation without losing good content  (partial: line-fold level).
   Statements only; every proof is `exact <lemma>`; Print Assumptions follows each.
   The reader is `read step s0 lines = fold_left step' lines s0` where a failing statement hands the handler the state as it is
   at that moment (model/LineFold.v).  Generic theorems hold for ANY step function; the instances are the DBC-like and SYM-like
   statement languages of model/LineFold.v.  `dbc_step`/`sym_step` follow the readers as they are now (all repairs but one:
   the BA_ value check was declined, `dbc_step_gen true c` has it for c = true), `*_orig` the readers as found. *)
From CM Require Import lib.Prelude model.ArbId model.LineFold proofs.C20_generic proofs.C20_dbc proofs.C20_sym.

(* ---------------------------------------------- generic ---------------------------------------------- *)
(* lines on which the step fails before its first mutation, or that no branch recognises, leave the state unchanged; hence
   reading with them removed gives the same final state (and the same result / exception of the post-processing) *)
Theorem C20_bad_line_is_skipped :
  forall (S L : Type) (step : S -> L -> outcome S) (good : L -> bool),
    (forall l, good l = false -> fails_before_mutation step l \/ unrecognised step l) ->
    (forall l, good l = false -> neutral step l) /\
    (forall s ls, read step s (filter good ls) = read step s ls) /\
    (forall R (post : S -> option R) s ls, load_with step post s (filter good ls) = load_with step post s ls).
Proof. exact @bad_line_is_skipped. Qed.
Print Assumptions C20_bad_line_is_skipped.

(* the same for arbitrary interleavings (multisets of insertions at any positions) *)
Theorem C20_bad_lines_interleaved :
  forall (S L : Type) (step : S -> L -> outcome S) bads goods merged,
    Interleave bads goods merged -> Forall (neutral step) bads ->
    forall s, read step s merged = read step s goods.
Proof. exact @bad_lines_interleaved. Qed.
Print Assumptions C20_bad_lines_interleaved.

(* fault isolation up to an observation: bad lines may disturb loop variables (sim = same matrix); after an insertion only
   lines whose effect depends on the matrix alone may follow until a line that re-establishes the loop variables *)
Theorem C20_faulted_up_to :
  forall (S L : Type) (step : S -> L -> outcome S) (sim : S -> S -> Prop) (bad resetting preserving : L -> Prop),
    (forall s, sim s s) -> (forall a b, sim a b -> sim b a) -> (forall a b c, sim a b -> sim b c -> sim a c) ->
    (forall l, bad l -> sim_neutral sim step l) ->
    (forall l, resetting l -> sim_resetting sim step l) ->
    (forall l, preserving l -> sim_preserving sim step l) ->
    forall d clean faulted, Faulted bad resetting preserving d clean faulted ->
    forall s1 s2, (if d then sim s1 s2 else s1 = s2) -> sim (read step s1 clean) (read step s2 faulted).
Proof. exact @faulted_up_to. Qed.
Print Assumptions C20_faulted_up_to.

(* truncation: if no step removes or alters what was introduced, everything present after the prefix is present after the file *)
Theorem C20_prefix_keeps_complete_objects :
  forall (S L O : Type) (step : S -> L -> outcome S) (objs : S -> O -> Prop),
    preserves_introduced step objs ->
    forall s l1 l2 o, objs (read step s l1) o -> objs (read step s (l1 ++ l2)) o.
Proof. exact @prefix_keeps_complete_objects. Qed.
Print Assumptions C20_prefix_keeps_complete_objects.

(* ---------------------------------------------- DBC-like ---------------------------------------------- *)
(* whatever statement fails, the matrix is as before (only the loop variable `frame` may have moved) *)
Theorem C20_dbc_steps_fail_before_mutation :
  forall c s l s', dbc_step_gen true c s l = Fail s' -> frames s' = frames s.
Proof. exact dbc_fail_frames. Qed.
Print Assumptions C20_dbc_steps_fail_before_mutation.

(* the three fault kinds (unknown keyword, missing field = truncated, field of the wrong type) never touch the matrix.
   c = false (the reader as it is, `dbc_malformed = dbc_malformed_gen false`): all malformed lines EXCEPT a BA_ line whose value is
   present but not a number or quoted string; c = true (with the declined check): all of them. *)
Theorem C20_dbc_malformed_lines_leave_matrix :
  forall c l, dbc_malformed_gen c l = true -> forall s, frames (step' (dbc_step_gen true c) s l) = frames s.
Proof. exact dbc_malformed_frames. Qed.
Print Assumptions C20_dbc_malformed_lines_leave_matrix.

(* any number of malformed lines inserted anywhere except directly before an SG_ line of a file in which every SG_ line follows
   its BO_ line or another SG_ line: same matrix, same post-processing result *)
Theorem C20_dbc_insertions_outside_signal_lists :
  forall c clean faulted, DbcInserted c clean faulted -> sg_guarded clean = true ->
  forall s, frames (read (dbc_step_gen true c) s faulted) = frames (read (dbc_step_gen true c) s clean) /\
            dbc_post (read (dbc_step_gen true c) s faulted) = dbc_post (read (dbc_step_gen true c) s clean).
Proof. exact dbc_insertions_outside_signal_lists. Qed.
Print Assumptions C20_dbc_insertions_outside_signal_lists.

(* the exclusion of positions inside a signal list is necessary: `CM_ SG_ 999 Sig "text";` (no such frame) between a BO_ line
   and its SG_ line fails without touching the matrix, yet the signal is lost (the loop variable `frame` is None afterwards) *)
Theorem C20_dbc_insertion_inside_signal_list_refuted :
  exists clean bad, sg_guarded clean = true /\
    (exists s', dbc_step dbc_init bad = Fail s' /\ frames s' = frames dbc_init) /\
    frames (read dbc_step dbc_init [ex_bo; bad; ex_sg]) <> frames (read dbc_step dbc_init clean) /\ clean = [ex_bo; ex_sg].
Proof. exact dbc_insertion_inside_signal_list_refuted. Qed.
Print Assumptions C20_dbc_insertion_inside_signal_list_refuted.

(* the exclusion of BA_ lines with a present, non-grammatical value from `dbc_malformed` is necessary for the reader as it is
   (known finding): `BA_ "GenMsgCycleTime" BO_ 291 abc;` is malformed by the grammar, is not skipped and changes the matrix *)
Theorem C20_dbc_ba_value_not_skipped_refuted :
  let l := LBaBo gen_msg_cycle_time (Num 291) (VWord 9) in
  dbc_malformed_gen true l = true /\ dbc_malformed l = false /\
  (exists s', dbc_step ex_state l = Ok s' /\ frames s' <> frames ex_state) /\
  (forall s, frames (step' dbc_step_strict s l) = frames s).
Proof. exact dbc_ba_value_not_skipped_refuted. Qed.
Print Assumptions C20_dbc_ba_value_not_skipped_refuted.

(* the reader as found: SG_MUL_VAL_ (unknown signal; malformed range) and VAL_ (malformed key) change the matrix and then fail *)
Theorem C20_dbc_orig_fail_before_mutation_refuted :
  (exists l s', dbc_step_orig ex_state l = Fail s' /\ frames s' <> frames ex_state /\
                l = LMulVal (Num 291) (Str 77) (Str 3) [(Num 1, Num 1)] true) /\
  (exists l s', dbc_step_orig ex_state l = Fail s' /\ frames s' <> frames ex_state /\
                l = LMulVal (Num 291) (Str 3) (Str 3) [(Num 1, Num 1); (Bad, Num 2)] true) /\
  (exists l s', dbc_step_orig ex_state l = Fail s' /\ frames s' <> frames ex_state /\
                l = LVal (Num 291) (Str 3) [(Num 7, Str 5); (Bad, Str 6)] true).
Proof. exact dbc_orig_fail_before_mutation_refuted. Qed.
Print Assumptions C20_dbc_orig_fail_before_mutation_refuted.

(* no step (of either reader) removes a frame or alters a signal's name, placement, byte order, sign, factor, offset *)
Theorem C20_dbc_steps_preserve_introduced :
  forall atomic check, preserves_introduced (dbc_step_gen atomic check) dbc_objs.
Proof. exact dbc_steps_preserve_introduced. Qed.
Print Assumptions C20_dbc_steps_preserve_introduced.

Theorem C20_dbc_prefix_keeps_frames_and_signals :
  forall atomic check l1 l2 o,
    dbc_objs (read (dbc_step_gen atomic check) dbc_init l1) o -> dbc_objs (read (dbc_step_gen atomic check) dbc_init (l1 ++ l2)) o.
Proof. exact dbc_prefix_keeps_frames_and_signals. Qed.
Print Assumptions C20_dbc_prefix_keeps_frames_and_signals.

(* and complete defining lines do introduce their objects: after any prefix, a complete BO_ line followed by a complete SG_ line
   yields the frame and the signal with exactly the fields of the line *)
Theorem C20_dbc_defining_lines_introduce :
  forall pre i n z e a sn st sz o sg fa off,
    from_compound_integer i = Some a ->
    let ls := pre ++ [LBo (Num i) (Str n) (Num z) (Str e);
                      LSg (Str sn) None (Num st) (Num sz) (Num o) (Num sg) (Num fa) (Num off)] in
    dbc_objs (read dbc_step dbc_init ls) (OFrame a) /\
    dbc_objs (read dbc_step dbc_init ls)
             (OSignal a [sn; st; sz; if o =? 1 then 1 else 0; if sg =? 1 then 1 else 0; fa; off]).
Proof. exact dbc_bo_sg_introduce. Qed.
Print Assumptions C20_dbc_defining_lines_introduce.

(* the modelled post-processing step never raises, whatever was read *)
Theorem C20_dbc_post_total :
  forall atomic check ls, load_with (dbc_step_gen atomic check) dbc_post dbc_init ls <> None.
Proof. exact dbc_post_total. Qed.
Print Assumptions C20_dbc_post_total.

Theorem C20_dbc_orig_post_total_refuted :
  load_with dbc_step_orig dbc_post_orig dbc_init [ex_bo; LBaBo gen_msg_cycle_time (Num 291) (VWord 9)] = None /\
  load_with dbc_step_orig dbc_post_orig dbc_init [ex_bo; LBaBo gen_msg_cycle_time (Num 291) (VStr 9)] = None.
Proof. exact dbc_orig_post_total_refuted. Qed.
Print Assumptions C20_dbc_orig_post_total_refuted.

(* ---------------------------------------------- SYM-like ---------------------------------------------- *)
(* every failing statement leaves everything as it was and is recorded exactly once in load_errors *)
Theorem C20_sym_steps_fail_before_mutation :
  forall s l s', mux_inv s -> sym_step s l = Fail s' -> s' = record_error s.
Proof. exact sym_steps_fail_before_mutation. Qed.
Print Assumptions C20_sym_steps_fail_before_mutation.

(* the invariant used above holds in every state the reader can reach *)
Theorem C20_sym_reachable_inv :
  forall ls, mux_inv (read sym_step sym_init ls).
Proof. exact (fun ls => sym_reachable_inv ls sym_init sym_init_inv). Qed.
Print Assumptions C20_sym_reachable_inv.

(* malformed lines at any positions: same result, and exactly one load error per malformed line *)
Theorem C20_sym_bad_lines_recorded :
  forall bads goods merged, Interleave bads goods merged ->
    Forall (fun l => sym_malformed l = true) bads ->
    forall s, read sym_step s merged = add_errors (length bads) (read sym_step s goods).
Proof. exact sym_bad_lines_recorded. Qed.
Print Assumptions C20_sym_bad_lines_recorded.

(* the end-of-file step (outside the try block) never raises *)
Theorem C20_sym_post_total :
  forall ls, load_with sym_step sym_post sym_init ls <> None.
Proof. exact sym_post_total. Qed.
Print Assumptions C20_sym_post_total.

(* the reader as found: a Mux= line with a malformed value poisons `multiplexor` (the next Var= line is lost), and a Mux= line
   that fails after writing mux_names makes the end-of-file step raise *)
Theorem C20_sym_orig_refuted :
  (exists s', sym_step_orig (read sym_step_orig sym_init [yhdr]) (YMux (Str 5) (Num 0) (Num 4) (Str 99) false true) = Fail s' /\
              s' <> record_error (read sym_step_orig sym_init [yhdr])) /\
  (exists fs1 fs2 e1 e2,
      load_with sym_step_orig sym_post sym_init [yhdr; yvar] = Some (fs1, e1) /\
      load_with sym_step_orig sym_post sym_init [yhdr; YMux (Str 5) (Num 0) (Num 4) (Str 99) false true; yvar] = Some (fs2, e2) /\
      fs1 <> fs2 /\ e2 = 2%nat) /\
  load_with sym_step_orig sym_post sym_init [yhdr; YMux (Str 5) (Num 0) (Num 4) (Num 7) true false] = None.
Proof. exact sym_orig_refuted. Qed.
Print Assumptions C20_sym_orig_refuted.

Theorem C20_sym_prefix_keeps_frames_and_signals :
  forall l1 l2 o, sym_objs (read sym_step sym_init l1) o -> sym_objs (read sym_step sym_init (l1 ++ l2)) o.
Proof. exact sym_prefix_keeps_frames_and_signals. Qed.
Print Assumptions C20_sym_prefix_keeps_frames_and_signals.

(* non-vacuity: a small file with three malformed lines (unknown keyword, truncated BO_, VAL_ with a letter for a number) at
   admissible positions reads like the clean file, which has a frame with one signal; and a SYM file with a truncated header and a
   wrong-typed DLC reads like the clean one with two recorded errors *)
Example C20_example :
  let clean := [ex_bo; ex_sg; LVal (Num 291) (Str 3) [(Num 0, Str 5)] true] in
  let faulted := [LUnknown 7; ex_bo; ex_sg; LBo (Num 5) (Str 1) Bad Bad; LVal (Num 291) (Str 3) [(Num 7, Str 5); (Bad, Str 6)] true;
                  LVal (Num 291) (Str 3) [(Num 0, Str 5)] true] in
  DbcInserted false clean faulted /\ sg_guarded clean = true /\
  frames (read dbc_step dbc_init faulted) = frames (read dbc_step dbc_init clean) /\
  length (frames (read dbc_step dbc_init clean)) = 1%nat /\
  let yclean := [yhdr; YId (Num 291) true; yvar] in
  let yfaulted := [yhdr; YHeader 2 false; YId (Num 291) true; YDlc (Str 1); yvar] in
  load_with sym_step sym_post sym_init yclean = Some ([mkYFrame 1 291 false 0 0 [] [mkYSig 3 8 8 true false (-1)]], 0%nat) /\
  load_with sym_step sym_post sym_init yfaulted = Some ([mkYFrame 1 291 false 0 0 [] [mkYSig 3 8 8 true false (-1)]], 2%nat).
Proof.
  cbv zeta. split.
  - apply di_bad; [reflexivity|reflexivity|]. apply di_keep. apply di_keep.
    apply di_bad; [reflexivity|reflexivity|]. apply di_bad; [reflexivity|reflexivity|]. apply di_keep. apply di_nil.
  - repeat split; vm_compute; reflexivity.
Qed.
