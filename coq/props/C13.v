(* C13  Comparison is sound and complete over the compared properties.
   Statements only; every proof is `exact <lemma>`; Print Assumptions follows each.
   Vocabulary: model/Compare.v (compare_db and the functions it calls, the result tree), model/CompareSpec.v
   (wf_matrix = names identify objects + dict keys unique; agree = independent meaning of "agree on every compared
   property"; reports_nothing; reports = "reported below these objects with this kind"; collect = node paths by kind).
   compare_db answers `None` exactly when float(None) would raise (a compared signal without min/max). *)
From CM Require Import lib.Prelude model.Compare model.CompareSpec.
From CM Require Import proofs.C13_lib proofs.C13_nodiff proofs.C13_edits proofs.C13_swap proofs.C13_final.
From Coq Require Import Permutation.

(* ---- a matrix compared with itself reports nothing, for every ignore setting ---- *)
Theorem C13_compare_self_reports_nothing :
  forall ign m r, wf_matrix m -> compare_db ign m m = Some r -> reports_nothing r.
Proof. exact compare_self_reports_nothing. Qed.
Print Assumptions C13_compare_self_reports_nothing.

(* the comparison answers whenever every signal has its limits *)
Theorem C13_compare_defined :
  forall ign a b, limits_present a -> limits_present b -> compare_db ign a b <> None.
Proof. exact compare_db_defined. Qed.
Print Assumptions C13_compare_defined.

(* ---- no difference is reported exactly when the matrices agree, for every ignore setting ---- *)
Theorem C13_no_difference_iff_agree :
  forall ign a b r, wf_matrix a -> wf_matrix b ->
    compare_db ign a b = Some r -> (reports_nothing r <-> agree ign a b).
Proof. exact no_difference_iff_agree. Qed.
Print Assumptions C13_no_difference_iff_agree.

Theorem C13_agree_implies_no_difference :
  forall ign a b r, wf_matrix a -> wf_matrix b ->
    compare_db ign a b = Some r -> agree ign a b -> reports_nothing r.
Proof. exact agree_implies_no_difference. Qed.
Print Assumptions C13_agree_implies_no_difference.

(* the root's result stays None exactly when nothing is reported (what dump_result prints) *)
Theorem C13_root_result_none_iff :
  forall ign a b r, compare_db ign a b = Some r -> (result_of r = RNone <-> reports_nothing r).
Proof. exact root_result_none_iff. Qed.
Print Assumptions C13_root_result_none_iff.

(* ---- the same per kind of object ---- *)
Theorem C13_signal_nodiff_iff :
  forall ign s1 s2 r, dicts_ok_signal s1 -> dicts_ok_signal s2 ->
    compare_signal ign s1 s2 = Some r -> (all_equal r = true <-> signal_agree ign s1 s2).
Proof. exact signal_nodiff_iff. Qed.
Print Assumptions C13_signal_nodiff_iff.

Theorem C13_frame_nodiff_iff :
  forall ign f1 f2 r, wf_frame f1 -> wf_frame f2 -> fr_name f1 = fr_name f2 ->
    compare_frame ign f1 f2 = Some r -> (all_equal r = true <-> frame_agree ign f1 f2).
Proof. exact frame_nodiff_iff. Qed.
Print Assumptions C13_frame_nodiff_iff.

Theorem C13_frame_nodiff_same_name :
  forall ign f1 f2 r, compare_frame ign f1 f2 = Some r -> all_equal r = true -> fr_name f1 = fr_name f2.
Proof. exact frame_nodiff_same_name. Qed.
Print Assumptions C13_frame_nodiff_same_name.

Theorem C13_signal_group_nodiff_iff :
  forall g1 g2, gr_name g1 = gr_name g2 ->
    (all_equal (compare_signal_group g1 g2) = true <-> group_agree g1 g2).
Proof. exact group_quiet. Qed.
Print Assumptions C13_signal_group_nodiff_iff.

Theorem C13_ecu_nodiff_iff :
  forall ign e1 e2, wf_ecu e1 -> wf_ecu e2 ->
    (all_equal (compare_ecu ign e1 e2) = true <-> ecu_agree ign e1 e2).
Proof. exact ecu_quiet. Qed.
Print Assumptions C13_ecu_nodiff_iff.

Theorem C13_attributes_nodiff_iff :
  forall ign ref a1 a2, NoDup (keys a1) -> NoDup (keys a2) ->
    (all_equal (compare_attributes ign ref a1 a2) = true <-> (ig_attr ign = false -> dict_agree a1 a2)).
Proof. exact attrs_quiet. Qed.
Print Assumptions C13_attributes_nodiff_iff.

Theorem C13_defines_nodiff_iff :
  forall ty d1 d2, NoDup (keys d1) -> NoDup (keys d2) ->
    (all_equal (set_type ty (compare_define_list d1 d2)) = true <-> dict_agree d1 d2).
Proof. exact defines_nodiff_iff. Qed.
Print Assumptions C13_defines_nodiff_iff.

Theorem C13_value_table_nodiff_iff :
  forall ref vt1 vt2, NoDup (keys vt1) -> NoDup (keys vt2) ->
    (all_equal (compare_value_table ref vt1 vt2) = true <-> dict_agree vt1 vt2).
Proof. exact vt_quiet. Qed.
Print Assumptions C13_value_table_nodiff_iff.

(* ---- every compared property that differs is reported at the object concerned, with the right kind ----
   (stronger than "exactly that field differs": whatever else differs as well) *)
Theorem C13_single_edit_reported_at_signal :
  forall ign a b r f1 f2 s1 s2,
    wf_matrix b -> compare_db ign a b = Some r ->
    In f1 (m_frames a) -> In f2 (m_frames b) -> fr_name f2 = fr_name f1 ->
    In s1 (fr_signals f1) -> In s2 (fr_signals f2) -> sg_name s2 = sg_name s1 ->
    let P := [(TFRAME, fr_name f1); (TSIGNAL, sg_name s1)] in
    let n := sg_name s1 in
    (sg_start s1 <> sg_start s2 -> reports r P RChanged Tstartbit n) /\
    (sg_size s1 <> sg_size s2 -> reports r P RChanged Tsignalsize n) /\
    (sg_le s1 <> sg_le s2 -> reports r P RChanged Tis_little_endian n) /\
    (sg_signed s1 <> sg_signed s2 -> reports r P RChanged Tsign n) /\
    (sg_factor s1 <> sg_factor s2 -> reports r P RChanged Tfactor n) /\
    (sg_offset s1 <> sg_offset s2 -> reports r P RChanged Toffset n) /\
    (sg_min s1 <> sg_min s2 -> reports r P RChanged Tmin n) /\
    (sg_max s1 <> sg_max s2 -> reports r P RChanged Tmax n) /\
    (sg_mux s1 <> sg_mux s2 -> reports r P RChanged Tmultiplex n) /\
    (sg_unit s1 <> sg_unit s2 -> reports r P RChanged Tunit n) /\
    (ig_comment ign = false -> comment_text (sg_comment s1) <> comment_text (sg_comment s2) -> reports r P RChanged Tcomment n) /\
    (forall x, In x (sg_receivers s1) -> ~ In (snd x) (map snd (sg_receivers s2)) -> reports r P RRemoved (Treceiver (fst x)) (-1)) /\
    (forall x, In x (sg_receivers s2) -> ~ In (snd x) (map snd (sg_receivers s1)) -> reports r P RAdded (Treceiver (fst x)) (-1)) /\
    (ig_attr ign = false -> attrs_reported r (P ++ [(TATTRIBUTES, n)]) (sg_attrs s1) (sg_attrs s2)) /\
    (ig_vt ign = false -> values_reported r (P ++ [(TValuetable, -1)]) (sg_values s1) (sg_values s2)).
Proof. exact signal_edit_reported. Qed.
Print Assumptions C13_single_edit_reported_at_signal.

Theorem C13_single_edit_reported_at_frame :
  forall ign a b r f1 f2,
    wf_matrix b -> compare_db ign a b = Some r ->
    In f1 (m_frames a) -> In f2 (m_frames b) -> fr_name f2 = fr_name f1 ->
    let P := [(TFRAME, fr_name f1)] in
    let n := fr_name f1 in
    (fr_size f1 <> fr_size f2 -> reports r P RChanged Tdlc n) /\
    (fr_id f1 <> fr_id f2 -> reports r P RChanged TID n) /\
    (fr_ext f1 <> fr_ext f2 -> reports r P RChanged TFRAME n) /\
    (ig_comment ign = false -> comment_text (fr_comment f1) <> comment_text (fr_comment f2) -> reports r P RChanged TFRAME n) /\
    (forall t, In t (fr_tx f1) -> ~ In t (fr_tx f2) -> reports r P RRemoved TFrameTransmitter n) /\
    (forall t, In t (fr_tx f2) -> ~ In t (fr_tx f1) -> reports r P RAdded TFrameTransmitter (fr_name f2)) /\
    (forall s, In s (fr_signals f1) -> ~ In (sg_name s) (map sg_name (fr_signals f2)) -> reports r P RDeleted TSIGNAL (sg_name s)) /\
    (forall s, In s (fr_signals f2) -> ~ In (sg_name s) (map sg_name (fr_signals f1)) -> reports r P RAdded TSIGNAL (sg_name s)) /\
    (forall g, In g (fr_groups f1) -> ~ In (gr_name g) (map gr_name (fr_groups f2)) -> reports r P RRemoved TSignalgroup (gr_name g)) /\
    (forall g, In g (fr_groups f2) -> ~ In (gr_name g) (map gr_name (fr_groups f1)) -> reports r P RAdded TSignalgroup (gr_name g)) /\
    (forall g1 g2, In g1 (fr_groups f1) -> In g2 (fr_groups f2) -> gr_name g2 = gr_name g1 ->
       let PG := P ++ [(TSignalGroup, gr_name g1)] in
       (gr_id g1 <> gr_id g2 -> reports r PG RChanged TSignalName (-1)) /\
       (forall m, In m (gr_members g1) -> ~ In m (gr_members g2) -> reports r PG RDeleted (TMember m) m) /\
       (forall m, In m (gr_members g2) -> ~ In m (gr_members g1) -> reports r PG RAdded (TMember m) m)) /\
    (ig_attr ign = false -> attrs_reported r (P ++ [(TATTRIBUTES, n)]) (fr_attrs f1) (fr_attrs f2)).
Proof. exact frame_edit_reported. Qed.
Print Assumptions C13_single_edit_reported_at_frame.

(* the frame set, for ANY two matrices (no uniqueness, no coherence): `paired` is the documented rule - same name, else
   (neither name known to the other matrix) same identifier.  A frame that the rule pairs with nothing is reported deleted
   resp. added; with unique names and identifiers in b, paired frames are compared with each other (and a differing
   name is reported as a change of that frame) *)
Theorem C13_unpaired_frames_reported :
  forall ign a b r, compare_db ign a b = Some r ->
    (forall f1, In f1 (m_frames a) -> (forall f2, ~ paired a b f1 f2) -> reports r [] RDeleted TFRAME (fr_name f1)) /\
    (forall f2, In f2 (m_frames b) -> (forall f1, ~ paired a b f1 f2) -> reports r [] RAdded TFRAME (fr_name f2)) /\
    (NoDup (map fr_name (m_frames b)) -> ids_unique b ->
     forall f1 f2, paired a b f1 f2 ->
       exists cf, compare_frame ign f1 f2 = Some cf /\ In (propagate cf) (kids_of r) /\
                  type_of cf = TFRAME /\ ref_of cf = fr_name f1 /\
                  (fr_name f1 <> fr_name f2 -> reports r [(TFRAME, fr_name f1)] RChanged TName (fr_name f1))).
Proof. exact frames_reported. Qed.
Print Assumptions C13_unpaired_frames_reported.

(* frames added / deleted swap with the operands - for ANY two matrices, as lists in report order *)
Theorem C13_swap_frames_added_deleted :
  forall ign a b r1 r2, compare_db ign a b = Some r1 -> compare_db ign b a = Some r2 ->
    top_frames is_added r2 = top_frames is_deleted r1 /\ top_frames is_added r1 = top_frames is_deleted r2.
Proof. exact frames_swap. Qed.
Print Assumptions C13_swap_frames_added_deleted.

Theorem C13_crosswise_frames_reported :
  exists r1 r2 r3,
    compare_db ign0 (mat [frQ1]) (mat [frP1; frQ2]) = Some r1 /\ top_frames is_added r1 = [10] /\ top_frames is_deleted r1 = [] /\
    compare_db ign0 (mat [frP1; frQ2]) (mat [frQ1]) = Some r2 /\ top_frames is_deleted r2 = [10] /\ top_frames is_added r2 = [] /\
    compare_db ign0 (mat [frP1]) (mat [frP1; frZ1]) = Some r3 /\ top_frames is_added r3 = [12].
Proof. exact crosswise_frames_reported. Qed.
Print Assumptions C13_crosswise_frames_reported.

Theorem C13_single_edit_reported_at_ecu :
  forall ign a b r, wf_matrix b -> compare_db ign a b = Some r ->
    (forall e, In e (m_ecus a) -> ~ In (ec_name e) (map ec_name (m_ecus b)) -> reports r [] RDeleted Tecu (ec_name e)) /\
    (forall e, In e (m_ecus b) -> ~ In (ec_name e) (map ec_name (m_ecus a)) -> reports r [] RAdded Tecu (ec_name e)) /\
    (forall e1 e2, In e1 (m_ecus a) -> In e2 (m_ecus b) -> ec_name e2 = ec_name e1 ->
       (ig_comment ign = false -> ec_comment e1 <> ec_comment e2 -> reports r [(TECU, ec_name e1)] RChanged TECU (ec_name e1)) /\
       (ig_attr ign = false -> attrs_reported r [(TECU, ec_name e1); (TATTRIBUTES, ec_name e1)] (ec_attrs e1) (ec_attrs e2))).
Proof. exact ecu_edit_reported. Qed.
Print Assumptions C13_single_edit_reported_at_ecu.

Theorem C13_single_edit_reported_at_matrix :
  forall ign a b r, wf_matrix b -> compare_db ign a b = Some r ->
    (ig_attr ign = false -> attrs_reported r [(TATTRIBUTES, -1)] (m_attrs a) (m_attrs b)) /\
    (ig_def ign = false ->
       defines_reported r TDefineList (m_gdefs a) (m_gdefs b) /\ defines_reported r TEcuDefines (m_edefs a) (m_edefs b) /\
       defines_reported r TFrameDefines (m_fdefs a) (m_fdefs b) /\ defines_reported r TSignalDefines (m_sdefs a) (m_sdefs b)) /\
    (ig_vt ign = false ->
       (forall k t, In (k, t) (m_vtables a) -> ~ In k (keys (m_vtables b)) -> reports r [] RDeleted (Tvaluetable k) (-1)) /\
       (forall k t, In (k, t) (m_vtables b) -> ~ In k (keys (m_vtables a)) -> reports r [] RAdded (Tvaluetable k) (-1)) /\
       (forall k t t2, In (k, t) (m_vtables a) -> In (k, t2) (m_vtables b) -> values_reported r [(TValuetable, k)] t t2)).
Proof. exact matrix_edit_reported. Qed.
Print Assumptions C13_single_edit_reported_at_matrix.

(* ---- swapping the operands swaps additions and deletions ("removed" counts as deleted) ---- *)
Theorem C13_swap_swaps_added_deleted :
  forall ign a b r1 r2, wf_matrix a -> wf_matrix b -> coherent a b ->
    compare_db ign a b = Some r1 -> compare_db ign b a = Some r2 ->
    Permutation (collect is_added r2) (collect is_deleted r1) /\
    Permutation (collect is_added r1) (collect is_deleted r2).
Proof. exact swap_swaps_added_deleted. Qed.
Print Assumptions C13_swap_swaps_added_deleted.

(* without `coherent` the law on whole paths fails for a RENAMED frame (same identifier, new name), because the report names
   the pair after the first operand's frame: x deleted below "FRAME P" vs x added below "FRAME Z".  (The harness judges
   such pairs with the frame names of b mapped through the pairing.) *)
Theorem C13_swap_refuted_without_coherence :
  exists a b r1 r2, wf_matrix a /\ wf_matrix b /\ ids_unique a /\ ids_unique b /\
    compare_db ign0 a b = Some r1 /\ compare_db ign0 b a = Some r2 /\
    ~ Permutation (collect is_added r2) (collect is_deleted r1).
Proof. exact swap_refuted_without_coherence. Qed.
Print Assumptions C13_swap_refuted_without_coherence.

(* ---- cancompare: -c / -a switch the checks of comments / attributes ON, -t switches value tables OFF;
        definitions are always compared ---- *)
Theorem C13_cli_flags_to_ignore :
  forall c a t, let i := cli_ignore c a t in
    ig_comment i = negb c /\ ig_attr i = negb a /\ ig_vt i = t /\ ig_def i = false.
Proof. exact cli_flags_to_ignore. Qed.
Print Assumptions C13_cli_flags_to_ignore.

(* non-vacuity: two well-formed, coherent matrices (reordered lists and dicts, one offset changed): the
   comparison answers, reports at exactly that signal, nothing is added or deleted *)
Example C13_example :
  wf_matrix exA /\ wf_matrix exB /\ ids_unique exB /\ coherent exA exB /\ limits_present exA /\
  exists r, compare_db ign0 exA exB = Some r /\ ~ reports_nothing r /\
            reports r [(TFRAME, 10); (TSIGNAL, 8)] RChanged Toffset 8 /\
            collect is_added r = [] /\ collect is_deleted r = [].
Proof. exact example_instance. Qed.
