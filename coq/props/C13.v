(* placeholder while the proofs are being written *)
From CM Require Import lib.Prelude model.Compare model.CompareSpec.
Theorem C13_cli_flags_to_ignore :
  forall c a t, cli_ignore c a t = mkIgnore (negb c) (negb a) false t.
Proof. reflexivity. Qed.
Print Assumptions C13_cli_flags_to_ignore.
