(* C02  Encoding is the exact inverse of decoding and writes only its own bits.
   Statements only; every proof is `exact <lemma>`; Print Assumptions follows each. *)
From CM Require Import lib.Prelude model.Codec proofs.Codec_encode.

(* the encoder is total on its envelope and the result has exactly the frame's length, made of bytes *)
Theorem C02_encode_total_and_length :
  forall fsize sigs data,
    layout_ok fsize sigs ->
    (forall s v, In s sigs -> lookup (s_name s) data = Some v -> in_range s v) ->
    exists bytes, signals_to_bytes fsize sigs data = Some bytes /\ zlen bytes = fsize /\ bytes_ok bytes = true.
Proof. exact encode_total_and_length. Qed.
Print Assumptions C02_encode_total_and_length.

(* each supplied signal decodes back to the supplied value (any subset supplied, any representable value) *)
Theorem C02_decode_encode :
  forall fsize sigs data bytes,
    layout_ok fsize sigs ->
    (forall s v, In s sigs -> lookup (s_name s) data = Some v -> in_range s v) ->
    signals_to_bytes fsize sigs data = Some bytes ->
    forall s v, In s sigs -> lookup (s_name s) data = Some v ->
      decode_signal bytes (8 * fsize) s = Some v.
Proof. exact decode_encode. Qed.
Print Assumptions C02_decode_encode.

(* every bit that belongs to no supplied signal is cleared *)
Theorem C02_encode_clears_foreign_bits :
  forall fsize sigs data bytes,
    layout_ok fsize sigs ->
    (forall s v, In s sigs -> lookup (s_name s) data = Some v -> in_range s v) ->
    signals_to_bytes fsize sigs data = Some bytes ->
    forall p, 0 <= p < 8 * fsize ->
      (forall s, In s sigs -> lookup (s_name s) data <> None -> ~ occupies s p) ->
      mbit bytes p = false.
Proof. exact encode_clears_foreign_bits. Qed.
Print Assumptions C02_encode_clears_foreign_bits.

(* re-encoding the values decoded from an arbitrary payload reproduces it on every covered bit *)
Theorem C02_encode_decode_on_covered_bits :
  forall fsize sigs d vals bytes,
    layout_ok fsize sigs -> zlen d = fsize ->
    decode_all d (8 * fsize) sigs = Some vals ->
    signals_to_bytes fsize sigs vals = Some bytes ->
    forall s i, In s sigs -> (i < Z.to_nat (s_size s))%nat -> sig_bit bytes s i = sig_bit d s i.
Proof. exact encode_decode_on_covered_bits. Qed.
Print Assumptions C02_encode_decode_on_covered_bits.

(* non-vacuity: a layout mixing byte orders round-trips (layout_ok holds for it: see proofs) *)
Example C02_example :
  let m := mkSignal 1 5 11 false true false in
  let i := mkSignal 2 17 7 true false false in
  signals_to_bytes 3 [m; i] [(1, RInt (-641)); (2, RInt 100)] = Some [5; 127; 200] /\
  decode_all [5; 127; 200] 24 [m; i] = Some [(1, RInt (-641)); (2, RInt 100)].
Proof. vm_compute. repeat split. Qed.
