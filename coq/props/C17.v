(* C17  Bulk clean-up, delete and rename operations hit exactly their targets.
   Statements only; every proof is `exact <lemma>`; Print Assumptions follows each.
   Vocabulary (model/BulkOps.v part 2): on_signals g m = m with g applied to the signal list of every frame and nothing
   else touched; set_frames / set_defines replace only the named components; names_unique = frame names unique in the
   matrix and signal names unique within each frame; objects_distinct = no object listed twice (Python identity). *)
From CM Require Import lib.Prelude model.Glob_c17 model.BulkOps
  proofs.C17_glob proofs.C17_lib proofs.C17_ops proofs.C17_history.

(* the glob matcher used by del_signal / glob_frames / glob_signals decides the declarative pattern relation
   ('*' any run of characters, '?' exactly one, anything else itself) *)
Theorem C17_glob_match_iff :
  forall p n, glob_match p n = true <-> glob_rel p n.
Proof. exact glob_match_iff. Qed.
Print Assumptions C17_glob_match_iff.

(* delete_zero_signals: in every frame exactly the signals of width 0 go - adjacent ones too -, order kept, all else equal *)
Theorem C17_zero_signals_all_removed_nothing_else :
  forall m, objects_distinct m ->
    delete_zero_signals m = on_signals (filter (fun s => negb (bs_size s =? 0))) m.
Proof. exact zero_signals_all_removed_nothing_else. Qed.
Print Assumptions C17_zero_signals_all_removed_nothing_else.

(* delete_obsolete_defines: each define map keeps, in order, exactly the definitions some object uses;
   "used" = a frame / an ECU / a signal of ANY frame or a free signal carries the attribute *)
Theorem C17_obsolete_defines_exactly_unused :
  forall m,
    delete_obsolete_defines m =
    set_defines m (filter (used_by (bm_frames m) bf_attrs) (bm_fdefs m))
                  (filter (used_by (bm_ecus m) be_attrs) (bm_edefs m))
                  (filter (used_by (all_signals m) bs_attrs) (bm_sdefs m)).
Proof. exact obsolete_defines_exactly_unused. Qed.
Print Assumptions C17_obsolete_defines_exactly_unused.

(* the same, element by element and without the boolean helpers *)
Theorem C17_obsolete_defines_membership :
  forall m k v,
    let m' := delete_obsolete_defines m in
    (In (k, v) (bm_fdefs m') <->
       In (k, v) (bm_fdefs m) /\ exists f v', In f (bm_frames m) /\ In (k, v') (bf_attrs f)) /\
    (In (k, v) (bm_edefs m') <->
       In (k, v) (bm_edefs m) /\ exists e v', In e (bm_ecus m) /\ In (k, v') (be_attrs e)) /\
    (In (k, v) (bm_sdefs m') <->
       In (k, v) (bm_sdefs m) /\
       exists s v', (In s (bm_free m) \/ exists f, In f (bm_frames m) /\ In s (bf_signals f)) /\ In (k, v') (bs_attrs s)) /\
    bm_frames m' = bm_frames m /\ bm_ecus m' = bm_ecus m /\ bm_free m' = bm_free m.
Proof. exact obsolete_defines_membership. Qed.
Print Assumptions C17_obsolete_defines_membership.

(* del_signal(pattern): in every frame exactly the signals whose name matches go *)
Theorem C17_del_signal_exactly_matching :
  forall pat m, objects_distinct m ->
    del_signal_glob pat m = on_signals (filter (fun s => negb (glob_match pat (bs_name s)))) m.
Proof. exact del_signal_exactly_matching. Qed.
Print Assumptions C17_del_signal_exactly_matching.

(* del_signal(Signal object): exactly that object *)
Theorem C17_del_signal_object_exact :
  forall i m, objects_distinct m ->
    del_signal_obj i m = on_signals (filter (fun s => negb (bs_id s =? i))) m.
Proof. exact del_signal_object_exact. Qed.
Print Assumptions C17_del_signal_object_exact.

(* what a rename old -> new makes of one name (spec_rename), said by concatenation only:
   old = p* : p ++ rest becomes new ++ rest, names without prefix p stay;
   old = *s : rest ++ s becomes rest ++ new, names without suffix s stay;
   otherwise: the name equal to old becomes new, all others stay.   And nothing else fits that description. *)
Theorem C17_rename_meaning :
  forall old new name, renamed old new name (spec_rename old new name).
Proof. exact rename_meaning. Qed.
Print Assumptions C17_rename_meaning.

Theorem C17_rename_determined :
  forall old new name name', old <> [] -> renamed old new name name' -> name' = spec_rename old new name.
Proof. exact rename_determined. Qed.
Print Assumptions C17_rename_determined.

(* rename_signal: in every frame every signal gets the specified name (so non-matching ones keep theirs), all else equal *)
Theorem C17_rename_signal_prefix_suffix_exact :
  forall old new m, signal_names_unique m -> old <> [] ->
    rename_signal old new m =
    Some (on_signals (map (fun s => set_sname s (spec_rename old new (bs_name s)))) m).
Proof. exact rename_signal_prefix_suffix_exact. Qed.
Print Assumptions C17_rename_signal_prefix_suffix_exact.

(* rename_frame - of the code with fixes/C17_rename_frame_elif.patch applied (if / elif / elif) *)
Theorem C17_rename_frame_prefix_suffix_exact :
  forall old new m, old <> [] ->
    rename_frame old new m =
    Some (set_frames m (map (fun f => set_fname f (spec_rename old new (bf_name f))) (bm_frames m))).
Proof. exact rename_frame_prefix_suffix_exact. Qed.
Print Assumptions C17_rename_frame_prefix_suffix_exact.

(* rename_frame as it is in /repo at cc0f6c0 (if / if / elif): false inside the property's envelope.
   Witness: one frame named "a*", rename_frame("a*", "a") yields "a"; specified: "a*" (prefix "a" replaced by "a"). *)
Theorem C17_rename_frame_prefix_suffix_exact_refuted :
  exists m old new, names_unique m /\ objects_distinct m /\ old <> [] /\ new <> [] /\
    rename_frame_unfixed old new m <>
    Some (set_frames m (map (fun f => set_fname f (spec_rename old new (bf_name f))) (bm_frames m))).
Proof. exact rename_frame_unfixed_refuted. Qed.
Print Assumptions C17_rename_frame_prefix_suffix_exact_refuted.

(* ... and true of it on every matrix whose frame names contain no '*' *)
Theorem C17_rename_frame_prefix_suffix_exact_partial :
  forall old new m, no_star_in_frame_names m -> old <> [] ->
    rename_frame_unfixed old new m =
    Some (set_frames m (map (fun f => set_fname f (spec_rename old new (bf_name f))) (bm_frames m))).
Proof. exact rename_frame_unfixed_partial. Qed.
Print Assumptions C17_rename_frame_prefix_suffix_exact_partial.

(* del_frame(name): exactly the frame of that name goes *)
Theorem C17_del_frame_by_name :
  forall n m, frame_names_unique m -> objects_distinct m ->
    del_frame_name n m = set_frames m (filter (fun f => negb (str_eqb (bf_name f) n)) (bm_frames m)).
Proof. exact del_frame_by_name. Qed.
Print Assumptions C17_del_frame_by_name.

(* del_frame(Frame object): exactly that object; an object that is not in the matrix is refused (ValueError) *)
Theorem C17_del_frame_object_exact :
  forall i m, objects_distinct m ->
    (existsb (fun f => bf_id f =? i) (bm_frames m) = true ->
       del_frame_obj i m = Some (set_frames m (filter (fun f => negb (bf_id f =? i)) (bm_frames m)))) /\
    (existsb (fun f => bf_id f =? i) (bm_frames m) = false -> del_frame_obj i m = None).
Proof. exact del_frame_object_exact. Qed.
Print Assumptions C17_del_frame_object_exact.

(* del_signal_attributes / del_frame_attributes: exactly the named attributes go, from every signal of every frame
   resp. every frame; keeps ks kv = true <-> the key of kv is not in ks *)
Theorem C17_del_attributes_exact :
  forall ks m,
    del_signal_attributes ks m = on_signals (map (fun s => set_sattrs s (filter (keeps ks) (bs_attrs s)))) m /\
    del_frame_attributes ks m = set_frames m (map (fun f => set_fattrs f (filter (keeps ks) (bf_attrs f))) (bm_frames m)).
Proof. exact del_attributes_exact. Qed.
Print Assumptions C17_del_attributes_exact.

Theorem C17_keeps_iff :
  forall ks kv, keeps ks kv = true <-> ~ In (fst kv) ks.
Proof. exact keeps_iff. Qed.
Print Assumptions C17_keeps_iff.

(* histories: any sequence of the eight operations, as long as names stay unique along the way (history_ok),
   has step by step exactly the specified effects *)
Theorem C17_bulk_history_exact :
  forall ops m, objects_distinct m -> history_ok ops m ->
    run_ops ops m = Some (fold_left (fun acc o => spec_op o acc) ops m).
Proof. exact bulk_history_exact. Qed.
Print Assumptions C17_bulk_history_exact.

(* the two defects repaired by 780371c and 9a3e727, reproduced on the model of the old loops *)
Theorem C17_zero_signals_unfixed_refuted :
  exists m, names_unique m /\ objects_distinct m /\
    delete_zero_signals_unfixed m <> on_signals (filter (fun s => negb (bs_size s =? 0))) m.
Proof. exact zero_signals_unfixed_refuted. Qed.
Print Assumptions C17_zero_signals_unfixed_refuted.

Theorem C17_obsolete_defines_unfixed_refuted :
  exists m, names_unique m /\ objects_distinct m /\
    delete_obsolete_defines_unfixed m <>
    set_defines m (filter (used_by (bm_frames m) bf_attrs) (bm_fdefs m))
                  (filter (used_by (bm_ecus m) be_attrs) (bm_edefs m))
                  (filter (used_by (all_signals m) bs_attrs) (bm_sdefs m)).
Proof. exact obsolete_defines_unfixed_refuted. Qed.
Print Assumptions C17_obsolete_defines_unfixed_refuted.

(* non-vacuity: two frames "ab" and "abc"; "ab" holds the adjacent zero-width signals "a","b" and signal "ab" carrying
   attribute 7, "abc" holds signal "ab" without it; signal defines 7 (used in one frame only) and 8 (unused).
   The history  delete_zero_signals; rename_signal("a*","x"); rename_frame("*c","y"); del_frame("ab");
   delete_obsolete_defines  satisfies the hypotheses and computes to the expected matrix. *)
Example C17_example :
  let s := fun i n size at_ => mkBSignal i n size at_ 0 in
  let m := mkBMatrix [mkBFrame 1 [97; 98] [] 0 [s 1 [97] 0 []; s 2 [98] 0 []; s 3 [97; 98] 8 [(7, 1)]];
                      mkBFrame 2 [97; 98; 99] [] 0 [s 4 [97; 98] 8 []]] [] [] [] [] [(7, 70); (8, 80)] in
  let ops := [OpDeleteZero; OpRenameSignal [97; 42] [120]; OpRenameFrame [42; 99] [121]; OpDelFrame [97; 98];
              OpDeleteObsoleteDefines] in
  objects_distinct m /\ history_ok ops m /\
  run_ops ops m = Some (mkBMatrix [mkBFrame 2 [97; 98; 121] [] 0 [s 4 [120; 98] 8 []]] [] [] [] [] []) /\
  run_ops (firstn 3 ops) m =
    Some (mkBMatrix [mkBFrame 1 [97; 98] [] 0 [s 3 [120; 98] 8 [(7, 1)]];
                     mkBFrame 2 [97; 98; 121] [] 0 [s 4 [120; 98] 8 []]] [] [] [] [] [(7, 70); (8, 80)]).
Proof.
  cbv zeta. split; [|split; [|split]].
  - split; repeat constructor; cbn; intuition discriminate.
  - cbn [history_ok]. repeat split; try discriminate; vm_compute; repeat constructor; cbn; intuition discriminate.
  - vm_compute. reflexivity.
  - vm_compute. reflexivity.
Qed.
