From CM Require Import lib.Prelude model.BulkOps.
