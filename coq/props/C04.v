(* C04  Physical scaling is exact decimal arithmetic and invertible.
   Statements only; every proof is `exact <lemma>`; Print Assumptions follows each.
   Vocabulary (model/DecimalSpec.v): a decimal d = {dm; de} denotes dm * 10^de; `dnum d e` = dm * 10^(de - e) is its
   numerator over the common denominator 10^(-e), so equalities between dnum's are exact rational equalities;
   `fits28 m` = the integer m has at most 28 significant digits once trailing zeros are dropped (the library's
   precision).  The envelope of the property is: the exact product raw*factor and the exact result
   raw*factor + offset are representable in 28 digits. *)
From CM Require Import lib.Prelude model.Decimal model.DecimalSpec model.ValueTable model.Scaling
  proofs.C04_digits proofs.C04_fix proofs.C04_scaling proofs.C04_table.

(* a coefficient of at most 28 digits is inside the envelope (the digit-count reading of the envelope) *)
Theorem C04_digits_envelope : forall m, ndigits m <= 28 -> fits28 m.
Proof. exact fits28_of_ndigits. Qed.
Print Assumptions C04_digits_envelope.

(* ndigits is the number of decimal digits *)
Theorem C04_ndigits_spec : forall n, n <> 0 ->
  1 <= ndigits n /\ 10 ^ (ndigits n - 1) <= Z.abs n < 10 ^ (ndigits n).
Proof. exact ndigits_spec. Qed.
Print Assumptions C04_ndigits_spec.

(* raw -> physical: exactly raw * factor + offset, for every integer raw, every factor and offset *)
Theorem C04_raw2phys_exact :
  forall f o raw, let e := Z.min (de f) (de o) in
    fits28 (raw * dm f) -> fits28 (raw * dnum f e + dnum o e) ->
    let r := raw2phys f o raw in
    e <= de r /\ dnum r e = raw * dnum f e + dnum o e /\ ndigits (dm r) <= 28.
Proof. exact raw2phys_exact. Qed.
Print Assumptions C04_raw2phys_exact.

(* physical -> raw inverts it: every integer raw of at most 28 digits (hence every width 1..64, signed or not,
   and beyond), every non-zero factor, every offset inside the envelope *)
Theorem C04_phys2raw_raw2phys :
  forall f o raw, let e := Z.min (de f) (de o) in
    dm f <> 0 -> ndigits raw <= 28 ->
    fits28 (raw * dm f) -> fits28 (raw * dnum f e + dnum o e) ->
    phys2raw f o (raw2phys f o raw) = Some raw.
Proof. exact phys2raw_raw2phys. Qed.
Print Assumptions C04_phys2raw_raw2phys.

(* the same for a constructed Signal (converters applied, factor 0 stored as 1), all widths 1..64, all raw
   values of the signal's range, any value table *)
Theorem C04_signal_roundtrip :
  forall size signed factor offset items raw,
    let s := mk_signal size signed factor offset items in
    let f := sc_factor s in let o := sc_offset s in let e := Z.min (de f) (de o) in
    1 <= size <= 64 ->
    fst (calculate_raw_range size signed) <= raw <= snd (calculate_raw_range size signed) ->
    fits28 (raw * dm f) -> fits28 (raw * dnum f e + dnum o e) ->
    (e <= de (phys_value s raw) /\ dnum (phys_value s raw) e = raw * dnum f e + dnum o e) /\
    phys2raw_num s (phys_value s raw) = Some raw.
Proof. exact signal_roundtrip. Qed.
Print Assumptions C04_signal_roundtrip.

Theorem C04_raw_range :
  forall size signed, 1 <= size <= 128 ->
    calculate_raw_range size signed =
      if signed then (- 2 ^ (size - 1), 2 ^ (size - 1) - 1) else (0, 2 ^ size - 1).
Proof. exact calculate_raw_range_spec. Qed.
Print Assumptions C04_raw_range.

(* the envelope is needed (documents the envelope; not a finding): beyond 28 digits the back-conversion of an
   8-bit raw value can land elsewhere ... *)
Theorem C04_roundtrip_refuted_beyond_28 :
  exists f o raw, let e := Z.min (de f) (de o) in
    dm f <> 0 /\ 0 <= raw < 2 ^ 8 /\ fits28 (raw * dm f) /\
    ~ fits28 (raw * dnum f e + dnum o e) /\
    phys2raw f o (raw2phys f o raw) <> Some raw.
Proof. exact roundtrip_refuted_beyond_28. Qed.
Print Assumptions C04_roundtrip_refuted_beyond_28.

(* ... and so can a raw value of more than 28 digits even when product and result are representable *)
Theorem C04_roundtrip_refuted_wide_raw :
  exists f o raw, let e := Z.min (de f) (de o) in
    dm f <> 0 /\ ndigits raw = 29 /\ fits28 (raw * dm f) /\ fits28 (raw * dnum f e + dnum o e) /\
    phys2raw f o (raw2phys f o raw) <> Some raw.
Proof. exact roundtrip_refuted_wide_raw. Qed.
Print Assumptions C04_roundtrip_refuted_wide_raw.

(* factor converter: 0 becomes 1, anything else is kept; the stored factor is never 0 *)
Theorem C04_factor_zero_becomes_one :
  forall f, (dm f = 0 -> mk_factor f = mkDec 1 0) /\ (dm f <> 0 -> mk_factor f = f) /\ dm (mk_factor f) <> 0.
Proof. exact factor_zero_becomes_one. Qed.
Print Assumptions C04_factor_zero_becomes_one.

(* value tables.  A constructed signal's table has unique keys and, for each key, the label of the key's last
   occurrence in the source mapping (Python dict semantics) *)
Theorem C04_normalized_table :
  forall items, NoDup (keys (normalize_value_table items)) /\
                forall k, raw_to_label (normalize_value_table items) k = raw_to_label (rev items) k.
Proof. exact normalized_table. Qed.
Print Assumptions C04_normalized_table.

(* a label converts to a raw key that carries it (the first one in table order); to THE key when labels are unique *)
Theorem C04_label_to_raw_key :
  forall t l,
    (forall k, label_to_raw t l = Some k -> In (k, l) t) /\
    (forall k, In (k, l) t -> exists k', label_to_raw t l = Some k') /\
    (forall k, NoDup (labels t) -> In (k, l) t -> label_to_raw t l = Some k).
Proof. exact label_to_raw_key. Qed.
Print Assumptions C04_label_to_raw_key.

(* named decoding: the label for raw values that have one, the scaled number otherwise *)
Theorem C04_named_value_label_or_scaled :
  forall s raw, NoDup (keys (sc_values s)) ->
    (forall l, In (raw, l) (sc_values s) -> named_value s raw = Label l) /\
    (~ In raw (keys (sc_values s)) -> named_value s raw = Number (phys_value s raw)).
Proof. exact named_value_label_or_scaled. Qed.
Print Assumptions C04_named_value_label_or_scaled.

Theorem C04_label_roundtrip :
  forall s k l, NoDup (keys (sc_values s)) -> NoDup (labels (sc_values s)) -> In (k, l) (sc_values s) ->
    phys2raw_label s l = Some k /\ named_value s k = Label l.
Proof. exact label_roundtrip. Qed.
Print Assumptions C04_label_roundtrip.

(* a str argument that is a label converts to its key WHATEVER the text looks like (even "1", "2.5e1", " 7 ", "NaN"):
   the table scan precedes decimal.Decimal(text); only a text that is no label is parsed as a number *)
Theorem C04_label_precedes_parsing :
  forall s text parsed,
    (forall k, In (k, text) (sc_values s) ->
       exists k', phys2raw_arg s (PStr text parsed) = Some k' /\ In (k', text) (sc_values s)) /\
    (forall k, NoDup (labels (sc_values s)) -> In (k, text) (sc_values s) ->
       phys2raw_arg s (PStr text parsed) = Some k) /\
    (~ In text (labels (sc_values s)) ->
       phys2raw_arg s (PStr text parsed) = match parsed with Some v => phys2raw_num s v | None => None end).
Proof. exact label_precedes_parsing. Qed.
Print Assumptions C04_label_precedes_parsing.

(* default limits: calc_min / calc_max (offset + raw*factor, operands the other way round) ARE the physical images
   of the raw range's bounds, as representations, for every signal - min of the raw minimum, max of the raw
   maximum, also for negative factors ... *)
Theorem C04_default_min_max_are_images :
  forall s,
    calc_min s = phys_value s (fst (calculate_raw_range (sc_size s) (sc_signed s))) /\
    calc_max s = phys_value s (snd (calculate_raw_range (sc_size s) (sc_signed s))).
Proof. exact calc_min_max_images. Qed.
Print Assumptions C04_default_min_max_are_images.

(* ... hence exactly rawmin*factor+offset and rawmax*factor+offset inside the envelope *)
Theorem C04_default_limits_exact :
  forall s,
    let f := sc_factor s in let o := sc_offset s in let e := Z.min (de f) (de o) in
    let lo := fst (calculate_raw_range (sc_size s) (sc_signed s)) in
    let hi := snd (calculate_raw_range (sc_size s) (sc_signed s)) in
    (fits28 (lo * dm f) -> fits28 (lo * dnum f e + dnum o e) ->
       e <= de (calc_min s) /\ dnum (calc_min s) e = lo * dnum f e + dnum o e) /\
    (fits28 (hi * dm f) -> fits28 (hi * dnum f e + dnum o e) ->
       e <= de (calc_max s) /\ dnum (calc_max s) e = hi * dnum f e + dnum o e).
Proof. exact default_limits_exact. Qed.
Print Assumptions C04_default_limits_exact.

(* non-vacuity: a signed 12-bit signal, factor 0.3, offset -1.5E+2, table {0:'a'(=1), 5:'b'(=2)}; raw 5 and -2048;
   a rounding sum (29 digits, tie to even with carry) shows the model does round outside the envelope *)
Example C04_example :
  let s := mk_signal 12 true (mkDec 3 (-1)) (mkDec (-15) 1) [(0, 1); (5, 2); (0, 3)] in
  fits28 (-2048 * 3) /\
  sc_values s = [(0, 3); (5, 2)] /\
  phys_value s 5 = mkDec (-1485) (-1) /\ named_value s 5 = Label 2 /\ named_value s 7 = Number (mkDec (-1479) (-1)) /\
  phys2raw_num s (mkDec (-1485) (-1)) = Some 5 /\ phys2raw_label s 2 = Some 5 /\
  phys2raw_arg s (PStr 2 (Some (mkDec 1 0))) = Some 5 /\ phys2raw_arg s (PStr 9 (Some (mkDec 1 0))) = Some 503 /\
  calc_min s = mkDec (-7644) (-1) /\ calc_max s = mkDec (4641) (-1) /\
  phys2raw_num s (calc_min s) = Some (-2048) /\
  dadd (mkDec 9999999999999999999999999999 0) (mkDec 5 (-1)) = mkDec 1000000000000000000000000000 1 /\
  ddiv (mkDec 1 0) (mkDec 3 0) = Some (mkDec 3333333333333333333333333333 (-28)) /\
  mk_factor (mkDec 0 (-3)) = mkDec 1 0.
Proof. split; [apply fits28_of_ndigits; vm_compute; discriminate|]. vm_compute. repeat split. Qed.
