(* C10  Frame lookups stay coherent with the matrix over every edit history.
   Statements only; every proof is `exact <lemma>`; Print Assumptions follows each.
   Vocabulary (model/Lookup.v): a world is the list of matrices alive; `step w o` performs one API
   operation o and returns the new world and what the call returned; `run init_world ops` is the world
   after the history ops (fold_left step).  `lookup_ok P fs r`: r is the uid of a frame that is in the
   frame list fs and satisfies P, or r is None and no frame of fs satisfies P.  `first_such` is the
   scan.  The memo is part of the state, so these theorems say that it never makes a lookup differ
   from a scan of the current frame list. *)
From CM Require Import lib.Prelude model.ArbId model.Lookup proofs.C10_lib proofs.C10_inv proofs.C10_lookup.

(* The invariant (memo_inv): every value stored in a matrix's memo is an object that is in that
   matrix's frame list now - nothing is claimed about the key it is filed under, validation on hit
   takes care of that - and object identities in a frame list are unique and older than the counter. *)
Theorem C10_memo_inv_init : memo_inv init_world.
Proof. exact memo_inv_init. Qed.
Print Assumptions C10_memo_inv_init.

(* EVERY operation preserves it, including identifier changes (replace, in place, convert.py's
   changeFrameId), reader-style appends that do not reset the memo, copy_frame and merge *)
Theorem C10_memo_inv_step : forall w o, memo_inv w -> memo_inv (fst (step w o)).
Proof. exact memo_inv_step. Qed.
Print Assumptions C10_memo_inv_step.

Theorem C10_memo_inv_reachable : forall ops, memo_inv (run init_world ops).
Proof. exact memo_inv_reachable. Qed.
Print Assumptions C10_memo_inv_reachable.

(* After any history, in any matrix, for any key: frame_by_id returns a frame that is in the matrix now
   and carries the key, and returns None exactly when the scan of the frame list finds none. *)
Theorem C10_lookup_refines_scan :
  forall ops i m id ext,
    nth_error (w_mats (run init_world ops)) i = Some m ->
    exists r, snd (step (run init_world ops) (FrameById i id ext)) = RFound r /\
              lookup_ok (has_id (id, ext)) (m_frames m) r /\
              (r = None <-> first_such (has_id (id, ext)) (m_frames m) = None).
Proof. exact lookup_refines_scan. Qed.
Print Assumptions C10_lookup_refines_scan.

(* the same from the invariant alone (any world, reachable or not) *)
Theorem C10_lookup_refines_scan_inv :
  forall w i m id ext,
    memo_inv w -> nth_error (w_mats w) i = Some m ->
    exists r, snd (step w (FrameById i id ext)) = RFound r /\
              lookup_ok (has_id (id, ext)) (m_frames m) r /\
              (r = None <-> first_such (has_id (id, ext)) (m_frames m) = None).
Proof. exact lookup_id_inv. Qed.
Print Assumptions C10_lookup_refines_scan_inv.

(* frame_by_id writes nothing but the memo *)
Theorem C10_lookup_keeps_frames :
  forall w i m id ext,
    nth_error (w_mats w) i = Some m ->
    exists m', nth_error (w_mats (fst (step w (FrameById i id ext)))) i = Some m' /\
               m_frames m' = m_frames m /\ m_ecus m' = m_ecus m /\ m_dead m' = m_dead m.
Proof. exact lookup_id_keeps_frames. Qed.
Print Assumptions C10_lookup_keeps_frames.

(* by name, by header id, by PGN: the first frame of the current list with the key; the world is unchanged *)
Theorem C10_lookup_name_is_scan :
  forall w i m n,
    nth_error (w_mats w) i = Some m ->
    step w (FrameByName i n) = (w, RFound (option_map f_uid (first_such (has_name n) (m_frames m)))) /\
    lookup_ok (has_name n) (m_frames m) (option_map f_uid (first_such (has_name n) (m_frames m))).
Proof. exact lookup_name_scan. Qed.
Print Assumptions C10_lookup_name_is_scan.

Theorem C10_lookup_header_id_is_scan :
  forall w i m h,
    nth_error (w_mats w) i = Some m ->
    step w (FrameByHeaderId i h) = (w, RFound (option_map f_uid (first_such (has_hdr h) (m_frames m)))) /\
    lookup_ok (has_hdr h) (m_frames m) (option_map f_uid (first_such (has_hdr h) (m_frames m))).
Proof. exact lookup_hdr_scan. Qed.
Print Assumptions C10_lookup_header_id_is_scan.

(* PGN: 29-bit frames only, compared after normalisation (PS dropped for PDU1); an argument that is not
   a 21-bit number raises at the first 29-bit frame (from_pgn's range check), never a wrong frame *)
Theorem C10_lookup_pgn_is_scan :
  forall w i m p,
    nth_error (w_mats w) i = Some m ->
    (0 <= p < 2 ^ 21 ->
       step w (FrameByPgn i p) = (w, RFound (option_map f_uid (first_such (has_pgn p) (m_frames m)))) /\
       lookup_ok (has_pgn p) (m_frames m) (option_map f_uid (first_such (has_pgn p) (m_frames m)))) /\
    (~ (0 <= p < 2 ^ 21) ->
       step w (FrameByPgn i p) = (w, if existsb f_ext (m_frames m) then RErr else RFound None)).
Proof. exact lookup_pgn_scan. Qed.
Print Assumptions C10_lookup_pgn_is_scan.

(* An operation that is not addressed to matrix j (copy/merge: j is not the target) leaves j's frame list
   as it is and every lookup on j answers what it answered before; unless j is the source of a copy or
   merge (whose memo the source lookup may extend) the whole state of j is untouched. *)
Theorem C10_matrices_independent :
  forall w o j m,
    nth_error (w_mats w) j = Some m -> op_target o <> Some j ->
    (exists m', nth_error (w_mats (fst (step w o))) j = Some m' /\ m_frames m' = m_frames m) /\
    (forall l, is_lookup_on j l -> snd (step (fst (step w o)) l) = snd (step w l)) /\
    (op_source o <> Some j -> nth_error (w_mats (fst (step w o))) j = Some m).
Proof. exact matrices_independent. Qed.
Print Assumptions C10_matrices_independent.

(* the same for whole histories on the other matrices *)
Theorem C10_independent_history :
  forall ops w j m,
    nth_error (w_mats w) j = Some m -> Forall (fun o => op_target o <> Some j) ops ->
    (exists m', nth_error (w_mats (run w ops)) j = Some m' /\ m_frames m' = m_frames m) /\
    (forall l, is_lookup_on j l -> snd (step (run w ops) l) = snd (step w l)).
Proof. exact independent_history. Qed.
Print Assumptions C10_independent_history.

(* the executable entry point (Run_C10, tied to the implementation) walks the same worlds *)
Theorem C10_run_log_is_run : forall ops w, fst (run_log w ops) = run w ops.
Proof. exact run_log_is_run. Qed.
Print Assumptions C10_run_log_is_run.

(* non-vacuity: two matrices; a reader-style matrix; a memoised frame that is no longer the first with its
   id (still a right answer), loses the id in place (validation, rescan), a delete, a copy, a merge *)
Example C10_example :
  let ops :=
    [NewMatrix; NewMatrix;
     FramesAppend 0 0x100 false 1 None false; FramesAppend 0 0x200 false 2 (Some 7) false;
     FrameById 0 0x200 false;              (* -> uid 1, memoised *)
     SetFrameId 0 0 0x200 false;           (* uid 0 now carries 0x200 too and comes first *)
     FrameById 0 0x200 false;              (* -> uid 1 (memo hit, still carries the id) *)
     SetIdInplace 0 1 0x300;               (* uid 1 loses the id, the memo entry is stale *)
     FrameById 0 0x200 false;              (* -> uid 0 (hit rejected, rescan) *)
     DelFrameUid 0 0;
     FrameById 0 0x200 false;              (* -> None *)
     CopyFrame 0 1 0x300 false;            (* -> True, new object uid 2 in matrix 1 *)
     FrameById 1 0x300 false; FrameByName 1 2; FrameByHeaderId 1 7;
     FrameById 1 0x200 false;              (* matrix 1 never saw 0x200 *)
     AddFrame 1 0x18FEF100 true 3 None true;
     FrameByPgn 1 0xFEF1; Merge 0 1; FrameByPgn 0 0xFEF1; FrameById 0 0x300 false] in
  snd (run_log init_world ops) =
    [RUnit; RUnit; RFound (Some 0); RFound (Some 1); RFound (Some 1); RUnit; RFound (Some 1); RUnit;
     RFound (Some 0); RUnit; RFound None; RBool true; RFound (Some 2); RFound (Some 2); RFound (Some 2);
     RFound None; RFound (Some 3); RFound (Some 3); RUnit; RFound (Some 4); RFound (Some 1)].
Proof. vm_compute. reflexivity. Qed.

(* the invariant carries weight: this is the matrix that del_frame produced before commit a855173 (frame
   removed, memo kept).  It violates memo_inv_m, and frame_by_id answers with the removed object. *)
Example C10_stale_memo_is_what_the_invariant_excludes :
  let gone := mkFrame 7 0x100 false 1 None false in
  let m := mkMatrix [] [] [((0x100, false), 7)] [gone] in
  snd (frame_by_id_m m (0x100, false)) = Some 7 /\ ~ memo_inv_m m.
Proof.
  split; [vm_compute; reflexivity|].
  intros H. inversion H as [| e r Hin _]. subst. cbn in Hin. exact Hin.
Qed.

(* keys at the edge of their range are keys like any other: identifier 0, header id 0 (both falsy in Python),
   a header id cleared and set again during the history *)
Example C10_example_edge_keys :
  snd (run_log init_world
         [NewMatrix; AddFrame 0 0 false 1 (Some 0) false; AddFrame 0 0 true 2 None true;
          FrameByHeaderId 0 0; FrameById 0 0 false; FrameById 0 0 true; FrameByPgn 0 0;
          SetHeaderId 0 0 None; FrameByHeaderId 0 0;
          SetHeaderId 0 1 (Some 0); FrameByHeaderId 0 0]) =
    [RUnit; RFound (Some 0); RFound (Some 1);
     RFound (Some 0); RFound (Some 0); RFound (Some 1); RFound (Some 1);
     RUnit; RFound None;
     RUnit; RFound (Some 1)].
Proof. vm_compute. reflexivity. Qed.

(* the whole PGN counts, the extended data page bit included: a frame on the other page is not an answer *)
Example C10_example_pgn_pages :
  snd (run_log init_world
         [NewMatrix; AddFrame 0 0x1AFEF100 true 1 None true;      (* PGN 0x2FEF1 *)
          FrameByPgn 0 0xFEF1; FrameByPgn 0 0x2FEF1;
          AddFrame 0 0x18FEF100 true 2 None true;                  (* PGN 0xFEF1 *)
          FrameByPgn 0 0xFEF1; DelFrameUid 0 1; FrameByPgn 0 0xFEF1; FrameByPgn 0 0x2FEF1]) =
    [RUnit; RFound (Some 0); RFound None; RFound (Some 0); RFound (Some 1); RFound (Some 1); RUnit; RFound None; RFound (Some 0)].
Proof. vm_compute. reflexivity. Qed.
