(* C03  Multiplexed frames: exactly the active signals are decoded and encoded.
   Statements only; every proof is `exact <lemma>`; Print Assumptions follows each.
   Model: model/Mux.v (Frame.decode / Frame.encode with their multiplex branches) on top of model/Codec.v. *)
From CM Require Import lib.Prelude model.Codec model.Mux
  proofs.Mux_simple proofs.Mux_complex proofs.Mux_encode proofs.Mux_wf.

(* ---------- simple multiplexing: decode ---------- *)

(* Exactly what is returned, for any number of groups, any selector value present in the payload (used by a group
   or not) and any payload of the frame's length: the multiplexer consulted (the last one in signal order; the only
   one in a well-formed frame) yields v; the result lists in signal order every signal bound to nothing or bound
   to v, each with the convention's value of C01. *)
Theorem C03_decode_simple_exact :
  forall f d m,
    f_complex f = false -> unique_names (f_sigs f) -> placed (f_size f) (f_sigs f) -> zlen d = f_size f ->
    last_multiplexer (f_sigs f) None = Some m ->
    exists v, int_value d m = Some v /\
      frame_decode f d =
        DOk (map (fun s => (m_name s, convention_value d (m_sig s))) (filter (selected (Some v)) (f_sigs f))).
Proof. exact decode_simple_exact. Qed.
Print Assumptions C03_decode_simple_exact.

(* key set = multiplexer + unbound signals + signals bound to the selector value in the payload, and nothing else *)
Theorem C03_decode_simple_keys :
  forall f d m,
    f_complex f = false -> unique_names (f_sigs f) -> placed (f_size f) (f_sigs f) -> zlen d = f_size f ->
    last_multiplexer (f_sigs f) None = Some m ->
    exists v vals, int_value d m = Some v /\ frame_decode f d = DOk vals /\ NoDup (map fst vals) /\
      (forall n, In n (map fst vals) -> exists s, In s (f_sigs f) /\ m_name s = n) /\
      (forall s, In s (f_sigs f) ->
         (In (m_name s) (map fst vals) <-> m_mux_val s = None \/ m_mux_val s = Some v)).
Proof. exact decode_simple_keys. Qed.
Print Assumptions C03_decode_simple_keys.

Theorem C03_decode_simple_values :
  forall f d m,
    f_complex f = false -> unique_names (f_sigs f) -> placed (f_size f) (f_sigs f) -> zlen d = f_size f ->
    last_multiplexer (f_sigs f) None = Some m ->
    exists vals, frame_decode f d = DOk vals /\
      forall n x, In (n, x) vals ->
        exists s, In s (f_sigs f) /\ m_name s = n /\ x = convention_value d (m_sig s).
Proof. exact decode_simple_values. Qed.
Print Assumptions C03_decode_simple_values.

(* in a frame with exactly one multiplexer, that one is consulted by decode (last) and by encode (first) *)
Theorem C03_sole_multiplexer_is_consulted :
  forall sigs m, sole_multiplexer sigs m ->
    last_multiplexer sigs None = Some m /\ get_multiplexer sigs = Some m.
Proof. exact (fun sigs m H => conj (sole_last_multiplexer sigs m H) (sole_get_multiplexer sigs m H)). Qed.
Print Assumptions C03_sole_multiplexer_is_consulted.

(* ---------- the range test ---------- *)

(* with ranges: accepted iff some range contains the value (both ends inclusive); without ranges: iff it equals
   the single mux_val *)
Theorem C03_range_test_spec : forall s v,
  value_in_range s (Some v) = true <->
  (m_grp s <> [] /\ exists lo hi, In (lo, hi) (m_grp s) /\ lo <= v <= hi) \/
  (m_grp s = [] /\ m_mux_val s = Some v).
Proof. exact range_test_spec. Qed.
Print Assumptions C03_range_test_spec.

Theorem C03_range_test_inclusive : forall s lo hi, m_grp s = [(lo, hi)] -> lo <= hi ->
  value_in_range s (Some lo) = true /\ value_in_range s (Some hi) = true /\
  value_in_range s (Some (lo - 1)) = false /\ value_in_range s (Some (hi + 1)) = false.
Proof. exact range_test_boundaries. Qed.
Print Assumptions C03_range_test_inclusive.

(* ---------- extended multiplexing: decode ---------- *)

(* any nesting depth (the property asks for <= 3), any number of ranges per signal *)
Theorem C03_decode_complex_iff_active :
  forall f d,
    f_complex f = true -> wf_ext (f_sigs f) -> placed (f_size f) (f_sigs f) -> zlen d = f_size f ->
    exists vals, frame_decode f d = DOk vals /\ NoDup (map fst vals) /\
      forall n x, In (n, x) vals <->
        exists s, In s (f_sigs f) /\ m_name s = n /\ Active (f_sigs f) d s /\
                  x = convention_value d (m_sig s).
Proof. exact decode_complex_iff_active. Qed.
Print Assumptions C03_decode_complex_iff_active.

(* the selector walk (a `while` in the code) finishes within len(signals) rounds for every frame with unique
   signal names, for every payload: no acyclicity assumption on the parent references is needed *)
Theorem C03_decode_complex_fuel_suffices :
  forall f d, unique_names (f_sigs f) -> frame_decode f d <> DOutOfFuel.
Proof. exact decode_complex_fuel_suffices. Qed.
Print Assumptions C03_decode_complex_fuel_suffices.

(* the executable test the harness applies to frames loaded from DBC text implies wf_ext *)
Theorem C03_wf_extb_sound : forall sigs, wf_extb sigs = true -> wf_ext sigs.
Proof. exact wf_extb_sound. Qed.
Print Assumptions C03_wf_extb_sound.

(* ---------- encode ---------- *)

Theorem C03_encode_simple_selects_group :
  forall f data m sel,
    f_complex f = false -> unique_names (f_sigs f) -> get_multiplexer (f_sigs f) = Some m ->
    selector data m = Some sel ->
    frame_encode f data =
      stb_result (signals_to_bytes (f_size f) (map m_sig (filter (in_group m sel) (f_sigs f))) data).
Proof. exact encode_simple_selects_group. Qed.
Print Assumptions C03_encode_simple_selects_group.

Theorem C03_encode_simple_roundtrip :
  forall f data m v,
    f_complex f = false -> mux_layout_ok (f_size f) (f_sigs f) -> sole_multiplexer (f_sigs f) m ->
    lookup (m_name m) data = Some (RInt v) ->
    (forall s x, In s (f_sigs f) -> m_mux_val s = None \/ m_mux_val s = Some v ->
                 lookup (m_name s) data = Some x -> in_range (m_sig s) x) ->
    exists bytes vals,
      frame_encode f data = EOk bytes /\ zlen bytes = f_size f /\ frame_decode f bytes = DOk vals /\
      (forall s, In s (f_sigs f) ->
         (In (m_name s) (map fst vals) <-> m_mux_val s = None \/ m_mux_val s = Some v)) /\
      (forall s x, In s (f_sigs f) -> m_mux_val s = None \/ m_mux_val s = Some v ->
                   lookup (m_name s) data = Some x -> In (m_name s, x) vals).
Proof. exact encode_simple_roundtrip. Qed.
Print Assumptions C03_encode_simple_roundtrip.

Theorem C03_encode_complex_refused : forall f data, f_complex f = true -> frame_encode f data = EComplex.
Proof. exact encode_complex_refused. Qed.
Print Assumptions C03_encode_complex_refused.

(* ---------- role bookkeeping ---------- *)

Theorem C03_setup_roles_simple : forall (l : list (signal * mplex)) mux_name,
  assign_roles mux_name (map (fun p => (new_msignal (fst p) (snd p), snd p)) l) =
  Some (map (fun p => match snd p with
                      | MxMux => mkM (fst p) true None [] None
                      | MxNone => mkM (fst p) false None [] None
                      | MxVal v => mkM (fst p) false (Some v) [] (Some mux_name)
                      end) l).
Proof. exact setup_roles_simple. Qed.
Print Assumptions C03_setup_roles_simple.

(* re-assigning a role on a live signal: whatever roles it had before (set by bare multiplex_setter calls or by
   constructor-style assignments), after assigning x its is_multiplexer / mux_val are those of x alone *)
Theorem C03_setter_last_wins : forall st ops op,
  let s := fst (apply_op (fold_left apply_op ops st) op) in
  m_is_mux s = fst (multiplex_setter (op_arg op)) /\ m_mux_val s = snd (multiplex_setter (op_arg op)) /\
  m_sig s = m_sig (fst st) /\ m_grp s = m_grp (fst st) /\ m_parent s = m_parent (fst st).
Proof. exact setter_last_wins. Qed.
Print Assumptions C03_setter_last_wins.

(* ... so it equals the signal constructed directly with x *)
Theorem C03_setter_last_wins_fresh : forall sg x0 ops op,
  fst (apply_op (fold_left apply_op ops (new_msignal sg x0, x0)) op) = new_msignal sg (op_arg op).
Proof. exact setter_last_wins_fresh. Qed.
Print Assumptions C03_setter_last_wins_fresh.

(* ---------- non-vacuity ---------- *)

Definition ex_u (n st sz : Z) : signal := mkSignal n st sz true false false.

(* a 2-byte frame: 2-bit multiplexer, a static signal, group 0 = one 8-bit signal, group 1 = two 4-bit signals on
   the same byte as group 0 *)
Definition ex_mux : msignal := mkM (ex_u 1 0 2) true None [] None.
Definition ex_simple : frame := mkFrame 2 false
  [ ex_mux;
    mkM (ex_u 2 2 2) false None [] None;
    mkM (ex_u 3 8 8) false (Some 0) [] (Some 1);
    mkM (mkSignal 4 8 4 true true false) false (Some 1) [] (Some 1);
    mkM (ex_u 5 12 4) false (Some 1) [] (Some 1) ].

Example C03_example_simple :
  mux_layout_ok (f_size ex_simple) (f_sigs ex_simple) /\ sole_multiplexer (f_sigs ex_simple) ex_mux /\
  frame_encode ex_simple [(1, RInt 1); (2, RInt 3); (3, RInt 255); (4, RInt (-3)); (5, RInt 9)] = EOk [13; 157] /\
  frame_decode ex_simple [13; 157] = DOk [(1, RInt 1); (2, RInt 3); (4, RInt (-3)); (5, RInt 9)] /\
  frame_decode ex_simple [15; 157] = DOk [(1, RInt 3); (2, RInt 3)].
Proof.
  split; [apply mux_layout_okb_sound; vm_compute; reflexivity|].
  split; [|vm_compute; repeat split].
  unfold sole_multiplexer. repeat split; try reflexivity; [left; reflexivity|].
  intros s Hs Hm. cbn in Hs.
  repeat (destruct Hs as [<-|Hs]; [first [reflexivity|discriminate Hm]|]). destruct Hs.
Qed.

(* an 8-byte extended frame of depth 3: root multiplexer 1, nested multiplexer 2 (ranges 1-2, 5-7), nested
   multiplexer 3 under 2 (range 3-3), leaf 4 under 3 (range 0-4), leaf 5 under 1 (range 8-15), static 6,
   leaf 7 under 2 without ranges (single value 4) *)
Definition ex_ext : frame := mkFrame 8 true
  [ mkM (ex_u 1 0 4) true None [] None;
    mkM (ex_u 2 4 4) true (Some 1) [(1, 2); (5, 7)] (Some 1);
    mkM (ex_u 3 8 4) true (Some 3) [(3, 3)] (Some 2);
    mkM (ex_u 4 12 4) false (Some 0) [(0, 4)] (Some 3);
    mkM (ex_u 5 16 8) false (Some 9) [(8, 15)] (Some 1);
    mkM (ex_u 6 56 8) false None [] None;
    mkM (ex_u 7 8 8) false (Some 4) [] (Some 2) ].

Example C03_example_ext :
  wf_ext (f_sigs ex_ext) /\ placed (f_size ex_ext) (f_sigs ex_ext) /\
  frame_decode ex_ext [0x31; 0x52; 9; 0; 0; 0; 0; 0xAB] =
    DOk [(1, RInt 1); (2, RInt 3); (3, RInt 2); (6, RInt 171); (4, RInt 5)] /\
  frame_decode ex_ext [0x41; 0x52; 9; 0; 0; 0; 0; 0xAB] = DOk [(1, RInt 1); (2, RInt 4); (6, RInt 171); (7, RInt 82)] /\
  frame_decode ex_ext [0x48; 0x52; 9; 0; 0; 0; 0; 0xAB] = DOk [(1, RInt 8); (6, RInt 171); (5, RInt 9)].
Proof.
  split; [apply wf_extb_sound; vm_compute; reflexivity|].
  split; [|vm_compute; repeat split].
  unfold placed. cbn [f_sigs f_size ex_ext].
  repeat (constructor; [split; [vm_compute; reflexivity|split; [intro H; discriminate H|intros _; reflexivity]]|]).
  constructor.
Qed.
