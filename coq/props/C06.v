(* C06  Every write+read format preserves frame identity and signal bit layout.
   PARTIAL BY DESIGN: the statements are about the field codecs of model/FmtPos.v - the integers each writer puts into the
   position and identity fields and what each reader makes of them.  Rendering and parsing of these integers as text,
   XML, JSON or spreadsheet cells is compared with the implementation on generated matrices (harness/p_c06.py), not proved.
   This file holds only statements; every proof is `exact <lemma>`.  Print Assumptions follows each. *)
From CM Require Import lib.Prelude model.Startbit model.ArbId model.Codec model.FmtPos
  proofs.Startbit_proofs proofs.ArbId_proofs proofs.C06_fmtpos.

(* ---- positions: read (write s) = s for every start >= 0, width >= 1, both byte orders ---- *)
Theorem C06_dbc_position_roundtrip : forall p, pos_ok p -> dbc_read_pos (dbc_write_pos p) = Some p.
Proof. exact dbc_position_roundtrip. Qed.
Print Assumptions C06_dbc_position_roundtrip.

Theorem C06_dbf_position_roundtrip : forall p, pos_ok p -> dbf_read_pos (dbf_write_pos p) = Some p.
Proof. exact dbf_position_roundtrip. Qed.
Print Assumptions C06_dbf_position_roundtrip.

Theorem C06_sym_position_roundtrip : forall p, pos_ok p -> sym_read_pos (sym_write_pos p) = Some p.
Proof. exact sym_position_roundtrip. Qed.
Print Assumptions C06_sym_position_roundtrip.

Theorem C06_kcd_position_roundtrip : forall p, pos_ok p -> kcd_read_pos (kcd_write_pos p) = Some p.
Proof. exact kcd_position_roundtrip. Qed.
Print Assumptions C06_kcd_position_roundtrip.

(* whether a KCD writer leaves the length of a one bit signal to the schema default or states it is not constrained by the
   property: the reader stores the same signal, and the explicit form round-trips for every width too *)
Theorem C06_kcd_length_default_equivalent : forall s b, kcd_read_pos [s; -1; b] = kcd_read_pos [s; 1; b].
Proof. exact kcd_length_default_equivalent. Qed.
Print Assumptions C06_kcd_length_default_equivalent.

Theorem C06_kcd_explicit_length_roundtrip : forall p, pos_ok p -> kcd_read_pos (kcd_write_pos_explicit p) = Some p.
Proof. exact kcd_explicit_position_roundtrip. Qed.
Print Assumptions C06_kcd_explicit_length_roundtrip.

(* the KCD Multiplex element has no endianess attribute: the multiplexer must be Intel (envelope of the format) *)
Theorem C06_kcd_multiplexer_position_roundtrip :
  forall p, pos_ok p -> p_le p = true -> kcd_read_mux_pos (kcd_write_mux_pos p) = Some p.
Proof. exact kcd_mux_position_roundtrip. Qed.
Print Assumptions C06_kcd_multiplexer_position_roundtrip.

(* JSON in the one notation its reader understands (jsonMotorolaBitFormat = lsb, the default) *)
Theorem C06_json_position_roundtrip : forall p, pos_ok p -> json_read_pos (json_write_pos NLsb p) = Some p.
Proof. exact json_position_roundtrip. Qed.
Print Assumptions C06_json_position_roundtrip.

(* XLS in each of the three xlsMotorolaBitFormat notations, the same option on both sides *)
Theorem C06_xls_position_roundtrip : forall n p, pos_ok p -> xls_read_pos n (xls_write_pos n p) = Some p.
Proof. exact xls_position_roundtrip. Qed.
Print Assumptions C06_xls_position_roundtrip.

(* ARXML, both versions (same START-POSITION / PACKING-BYTE-ORDER / LENGTH fields) *)
Theorem C06_arxml_position_roundtrip : forall p, pos_ok p -> arxml_read_pos (arxml_write_pos p) = Some p.
Proof. exact arxml_position_roundtrip. Qed.
Print Assumptions C06_arxml_position_roundtrip.

(* ---- the fields denote the right physical bits (guards against writer and reader erring alike) ---- *)
(* DBC / ARXML start, as an LSB0 number (byte n/8, bit n mod 8): LSB of an Intel signal, MSB of a Motorola signal *)
Theorem C06_dbc_arxml_start_denotes :
  forall p, coord_lsb0 (fnth (dbc_write_pos p) 0) = pos_bit p (if p_le p then 0 else p_size p - 1).
Proof. exact dbc_start_denotes. Qed.
Print Assumptions C06_dbc_arxml_start_denotes.

(* DBF byte column (from 1) and bit column: the least significant bit *)
Theorem C06_dbf_columns_denote_lsb :
  forall p, (fnth (dbf_write_pos p) 0 - 1, fnth (dbf_write_pos p) 1) = pos_bit p 0.
Proof. exact dbf_columns_denote_lsb. Qed.
Print Assumptions C06_dbf_columns_denote_lsb.

(* XLS byte/bit columns per notation: lsb -> LSB; msb -> MSB of a Motorola signal (bit counted from the byte's LSB);
   msbreverse -> MSB of a Motorola signal with the bit counted from the byte's MSB *)
Theorem C06_xls_columns_denote :
  forall n p, pos_ok p ->
    let byte := fnth (xls_write_pos n p) 0 - 1 in
    let bit := fnth (xls_write_pos n p) 1 in
    match n with
    | NLsb => (byte, bit) = pos_bit p 0
    | NMsb => (byte, bit) = pos_bit p (if p_le p then 0 else p_size p - 1)
    | NMsbReverse => (byte, if p_le p then bit else 7 - bit) = pos_bit p (if p_le p then 0 else p_size p - 1)
    end.
Proof. exact xls_columns_denote. Qed.
Print Assumptions C06_xls_columns_denote.

(* SYM / KCD write canmatrix' internal number: LSB0 number of the LSB (Intel), sequential MSB0 number of the MSB (Motorola) *)
Theorem C06_sym_kcd_start_denotes :
  forall p, (if p_le p then coord_lsb0 (p_start p) else coord_msb0 (p_start p)) = pos_bit p (if p_le p then 0 else p_size p - 1).
Proof. exact internal_start_denotes. Qed.
Print Assumptions C06_sym_kcd_start_denotes.

Theorem C06_json_start_denotes_lsb :
  forall p, coord_lsb0 (fnth (json_write_pos NLsb p) 0) = pos_bit p 0.
Proof. exact json_start_denotes_lsb. Qed.
Print Assumptions C06_json_start_denotes_lsb.

(* ---- identities: every valid standard / extended identifier ---- *)
Theorem C06_dbc_id_roundtrip : forall a, id_ok a -> dbc_read_id (dbc_write_id a) = Some a.
Proof. exact dbc_id_roundtrip. Qed.
Print Assumptions C06_dbc_id_roundtrip.

(* DBF after the repair of dbf.load (fixes/C06_dbf_extended_id.patch) *)
Theorem C06_dbf_id_roundtrip : forall a, id_ok a -> dbf_read_id (dbf_write_id a) = Some a.
Proof. exact dbf_id_roundtrip. Qed.
Print Assumptions C06_dbf_id_roundtrip.

(* ... and the reader as it stood: every extended identifier above 0x7FF made it raise (finding F-C06) *)
Theorem C06_dbf_id_before_fix_refuted :
  forall id, 2 ^ 11 <= id < 2 ^ 29 -> dbf_read_id_before_fix (dbf_write_id (id, true)) = None.
Proof. exact dbf_id_before_fix_fails. Qed.
Print Assumptions C06_dbf_id_before_fix_refuted.

Theorem C06_sym_id_roundtrip : forall a, sym_read_id (sym_write_id a) = Some a.
Proof. exact sym_id_roundtrip. Qed.
Print Assumptions C06_sym_id_roundtrip.

Theorem C06_kcd_id_roundtrip : forall a, id_ok a -> kcd_read_id (kcd_write_id a) = Some a.
Proof. exact kcd_id_roundtrip. Qed.
Print Assumptions C06_kcd_id_roundtrip.

Theorem C06_json_id_roundtrip : forall a, id_ok a -> json_read_id (json_write_id a) = Some a.
Proof. exact json_id_roundtrip. Qed.
Print Assumptions C06_json_id_roundtrip.

Theorem C06_xls_id_roundtrip : forall a, id_ok a -> xls_read_id (xls_write_id a) = Some a.
Proof. exact xls_id_roundtrip. Qed.
Print Assumptions C06_xls_id_roundtrip.

Theorem C06_arxml_id_roundtrip : forall a, id_ok a -> arxml_read_id (arxml_write_id a) = Some a.
Proof. exact arxml_id_roundtrip. Qed.
Print Assumptions C06_arxml_id_roundtrip.

(* ---- consequence: same payload bits, same raw fields, for all seven formats at once ---- *)
Theorem C06_same_payload_bits :
  forall fmt n p, pos_ok p -> 1 <= fmt <= 7 -> (fmt = 5 -> n = NLsb) ->
    exists q, read_pos fmt n (write_pos fmt n p) = Some q /\
              p_size q = p_size p /\ p_le q = p_le p /\ forall k, pos_bit q k = pos_bit p k.
Proof. exact same_payload_bits. Qed.
Print Assumptions C06_same_payload_bits.

(* every payload decodes (model/Codec.v decode_signal, the subject of C01) to the same raw field before and after *)
Theorem C06_same_raw_fields :
  forall fmt n p q, pos_ok p -> 1 <= fmt <= 7 -> (fmt = 5 -> n = NLsb) ->
    read_pos fmt n (write_pos fmt n p) = Some q ->
    forall payload nbits name signed float,
      decode_signal payload nbits (sig_at name signed float q) = decode_signal payload nbits (sig_at name signed float p).
Proof. exact same_raw_fields. Qed.
Print Assumptions C06_same_raw_fields.

(* ---- multi-bus files: each bus keeps exactly its own frames (bus names distinct after the writer's renaming) ---- *)
Theorem C06_cluster_partition_preserved :
  forall can_code (bs : list bus),
    NoDup (map fst (write_cluster can_code bs)) ->
    forall b, In b bs ->
      dict_get (bus_key can_code (fst b)) (read_cluster (write_cluster can_code bs)) = Some (snd b).
Proof. exact cluster_partition_preserved. Qed.
Print Assumptions C06_cluster_partition_preserved.

(* non-vacuity: a 12 bit Motorola signal crossing a byte boundary (internal start 13) and the J1939 identifier of F-C06;
   the one-way JSON notations do not read back (why the envelope restricts JSON to lsb) *)
Example C06_example :
  let p := mkPos false 12 13 in
  pos_ok p /\
  dbc_write_pos p = [10; 12; 0] /\ dbf_write_pos p = [4; 7; 12; 0] /\ xls_write_pos NMsb p = [2; 2; 12; 0] /\
  xls_write_pos NMsbReverse p = [2; 5; 12; 0] /\ json_write_pos NLsb p = [31; 12; 1] /\
  dbf_read_pos (dbf_write_pos p) = Some p /\
  json_read_pos (json_write_pos NMsb p) <> Some p /\
  id_ok (0x18FEF100, true) /\ dbf_read_id (dbf_write_id (0x18FEF100, true)) = Some (0x18FEF100, true) /\
  dbf_read_id_before_fix (dbf_write_id (0x18FEF100, true)) = None /\
  dict_get 2 (read_cluster (write_cluster 9 [(1, [(0x100, false)]); (2, [(0x18FEF100, true)]); (0, [])])) = Some [(0x18FEF100, true)].
Proof.
  cbv zeta. unfold pos_ok, id_ok, valid_ext, valid_std. cbn [p_start p_size fst snd].
  repeat split; try lia; try reflexivity; try (vm_compute; congruence); try (left; split; [reflexivity | lia]).
Qed.
