(* C01  Decoding reads exactly the convention's bits; wrong-length payloads are refused.
   Statements only; every proof is `exact <lemma>`; Print Assumptions follows each. *)
From CM Require Import lib.Prelude model.Startbit model.Codec proofs.Codec_decode.

(* Any payload length, any width >= 1 (not only <= 64), any placement inside the frame, both byte orders,
   signed/unsigned/float: the decoded raw value is the number formed by the convention's bits
   (Intel: bit i of the value is LSB0 payload bit start+i; Motorola: the bits run from the MSB at the
   internal start upwards in sequential MSB-first numbering; signed: two's complement; float: the
   field's bit pattern). *)
Theorem C01_decode_is_convention_value :
  forall d s,
    inside (8 * zlen d) s = true -> float_ok s ->
    decode_signal d (8 * zlen d) s = Some (convention_value d s).
Proof. exact decode_is_convention_value. Qed.
Print Assumptions C01_decode_is_convention_value.

(* No other payload bit influences the value ... *)
Theorem C01_decode_depends_only_on_own_bits :
  forall d d' s,
    zlen d = zlen d' -> inside (8 * zlen d) s = true -> float_ok s ->
    (forall i, (i < Z.to_nat (s_size s))%nat -> sig_bit d s i = sig_bit d' s i) ->
    decode_signal d (8 * zlen d) s = decode_signal d' (8 * zlen d') s.
Proof. exact decode_depends_only_on_own_bits. Qed.
Print Assumptions C01_decode_depends_only_on_own_bits.

(* ... and every own bit does: equal decoded values force equal own bits. *)
Theorem C01_decode_determines_own_bits :
  forall d d' s,
    zlen d = zlen d' -> inside (8 * zlen d) s = true -> float_ok s ->
    decode_signal d (8 * zlen d) s = decode_signal d' (8 * zlen d') s ->
    forall i, (i < Z.to_nat (s_size s))%nat -> sig_bit d s i = sig_bit d' s i.
Proof. exact decode_determines_own_bits. Qed.
Print Assumptions C01_decode_determines_own_bits.

(* The Motorola walk in DBC (LSB0) numbering is the sawtooth: downwards within a byte, then on to bit 7
   of the next byte. *)
Theorem C01_motorola_walk_is_sawtooth :
  forall d p, 0 <= p ->
    mbit d p = pbit d (flip p) /\
    flip (p + 1) = (if flip p mod 8 =? 0 then flip p + 15 else flip p - 1).
Proof. exact motorola_walk_is_sawtooth. Qed.
Print Assumptions C01_motorola_walk_is_sawtooth.

(* The length rule, in closed form: refused unless the caller opts in; a short payload is read as if
   padded with 0xFF, a long one as if cut to the declared length. *)
Theorem C01_length_gate_spec :
  forall fsize at_ ae d, 0 <= fsize ->
    unpack_gate fsize at_ ae d =
      if zlen d =? fsize then Some d
      else if (zlen d <? fsize) && at_ then Some (d ++ repeat 255 (Z.to_nat (fsize - zlen d)))
      else if (fsize <? zlen d) && ae then Some (firstn (Z.to_nat fsize) d)
      else None.
Proof. exact length_gate_spec. Qed.
Print Assumptions C01_length_gate_spec.

Theorem C01_default_never_silent :
  forall fsize sigs d, zlen d <> fsize -> frame_unpack fsize sigs false false d = ULengthError.
Proof. exact default_never_silent. Qed.
Print Assumptions C01_default_never_silent.

(* whole-frame statement: a payload of the declared length decodes every signal to its convention value *)
Theorem C01_frame_unpack_values :
  forall fsize sigs at_ ae d,
    zlen d = fsize ->
    Forall (fun s => inside (8 * fsize) s = true /\ float_ok s) sigs ->
    frame_unpack fsize sigs at_ ae d = UOk (map (fun s => (s_name s, convention_value d s)) sigs).
Proof. exact frame_unpack_values. Qed.
Print Assumptions C01_frame_unpack_values.

(* non-vacuity: a 3-byte frame with a byte-crossing signed Motorola signal and an Intel signal *)
Example C01_example :
  let d := [0xA5; 0x7F; 0x80] in
  let m := mkSignal 1 5 11 false true false in
  let i := mkSignal 2 17 7 true false false in
  inside 24 m = true /\ inside 24 i = true /\
  decode_signal d 24 m = Some (RInt (-641)) /\ decode_signal d 24 i = Some (RInt 64).
Proof. vm_compute. repeat split. Qed.
