(* C07  Round trips preserve value interpretation where the format carries it.
   PARTIAL BY DESIGN: the statements are about the field codecs of model/FmtNum.v - type words, multiplex tokens and the
   token structure (sign, integer digits, fraction digits, exponent) of decimal number texts.  The file syntax around
   these fields, value-table and unit strings and sender/receiver lists are compared with the implementation on generated
   matrices (harness/p_c07.py), not proved.  Statements only; every proof is `exact <lemma>`. *)
From CM Require Import lib.Prelude model.FmtNum proofs.C07_fmtnum.

(* ---- sign / float type ---- *)
(* DBC and JSON carry both flags as they are *)
Theorem C07_dbc_type_roundtrip : forall t, dbc_read_type (dbc_write_type t) = Some (ty_signed t, ty_float t).
Proof. exact dbc_type_roundtrip. Qed.
Print Assumptions C07_dbc_type_roundtrip.

Theorem C07_json_type_roundtrip : forall t, json_read_type (json_write_type t) = Some (ty_signed t, ty_float t).
Proof. exact json_type_roundtrip. Qed.
Print Assumptions C07_json_type_roundtrip.

(* DBF (U/I/F/D), KCD (signed/single/double), SYM (type word, after fixes/C07_sym_float_type.patch), ARXML 4 (base type by
   width class): float-ness is preserved for every width, and the sign of every integer signal *)
Theorem C07_dbf_type_roundtrip :
  forall t, exists s f, dbf_read_type (dbf_write_type t) = Some (s, f) /\ type_meaning s f = type_meaning (ty_signed t) (ty_float t).
Proof. exact dbf_type_roundtrip. Qed.
Print Assumptions C07_dbf_type_roundtrip.

Theorem C07_kcd_type_roundtrip :
  forall t, exists s f, kcd_read_type (kcd_write_type t) = Some (s, f) /\ type_meaning s f = type_meaning (ty_signed t) (ty_float t).
Proof. exact kcd_type_roundtrip. Qed.
Print Assumptions C07_kcd_type_roundtrip.

Theorem C07_sym_type_roundtrip :
  forall t, exists s f, sym_read_type (sym_write_type t) = Some (s, f) /\ type_meaning s f = type_meaning (ty_signed t) (ty_float t).
Proof. exact sym_type_roundtrip. Qed.
Print Assumptions C07_sym_type_roundtrip.

Theorem C07_arxml4_type_roundtrip :
  forall t, exists s f, arxml4_read_type (arxml4_write_type t) = Some (s, f) /\ type_meaning s f = type_meaning (ty_signed t) (ty_float t).
Proof. exact arxml4_type_roundtrip. Qed.
Print Assumptions C07_arxml4_type_roundtrip.

(* the base type chosen for an integer signal is wide enough for every width 1..64 *)
Theorem C07_arxml_width_class_covers :
  forall size, 1 <= size <= 64 -> size <= width_class size /\ In (width_class size) [8; 16; 32; 64].
Proof. exact width_class_covers. Qed.
Print Assumptions C07_arxml_width_class_covers.

(* ARXML 3.2.3 output: float-ness comes back (after fixes/C07_arxml3_float_encoding.patch); the sign of an integer signal is
   not written at all - every integer signal comes back unsigned (known finding arxml3-type-signed) *)
Theorem C07_arxml3_type_partial :
  forall t, exists s f, arxml3_read_type (arxml3_write_type t) = Some (s, f) /\ f = ty_float t /\ (ty_float t = false -> s = false).
Proof. exact arxml3_type_float. Qed.
Print Assumptions C07_arxml3_type_partial.

(* ---- multiplexer role and selector values, selector 0 included ---- *)
Theorem C07_dbc_mux_roundtrip : forall r, dbc_read_mux (dbc_write_mux r) = Some r.
Proof. exact dbc_mux_roundtrip. Qed.
Print Assumptions C07_dbc_mux_roundtrip.

(* DBF, KCD, XLS, JSON (after fixes/C07_json_multiplex.patch): simple multiplexing *)
Theorem C07_simple_mux_roundtrip : forall r, role_simple r -> simple_read_mux (simple_write_mux r) = Some r.
Proof. exact simple_mux_roundtrip. Qed.
Print Assumptions C07_simple_mux_roundtrip.

(* SYM selector token (decimal digit, or padded hex with h suffix) *)
Theorem C07_sym_selector_roundtrip :
  forall mux_size v, 0 <= v -> sym_read_selector (sym_write_selector mux_size v) = v.
Proof. exact sym_selector_roundtrip. Qed.
Print Assumptions C07_sym_selector_roundtrip.

(* ---- factor / offset as exact decimal numbers ---- *)
(* str(Decimal) read by Decimal(text): the same (sign, coefficient, exponent) - DBF, JSON, and KCD / ARXML after
   fixes/C07_kcd_scaling_exact.patch, C07_arxml_scaling_exact.patch; any number of digits, any exponent *)
Theorem C07_str_decimal_parses_back : forall d, dec_ok d -> parse_num (str_dec d) = Some d.
Proof. exact str_parse_exact. Qed.
Print Assumptions C07_str_decimal_parses_back.

(* format_float (DBC, SYM) of that text: possibly another representation (1.0 -> 1, E+2 -> E+002) of the same number *)
Theorem C07_format_float_parses_back :
  forall d, dec_ok d -> exists d', parse_num (format_float (str_dec d)) = Some d' /\ dec_same_value d' d.
Proof. exact format_float_str_value. Qed.
Print Assumptions C07_format_float_parses_back.

(* non-vacuity and the findings as refutations of the unrepaired codecs *)
Example C07_example :
  (* 0.123456789 and 1.00000001 (F-C07a), an exponent form, a trailing .0 *)
  str_dec (mkDec false 123456789 (-9)) = mkNum false [0] [1;2;3;4;5;6;7;8;9] None /\
  parse_num (str_dec (mkDec false 100000001 (-8))) = Some (mkDec false 100000001 (-8)) /\
  format_float (str_dec (mkDec true 12 5)) = mkNum true [1] [2] (Some (false, [0; 0; 6])) /\
  parse_num (format_float (str_dec (mkDec false 10 (-1)))) = Some (mkDec false 1 0) /\
  (* SYM before the repair: a float signal with the default is_signed=True is written as "signed" (F-C07c) *)
  sym_read_type (sym_write_type_before_fix (mkType 32 true true)) = Some (true, false) /\
  sym_read_type (sym_write_type (mkType 32 true true)) = Some (false, true) /\
  (* JSON before the repair: role and selector (also 0) are lost (F-C07b) *)
  json_read_mux_before_fix (simple_write_mux (mkMux false (Some 0))) = Some (mkMux false None) /\
  simple_read_mux (simple_write_mux (mkMux false (Some 0))) = Some (mkMux false (Some 0)) /\
  (* ARXML 3: a signed 8 bit signal comes back unsigned *)
  arxml3_read_type (arxml3_write_type (mkType 8 true false)) = Some (false, false) /\
  sym_write_selector 4 12 = (true, [12]) /\ sym_write_selector 8 12 = (true, [0; 12]) /\ sym_write_selector 4 0 = (false, [0]).
Proof. vm_compute. repeat split. Qed.
