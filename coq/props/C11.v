(* C11  ECU rename/delete/update keep every sender and receiver reference consistent.
   Statements only; every proof is `exact <lemma>` (witnesses: computation); Print Assumptions follows each.

   Vocabulary (model/EcuOps.v): a matrix = ECU list, frames (transmitters, receivers, signals with receivers,
   everything else as an opaque payload), free signals.  Names are character-code lists.
     receivers_uptodate m : every frame's receiver list = first-occurrence de-duplication (nub) of its signals' receivers
     refs_nodup m         : no transmitter list / signal receiver list names an ECU twice
     wf m                 : both
     refs3 m              : all references of the three kinds the property names (senders, signal receivers, frame receivers)
     map_refs g f         : f with g applied to each of its reference lists and nothing else
   Reading decisions (visible in the statements):
     * "reference" = the three kinds the property enumerates.  rename/del/update leave the free signals
       (CanMatrix.signals) untouched - conjunct `free m' = free m`.  For delete_obsolete_ecus "unreferenced" means
       named nowhere, the receivers of free signals included (`used_names`).
     * an ECU that is referenced but not listed is not "an ECU" for rename: rename_ecu returns early (C11_rename_unlisted_is_noop).
     * refs_nodup, names_clean, listed_literal describe how the reference lists / names are spelled, not the topology;
       without them the statements fail - the witnesses are the `_refuted` theorems at the end. *)
From Coq Require Import Permutation.
From CM Require Import lib.Prelude model.Glob model.EcuOps proofs.Glob_proofs proofs.C11_lists proofs.C11_ops.

(* ---- glob patterns: the matcher is exactly "`*` any string, `?` any one character, everything else itself" ---- *)
Theorem C11_glob_match_iff : forall p s, glob_match p s = true <-> glob_rel p s.
Proof. exact glob_match_iff. Qed.
Print Assumptions C11_glob_match_iff.

Theorem C11_glob_literal : forall p s, literal p = true -> glob_match p s = name_eqb p s.
Proof. exact glob_literal. Qed.
Print Assumptions C11_glob_literal.

(* ---- rename ----
   Renaming the i-th listed ECU (old := its name) to a name no frame refers to:
   the ECU list keeps length, order and every other entry, entry i carries the new name and its old payload;
   frames correspond one to one (renamed_frame): name and payload equal, signals correspond one to one with name and
   payload equal; each transmitter list and each signal receiver list is `repl old new` of the old one (identical when
   old is absent, otherwise the other entries in their order and new appended) and a permutation of the image under
   old -> new; the frame receiver list is a permutation of the image of the old one and up to date;
   free signals are untouched; no reference to old is left. *)
Theorem C11_rename_replaces_all_refs :
  forall m i e new,
    wf m -> nth_error (ecus m) i = Some e -> ~ In new (refs3 m) ->
    let old := ename e in
    let m' := rename_ecu_at i new m in
    (length (ecus m') = length (ecus m) /\
     nth_error (ecus m') i = Some (mkEcu new (epay e)) /\
     (forall j, j <> i -> nth_error (ecus m') j = nth_error (ecus m) j)) /\
    Forall2 (renamed_frame old new) (frames m) (frames m') /\
    free m' = free m /\
    (new <> old -> ~ In old (refs3 m')) /\
    wf m'.
Proof. exact rename_replaces_all_refs. Qed.
Print Assumptions C11_rename_replaces_all_refs.

(* rename_ecu("old", new) is the above for the FIRST listed ECU of that name ... *)
Theorem C11_rename_by_name_is_first_listed :
  forall m old new,
    match ecu_index old (ecus m) with
    | Some i => rename_ecu_name old new m = rename_ecu_at i new m /\
                exists e, nth_error (ecus m) i = Some e /\ ename e = old /\
                          (forall j e', (j < i)%nat -> nth_error (ecus m) j = Some e' -> ename e' <> old)
    | None => ~ In old (listed m)
    end.
Proof. exact rename_by_name_is_first_listed. Qed.
Print Assumptions C11_rename_by_name_is_first_listed.

(* ... and does nothing at all for a name that is not listed, even when frames refer to it *)
Theorem C11_rename_unlisted_is_noop :
  forall m old new, ~ In old (listed m) -> rename_ecu_name old new m = m.
Proof. exact rename_unlisted_is_noop. Qed.
Print Assumptions C11_rename_unlisted_is_noop.

(* ---- delete ----
   del_ecu(<Ecu equal to a listed one>): its first occurrence leaves the list; every reference list of every frame is the
   old one without that name, order of the rest kept; nothing else changes. *)
Theorem C11_del_removes_ecu_and_refs :
  forall m e,
    wf m -> In e (ecus m) ->
    let m' := del_ecu_inst e m in
    (exists l1 l2, ecus m = l1 ++ e :: l2 /\ ~ In e l1 /\ ecus m' = l1 ++ l2) /\
    frames m' = map (map_refs (filter (keep_not (ename e)))) (frames m) /\
    free m' = free m /\
    refs3 m' = filter (keep_not (ename e)) (refs3 m) /\
    ~ In (ename e) (refs3 m') /\
    wf m'.
Proof. exact del_removes_ecu_and_refs. Qed.
Print Assumptions C11_del_removes_ecu_and_refs.

(* an Ecu object that equals no listed ECU: nothing happens *)
Theorem C11_del_foreign_is_noop :
  forall m e, ~ In e (ecus m) -> del_ecu_inst e m = m.
Proof. exact del_foreign_is_noop. Qed.
Print Assumptions C11_del_foreign_is_noop.

(* del_ecu("pattern"): exactly the listed ECUs whose name matches leave the list (order of the rest kept); exactly the
   references that name a LISTED matching ECU disappear (glob_hit), the rest keep their order; nothing else changes. *)
Theorem C11_del_glob_hits_exactly_matches :
  forall m pat,
    wf m ->
    let m' := del_ecu_glob pat m in
    ecus m' = filter (fun e => negb (glob_match pat (ename e))) (ecus m) /\
    frames m' = map (map_refs (filter (fun x => negb (glob_hit pat m x)))) (frames m) /\
    free m' = free m /\
    refs3 m' = filter (fun x => negb (glob_hit pat m x)) (refs3 m) /\
    wf m'.
Proof. exact del_glob_hits_exactly_matches. Qed.
Print Assumptions C11_del_glob_hits_exactly_matches.

Theorem C11_glob_hit_iff :
  forall pat m x, glob_hit pat m x = true <-> glob_rel pat x /\ In x (listed m).
Proof. exact glob_hit_iff. Qed.
Print Assumptions C11_glob_hit_iff.

(* ---- update_ecu_list ----
   The listed ECUs stay as they are (prefix); appended are, once each and with default content, the referenced names not
   yet listed, in order of first reference; frames and free signals unchanged.  Hence every referenced name is listed,
   nothing unreferenced is added, and a duplicate-free list stays duplicate-free: each referenced ECU exists exactly once. *)
Theorem C11_update_lists_every_ref_once :
  forall m,
    receivers_uptodate m -> names_clean m ->
    let m' := update_ecu_list m in
    let added := filter (fun n => negb (mem n (listed m))) (nub (update_order (frames m))) in
    ecus m' = ecus m ++ map (fun n => mkEcu n default_epay) added /\
    frames m' = frames m /\ free m' = free m /\
    (forall n, In n (refs3 m') -> In n (listed m')) /\
    (forall n, In n (listed m') -> In n (listed m) \/ In n (refs3 m)) /\
    (NoDup (listed m) -> NoDup (listed m')).
Proof. exact update_lists_every_ref_once. Qed.
Print Assumptions C11_update_lists_every_ref_once.

(* ---- delete_obsolete_ecus ----
   Kept are exactly the listed ECUs whose name occurs as transmitter, frame receiver, receiver of a frame's signal or
   receiver of a free signal (order kept); nothing else changes. *)
Theorem C11_obsolete_removes_exactly_unreferenced :
  forall m,
    wf m -> listed_literal m ->
    let m' := delete_obsolete_ecus m in
    ecus m' = filter (fun e => mem (ename e) (used_names m)) (ecus m) /\
    frames m' = frames m /\ free m' = free m.
Proof. exact obsolete_removes_exactly_unreferenced. Qed.
Print Assumptions C11_obsolete_removes_exactly_unreferenced.

Theorem C11_used_names_iff :
  forall m x, In x (used_names m) <-> In x (refs3 m) \/ In x (flat_map sreceivers (free m)).
Proof. exact used_iff. Qed.
Print Assumptions C11_used_names_iff.

(* ---- histories ----
   Every operation (the four of the property by name, by object, by pattern, and add/del_signal_receiver) preserves wf;
   so after every prefix ops1 of every operation sequence each frame's receiver list is the first-occurrence
   de-duplication of its signals' receivers: duplicate-free and, as a set, exactly their union - and the theorems above
   apply again at that state. *)
Theorem C11_step_preserves_wf : forall m o, wf m -> wf (step m o).
Proof. exact step_wf. Qed.
Print Assumptions C11_step_preserves_wf.

Theorem C11_ops_preserve_receivers_uptodate :
  forall ops1 ops2 m,
    wf m ->
    let m' := run_ops m ops1 in
    wf m' /\ receivers_uptodate (run_ops m (ops1 ++ ops2)) /\
    forall f, In f (frames m') ->
      receivers f = nub (flat_map sreceivers (signals f)) /\
      NoDup (receivers f) /\
      (forall x, In x (receivers f) <-> exists s, In s (signals f) /\ In x (sreceivers s)).
Proof. exact ops_preserve_receivers_uptodate. Qed.
Print Assumptions C11_ops_preserve_receivers_uptodate.

(* ================= outside the envelope: why the spelling hypotheses are there ================= *)
Definition nA : name := [65].            (* "A"  *)
Definition nB : name := [66].            (* "B"  *)
Definition nN : name := [78].            (* "N"  *)
Definition nAB : name := [65; 66].       (* "AB" *)
Definition nAstar : name := [65; 42].    (* "A*" *)
Definition nspA : name := [32; 65].      (* " A" *)
Definition nX : name := [88].            (* "X"  *)

(* a signal receiver list that names A twice ([A; A], frame receivers [A] up to date): rename A -> N and del A each
   remove one entry only, a reference to A survives *)
Definition m_dup : matrix :=
  mkMatrix [mkEcu nA 0] [mkFrame [70] [] [nA] [mkSig [115] [nA; nA] 0] 0] [].
Theorem C11_rename_without_nodup_refuted :
  receivers_uptodate m_dup /\ nth_error (ecus m_dup) 0 = Some (mkEcu nA 0) /\
  ~ In nN (refs3 m_dup) /\ ~ In nN (listed m_dup) /\
  In nA (refs3 (rename_ecu_at 0 nN m_dup)).
Proof.
  split; [repeat constructor|]. split; [reflexivity|].
  split; [vm_compute; intuition discriminate|]. split; [vm_compute; intuition discriminate|].
  vm_compute. auto.
Qed.
Print Assumptions C11_rename_without_nodup_refuted.

Theorem C11_del_without_nodup_refuted :
  receivers_uptodate m_dup /\ In (mkEcu nA 0) (ecus m_dup) /\
  In nA (refs3 (del_ecu_inst (mkEcu nA 0) m_dup)).
Proof. split; [repeat constructor|]. split; [left; reflexivity|]. vm_compute. auto. Qed.
Print Assumptions C11_del_without_nodup_refuted.

(* a referenced name with leading white space (" A" sends two frames): add_ecu compares bu.name.strip() with the
   unstripped new name, so update_ecu_list lists it twice *)
Definition m_sp : matrix :=
  mkMatrix [] [mkFrame [70] [nspA] [] [] 0; mkFrame [71] [nspA] [] [] 1] [].
Theorem C11_update_without_clean_refuted :
  wf m_sp /\ NoDup (listed m_sp) /\
  length (filter (fun e => name_eqb (ename e) nspA) (ecus (update_ecu_list m_sp))) = 2%nat.
Proof.
  split; [|split; [constructor | reflexivity]].
  split; repeat constructor; cbn; intuition discriminate.
Qed.
Print Assumptions C11_update_without_clean_refuted.

(* an unreferenced ECU whose NAME contains `*`: delete_obsolete_ecus hands the name to del_ecu as a pattern, which also
   deletes the referenced ECU "AB" and the reference to it *)
Definition m_star : matrix :=
  mkMatrix [mkEcu nAstar 0; mkEcu nAB 0] [mkFrame [70] [nAB] [] [] 0] [].
Theorem C11_obsolete_without_literal_refuted :
  wf m_star /\ In nAB (used_names m_star) /\
  ecus (delete_obsolete_ecus m_star) = [] /\ refs3 (delete_obsolete_ecus m_star) = [].
Proof.
  split; [|split; [vm_compute; auto | split; reflexivity]].
  split; repeat constructor; cbn; intuition discriminate.
Qed.
Print Assumptions C11_obsolete_without_literal_refuted.

(* ================= non-vacuity ================= *)
(* ECUs A, AB, B, C (C referenced only by a free signal), X referenced but not listed; A sends F1 and receives in F2. *)
Definition m_ex : matrix :=
  mkMatrix [mkEcu nA 1; mkEcu nAB 2; mkEcu nB 3; mkEcu [67] 4]
           [mkFrame [70; 49] [nA] [nAB; nB] [mkSig [115; 49] [nAB; nB] 10; mkSig [115; 50] [nB] 11] 100;
            mkFrame [70; 50] [nB] [nA; nX] [mkSig [116] [nA; nX] 12] 101]
           [mkSig [102] [[67]] 13].
Example C11_example :
  wf m_ex /\ names_clean m_ex /\ listed_literal m_ex /\ ~ In nN (refs3 m_ex) /\
  run_ops m_ex [RenameName nA nN; DelGlob [65; 42]; UpdateEcuList; DeleteObsolete] =
    mkMatrix [mkEcu nN 1; mkEcu nB 3; mkEcu [67] 4; mkEcu nX 0]
             [mkFrame [70; 49] [nN] [nB] [mkSig [115; 49] [nB] 10; mkSig [115; 50] [nB] 11] 100;
              mkFrame [70; 50] [nB] [nX; nN] [mkSig [116] [nX; nN] 12] 101]
             [mkSig [102] [[67]] 13].
Proof.
  split; [split; repeat constructor; cbn; intuition discriminate|].
  split; [split; repeat constructor|].
  split; [repeat constructor|].
  split; [vm_compute; intuition discriminate | vm_compute; reflexivity].
Qed.

(* ================= patterns with character classes ([seq], [!seq], ranges) =================
   The pattern enters del_ecu / add_signal_receiver / del_signal_receiver only as a predicate on names.  The deletion
   theorem holds for EVERY predicate (so for every fnmatch pattern, however it is spelled); glob_match_cls is the
   predicate fnmatch.fnmatchcase computes when classes are present, it coincides with glob_match when they are not. *)
Theorem C11_glob_cls_iff : forall p s, glob_match_cls p s = true <-> gtok_rel (gtokenize p) s.
Proof. exact glob_cls_iff. Qed.
Print Assumptions C11_glob_cls_iff.

Theorem C11_glob_cls_agrees : forall p s, no_bracket p = true -> glob_match_cls p s = glob_match p s.
Proof. exact glob_cls_agrees. Qed.
Print Assumptions C11_glob_cls_agrees.

Theorem C11_cls_mem_no_dash : forall body d, ~ In DASH body -> (cls_mem body d = true <-> In d body).
Proof. exact cls_mem_no_dash. Qed.
Print Assumptions C11_cls_mem_no_dash.

(* del_ecu selecting by any predicate p on names: exactly the listed ECUs p accepts leave the list, exactly the
   references naming a listed accepted ECU disappear, the rest keep their order, nothing else changes *)
Theorem C11_del_by_hits_exactly_matches :
  forall (p : name -> bool) m,
    wf m ->
    let m' := del_ecu_by p m in
    ecus m' = filter (fun e => negb (p (ename e))) (ecus m) /\
    frames m' = map (map_refs (filter (fun x => negb (hit_by p m x)))) (frames m) /\
    free m' = free m /\
    refs3 m' = filter (fun x => negb (hit_by p m x)) (refs3 m) /\
    wf m'.
Proof. exact del_by_hits_exactly_matches. Qed.
Print Assumptions C11_del_by_hits_exactly_matches.

Theorem C11_step_cls_agrees : forall m o, op_no_bracket o = true -> step_cls m o = step m o.
Proof. exact step_cls_agrees. Qed.
Print Assumptions C11_step_cls_agrees.

Theorem C11_ops_cls_preserve_receivers_uptodate :
  forall ops1 ops2 m,
    wf m ->
    let m' := run_ops_cls m ops1 in
    wf m' /\ receivers_uptodate (run_ops_cls m (ops1 ++ ops2)) /\
    forall f, In f (frames m') ->
      receivers f = nub (flat_map sreceivers (signals f)) /\
      NoDup (receivers f) /\
      (forall x, In x (receivers f) <-> exists s, In s (signals f) /\ In x (sreceivers s)).
Proof. exact ops_cls_preserve_receivers_uptodate. Qed.
Print Assumptions C11_ops_cls_preserve_receivers_uptodate.

(* "A[B]" = [65;91;66;93] deletes exactly AB from m_ex; "A[!B]" nothing (no listed two-letter name A? other than AB);
   "[A-B]" the one-letter ECUs A and B; an unclosed "[" is a literal character *)
Example C11_class_example :
  map ename (ecus (step_cls m_ex (DelGlob [65; 91; 66; 93]))) = [nA; nB; [67]] /\
  refs3 (step_cls m_ex (DelGlob [65; 91; 66; 93])) = [nA; nB; nB; nB; nB; nA; nX; nA; nX] /\
  step_cls m_ex (DelGlob [65; 91; 33; 66; 93]) = m_ex /\
  map ename (ecus (step_cls m_ex (DelGlob [91; 65; 45; 66; 93]))) = [nAB; [67]] /\
  glob_match_cls [65; 91] [65; 91] = true /\ glob_match_cls [65; 91; 66] [65; 66] = false.
Proof. vm_compute. repeat split. Qed.

(* ================= shared list objects =================
   heap = the Python list objects, the slots of frames and signals hold indices, so one object may sit in several slots
   (the same list handed to a Frame and to its Signal, a copy.copy clone, two signals defined on one list).  hrewrite_all g
   is what rename_ecu (g = rename_in old new) and del_ecu (g = del_name n) do frame by frame: rewrite the sender list and
   the signals' receiver lists IN PLACE, then Frame.update_receiver REBINDS the frame's receiver slot to a new object.
   For every g that is idempotent on the stored lists the result, read through the slots, equals the result on the
   matrix in which every slot holds a copy of its own - whatever is shared with whatever. *)
Theorem C11_shared_lists_transparent :
  forall (g : list name -> list name) (P : list name -> Prop) h fs,
    (forall c, P c -> P (g c) /\ g (g c) = g c) ->
    Forall P h -> Forall (hframe_in_range h) fs ->
    let r := hrewrite_all g h fs in
    map (deref_frame (fst r)) (snd r) = map (fun f => rewrite_frame g (deref_frame h f)) fs.
Proof. exact shared_lists_transparent. Qed.
Print Assumptions C11_shared_lists_transparent.

(* the two rewrites of rename_ecu / del_ecu are idempotent on duplicate-free lists (P := NoDup) *)
Theorem C11_rename_in_idempotent :
  forall old new, new <> old ->
    forall c, NoDup c -> NoDup (rename_in old new c) /\ rename_in old new (rename_in old new c) = rename_in old new c.
Proof. exact rename_in_idem. Qed.
Print Assumptions C11_rename_in_idempotent.

Theorem C11_del_name_idempotent :
  forall n c, NoDup c -> NoDup (del_name n c) /\ del_name n (del_name n c) = del_name n c.
Proof. exact del_name_idem. Qed.
Print Assumptions C11_del_name_idempotent.

(* the statement is about the rebinding discipline: emptying the receiver list object in place instead
   (`del self.receivers[:]`) is not transparent.  One object [B; C] is the frame's receiver list and its signal's:
   renaming B -> D must give [C; D] in both slots (and does, when rebinding); in place, both end up empty. *)
Definition h_sh : heap := [[nA]; [nB; [67]]].
Definition f_sh : hframe := mkHFrame [70] 0 1 [mkHSig [115] 1 0] 0.
Theorem C11_inplace_clear_not_transparent_refuted :
  let g := rename_in nB [68] in
  let r := hrewrite_all g h_sh [f_sh] in
  let r' := hrewrite_all_inplace g h_sh [f_sh] in
  map (deref_frame (fst r)) (snd r) = [mkFrame [70] [nA] [[67]; [68]] [mkSig [115] [[67]; [68]] 0] 0] /\
  map (fun f => rewrite_frame g (deref_frame h_sh f)) [f_sh] = [mkFrame [70] [nA] [[67]; [68]] [mkSig [115] [[67]; [68]] 0] 0] /\
  map (deref_frame (fst r')) (snd r') = [mkFrame [70] [nA] [] [mkSig [115] [] 0] 0].
Proof. vm_compute. repeat split. Qed.
Print Assumptions C11_inplace_clear_not_transparent_refuted.
