(* C18  canconvert options have exactly their documented effect.
   Statements only; every proof is `exact <lemma>`; Print Assumptions follows each.

   What is stated (model/Convert.v; the model follows convert.py with fixes/C18_*.patch applied):
     1. option strings: comma lists, old:new tuples, ecu:rx / ecu:tx items, integers - parse (render x) = x for names
        without ',' and ':', a tuple without (or with two) ':' is an error, the `direction` carry-over of the code in
        /repo refuted;
     2. the stage order of convert(), for EVERY choice of the operations behind the options (`ops M`): no option = identity,
        the order on the command line is irrelevant, one option = its stage, two options = the composition in pipeline
        order, any command line = the composition of its stages sorted by position, selection options first;
     3. the options modelled directly (`cops X`, matrix type cmatrix): skipLongDlc, cutLongFrames, setFrameFd, unsetFrameFd,
        frameIdIncrement, changeFrameId, addFrameReceiver, recalcDLC, ignorePduContainer / the default PDU rewrite - each
        `= <the matrix with exactly this change>`, so everything not mentioned is unchanged;
     4. the options that ARE operations proved elsewhere: the theorem of C10/C11/C12/C16/C17 about that operation under a C18
        name (option -> operation: the `stage` definition of Convert.v; these theorems speak about their own matrix types).
   Envelope (visible hypotheses): frames_distinct / signals_distinct = no object listed twice (Python identity),
   frame_names_unique / frame_ids_unique where an option addresses frames by name / number, plain_name = no ',' and ':',
   counts k a = the argument is not an empty string for the options convert() tests by truth value. *)
From Coq Require Import Permutation.
From CM Require Import lib.Prelude model.Glob model.Convert
  proofs.C18_parse proofs.C18_direct proofs.C18_pipeline.
From CM Require model.EcuOps model.BulkOps model.Glob_c17 model.CopyOps model.CopySpec model.Codec model.Layout model.Lookup model.ArbId.
From CM Require props.C10 props.C11 props.C12 props.C16 props.C17.

(* ================================================================================================================ *)
(* 1. option strings                                                                                                 *)

(* s.split(c) and c.join(parts) are inverse: always for join after split; for split after join when no part contains c *)
Theorem C18_split_comma_join :
  forall c parts, parts <> [] -> Forall (no_char c) parts -> split_on c (join_with c parts) = parts.
Proof. exact split_join. Qed.
Print Assumptions C18_split_comma_join.

Theorem C18_join_split : forall c s, join_with c (split_on c s) = s.
Proof. exact join_split. Qed.
Print Assumptions C18_join_split.

Theorem C18_comma_list_parse :
  forall l, l <> [] -> Forall (no_char COMMA) l -> parse_list (render_list l) = l.
Proof. exact comma_list_parse. Qed.
Print Assumptions C18_comma_list_parse.

(* old:new tuples (renameEcu, renameFrame, renameSignal, addFrameReceiver, changeFrameId) *)
Theorem C18_rename_tuple_parse :
  forall ps, ps <> [] -> Forall (fun p => plain_name (fst p) /\ plain_name (snd p)) ps ->
    parse_pairs (render_pairs ps) = Some ps.
Proof. exact rename_tuple_parse. Qed.
Print Assumptions C18_rename_tuple_parse.

(* `old, new = t.split(':')` succeeds exactly on "a:b" with no further ':' *)
Theorem C18_tuple_parse_iff :
  forall s a b, parse_pair s = Some (a, b) <-> s = a ++ COLON :: b /\ no_char COLON a /\ no_char COLON b.
Proof. exact parse_pair_some_iff. Qed.
Print Assumptions C18_tuple_parse_iff.

Theorem C18_tuple_missing_colon_is_error :
  forall s, no_char COLON s -> parse_pair s = None.
Proof. exact pair_missing_colon_is_error. Qed.
Print Assumptions C18_tuple_missing_colon_is_error.

Theorem C18_tuple_two_colons_is_error :
  forall a b c, no_char COLON a -> parse_pair (a ++ COLON :: b ++ COLON :: c) = None.
Proof. exact pair_two_colons_is_error. Qed.
Print Assumptions C18_tuple_two_colons_is_error.

(* one malformed tuple anywhere in the list aborts the whole option *)
Theorem C18_tuple_list_one_bad_item :
  forall pre bad post, parse_pair bad = None -> Forall (no_char COMMA) (pre ++ bad :: post) ->
    parse_pairs (join_with COMMA (pre ++ bad :: post)) = None.
Proof. exact parse_pairs_bad_item. Qed.
Print Assumptions C18_tuple_list_one_bad_item.

(* --ecus FirstEcu:rx,SecondEcu:tx,ThirdEcu : every item gets exactly its own direction (sel_of: name, rx, tx) *)
Theorem C18_ecu_selection_parse :
  forall l, l <> [] -> Forall (fun it => plain_name (fst it)) l -> parse_ecus (render_ecus l) = Some (map sel_of l).
Proof. exact ecu_selection_parse. Qed.
Print Assumptions C18_ecu_selection_parse.

(* the code in /repo (`direction = None` before the loop): false - "A:rx,B" copies only the rx frames of B *)
Theorem C18_ecu_selection_parse_unfixed_refuted :
  exists l, l <> [] /\ Forall (fun it => plain_name (fst it)) l /\
            parse_ecus_unfixed (render_ecus l) <> Some (map sel_of l).
Proof. exact ecu_direction_carry_refuted. Qed.
Print Assumptions C18_ecu_selection_parse_unfixed_refuted.

(* ... and true of it when every item carries a suffix *)
Theorem C18_ecu_selection_parse_unfixed_partial :
  forall l, l <> [] -> Forall (fun it => plain_name (fst it) /\ snd it <> DBoth) l ->
    parse_ecus_unfixed (render_ecus l) = Some (map sel_of l).
Proof. exact ecu_direction_carry_partial. Qed.
Print Assumptions C18_ecu_selection_parse_unfixed_partial.

(* thresholds and identifiers: int(str(z)) = z; anything with a non-digit after the first character is refused *)
Theorem C18_int_parse_render : forall z, parse_int (render_int z) = Some z.
Proof. exact int_parse_render. Qed.
Print Assumptions C18_int_parse_render.

Theorem C18_int_parse_rejects :
  forall s, (exists c, In c (tl s) /\ is_digit c = false) -> parse_int s = None.
Proof. exact int_parse_rejects. Qed.
Print Assumptions C18_int_parse_rejects.

(* ================================================================================================================ *)
(* 2. the pipeline, for every choice of operations                                                                   *)

Theorem C18_no_options_identity_generic :
  forall (M : Type) (O : ops M) m, o_pdu O false m = m -> pipeline O [] m = Some m.
Proof. exact no_options_identity_generic. Qed.
Print Assumptions C18_no_options_identity_generic.

(* on the modelled matrix type: the identity on every matrix without PDU containers, whatever the foreign operations are *)
Theorem C18_no_options_identity :
  forall X m, no_containers m -> pipeline (cops X) [] m = Some m.
Proof. exact no_options_identity. Qed.
Print Assumptions C18_no_options_identity.

(* the result does not depend on the order in which the options are given *)
Theorem C18_option_order_is_fixed :
  forall (M : Type) (O : ops M) cl cl' m, once cl -> Permutation cl cl' -> pipeline O cl m = pipeline O cl' m.
Proof. exact option_order_is_fixed. Qed.
Print Assumptions C18_option_order_is_fixed.

(* any command line: selection block, then the stages of the given options sorted by their position in convert(), then
   the PDU handling *)
Theorem C18_pipeline_is_sorted_composition :
  forall (M : Type) (O : ops M) cl m,
    pipeline O cl m =
    obind (select O cl m) (fun db => obind (run_list O (sorted_active cl) db) (fun db' => Some (o_pdu O (pdu_flag cl) db'))).
Proof. exact pipeline_is_sorted_composition. Qed.
Print Assumptions C18_pipeline_is_sorted_composition.

Theorem C18_pipeline_single_is_stage :
  forall (M : Type) (O : ops M) k a m,
    is_post k = true -> counts k a ->
    pipeline O [(k, a)] m = obind (stage O k a m) (fun m' => Some (o_pdu O false m')).
Proof. exact pipeline_single_is_stage. Qed.
Print Assumptions C18_pipeline_single_is_stage.

(* two options: stage_j (stage_i m) with i before j in the pipeline, for both orders on the command line *)
Theorem C18_pipeline_pair_is_composition :
  forall (M : Type) (O : ops M) k1 a1 k2 a2 m,
    is_post k1 = true -> is_post k2 = true -> (slot k1 < slot k2)%nat -> counts k1 a1 -> counts k2 a2 ->
    pipeline O [(k1, a1); (k2, a2)] m = pipeline O [(k2, a2); (k1, a1)] m /\
    pipeline O [(k1, a1); (k2, a2)] m =
      obind (stage O k1 a1 m) (fun m1 => obind (stage O k2 a2 m1) (fun m2 => Some (o_pdu O false m2))).
Proof. exact pipeline_pair_is_composition. Qed.
Print Assumptions C18_pipeline_pair_is_composition.

(* --ecus / --frames / --signals with a later option: the selection is done first *)
Theorem C18_selection_runs_first :
  forall (M : Type) (O : ops M) ks as_ k a m,
    is_selection ks = true -> is_post k = true -> counts k a ->
    pipeline O [(ks, as_); (k, a)] m = pipeline O [(k, a); (ks, as_)] m /\
    pipeline O [(ks, as_); (k, a)] m =
      obind (select O [(ks, as_)] m) (fun db => obind (stage O k a db) (fun m2 => Some (o_pdu O false m2))).
Proof. exact selection_runs_first. Qed.
Print Assumptions C18_selection_runs_first.

(* --ecus and --frames together fill ONE new matrix: the requested ECUs with their frames (pruned once), then the frames *)
Theorem C18_selection_pair_shares_target :
  forall (M : Type) (O : ops M) ae af m sel,
    ae <> [] -> af <> [] -> parse_ecus ae = Some sel ->
    select O [(KFrames, af); (KEcus, ae)] m =
    Some (fold_tot (fun n tg => match o_copy_frame_named O n m tg with Some x => x | None => tg end) (parse_list af)
            (o_prune_ecus O (map (fun e => fst (fst e)) sel) m
               (fold_tot (fun e t => o_copy_ecu_with_frames O (fst (fst e)) (snd (fst e)) (snd e) m t) sel (o_empty O)))).
Proof. exact selection_pair_shares_target. Qed.
Print Assumptions C18_selection_pair_shares_target.

(* an exception in an earlier stage: no output, whatever follows and in whatever order it was written *)
Theorem C18_pipeline_error_propagates :
  forall (M : Type) (O : ops M) k1 a1 k2 a2 m,
    is_post k1 = true -> is_post k2 = true -> (slot k1 < slot k2)%nat -> counts k1 a1 -> counts k2 a2 ->
    stage O k1 a1 m = None -> pipeline O [(k2, a2); (k1, a1)] m = None.
Proof. exact pipeline_error_propagates. Qed.
Print Assumptions C18_pipeline_error_propagates.

(* the stages of the tuple / list options are the loops over the parsed argument, calling the operation per item *)
Theorem C18_stage_rename_is_fold :
  forall (M : Type) (O : ops M) ps m,
    ps <> [] -> Forall (fun p => plain_name (fst p) /\ plain_name (snd p)) ps ->
    stage O KRenameSignal (render_pairs ps) m = fold_opt (fun p => o_rename_signal O (fst p) (snd p)) ps m /\
    stage O KRenameFrame (render_pairs ps) m = fold_opt (fun p => o_rename_frame O (fst p) (snd p)) ps m /\
    stage O KRenameEcu (render_pairs ps) m = Some (fold_tot (fun p => o_rename_ecu O (fst p) (snd p)) ps m).
Proof. exact stage_rename_signal_is_fold. Qed.
Print Assumptions C18_stage_rename_is_fold.

Theorem C18_stage_delete_is_fold :
  forall (M : Type) (O : ops M) l m,
    l <> [] -> Forall (no_char COMMA) l ->
    stage O KDeleteSignal (render_list l) m = Some (fold_tot (o_del_signal O) l m) /\
    stage O KDeleteFrame (render_list l) m = Some (fold_tot (o_del_frame O) l m) /\
    stage O KDeleteEcu (render_list l) m = Some (fold_tot (o_del_ecu O) l m) /\
    stage O KDeleteSignalAttributes (render_list l) m = Some (o_del_signal_attributes O l m) /\
    stage O KDeleteFrameAttributes (render_list l) m = Some (o_del_frame_attributes O l m).
Proof. exact stage_delete_is_fold. Qed.
Print Assumptions C18_stage_delete_is_fold.

Theorem C18_stage_tuple_missing_colon :
  forall (M : Type) (O : ops M) s m,
    no_char COLON s -> no_char COMMA s ->
    stage O KRenameEcu s m = None /\ stage O KRenameFrame s m = None /\ stage O KRenameSignal s m = None.
Proof. exact stage_tuple_missing_colon. Qed.
Print Assumptions C18_stage_tuple_missing_colon.

(* ================================================================================================================ *)
(* 3. the directly modelled options                                                                                  *)

(* skipLongDlc t: result frames = the frames with size <= t, each unchanged, order kept *)
Theorem C18_opt_skipLongDlc_effect :
  forall t m, frames_distinct m ->
    skip_long_dlc (render_int t) m = Some (set_cframes m (filter (fun f => cf_size f <=? t) (cm_frames m))).
Proof. exact skip_long_dlc_effect. Qed.
Print Assumptions C18_opt_skipLongDlc_effect.

Theorem C18_opt_skipLongDlc_bad_threshold :
  forall s m, parse_int s = None -> cm_frames m <> [] -> skip_long_dlc s m = None.
Proof. exact skip_long_dlc_bad_threshold. Qed.
Print Assumptions C18_opt_skipLongDlc_bad_threshold.

(* cutLongFrames t: frames with size <= t unchanged; the others keep exactly the signals with start + size <= 8t (order
   kept, each unchanged) and get the length calc_dlc computes from size 0; nothing else of the frame changes *)
Theorem C18_opt_cutLongFrames_effect :
  forall t m, signals_distinct m ->
    cut_long_frames (render_int t) m =
    Some (set_cframes m
            (map (fun f => if cf_size f <=? t then f
                           else let kept := filter (fun s => cs_start s + cs_size s <=? 8 * t) (cf_signals f) in
                                with_signals f kept (Z.max 0 (pdu_extra f (max_byte_c kept))))
                 (cm_frames m))).
Proof. exact cut_long_frames_effect. Qed.
Print Assumptions C18_opt_cutLongFrames_effect.

(* ... which for a plain frame is the smallest number of bytes covering every bit of the kept signals (Layout.covers, C16) *)
Theorem C18_opt_cutLongFrames_length_minimal :
  forall f kept,
    cf_pdus f = [] -> Forall (fun s => 0 <= cs_start s /\ 1 <= cs_size s) kept ->
    let n := Z.max 0 (pdu_extra f (max_byte_c kept)) in
    n = max_byte_c kept /\ Layout.covers n (map to_codec kept) /\
    forall k, 0 <= k -> Layout.covers k (map to_codec kept) -> n <= k.
Proof. exact cut_plain_frame_length_minimal. Qed.
Print Assumptions C18_opt_cutLongFrames_length_minimal.

(* setFrameFd / unsetFrameFd: exactly the named frames get the flag; unset also drops their VFrameFormat attribute *)
Theorem C18_opt_setFrameFd_effect :
  forall arg m, frames_distinct m -> frame_names_unique m ->
    set_frame_fd arg m =
    set_cframes m (map (fun f => if mem_name (cf_name f) (parse_list arg) then with_fd f true (cf_attrs f) else f) (cm_frames m)).
Proof. exact set_frame_fd_effect. Qed.
Print Assumptions C18_opt_setFrameFd_effect.

Theorem C18_opt_unsetFrameFd_effect :
  forall arg m, frames_distinct m -> frame_names_unique m ->
    unset_frame_fd arg m =
    set_cframes m (map (fun f => if mem_name (cf_name f) (parse_list arg)
                                 then with_fd f false (filter (fun kv => negb (fst kv =? A_VFrameFormat)) (cf_attrs f)) else f)
                       (cm_frames m)).
Proof. exact unset_frame_fd_effect. Qed.
Print Assumptions C18_opt_unsetFrameFd_effect.

(* a name that no frame carries now addresses nothing: after an earlier stage renamed the frame, its old name is such a name *)
Theorem C18_opt_fd_unknown_name_is_noop :
  forall n m, no_char COMMA n -> ~ In n (map cf_name (cm_frames m)) -> set_frame_fd n m = m /\ unset_frame_fd n m = m.
Proof. exact fd_options_unknown_name_noop. Qed.
Print Assumptions C18_opt_fd_unknown_name_is_noop.

(* frameIdIncrement n: every identifier number + n, nothing else *)
Theorem C18_opt_frameIdIncrement_effect :
  forall n m, frame_id_increment (render_int n) m = Some (set_cframes m (map (fun f => with_id f (cf_id f + n)) (cm_frames m))).
Proof. exact frame_id_increment_effect. Qed.
Print Assumptions C18_opt_frameIdIncrement_effect.

(* changeFrameId old:new,... : tuple by tuple, the first frame carrying the old number gets the new one (change_step) *)
Theorem C18_opt_changeFrameId_effect :
  forall ps m, ps <> [] ->
    change_frame_id (render_pairs (map render_id_pair ps)) m = Some (set_cframes m (fold_left change_step ps (cm_frames m))).
Proof. exact change_frame_id_effect. Qed.
Print Assumptions C18_opt_changeFrameId_effect.

(* with distinct identifier numbers one step changes exactly the frame that carries the old number, of whatever type *)
Theorem C18_opt_changeFrameId_step_exact :
  forall l old new, NoDup (map cf_uid l) -> NoDup (map cf_id l) ->
    change_step l (old, new) = map (fun f => if cf_id f =? old then with_id f new else f) l.
Proof. exact change_step_exact. Qed.
Print Assumptions C18_opt_changeFrameId_step_exact.

(* the code in /repo (ArbitrationId(int(old)): an 11-bit identifier) - false inside the envelope:
   a 29-bit frame with number 5 is not found; a 29-bit frame with number 2048 aborts the conversion *)
Theorem C18_opt_changeFrameId_effect_unfixed_refuted :
  (let m := mkCMatrix [ext_frame 5] 0 in
   frames_distinct m /\ frame_ids_unique m /\
   change_frame_id_unfixed (render_pairs [render_id_pair (5, 6)]) m = Some m /\
   change_frame_id (render_pairs [render_id_pair (5, 6)]) m = Some (mkCMatrix [ext_frame 6] 0)) /\
  (let m := mkCMatrix [ext_frame 2048] 0 in
   frames_distinct m /\ frame_ids_unique m /\
   change_frame_id_unfixed (render_pairs [render_id_pair (2048, 6)]) m = None /\
   change_frame_id (render_pairs [render_id_pair (2048, 6)]) m = Some (mkCMatrix [ext_frame 6] 0)).
Proof. exact change_frame_id_unfixed_refuted. Qed.
Print Assumptions C18_opt_changeFrameId_effect_unfixed_refuted.

(* ... and true of it on matrices of 11-bit frames for old numbers up to 0x7FF *)
Theorem C18_opt_changeFrameId_effect_unfixed_partial :
  forall ps m, ps <> [] -> Forall (fun p => 0 <= fst p <= 2047) ps -> Forall (fun f => cf_ext f = false) (cm_frames m) ->
    change_frame_id_unfixed (render_pairs (map render_id_pair ps)) m =
    Some (set_cframes m (fold_left change_step ps (cm_frames m))).
Proof. exact change_frame_id_unfixed_partial. Qed.
Print Assumptions C18_opt_changeFrameId_effect_unfixed_partial.

(* addFrameReceiver pattern:ecu : exactly the frames whose name matches are rewritten ... *)
Theorem C18_opt_addFrameReceiver_effect :
  forall pat ecu m, frames_distinct m -> plain_name pat -> plain_name ecu ->
    add_frame_receiver (render_pairs [(pat, ecu)]) m =
    Some (set_cframes m (map (fun f => if glob_match pat (cf_name f) then add_receiver_frame ecu f else f) (cm_frames m))).
Proof. exact add_frame_receiver_effect. Qed.
Print Assumptions C18_opt_addFrameReceiver_effect.

(* ... and in such a frame every signal lists the ECU (its other receivers kept), the frame's receivers are those of its
   signals, each once (EcuOps.nub: C11's frame_uptodate), and nothing else differs from the frame before *)
Theorem C18_opt_addFrameReceiver_frame :
  forall ecu f,
    let f' := add_receiver_frame ecu f in
    cf_signals f' = map (fun s => sig_with_receivers s (EcuOps.add_name ecu (cs_receivers s))) (cf_signals f) /\
    cf_receivers f' = EcuOps.nub (flat_map cs_receivers (cf_signals f')) /\
    (forall s, In s (cf_signals f) -> In ecu (EcuOps.add_name ecu (cs_receivers s)) /\
                                       forall x, In x (EcuOps.add_name ecu (cs_receivers s)) <-> x = ecu \/ In x (cs_receivers s)) /\
    with_receivers f' (cf_signals f) (cf_receivers f) = f.
Proof. exact add_receiver_frame_spec. Qed.
Print Assumptions C18_opt_addFrameReceiver_frame.

(* recalcDLC max / force / anything else *)
Theorem C18_opt_recalcDLC_effect :
  forall m,
    recalc_dlc_c s_max m = Some (set_cframes m (map (fun f => with_size f (calc_dlc_c f)) (cm_frames m))) /\
    (no_containers m ->
     recalc_dlc_c s_force m = Some (set_cframes m (map (fun f => with_size f (max_byte_c (cf_signals f))) (cm_frames m)))) /\
    (forall a, a <> s_max -> a <> s_force -> recalc_dlc_c a m = Some m).
Proof. exact recalc_dlc_effect. Qed.
Print Assumptions C18_opt_recalcDLC_effect.

(* for a plain frame the two lengths are Layout.recalc_frame 0 / 1, the functions C16_calc_dlc_never_shrinks and
   C16_recalc_force_is_minimal are about *)
Theorem C18_opt_recalcDLC_is_C16 :
  forall f, cf_pdus f = [] ->
    calc_dlc_c f = Layout.recalc_frame 0 (cf_size f) (map to_codec (cf_signals f)) /\
    max_byte_c (cf_signals f) = Layout.recalc_frame 1 (cf_size f) (map to_codec (cf_signals f)).
Proof. exact recalc_matches_layout. Qed.
Print Assumptions C18_opt_recalcDLC_is_C16.

(* ignorePduContainer: the container frames go, the others stay in order *)
Theorem C18_opt_ignorePduContainer_effect :
  forall m, frames_distinct m ->
    pdu_stage true m = set_cframes m (filter (fun f => negb (is_container f)) (cm_frames m)).
Proof. exact pdu_ignore_effect. Qed.
Print Assumptions C18_opt_ignorePduContainer_effect.

(* default: the other frames stay in order, the rewritten containers follow in their order *)
Theorem C18_opt_pduDefault_effect :
  forall m, frames_distinct m ->
    pdu_stage false m =
    set_cframes m (filter (fun f => negb (is_container f)) (cm_frames m) ++
                   map pdu_to_multiplexed (filter is_container (cm_frames m))).
Proof. exact pdu_default_effect. Qed.
Print Assumptions C18_opt_pduDefault_effect.

(* the rewrite of one frame: own signals (Header_ID marked as multiplexer when Header_DLC exists too), then every PDU's
   signals multiplexed by the PDU id and shifted behind the header; no PDUs left; one signal group per PDU; rest equal *)
Theorem C18_opt_pduDefault_frame :
  forall f,
    (is_container f = false -> pdu_to_multiplexed f = f) /\
    (is_container f = true ->
     let f' := pdu_to_multiplexed f in
     cf_signals f' = header_marked f ++ flat_map (pdu_moved (header_offset f)) (cf_pdus f) /\
     cf_pdus f' = [] /\ length (cf_groups f') = (length (cf_groups f) + length (cf_pdus f))%nat /\
     cf_uid f' = cf_uid f /\ cf_name f' = cf_name f /\ cf_id f' = cf_id f /\ cf_ext f' = cf_ext f /\ cf_size f' = cf_size f /\
     cf_fd f' = cf_fd f /\ cf_attrs f' = cf_attrs f /\ cf_receivers f' = cf_receivers f /\ cf_pay f' = cf_pay f).
Proof. exact pdu_rewrite_frame_effect. Qed.
Print Assumptions C18_opt_pduDefault_frame.

(* ================================================================================================================ *)
(* 4. options that are operations proved elsewhere (option -> operation: Convert.stage / Convert.select)              *)

(* --deleteZeroSignals = CanMatrix.delete_zero_signals *)
Theorem C18_opt_deleteZeroSignals_is_C17 :
  forall m, BulkOps.objects_distinct m ->
    BulkOps.delete_zero_signals m = BulkOps.on_signals (filter (fun s => negb (BulkOps.bs_size s =? 0))) m.
Proof. exact C17.C17_zero_signals_all_removed_nothing_else. Qed.
Print Assumptions C18_opt_deleteZeroSignals_is_C17.

(* --deleteObsoleteDefines = CanMatrix.delete_obsolete_defines *)
Theorem C18_opt_deleteObsoleteDefines_is_C17 :
  forall m,
    BulkOps.delete_obsolete_defines m =
    BulkOps.set_defines m (filter (BulkOps.used_by (BulkOps.bm_frames m) BulkOps.bf_attrs) (BulkOps.bm_fdefs m))
                          (filter (BulkOps.used_by (BulkOps.bm_ecus m) BulkOps.be_attrs) (BulkOps.bm_edefs m))
                          (filter (BulkOps.used_by (BulkOps.all_signals m) BulkOps.bs_attrs) (BulkOps.bm_sdefs m)).
Proof. exact C17.C17_obsolete_defines_exactly_unused. Qed.
Print Assumptions C18_opt_deleteObsoleteDefines_is_C17.

(* --deleteSignal a,b : del_signal(a); del_signal(b) *)
Theorem C18_opt_deleteSignal_is_C17 :
  forall pat m, BulkOps.objects_distinct m ->
    BulkOps.del_signal_glob pat m =
    BulkOps.on_signals (filter (fun s => negb (Glob_c17.glob_match pat (BulkOps.bs_name s)))) m.
Proof. exact C17.C17_del_signal_exactly_matching. Qed.
Print Assumptions C18_opt_deleteSignal_is_C17.

(* --renameSignal old:new *)
Theorem C18_opt_renameSignal_is_C17 :
  forall old new m, BulkOps.signal_names_unique m -> old <> [] ->
    BulkOps.rename_signal old new m =
    Some (BulkOps.on_signals (map (fun s => BulkOps.set_sname s (BulkOps.spec_rename old new (BulkOps.bs_name s)))) m).
Proof. exact C17.C17_rename_signal_prefix_suffix_exact. Qed.
Print Assumptions C18_opt_renameSignal_is_C17.

(* --renameFrame old:new *)
Theorem C18_opt_renameFrame_is_C17 :
  forall old new m, old <> [] ->
    BulkOps.rename_frame old new m =
    Some (BulkOps.set_frames m (map (fun f => BulkOps.set_fname f (BulkOps.spec_rename old new (BulkOps.bf_name f)))
                                    (BulkOps.bm_frames m))).
Proof. exact C17.C17_rename_frame_prefix_suffix_exact. Qed.
Print Assumptions C18_opt_renameFrame_is_C17.

(* --deleteFrame name *)
Theorem C18_opt_deleteFrame_is_C17 :
  forall n m, BulkOps.frame_names_unique m -> BulkOps.objects_distinct m ->
    BulkOps.del_frame_name n m =
    BulkOps.set_frames m (filter (fun f => negb (BulkOps.str_eqb (BulkOps.bf_name f) n)) (BulkOps.bm_frames m)).
Proof. exact C17.C17_del_frame_by_name. Qed.
Print Assumptions C18_opt_deleteFrame_is_C17.

(* --deleteSignalAttributes / --deleteFrameAttributes a,b *)
Theorem C18_opt_deleteAttributes_is_C17 :
  forall ks m,
    BulkOps.del_signal_attributes ks m =
      BulkOps.on_signals (map (fun s => BulkOps.set_sattrs s (filter (BulkOps.keeps ks) (BulkOps.bs_attrs s)))) m /\
    BulkOps.del_frame_attributes ks m =
      BulkOps.set_frames m (map (fun f => BulkOps.set_fattrs f (filter (BulkOps.keeps ks) (BulkOps.bf_attrs f)))
                                (BulkOps.bm_frames m)).
Proof. exact C17.C17_del_attributes_exact. Qed.
Print Assumptions C18_opt_deleteAttributes_is_C17.

(* several of these options on one command line: a history of the operations in pipeline order *)
Theorem C18_bulk_options_history_is_C17 :
  forall ops m, BulkOps.objects_distinct m -> BulkOps.history_ok ops m ->
    BulkOps.run_ops ops m = Some (fold_left (fun acc o => BulkOps.spec_op o acc) ops m).
Proof. exact C17.C17_bulk_history_exact. Qed.
Print Assumptions C18_bulk_options_history_is_C17.

(* --renameEcu old:new = rename_ecu(old, new): nothing happens for a name that is not listed ... *)
Theorem C18_opt_renameEcu_unlisted_is_C11 :
  forall m old new, ~ In old (EcuOps.listed m) -> EcuOps.rename_ecu_name old new m = m.
Proof. exact C11.C11_rename_unlisted_is_noop. Qed.
Print Assumptions C18_opt_renameEcu_unlisted_is_C11.

(* ... otherwise every reference of the three kinds follows the rename and nothing else changes *)
Theorem C18_opt_renameEcu_is_C11 :
  forall m i e new,
    EcuOps.wf m -> nth_error (EcuOps.ecus m) i = Some e -> ~ In new (EcuOps.refs3 m) ->
    let old := EcuOps.ename e in
    let m' := EcuOps.rename_ecu_at i new m in
    (length (EcuOps.ecus m') = length (EcuOps.ecus m) /\
     nth_error (EcuOps.ecus m') i = Some (EcuOps.mkEcu new (EcuOps.epay e)) /\
     (forall j, j <> i -> nth_error (EcuOps.ecus m') j = nth_error (EcuOps.ecus m) j)) /\
    Forall2 (EcuOps.renamed_frame old new) (EcuOps.frames m) (EcuOps.frames m') /\
    EcuOps.free m' = EcuOps.free m /\
    (new <> old -> ~ In old (EcuOps.refs3 m')) /\
    EcuOps.wf m'.
Proof. exact C11.C11_rename_replaces_all_refs. Qed.
Print Assumptions C18_opt_renameEcu_is_C11.

(* --deleteEcu name = del_ecu(name) (a glob pattern) *)
Theorem C18_opt_deleteEcu_is_C11 :
  forall m pat,
    EcuOps.wf m ->
    let m' := EcuOps.del_ecu_glob pat m in
    EcuOps.ecus m' = filter (fun e => negb (glob_match pat (EcuOps.ename e))) (EcuOps.ecus m) /\
    EcuOps.frames m' = map (EcuOps.map_refs (filter (fun x => negb (EcuOps.glob_hit pat m x)))) (EcuOps.frames m) /\
    EcuOps.free m' = EcuOps.free m /\
    EcuOps.refs3 m' = filter (fun x => negb (EcuOps.glob_hit pat m x)) (EcuOps.refs3 m) /\
    EcuOps.wf m'.
Proof. exact C11.C11_del_glob_hits_exactly_matches. Qed.
Print Assumptions C18_opt_deleteEcu_is_C11.

(* --deleteObsoleteEcus = delete_obsolete_ecus *)
Theorem C18_opt_deleteObsoleteEcus_is_C11 :
  forall m,
    EcuOps.wf m -> EcuOps.listed_literal m ->
    let m' := EcuOps.delete_obsolete_ecus m in
    EcuOps.ecus m' = filter (fun e => EcuOps.mem (EcuOps.ename e) (EcuOps.used_names m)) (EcuOps.ecus m) /\
    EcuOps.frames m' = EcuOps.frames m /\ EcuOps.free m' = EcuOps.free m.
Proof. exact C11.C11_obsolete_removes_exactly_unreferenced. Qed.
Print Assumptions C18_opt_deleteObsoleteEcus_is_C11.

(* --ecus E[:rx|:tx] = copy_ecu_with_frames(E, source, new matrix, rx, tx): exactly the frames E sends and/or receives *)
Theorem C18_opt_ecus_frame_set_is_C12 :
  forall g rx tx direct src t,
    CopySpec.ids_of (CopyOps.copy_ecu_with_frames g rx tx direct src t) =
    CopySpec.add_new_ids (CopySpec.ids_of t) (CopySpec.requested_ids g rx tx src).
Proof. exact C12.C12_copy_ecu_with_frames_frame_set. Qed.
Print Assumptions C18_opt_ecus_frame_set_is_C12.

Theorem C18_opt_ecus_requested_present_is_C12 :
  forall g rx tx direct src t e,
    In e (CopyOps.glob_ecus g src) ->
    CopyOps.ecu_by_name (CopyOps.e_name e) (CopyOps.m_ecus (CopyOps.copy_ecu_with_frames g rx tx direct src t)) <> None.
Proof. exact C12.C12_requested_ecu_present. Qed.
Print Assumptions C18_opt_ecus_requested_present_is_C12.

(* --frames F = copy_frame(id of F): the frame arrives field by field; an identifier the target has is refused *)
Theorem C18_opt_frames_is_C12 :
  forall id src t t',
    CopyOps.copy_frame id src t = (true, t') ->
    exists f f', CopyOps.frame_by_id id (CopyOps.m_frames src) = Some f /\ CopyOps.frame_by_id id (CopyOps.m_frames t) = None /\
                 CopyOps.m_frames t' = CopyOps.m_frames t ++ [f'] /\ CopySpec.frame_carried f f'.
Proof. exact C12.C12_copy_frame_carries_frame. Qed.
Print Assumptions C18_opt_frames_is_C12.

(* --signals S = copy_signal: a free signal equal to the source signal, effective attribute values included *)
Theorem C18_opt_signals_is_C12 :
  forall s src t,
    NoDup (CopySpec.keys (CopyOps.m_sdefs src)) ->
    exists s', CopyOps.m_sigs (CopyOps.copy_one_signal s src t) = CopyOps.m_sigs t ++ [s'] /\ CopySpec.signal_carried s s' /\
               CopySpec.values_from (CopyOps.eff_sig src s) (CopyOps.eff_sig (CopyOps.copy_one_signal s src t) s').
Proof. exact C12.C12_copy_signal_carries_signal_and_values. Qed.
Print Assumptions C18_opt_signals_is_C12.

(* --merge other = CanMatrix.merge: the frames of both, the first one wins on an identifier conflict *)
Theorem C18_opt_merge_is_C12 :
  forall srcs t,
    CopySpec.ids_of (CopyOps.merge srcs t) =
    CopySpec.add_new_ids (CopySpec.ids_of t) (flat_map (fun s => map CopyOps.fid (CopyOps.m_frames s)) srcs).
Proof. exact C12.C12_merge_frame_rule. Qed.
Print Assumptions C18_opt_merge_is_C12.

(* --recalcDLC on plain frames (through C18_opt_recalcDLC_is_C16) *)
Theorem C18_opt_recalcDLC_max_is_C16 :
  forall f sigs,
    Forall Layout.wellformed sigs ->
    let n := Layout.calc_dlc f sigs in
    f <= n /\ n = Z.max f (Layout.max_byte sigs) /\ Layout.covers n sigs /\
    (forall m, f <= m -> 0 <= m -> Layout.covers m sigs -> n <= m) /\
    Layout.recalc_frame 0 f sigs = n.
Proof. exact C16.C16_calc_dlc_never_shrinks. Qed.
Print Assumptions C18_opt_recalcDLC_max_is_C16.

Theorem C18_opt_recalcDLC_force_is_C16 :
  forall f sigs,
    Forall Layout.wellformed sigs ->
    let n := Layout.recalc_frame 1 f sigs in
    n = Layout.max_byte sigs /\ 0 <= n /\ Layout.covers n sigs /\ forall m, 0 <= m -> Layout.covers m sigs -> n <= m.
Proof. exact C16.C16_recalc_force_is_minimal. Qed.
Print Assumptions C18_opt_recalcDLC_force_is_C16.

(* --compressFrame F = Frame.compress: only start bits change *)
Theorem C18_opt_compressFrame_is_C16 :
  forall f sigs fuel r,
    0 <= f -> Forall (fun s => Layout.inside0 (8 * f) s = true) sigs ->
    Layout.compress fuel f sigs = Some r -> map Layout.shape r = map Layout.shape sigs.
Proof. exact C16.C16_compress_changes_only_start_bits. Qed.
Print Assumptions C18_opt_compressFrame_is_C16.

(* frame_by_id (used by copy_frame behind --ecus / --frames / --merge, and by --changeFrameId in /repo) answers like a scan
   of the current frame list whatever was looked up or changed before: the reason it is modelled as a scan here *)
Theorem C18_frame_by_id_is_scan_is_C10 :
  forall w i m id ext,
    Lookup.memo_inv w -> nth_error (Lookup.w_mats w) i = Some m ->
    exists r, snd (Lookup.step w (Lookup.FrameById i id ext)) = Lookup.RFound r /\
              Lookup.lookup_ok (Lookup.has_id (id, ext)) (Lookup.m_frames m) r /\
              (r = None <-> Lookup.first_such (Lookup.has_id (id, ext)) (Lookup.m_frames m) = None).
Proof. exact C10.C10_lookup_refines_scan_inv. Qed.
Print Assumptions C18_frame_by_id_is_scan_is_C10.

(* ================================================================================================================ *)
(* non-vacuity: three frames (12 bytes FD, 8 bytes, 4 bytes; the last one 29-bit).  The command line
   "--cutLongFrames 8 --changeFrameId 291:20 --skipLongDlc 5" satisfies the hypotheses of the theorems above; its stages
   run as changeFrameId, skipLongDlc, cutLongFrames although written in another order: the 29-bit frame is renumbered,
   frames 1 and 2 (12 and 8 bytes) are dropped by the threshold 5 BEFORE anything could be cut, nothing is left to cut.
   --cutLongFrames 8 alone keeps of frame 1 the signal that ends within 64 bits and the 2 bytes it needs. *)
Example C18_example :
  let s := fun u n st sz => mkCSig u n st sz true [] false None 0 in
  let f1 := mkCFrame 1 [65] 256 false 12 true [(A_VFrameFormat, 14)] [] [s 11 [97] 0 16; s 12 [98] 64 8] [] [] 0 in
  let f2 := mkCFrame 2 [66] 257 false 8 false [] [] [s 21 [99] 0 64] [] [] 0 in
  let f3 := mkCFrame 3 [67] 291 true 4 false [] [] [s 31 [100] 8 8] [] [] 0 in
  let m := mkCMatrix [f1; f2; f3] 7 in
  let cl := [(KCutLongFrames, render_int 8); (KChangeFrameId, render_pairs [render_id_pair (291, 20)]); (KSkipLongDlc, render_int 5)] in
  frames_distinct m /\ signals_distinct m /\ frame_names_unique m /\ frame_ids_unique m /\ no_containers m /\ once cl /\
  sorted_active cl = [(KChangeFrameId, [50; 57; 49; 58; 50; 48]); (KSkipLongDlc, [53]); (KCutLongFrames, [56])] /\
  pipeline (cops inert) cl m =
    Some (mkCMatrix [mkCFrame 3 [67] 20 true 4 false [] [] [s 31 [100] 8 8] [] [] 0] 7) /\
  pipeline (cops inert) [(KCutLongFrames, render_int 8)] m =
    Some (mkCMatrix [mkCFrame 1 [65] 256 false 2 true [(A_VFrameFormat, 14)] [] [s 11 [97] 0 16] [] [] 0; f2; f3] 7).
Proof.
  cbv zeta. repeat split; try (repeat constructor; cbn; intuition discriminate); vm_compute; reflexivity.
Qed.
