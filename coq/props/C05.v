(* C05  DBC round trip is lossless and its output is a fixed point.   PARTIAL BY DESIGN (DESIGN.md section 5/C05, section 7):
   the theorems are about model/FmtDbc.v - the mechanisms the round trip rests on and a statement-level model of the writer and
   the reader for the core subset.  That the regular expressions of dbc.load invert the string formatting of dbc.dump (text <->
   statements) is NOT proved; it is decided on the real code by the generative search of harness/p_c05.py.
   Statements only; every proof is `exact <lemma>`; Print Assumptions follows each.

   Intended full statement, kept visible (not proved as a whole):
     forall m, dbc_expressible_full m -> dbc_read (dbc_write m) = (m, 0 line errors) /\ dbc_write (dbc_read (dbc_write m)) = dbc_write m
   over ALL statement kinds (comments, attribute definitions/defaults/values, signal groups, environment variables, extended
   multiplexing ranges, long names, cycle times, initial values, CAN FD / J1939 frame formats).  Proved below: the composed theorem
   for the core subset (C05_dbc_core_roundtrip, C05_dbc_write_fixed_point) and, for the statement kinds outside it, the mechanism
   theorem of each (long names, ENUM keys, initial values, multiplex tokens incl. m<n>M, identifiers, start bits).
   Left out (no theorem): comments, signal groups, environment variables, SG_MUL_VAL_ ranges, attribute definitions and defaults. *)
From CM Require Import lib.Prelude model.Startbit model.ArbId model.FmtDbc proofs.C05_mech proofs.C05_core proofs.C05_num.

(* the DBC start bit (LSB0 number of the least significant bit for Intel, of the most significant bit for Motorola) read back
   gives the internal start bit again - every width, byte order and position *)
Theorem C05_dbc_startbit_roundtrip :
  forall le size i, 0 <= i -> dbc_read_start le size (dbc_write_start le size i) = Some i.
Proof. exact startbit_roundtrip. Qed.
Print Assumptions C05_dbc_startbit_roundtrip.

(* ... and writing what was read reproduces the number in the file (fixed point) *)
Theorem C05_dbc_startbit_fixed_point :
  forall le size n i, dbc_read_start le size n = Some i -> dbc_write_start le size i = n.
Proof. exact startbit_fixed_point. Qed.
Print Assumptions C05_dbc_startbit_fixed_point.

(* the number in the file denotes, in DBC's LSB0 numbering, the LSB (Intel) resp. MSB (Motorola) of the signal *)
Theorem C05_dbc_startbit_denotes :
  forall le size i, coord_lsb0 (dbc_write_start le size i) = bit_coord le size i (ref_bit le size false).
Proof. exact startbit_denotes. Qed.
Print Assumptions C05_dbc_startbit_denotes.

(* BO_ / BA_ / VAL_ ... identifiers: compound integer, lossless for 11-bit and 29-bit identifiers *)
Theorem C05_dbc_id_roundtrip :
  forall a, valid_ext a \/ valid_std a -> dbc_read_id (dbc_write_id a) = Some a.
Proof. exact id_roundtrip. Qed.
Print Assumptions C05_dbc_id_roundtrip.

(* the pseudo frame of signals without frame (0x40000000 + extended flag = BO_ 3221225472) comes back as the extended
   identifier 0: this is what the repaired reader tests for (fixes/C05_5_free_signals.patch) *)
Theorem C05_free_frame_id_reads_as_zero : dbc_read_id (dbc_write_id free_frame_id) = Some (0, true).
Proof. exact free_frame_id_reads_as_zero. Qed.
Print Assumptions C05_free_frame_id_reads_as_zero.

(* '%d' / int(): decimal text of every integer parses back *)
Theorem C05_int_text_roundtrip : forall z, text_int (int_text z) = Some z.
Proof. exact int_text_roundtrip. Qed.
Print Assumptions C05_int_text_roundtrip.

(* none, M, m<n>, m<n>M *)
Theorem C05_mux_token_roundtrip :
  forall r, mux_ok r -> parse_mux_token (mux_token r) = Some r.
Proof. exact mux_roundtrip. Qed.
Print Assumptions C05_mux_token_roundtrip.

(* names of any length within one scope where objects are addressed by their shortened name (ECUs, environment variables; signals
   of a frame when no two shortened names collide): shortened to 32 characters + System*LongSymbol attribute, restored by the reader.
   Premise, stated not hidden: the 32-character prefixes are unique within the scope. *)
Theorem C05_long_name_roundtrip :
  forall ns, NoDup (map short_name ns) -> r_names (w_short_names ns) (w_long_attrs ns) = ns.
Proof. exact long_names_roundtrip. Qed.
Print Assumptions C05_long_name_roundtrip.

(* the hypothesis is needed: two 33-character names with a common 32-character prefix do not survive *)
Theorem C05_long_name_roundtrip_needs_unique_prefixes :
  exists ns, NoDup ns /\ r_names (w_short_names ns) (w_long_attrs ns) <> ns.
Proof.
  exists [clash_a; clash_b]. split.
  - constructor; [intros [H|[]]; vm_compute in H; discriminate | constructor; [intros []|constructor]].
  - rewrite long_names_need_unique_prefixes. vm_compute. discriminate.
Qed.
Print Assumptions C05_long_name_roundtrip_needs_unique_prefixes.

(* Signals of one frame: dump disambiguates colliding shortened names by a numeric suffix on the SG_ symbol, so names that SHARE
   their first 32 characters survive as well.  Premises, stated not hidden: the suffixed symbols are pairwise distinct, and a name
   of at most 32 characters does not collide with another shortened name (it would keep the suffix: no attribute is written
   for it - C05_suffixed_needs_long_names, a recorded finding).  Frames are addressed by identifier (C05_long_name_roundtrip on a
   one-element scope); ECUs and environment variables have no disambiguation (C05_long_name_roundtrip as it stands). *)
Theorem C05_long_name_roundtrip_suffixed :
  forall ns, NoDup (w_out_names ns) ->
    (forall n, In n ns -> is_long n = false -> count_name (short_name n) (map short_name ns) = 1%nat) ->
    r_names (w_out_names ns) (w_out_attrs ns) = ns.
Proof. exact suffixed_names_roundtrip. Qed.
Print Assumptions C05_long_name_roundtrip_suffixed.

(* the two 33-character names with a common 32-character prefix, lost without the suffix, survive with it *)
Theorem C05_suffixed_shared_prefix_survives :
  r_names (w_out_names [clash_a; clash_b]) (w_out_attrs [clash_a; clash_b]) = [clash_a; clash_b].
Proof. exact suffixed_clash_ok. Qed.
Print Assumptions C05_suffixed_shared_prefix_survives.

Theorem C05_suffixed_needs_long_names :
  exists ns, NoDup ns /\ NoDup (w_out_names ns) /\ r_names (w_out_names ns) (w_out_attrs ns) <> ns.
Proof.
  exists [repeat 65 32; clash_a]. split; [|split].
  - constructor; [intros [H|[]]; vm_compute in H; discriminate | constructor; [intros []|constructor]].
  - vm_compute. constructor; [intros [H|[]]; discriminate | constructor; [intros []|constructor]].
  - rewrite suffixed_needs_long_names. vm_compute. discriminate.
Qed.
Print Assumptions C05_suffixed_needs_long_names.

(* ENUM attribute values: value -> key (index as decimal text) -> value, for every value of the define's list *)
Theorem C05_enum_keys_values_roundtrip :
  forall v vals, In v vals -> exists key, enum_to_key v vals = Some key /\ enum_to_value key vals = Some v.
Proof. exact enum_roundtrip. Qed.
Print Assumptions C05_enum_keys_values_roundtrip.

(* ... and key -> value -> the same key when the list is duplicate-free (fixed point of the written key) *)
Theorem C05_enum_values_keys_fixed_point :
  forall k v vals, NoDup vals -> enum_to_value (nat_text (N.of_nat k)) vals = Some v ->
    enum_to_key v vals = Some (nat_text (N.of_nat k)).
Proof. exact enum_fixed_point. Qed.
Print Assumptions C05_enum_values_keys_fixed_point.

(* initial value inside the limits and on the raw grid (I = O + r*F): GenSigStartValue = r, read back as r*F + O = I; an original
   that already carries the attribute carries the consistent one.  Integers scaled to a common power of ten. *)
Theorem C05_initial_value_roundtrip :
  forall attr_in I O F MIN MAX r,
    F <> 0 -> MIN <= I <= MAX -> I = O + r * F -> (attr_in = None \/ attr_in = Some r) ->
    read_initial (write_start_attr attr_in I O F MIN MAX) O F MIN MAX = I.
Proof. exact initial_roundtrip. Qed.
Print Assumptions C05_initial_value_roundtrip.

Theorem C05_start_attr_fixed_point :
  forall attr_in I O F MIN MAX,
    write_start_attr (write_start_attr attr_in I O F MIN MAX) I O F MIN MAX = write_start_attr attr_in I O F MIN MAX.
Proof. exact start_attr_fixed_point. Qed.
Print Assumptions C05_start_attr_fixed_point.

(* dbc.format_float: every finite Decimal (sign, digit string without leading zeros, any exponent: positional and scientific
   notation, exponents padded to three digits, trailing zeros, negative numbers) is rendered as a text that Decimal(text) parses
   to the same sign, digits and exponent - except that a trailing ".0" is cut, which gives the same value at exponent 0. *)
Theorem C05_format_float_parses_back :
  forall neg ds e, canonical ds ->
    exists ds' e', dec_parse (format_float (neg, ds, e)) = Some (neg, ds', e') /\
      ((ds' = ds /\ e' = e) \/ (e = -1 /\ e' = 0 /\ dval ds = 10 * dval ds')).
Proof. exact format_float_parse. Qed.
Print Assumptions C05_format_float_parses_back.

(* statement level, core subset (ECUs, value tables, frames, all senders, signals with placement, byte order, sign, float type,
   scaling, limits, unit, receivers, simple multiplexing, value descriptions): reading what was written gives the matrix back,
   with no "error with line no" and no logged line error, for every matrix in the envelope `dbc_expressible` (names of ECUs >= 2
   characters, no `Vector__XXX`, identifiers valid and unique, senders/receivers listed, signal names unique per frame, start bits
   >= 0, at most one multiplexer per frame, keys of value tables unique). *)
Theorem C05_dbc_core_roundtrip :
  forall m, dbc_expressible m -> dbc_read (dbc_write m) = (m, 0, 0).
Proof. exact core_roundtrip. Qed.
Print Assumptions C05_dbc_core_roundtrip.

Theorem C05_dbc_write_fixed_point :
  forall m, dbc_expressible m -> dbc_write (fst (fst (dbc_read (dbc_write m)))) = dbc_write m.
Proof. exact write_fixed_point. Qed.
Print Assumptions C05_dbc_write_fixed_point.

(* non-vacuity: a matrix in the envelope that uses every statement kind of the core subset (two value tables, an extended
   Motorola frame with two senders and simple multiplexing, a frame without sender and a signal without receiver, a float
   signal, value descriptions with a negative key) *)
Definition ex_A : text := [69; 49].         (* "E1" *)
Definition ex_B : text := [69; 50].         (* "E2" *)
Definition ex_matrix : matrix :=
  mkMatrix [ex_A; ex_B]
    [([86; 116; 49], [(0, [79; 102; 102]); (1, [79; 110])]); ([86; 116; 50], [])]
    [ mkFrame (0x18FEF100, true) [70; 49] 8 [ex_A; ex_B]
        [ mkSig [77; 120] 7 4 false false false (1, 0) (0, 0) (0, 0) (15, 0) [] [ex_B] MuxM [];
          mkSig [83; 49] 8 12 false true false (125, -3) (-40, 0) (-296, 0) (215875, -3) [107; 109; 47; 104] [ex_A; ex_B] (Muxm 3)
                [(-2, [108; 111]); (5, [104; 105])];
          mkSig [83; 50] 32 32 true false true (1, 0) (0, 0) (-1000, 0) (1000, 0) [] [] MuxNone [] ];
      mkFrame (0x123, false) [70; 50] 2 [] [ mkSig [83; 49] 0 16 true false false (1, 0) (0, 0) (0, 0) (65535, 0) [86] [ex_A] MuxNone [] ] ].

Ltac in_tac := let t := fresh "t" in let H := fresh "H" in intros t H; cbn [In] in *; tauto.
Ltac nodup_tac := repeat (constructor; [cbn [In]; unfold ex_A, ex_B; intuition discriminate|]); constructor.

Example C05_example_expressible_and_round_trips :
  dbc_expressible ex_matrix /\ dbc_read (dbc_write ex_matrix) = (ex_matrix, 0, 0) /\ length (dbc_write ex_matrix) = 12%nat.
Proof.
  split; [|split; vm_compute; reflexivity].
  unfold dbc_expressible, ex_matrix. cbn [m_ecus m_vtabs m_frames].
  split; [repeat constructor|].
  split; [intros [H|[H|[]]]; vm_compute in H; discriminate|].
  split; [cbn [map fst]; nodup_tac|].
  split; [repeat (apply Forall_cons || apply Forall_nil); unfold keys_nodup; cbn [map fst snd]; nodup_tac|].
  split; [cbn [map f_id]; nodup_tac|].
  repeat (apply Forall_cons || apply Forall_nil); unfold frame_expressible; cbn [f_id f_tx f_sigs].
  - split; [left; unfold valid_ext; cbn; split; [reflexivity|lia]|].
    split; [in_tac|]. split; [nodup_tac|]. split; [cbn [map s_name]; nodup_tac|].
    split; [unfold at_most_one_M; cbn; lia|].
    repeat (apply Forall_cons || apply Forall_nil); unfold sig_expressible, mux_ok, keys_nodup;
      cbn [s_start s_mux s_receivers s_values map fst];
      (split; [lia|]); (split; [try exact I; lia|]); (split; [intros n; discriminate|]); (split; [in_tac|nodup_tac]).
  - split; [right; unfold valid_std; cbn; split; [reflexivity|lia]|].
    split; [in_tac|]. split; [nodup_tac|]. split; [cbn [map s_name]; nodup_tac|].
    split; [unfold at_most_one_M; cbn; lia|].
    repeat (apply Forall_cons || apply Forall_nil); unfold sig_expressible, mux_ok, keys_nodup;
      cbn [s_start s_mux s_receivers s_values map fst];
      (split; [lia|]); (split; [try exact I; lia|]); (split; [intros n; discriminate|]); (split; [in_tac|nodup_tac]).
Qed.
