(* C19  One-way exports (Scapy, Wireshark, FIBEX, CSV, Canard) describe the same layout.   PARTIAL BY DESIGN:
   the theorems are about the numbers a writer emits for one signal (model/Exports.v: *_emit) read with the
   target tool's convention (model/Exports.v: *_positions / ws_read, trusted transcriptions).  The text around
   those numbers (Python/Lua/XML/CSV/JSON syntax, frame identifier and length, multiplexer conditions, decimal
   rendering of factor and offset) is checked by the harness on real writer output, not proved.
   Statements only; every proof is `exact <lemma>`; Print Assumptions follows each.
   All position lists: sequential MSB0 numbering (index into Codec.big), most significant bit first;
   spec_positions s = the signal's own bits, map (pos_of s) [size-1 .. 0]. *)
From CM Require Import lib.Prelude model.Startbit model.Codec model.Exports proofs.C19_exports.

(* ---- Scapy: SignalField(start=get_startbit(bit_numbering=1), size, fmt) ---- *)
(* every start, every width, both byte orders, any frame length (no bound appears) *)
Theorem C19_scapy_selects_signal_bits :
  forall s, scapy_positions (scapy_emit s) = spec_positions s.
Proof. exact scapy_selects. Qed.
Print Assumptions C19_scapy_selects_signal_bits.

Theorem C19_scapy_records_width_order_sign :
  forall s, sf_size (scapy_emit s) = s_size s /\
            scapy_reads_fmt (scapy_emit s) = (s_le s, s_signed s && negb (s_float s), s_float s).
Proof. exact scapy_records. Qed.
Print Assumptions C19_scapy_records_width_order_sign.

(* ---- Wireshark: pdu:bitfield(start,size) / reversed_pdu:bitfield(8*len-start-size,size) ---- *)
(* when the dissected payload has the frame's declared length (dlc = fsize): any length, any placement *)
Theorem C19_wireshark_selects_signal_bits :
  forall fsize s, ws_positions fsize (ws_emit fsize s) = spec_positions s.
Proof. exact ws_selects. Qed.
Print Assumptions C19_wireshark_selects_signal_bits.

(* the emitted Lua expression, evaluated on a payload of the declared length, is the convention's value of
   an integer signal (including the `- 2^size` branch) *)
Theorem C19_wireshark_reads_convention_value :
  forall d s v,
    inside (8 * zlen d) s = true -> s_float s = false ->
    convention_value d s = RInt v ->
    ws_read d (ws_emit (zlen d) s) = Some v.
Proof. exact ws_reads. Qed.
Print Assumptions C19_wireshark_reads_convention_value.

(* "if the first bit of the field is 1 subtract 2^n" is the two's complement reading of any n-bit field *)
Theorem C19_wireshark_sign_fixup_is_twos_complement :
  forall bits, bits <> [] ->
    let n := zlen bits in
    let u := bin_value bits in
    let v := if hd false bits then u - 2 ^ n else u in
    - 2 ^ (n - 1) <= v < 2 ^ (n - 1) /\ v mod 2 ^ n = u.
Proof. exact sign_fixup. Qed.
Print Assumptions C19_wireshark_sign_fixup_is_twos_complement.

Theorem C19_wireshark_records_width_order_sign :
  forall fsize s,
    wf_len (ws_emit fsize s) = s_size s /\ wf_rev (ws_emit fsize s) = s_le s /\
    wf_fix (ws_emit fsize s) =
      if s_signed s && negb (s_float s) then Some (wf_off (ws_emit fsize s), 2 ^ s_size s) else None.
Proof. exact ws_records. Qed.
Print Assumptions C19_wireshark_records_width_order_sign.

(* ---- FIBEX: BIT-POSITION = get_startbit(bit_numbering=1), IS-HIGH-LOW-BYTE-ORDER, read with the convention of
        canmatrix's own FIBEX importer (Intel: LSB position; Motorola: DBC-style position of the MSB) ---- *)
(* signal instances of a frame without multiplexer, and the SWITCH of a multiplexer (fix
   C19_fibex_switch_position writes it with the same expression): every placement, width, byte order *)
Theorem C19_fibex_selects_signal_bits :
  forall s, fibex_positions (fibex_emit s) = spec_positions s.
Proof. exact fibex_selects. Qed.
Print Assumptions C19_fibex_selects_signal_bits.

Theorem C19_fibex_records_width_order_sign :
  forall s, 1 <= s_size s <= 64 ->
    fx_len (fibex_emit s) = s_size s /\ fx_hilo (fibex_emit s) = negb (s_le s) /\
    fibex_reads_type (fibex_emit s) = (s_signed s && negb (s_float s), s_float s) /\
    s_size s <= fx_width (fibex_emit s).
Proof. exact fibex_records. Qed.
Print Assumptions C19_fibex_records_width_order_sign.

(* multiplexed frames (KNOWN FINDING fibex-mux-segment / fibex-mux-pdu-range): the signals of the dynamic and
   static part are written with frame positions into PDUs placed at SEGMENT-POSITION p.  Read as p + position,
   they select the signal's bits exactly when p = 0 ... *)
Theorem C19_fibex_segment_selects_iff_segment_at_0 :
  forall p s, 1 <= s_size s ->
    (fibex_positions (fibex_in_frame p (fibex_emit s)) = spec_positions s <-> p = 0).
Proof. exact fibex_segment_iff. Qed.
Print Assumptions C19_fibex_segment_selects_iff_segment_at_0.

(* ... so the property holds for the parts whose computed segment (seg_range mirrors
   get_multiplexing_parts_infos) starts at bit 0 ... *)
Theorem C19_fibex_mux_selects_signal_bits_partial :
  forall sigs s, fst (seg_range (-1, -1) sigs) = 0 ->
    fibex_positions (fibex_in_frame (fst (seg_range (-1, -1) sigs)) (fibex_emit s)) = spec_positions s.
Proof. exact fibex_mux_partial. Qed.
Print Assumptions C19_fibex_mux_selects_signal_bits_partial.

(* ... and fails otherwise: a static part holding one 9-bit Intel signal at bit 9 of a 3-byte frame gets the
   segment [9, 18) (a 2-byte PDU) and BIT-POSITION 9 inside it: read at 9 + 9 = 18 (positions 29..31, 16..21
   instead of 22, 23, 8..14), and the instance ends at bit 18 of a PDU that has 9 (16 with padding) bits *)
Theorem C19_fibex_mux_selects_signal_bits_refuted :
  exists sigs s, In s sigs /\ inside 24 s = true /\
    seg_range (-1, -1) sigs = (9, 18) /\ fx_pos (fibex_emit s) + fx_len (fibex_emit s) = 18 /\
    fibex_positions (fibex_in_frame 9 (fibex_emit s)) = [29; 30; 31; 16; 17; 18; 19; 20; 21] /\
    spec_positions s = [22; 23; 8; 9; 10; 11; 12; 13; 14].
Proof.
  exists [mkSignal 1 9 9 true true false], (mkSignal 1 9 9 true true false).
  split; [left; reflexivity|]. vm_compute. repeat split.
Qed.
Print Assumptions C19_fibex_mux_selects_signal_bits_refuted.

(* ---- CSV: byte/bit columns for each xlsMotorolaBitFormat (0 msb, 1 msbreverse, other lsb) ---- *)
Theorem C19_csv_selects_signal_bits :
  forall opt s, 0 <= s_start s -> 1 <= s_size s ->
    csv_positions opt (csv_emit opt s) = spec_positions s.
Proof. exact csv_selects. Qed.
Print Assumptions C19_csv_selects_signal_bits.

Theorem C19_csv_records_width_order_sign :
  forall opt s,
    cv_len (csv_emit opt s) = s_size s /\ cv_motorola (csv_emit opt s) = negb (s_le s) /\
    cv_signed (csv_emit opt s) = s_signed s.
Proof. exact csv_records. Qed.
Print Assumptions C19_csv_records_width_order_sign.

(* ---- Canard: key = LSB position, read little-endian by CANard ---- *)
Theorem C19_canard_selects_signal_bits_partial :
  forall s, s_le s = true \/ one_byte s = true ->
    canard_positions (canard_key s) (s_size s) = spec_positions s.
Proof. exact canard_selects. Qed.
Print Assumptions C19_canard_selects_signal_bits_partial.

(* the format has no byte order: a Motorola signal that crosses a byte boundary is misread *)
Theorem C19_canard_selects_signal_bits_refuted :
  exists s, inside 16 s = true /\
            canard_positions (canard_key s) (s_size s) = [20; 21; 22; 23; 8; 9; 10; 11] /\
            spec_positions s = [4; 5; 6; 7; 8; 9; 10; 11].
Proof. exists (mkSignal 1 4 8 false false false). vm_compute. repeat split. Qed.
Print Assumptions C19_canard_selects_signal_bits_refuted.

(* non-vacuity: a signed 11-bit Motorola signal and a 12-bit Intel signal in a 3-byte frame *)
Example C19_example :
  let m := mkSignal 1 5 11 false true false in
  let i := mkSignal 2 10 12 true false false in
  inside 24 m = true /\ inside 24 i = true /\ one_byte m = false /\
  spec_positions m = [5; 6; 7; 8; 9; 10; 11; 12; 13; 14; 15] /\
  spec_positions i = [18; 19; 20; 21; 22; 23; 8; 9; 10; 11; 12; 13] /\
  ws_emit 3 i = mkWs true 2 12 None /\ scapy_emit m = mkScapy 2 11 true 1 /\
  fibex_emit m = mkFx 2 true 11 1 16 /\ csv_emit 1 m = mkCsv 1 5 11 true true /\
  seg_range (-1, -1) [i; m] = (5, 22) /\
  ws_read [0xA5; 0x7F; 0x80] (ws_emit 3 m) = Some (-641).
Proof. vm_compute. repeat split. Qed.
