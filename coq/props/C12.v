(* C12  Copy and merge carry frames over completely and never disturb the target.
   Statements only; every proof is `exact <lemma>`; Print Assumptions follows each.
   Model: model/CopyOps.v (the repaired copy.py: cc0f6c0 + fixes/C12_copy_ecu_existing + fixes/C12_direct_ecu_only_by_name);
   vocabulary: model/CopySpec.v.  Envelope (visible hypotheses): ns_ok = attribute names are not shared across define
   categories (one namespace, as in DBC); dicts_ok = the define dicts have unique keys (they are dicts); signal names are
   unique within the copied frame (signal_by_name finds the first). *)
From CM Require Import lib.Prelude model.CopyOps model.CopySpec
  proofs.Copy_lib proofs.Copy_focus proofs.Copy_frame proofs.Copy_steps proofs.Copy_theorems proofs.Copy_ops
  proofs.Copy_weak proofs.Copy_requested proofs.Copy_witness.

(* ---- a frame whose identifier already exists in the target is refused and the target stays unchanged ---- *)
Theorem C12_copy_frame_refused_unchanged :
  forall id src t f,
    frame_by_id id (m_frames src) = Some f -> frame_by_id id (m_frames t) <> None ->
    copy_frame id src t = (false, t).
Proof. exact copy_frame_refused_unchanged. Qed.
Print Assumptions C12_copy_frame_refused_unchanged.

(* ... and only then *)
Theorem C12_copy_frame_refused_iff_present :
  forall id src t f,
    frame_by_id id (m_frames src) = Some f ->
    fst (copy_frame id src t) = is_none (frame_by_id id (m_frames t)).
Proof. exact copy_frame_result. Qed.
Print Assumptions C12_copy_frame_refused_iff_present.

(* ---- the new frame equals the source frame field by field: identifier, name, length, senders, comment, the remaining
        frame fields, every explicit attribute, and signal by signal name, layout/type/scaling, receivers, value table;
        it is appended behind the target's frames ---- *)
Theorem C12_copy_frame_carries_frame :
  forall id src t t',
    copy_frame id src t = (true, t') ->
    exists f f', frame_by_id id (m_frames src) = Some f /\ frame_by_id id (m_frames t) = None /\
                 m_frames t' = m_frames t ++ [f'] /\ frame_carried f f'.
Proof. exact copy_frame_carries_frame. Qed.
Print Assumptions C12_copy_frame_carries_frame.

(* ---- together with every ECU the frame references that the source defines, and every attribute definition the copied
        frame, its signals and those ECUs use (a definition the target did not have is the source's: definition string,
        type, default) ---- *)
Theorem C12_copy_frame_brings_ecus_and_defines :
  forall ns id src t t' f,
    ns_ok ns src -> dicts_ok src -> NoDup (map s_name (f_sigs f)) ->
    frame_by_id id (m_frames src) = Some f -> copy_frame id src t = (true, t') ->
    (forall n, In n (frame_refs f) -> ecu_by_name n (m_ecus src) <> None -> ecu_by_name n (m_ecus t') <> None) /\
    (forall a v, eff_frame src f a = Some v -> mem a (m_fdefs src) = true -> define_brought CFrame a src t t') /\
    (forall s a v, In s (f_sigs f) -> eff_sig src s a = Some v -> mem a (m_sdefs src) = true ->
        define_brought CSig a src t t') /\
    (forall n e a v, In n (frame_refs f) -> ecu_by_name n (m_ecus src) = Some e -> ecu_by_name n (m_ecus t) = None ->
        eff_ecu src e a = Some v -> mem a (m_edefs src) = true -> define_brought CEcu a src t t').
Proof. exact copy_frame_brings_ecus_and_defines. Qed.
Print Assumptions C12_copy_frame_brings_ecus_and_defines.

(* ---- the effective value of each attribute of the copied objects equals its value in the source: for the frame, for
        each of its signals (by position) and for each ECU it brought, whatever the target defined before (explicit value
        or default in the source x definition absent / equal default / other default / no default in the target) ---- *)
Theorem C12_copied_effective_values_equal_source :
  forall ns id src t t' f,
    ns_ok ns src -> dicts_ok src -> NoDup (map s_name (f_sigs f)) ->
    frame_by_id id (m_frames src) = Some f -> copy_frame id src t = (true, t') ->
    exists f', m_frames t' = m_frames t ++ [f'] /\
      values_from (eff_frame src f) (eff_frame t' f') /\
      Forall2 (fun s s' => values_from (eff_sig src s) (eff_sig t' s')) (f_sigs f) (f_sigs f') /\
      (forall n e, In n (frame_refs f) -> ecu_by_name n (m_ecus src) = Some e -> ecu_by_name n (m_ecus t) = None ->
         exists e', ecu_by_name n (m_ecus t') = Some e' /\ values_from (eff_ecu src e) (eff_ecu t' e')).
Proof. exact copied_effective_values_equal_source. Qed.
Print Assumptions C12_copied_effective_values_equal_source.

(* a copied free signal: appended to the target's free signals, carried field by field, with the source's values *)
Theorem C12_copy_signal_carries_signal_and_values :
  forall s src t,
    NoDup (keys (m_sdefs src)) ->
    exists s', m_sigs (copy_one_signal s src t) = m_sigs t ++ [s'] /\ signal_carried s s' /\
               values_from (eff_sig src s) (eff_sig (copy_one_signal s src t) s').
Proof. exact copy_one_signal_values. Qed.
Print Assumptions C12_copy_signal_carries_signal_and_values.

(* ---- objects already in the target keep the effective value of every attribute the target already defined ---- *)
(* copy_frame; the same for every operation below.  `keeps` says more: every object of the target is still there,
   structurally unchanged, in front of what was added, and every definition keeps its string, type and default. *)
Theorem C12_bystanders_keep_effective_values_copy_frame :
  forall ns id src t,
    ns_ok ns src -> ns_ok ns t ->
    keeps t (snd (copy_frame id src t)) /\ bystanders_keep_values t (snd (copy_frame id src t)).
Proof. exact copy_frame_bystanders. Qed.
Print Assumptions C12_bystanders_keep_effective_values_copy_frame.

(* every operation that does not delete ECUs: copy_frame, copy_ecu, copy_ecu_with_frames(direct_ecu_only=False),
   copy_signal, merge of any number of sources *)
Theorem C12_bystanders_keep_effective_values :
  forall ns o t,
    ns_ok ns t -> Forall (ns_ok ns) (op_sources o) -> op_deletes o = false ->
    keeps t (apply_op t o) /\ bystanders_keep_values t (apply_op t o).
Proof. exact op_bystanders. Qed.
Print Assumptions C12_bystanders_keep_effective_values.

(* the namespace hypothesis is necessary: a frame definition X in the source and a signal definition X in the target
   (add_define_default writes into every category that knows the name) *)
Theorem C12_shared_names_refuted :
  exists id src t, ~ bystanders_keep_values t (snd (copy_frame id src t)).
Proof. exact shared_names_refuted. Qed.
Print Assumptions C12_shared_names_refuted.

(* ---- all sequences of copies and merges ---- *)
Theorem C12_bystanders_over_histories :
  forall ns ops t,
    ns_ok ns t -> Forall (fun o => Forall (ns_ok ns) (op_sources o)) ops -> Forall (fun o => op_deletes o = false) ops ->
    keeps t (run_history t ops) /\ bystanders_keep_values t (run_history t ops).
Proof. exact history_bystanders. Qed.
Print Assumptions C12_bystanders_over_histories.

(* including copy_ecu_with_frames(direct_ecu_only=True): ECUs may be deleted (never altered) and ECU names struck from the
   transmitter / receiver lists of frames; every surviving object keeps every attribute value *)
Theorem C12_bystanders_over_all_histories :
  forall ns ops t,
    ns_ok ns t -> Forall (fun o => Forall (ns_ok ns) (op_sources o)) ops ->
    keeps_weakly t (run_history t ops) /\ bystanders_keep_values_weakly t (run_history t ops).
Proof. exact history_bystanders_weakly. Qed.
Print Assumptions C12_bystanders_over_all_histories.

(* ---- copying an ECU ---- *)
(* an ECU the target already lists is left alone (the repair of F-C12b) *)
Theorem C12_copy_ecu_leaves_existing_ecu_alone :
  forall e src t x, ecu_by_name (e_name e) (m_ecus t) = Some x -> copy_ecu_obj e src t = t.
Proof. exact copy_ecu_obj_present. Qed.
Print Assumptions C12_copy_ecu_leaves_existing_ecu_alone.

(* copying an ECU with its frames copies exactly the frames it sends and/or receives, as requested: the target's frame
   identifiers afterwards are the old ones followed by the requested ones that were not present yet, in request order *)
Theorem C12_copy_ecu_with_frames_frame_set :
  forall g rx tx direct src t,
    ids_of (copy_ecu_with_frames g rx tx direct src t) = add_new_ids (ids_of t) (requested_ids g rx tx src).
Proof. exact copy_ecu_with_frames_frame_set. Qed.
Print Assumptions C12_copy_ecu_with_frames_frame_set.

Theorem C12_add_new_ids_spec :
  forall req have,
    (exists l, add_new_ids have req = have ++ l) /\
    (forall i, In i (add_new_ids have req) <-> In i have \/ In i req).
Proof. exact add_new_ids_spec. Qed.
Print Assumptions C12_add_new_ids_spec.

(* the ECU that was asked for is in the target afterwards, also under direct_ecu_only (the repair of the by-value test) *)
Theorem C12_requested_ecu_present :
  forall g rx tx direct src t e,
    In e (glob_ecus g src) ->
    ecu_by_name (e_name e) (m_ecus (copy_ecu_with_frames g rx tx direct src t)) <> None.
Proof. exact requested_ecu_present. Qed.
Print Assumptions C12_requested_ecu_present.

(* ---- merging applies the frame rule to every frame of the merged matrices ---- *)
Theorem C12_merge_is_fold_of_copy_frame :
  forall srcs t,
    merge srcs t =
    fold_left (fun t src => merge_env src (fold_left (fun t f => snd (copy_frame (fid f) src t)) (m_frames src) t)) srcs t.
Proof. exact merge_is_fold_of_copy_frame. Qed.
Print Assumptions C12_merge_is_fold_of_copy_frame.

Theorem C12_merge_frame_rule :
  forall srcs t,
    ids_of (merge srcs t) = add_new_ids (ids_of t) (flat_map (fun s => map fid (m_frames s)) srcs).
Proof. exact merge_frame_rule. Qed.
Print Assumptions C12_merge_frame_rule.

(* ---- the hypotheses are satisfiable on a non-trivial instance: ECU, frame and signal definitions with other defaults in
        the target, bystanders of every kind; the copied objects have the source's value 2, the bystanders keep 1 ---- *)
Example C12_envelope_inhabited :
  ns_ok ex_ns ex_src /\ ns_ok ex_ns ex_tgt /\ dicts_ok ex_src /\
  copy_frame (16, false) ex_src ex_tgt <> (false, ex_tgt) /\
  let t' := snd (copy_frame (16, false) ex_src ex_tgt) in
  map (fun e => eff_ecu t' e 21) (m_ecus t') = [Some 1; Some 2] /\
  map (fun f => eff_frame t' f 11) (m_frames t') = [Some 1; Some 2] /\
  map (fun f => map (fun s => eff_sig t' s 1) (f_sigs f)) (m_frames t') = [[Some 1]; [Some 2]] /\
  m_err t' = false.
Proof. exact envelope_inhabited. Qed.
