(* stub, replaced below *)
From CM Require Import lib.Prelude model.CopyOps.
Theorem C12_stub : True. Proof. exact I. Qed.
Print Assumptions C12_stub.
