(* C15  Readers recover exactly what a well-formed file describes, whoever wrote it.   PARTIAL BY DESIGN.
   The theorems are about the readers' decode layer as modelled in model/Readers.v: number texts, attribute records with
   defaults, COMPU-METHOD coefficients, base-type encodings and the statement fold.  That the regular expressions and XML
   walks of the six readers accept every permitted spelling is not a theorem here (it is searched by harness/p_c15.py).
   Statements only; every proof is `exact <lemma>`; Print Assumptions follows each. *)
From Coq Require Import Permutation.
From CM Require Import lib.Prelude model.Readers proofs.C15_numbers proofs.C15_misc.

(* All renderings of one number that the formats permit - leading +, leading zeros, a bare or zero-padded fraction, exponent
   forms E/e with optional sign and leading zeros, the decimal point moved against the exponent (0.001, 1E-3, 1.0e-03,
   +0.00100, ...) - are accepted by Decimal(text) and denote the same value m*10^e (compared by cross-multiplication). *)
Theorem C15_number_renderings_equivalent :
  forall a b, same_number a b ->
    exists va vb, parse_dec (print a) = Some va /\ parse_dec (print b) = Some vb /\ dec_value_eq va vb.
Proof. exact number_renderings_equivalent. Qed.
Print Assumptions C15_number_renderings_equivalent.

(* what is parsed from a printed rendering is exactly the (sign, coefficient, exponent) it denotes *)
Theorem C15_parse_print :
  forall r, rend_ok r -> parse_dec (print r) = Some (rend_dec r).
Proof. exact parse_print. Qed.
Print Assumptions C15_parse_print.

(* utils.decode_number hands every rendering with a decimal point to the float factory and gets that value *)
Theorem C15_decode_number_on_renderings :
  forall r, rend_ok r -> r_dot r = true -> decode_number (print r) = Some (NDec (rend_dec r)).
Proof. exact decode_number_print_dot. Qed.
Print Assumptions C15_decode_number_on_renderings.

(* XML attribute order: looking a key up in an attribute list with unique keys is invariant under permutation,
   hence the decoded KCD signal is *)
Theorem C15_attr_order_irrelevant :
  forall (V : Type) (l l' : list (Z * V)), NoDup (map fst l) -> Permutation l l' -> forall k, lookup k l = lookup k l'.
Proof. exact attr_order_irrelevant. Qed.
Print Assumptions C15_attr_order_irrelevant.

Theorem C15_kcd_attr_order_irrelevant :
  forall sa sa' vi vi' vn vn',
    NoDup (map fst sa) -> NoDup (map fst vi) -> NoDup (map fst vn) ->
    Permutation sa sa' -> Permutation vi vi' -> Permutation vn vn' ->
    kcd_signal sa (Some (vi, vn)) = kcd_signal sa' (Some (vi', vn')).
Proof. exact kcd_attr_order_irrelevant. Qed.
Print Assumptions C15_kcd_attr_order_irrelevant.

(* optional KCD attributes left out = written with the documented default: length 1, little endian, unsigned, slope 1,
   intercept 0, no unit; a missing <Value> child = an empty one *)
Theorem C15_omitted_optional_is_default :
  forall sa vi vn,
    (lookup A_length sa = None -> kcd_signal sa (Some (vi, vn)) = kcd_signal ((A_length, 1) :: sa) (Some (vi, vn))) /\
    (lookup A_endianess sa = None -> kcd_signal sa (Some (vi, vn)) = kcd_signal ((A_endianess, LITTLE) :: sa) (Some (vi, vn))) /\
    (lookup V_type vi = None -> kcd_signal sa (Some (vi, vn)) = kcd_signal sa (Some ((V_type, T_unsigned) :: vi, vn))) /\
    (lookup V_slope vn = None -> kcd_signal sa (Some (vi, vn)) = kcd_signal sa (Some (vi, (V_slope, dec_one) :: vn))) /\
    (lookup V_intercept vn = None -> kcd_signal sa (Some (vi, vn)) = kcd_signal sa (Some (vi, (V_intercept, dec_zero) :: vn))) /\
    (lookup V_unit vi = None -> kcd_signal sa (Some (vi, vn)) = kcd_signal sa (Some ((V_unit, no_unit) :: vi, vn))) /\
    kcd_signal sa None = kcd_signal sa (Some ([], [])).
Proof. exact omitted_optional_is_default. Qed.
Print Assumptions C15_omitted_optional_is_default.

(* COMPU-METHOD: a linear scale (n0 + n1*x)/d with d <> 0, placed anywhere among text-table scales, yields
   factor = n1/d and offset = n0/d as exact rationals; the text-table scales do not disturb the scaling *)
Theorem C15_compu_method_with_denominator :
  forall pre post n0 n1 d v0 v1 vd ll ul lab cst c,
    Forall text_scale pre -> Forall text_scale post ->
    parse_dec (strip n0) = Some v0 -> parse_dec (strip n1) = Some v1 -> parse_dec (strip d) = Some vd ->
    dec_is_zero vd = false ->
    decode_compu_method (pre ++ [mkScale ll ul lab (Some ([n0; n1], [d])) cst] ++ post) = COk c ->
    cm_factor c = (v1, vd) /\ cm_offset c = (v0, vd).
Proof. exact compu_method_with_denominator. Qed.
Print Assumptions C15_compu_method_with_denominator.

(* ... and a denominator other than 1 is harmless: scaling numerator and denominator by the same k <> 0 gives the same ratio *)
Theorem C15_denominator_scaling_irrelevant :
  forall k a b, k <> 0 -> ratio_eq (dec_scale k a, dec_scale k b) (a, b).
Proof. exact denominator_scaling_irrelevant. Qed.
Print Assumptions C15_denominator_scaling_irrelevant.

(* SW-BASE-TYPE encodings decide sign and float-ness, whatever the base type is called *)
Theorem C15_base_type_encoding_sign :
  forall bt,
    eval_type_of_signal EncNONE bt = (false, false) /\
    eval_type_of_signal EncBOOLEAN bt = (false, false) /\
    eval_type_of_signal Enc2C bt = (true, false) /\
    snd (eval_type_of_signal EncIEEE754 bt) = true /\
    snd (eval_type_of_signal EncSINGLE bt) = true /\
    snd (eval_type_of_signal EncDOUBLE bt) = true.
Proof. exact base_type_encoding_sign. Qed.
Print Assumptions C15_base_type_encoding_sign.

(* statements of one DBC section that address different object slots may come in any order *)
Theorem C15_stmt_order_irrelevant_within_section :
  forall l l', NoDup (map st_key l) -> Permutation l l' -> forall m, sequiv (read_section l m) (read_section l' m).
Proof. exact stmt_order_irrelevant_within_section. Qed.
Print Assumptions C15_stmt_order_irrelevant_within_section.

(* non-vacuity: 0.001, 1E-3, 1.0e-03 and +0.00100 are related renderings and parse to equal values; a COMPU-METHOD with
   denominator 8; a permuted attribute list *)
Definition r_0_001 := mkRend SNone [0] true [0; 0; 1] ENone.                       (* 0.001 *)
Definition r_1E_3 := mkRend SNone [1] false [] (EExp true SMinus [3]).              (* 1E-3 *)
Definition r_10e_03 := mkRend SNone [1] true [0] (EExp false SMinus [0; 3]).        (* 1.0e-03 *)
Definition r_p0_00100 := mkRend SPlus [0] true [0; 0; 1; 0; 0] ENone.               (* +0.00100 *)
Example C15_example :
  same_number r_0_001 r_1E_3 /\ same_number r_1E_3 r_10e_03 /\
  print r_0_001 = [48; 46; 48; 48; 49] /\ print r_1E_3 = [49; 69; 45; 51] /\ print r_10e_03 = [49; 46; 48; 101; 45; 48; 51] /\
  parse_dec (print r_0_001) = Some (false, 1, -3) /\ parse_dec (print r_1E_3) = Some (false, 1, -3) /\
  parse_dec (print r_10e_03) = Some (false, 10, -4) /\ parse_dec (print r_p0_00100) = Some (false, 100, -5) /\
  dec_value_eqb (false, 1, -3) (false, 10, -4) = true /\ dec_value_eqb (false, 1, -3) (false, 100, -5) = true /\
  decode_number [49; 69; 45; 51] = Some (NDec (false, 1, -3)) /\ decode_number [48; 120; 49; 70] = Some (NInt 31) /\
  (exists c, decode_compu_method [mkScale (Some [48]) (Some [48]) (Some 7) None true;
                                  mkScale None None None (Some ([[45; 51; 50; 48]; [52]], [[56]])) false] = COk c /\
             cm_factor c = ((false, 4, 0), (false, 8, 0)) /\ cm_offset c = ((true, 320, 0), (false, 8, 0)) /\ cm_values c = [([48], 7)]) /\
  kcd_signal [(A_length, 12); (A_offset, 3)] None = kcd_signal [(A_offset, 3); (A_length, 12); (A_endianess, LITTLE)] (Some ([(V_type, T_unsigned)], [])).
Proof.
  split; [exact related_0_001_1E_3|]. split; [exact related_1E_3_10e_03|].
  vm_compute. repeat split. eexists. repeat split.
Qed.
