(* C14  Exporting never changes the matrix and is deterministic.   (partial by design: see harness/p_c14.py LEVEL_NOTE)
   Statements only; every proof is `exact <lemma>`; Print Assumptions follows each.
   `effect copies w m` = the caller's matrix after writer w ran on it; copies = true is the code with
   fixes/C14_{arxml,fibex,kcd}_copy.patch, copies = false the tree before them (model/ExportEffects.v). *)
From CM Require Import lib.Prelude model.ExportEffects proofs.C14_proofs.
From Coq Require Import Permutation Sorted.

(* ---- each writer leaves its argument as it was: for ALL matrices ---- *)
(* writers that only read, and dbc/dbf which deep-copy: whatever arxml and fibex do *)
Theorem export_effect_identity_csv : forall copies m, effect copies Csv m = m.
Proof. exact effect_identity_csv. Qed.
Print Assumptions export_effect_identity_csv.
Theorem export_effect_identity_dbc : forall copies m, effect copies Dbc m = m.
Proof. exact effect_identity_dbc. Qed.
Print Assumptions export_effect_identity_dbc.
Theorem export_effect_identity_dbf : forall copies m, effect copies Dbf m = m.
Proof. exact effect_identity_dbf. Qed.
Print Assumptions export_effect_identity_dbf.
Theorem export_effect_identity_json : forall copies m, effect copies Json m = m.
Proof. exact effect_identity_json. Qed.
Print Assumptions export_effect_identity_json.
Theorem export_effect_identity_json_all : forall copies m, effect copies JsonAll m = m.
Proof. exact effect_identity_json_all. Qed.
Print Assumptions export_effect_identity_json_all.
Theorem export_effect_identity_json_native : forall copies m, effect copies JsonNative m = m.
Proof. exact effect_identity_json_native. Qed.
Print Assumptions export_effect_identity_json_native.
Theorem export_effect_identity_scapy : forall copies m, effect copies Scapy m = m.
Proof. exact effect_identity_scapy. Qed.
Print Assumptions export_effect_identity_scapy.
Theorem export_effect_identity_sym : forall copies m, effect copies Sym m = m.
Proof. exact effect_identity_sym. Qed.
Print Assumptions export_effect_identity_sym.
Theorem export_effect_identity_wireshark : forall copies m, effect copies Wireshark m = m.
Proof. exact effect_identity_wireshark. Qed.
Print Assumptions export_effect_identity_wireshark.
Theorem export_effect_identity_xls : forall copies m, effect copies Xls m = m.
Proof. exact effect_identity_xls. Qed.
Print Assumptions export_effect_identity_xls.

(* arxml, fibex: identity once they work on a copy (the fixes) ... *)
Theorem export_effect_identity_arxml : forall m, effect true Arxml m = m.
Proof. exact (effect_copies_identity Arxml). Qed.
Print Assumptions export_effect_identity_arxml.
Theorem export_effect_identity_fibex : forall m, effect true Fibex m = m.
Proof. exact (effect_copies_identity Fibex). Qed.
Print Assumptions export_effect_identity_fibex.
(* kcd: since /repo b679340 the CanCluster it builds keeps its merged view in objects of its own; with or without the deep copy *)
Theorem export_effect_identity_kcd : forall copies m, effect copies Kcd m = m.
Proof. exact effect_identity_kcd. Qed.
Print Assumptions export_effect_identity_kcd.

(* ... and NOT on the tree before the fixes (findings F-C14a, b) *)
Theorem export_effect_identity_arxml_unfixed_refuted : exists m, effect false Arxml m <> m.
Proof. exact arxml_unfixed_refuted. Qed.
Print Assumptions export_effect_identity_arxml_unfixed_refuted.
Theorem export_effect_identity_fibex_unfixed_refuted : exists m, effect false Fibex m <> m.
Proof. exact fibex_unfixed_refuted. Qed.
Print Assumptions export_effect_identity_fibex_unfixed_refuted.
(* CanCluster's own view (cluster.frames / cluster.signals) is NOT the member matrix when names repeat - which is why it must live in
   objects of its own (before b679340 it was built in the member's objects: the recorded, fixed defect of kcd.dump) *)
Theorem cluster_view_equals_members_refuted : exists m, cluster_view m <> m.
Proof. exact cluster_view_refuted. Qed.
Print Assumptions cluster_view_equals_members_refuted.
(* unique frame names do not save KCD: equally named signals in two frames are merged as well *)
Theorem cluster_view_equals_members_refuted_by_signal_names :
  exists m, NoDup (frame_names m) /\ cluster_view m <> m.
Proof. exact cluster_view_refuted_signals. Qed.
Print Assumptions cluster_view_equals_members_refuted_by_signal_names.

(* the unfixed tree inside the envelope that excludes each finding *)
Theorem export_effect_identity_arxml_unfixed_partial :
  forall m, receivers_propagated m -> effect false Arxml m = m.
Proof. exact arxml_propagate_id. Qed.
Print Assumptions export_effect_identity_arxml_unfixed_partial.
Theorem export_effect_identity_fibex_unfixed_partial :
  forall m, NoDup (frame_names m) -> effect false Fibex m = m.
Proof. exact fibex_rename_id. Qed.
Print Assumptions export_effect_identity_fibex_unfixed_partial.
Theorem cluster_view_equals_members_partial :
  forall m, NoDup (frame_names m) -> NoDup (signal_names m) -> cluster_view m = m.
Proof. exact cluster_update_id. Qed.
Print Assumptions cluster_view_equals_members_partial.

(* ---- a later export sees the matrix the first one saw: any history of exports, any rendering function ---- *)
Theorem export_history_identity : forall ws m, after_exports true ws m = m.
Proof. exact after_exports_identity. Qed.
Print Assumptions export_history_identity.

Theorem second_export_equals_first :
  forall (Bytes : Type) (render : writer -> matrix -> Bytes) (ws : list writer) (b : writer) (m : matrix),
    render b (after_exports true ws m) = render b m.
Proof. exact second_export_equals_first_lemma. Qed.
Print Assumptions second_export_equals_first.

(* exports interleaved with arbitrary in-place edits of the same object: a later export renders the matrix that the edits
   alone produce, i.e. what an equal matrix edited the same way but never exported gives.  (The model's writers have no state
   besides the matrix; that the real ones keep none - no module-level cache surviving a dump - is what harness/p_c14.py's
   export/edit/export probe runs, it is not proved.) *)
Theorem export_after_edits_equals_fresh :
  forall (Bytes : Type) (render : writer -> matrix -> Bytes) (steps : list step) (b : writer) (m : matrix),
    render b (run_steps true steps m) = render b (run_steps true (edits_only steps) m).
Proof. exact export_after_edits_equals_fresh_lemma. Qed.
Print Assumptions export_after_edits_equals_fresh.

Theorem second_export_equals_first_unfixed_refuted :
  exists a b m, view b (effect false a m) <> view b m.
Proof. exact second_export_unfixed_refuted. Qed.
Print Assumptions second_export_equals_first_unfixed_refuted.

Theorem second_export_equals_first_unfixed_partial :
  forall (Bytes : Type) (render : writer -> matrix -> Bytes) (ws : list writer) (b : writer) (m : matrix),
    receivers_propagated m -> NoDup (frame_names m) ->
    render b (after_exports false ws m) = render b m.
Proof. exact second_export_unfixed_partial_lemma. Qed.
Print Assumptions second_export_equals_first_unfixed_partial.

(* ---- determinism of the SYM writer's Mux groups ---- *)
(* after fixes/C14_sym_sorted.patch the blocks do not depend on the order in which the set of multiplexer values is walked *)
Theorem sym_mux_order_permutation_invariant :
  forall sigs l l', Permutation l l' -> sym_emit l sigs = sym_emit l' sigs.
Proof. exact sym_emit_perm. Qed.
Print Assumptions sym_mux_order_permutation_invariant.

(* ... in particular for any two iterations of set([a.multiplex for a in frame.signals]) *)
Theorem sym_mux_order_iteration_invariant :
  forall sigs l l', iteration_of sigs l -> iteration_of sigs l' -> sym_emit l sigs = sym_emit l' sigs.
Proof. exact sym_emit_iteration. Qed.
Print Assumptions sym_mux_order_iteration_invariant.

(* what `sorted` is taken to be: the ascending rearrangement *)
Theorem sym_sorted_is_sorted_permutation : forall l, Sorted Z.le (isort l) /\ Permutation (isort l) l.
Proof. exact isort_spec. Qed.
Print Assumptions sym_sorted_is_sorted_permutation.

(* before the fix: two iterations of the same set give different blocks (F-C14d) *)
Theorem sym_mux_order_permutation_invariant_unfixed_refuted :
  exists sigs l l', iteration_of sigs l /\ iteration_of sigs l' /\ sym_emit_in_order l sigs <> sym_emit_in_order l' sigs.
Proof. exact sym_unfixed_refuted. Qed.
Print Assumptions sym_mux_order_permutation_invariant_unfixed_refuted.

(* the hypotheses are satisfiable on a non-trivial instance: a matrix with propagated receivers, unique frame and
   signal names on which all three normalisations run and change nothing; and the SYM blocks of a frame with two groups *)
Example envelope_inhabited :
  let m := [mkFrame [65] [1] [2; 3] [mkSignal 5 [2]; mkSignal 6 [3]]; mkFrame [66] [1; 4] [3] [mkSignal 7 [3]]] in
  receivers_propagated m /\ NoDup (frame_names m) /\ NoDup (signal_names m) /\
  after_exports false [Arxml; Fibex; Kcd; Sym] m = m /\
  sym_emit [MInt 9; MMultiplexor; MInt 1; MNone] wit_sigs = [(1, true, [2; 3]); (9, false, [2; 4])].
Proof.
  cbv zeta. split; [|split; [|split; [|split; reflexivity]]].
  - intros f Hf s r Hs Hr. cbn [In] in Hf.
    destruct Hf as [Hf | [Hf | []]]; subst f; cbn [f_signals f_receivers In] in *;
      repeat (destruct Hs as [Hs | Hs]; [subst s; cbn [s_receivers In] in Hr; tauto|]); destruct Hs.
  - cbn. repeat (constructor; [cbn [In]; intros Hc; repeat (destruct Hc as [Hc | Hc]; [discriminate Hc|]); exact Hc|]). constructor.
  - cbn. repeat (constructor; [cbn [In]; intros Hc; repeat (destruct Hc as [Hc | Hc]; [discriminate Hc|]); exact Hc|]). constructor.
Qed.
