(* C16  Layout utilities agree with the codec: usage map, dummies, length, compress.
   Statements only; every proof is `exact <lemma>`; Print Assumptions follows each.
   Vocabulary: `occupies s p` (Codec.v) = payload bit p, in sequential MSB-first numbering (= index into the usage
   map), carries a bit of signal s; C01 proves that these are exactly the bits the decoded value depends on.
   `inside N s` = start >= 0, width >= 1, end <= N in the signal's own numbering; `inside0` also allows width 0. *)
From CM Require Import lib.Prelude model.Codec model.Layout
  proofs.C16_layout proofs.C16_dummy proofs.C16_dlc proofs.C16_compress.

(* ---- usage map ---- *)

(* Any frame length, any number of signals in any mix of byte orders, overlapping or not: the usage map has one
   cell per payload bit and cell p lists exactly the signals of the frame that occupy bit p. *)
Theorem C16_layout_lists_exactly_dependents :
  forall f sigs,
    0 <= f -> Forall (fun s => inside (8 * f) s = true) sigs ->
    zlen (get_frame_layout f sigs) = 8 * f /\
    forall p s, 0 <= p < 8 * f ->
      (In s (nth (Z.to_nat p) (get_frame_layout f sigs) []) <-> In s sigs /\ occupies s p).
Proof. exact layout_lists_exactly_dependents. Qed.
Print Assumptions C16_layout_lists_exactly_dependents.

(* The same against the decoder itself: for two payloads that differ in bit p and nowhere else, the signals whose
   decoded raw value differs are exactly the ones listed in cell p. *)
Theorem C16_layout_lists_value_dependents :
  forall f sigs d d' p s,
    zlen d = f -> zlen d' = f ->
    Forall (fun s => inside (8 * f) s = true /\ float_ok s) sigs -> In s sigs ->
    0 <= p < 8 * f ->
    (forall q, q <> p -> mbit d q = mbit d' q) -> mbit d p <> mbit d' p ->
    (In s (nth (Z.to_nat p) (get_frame_layout f sigs) []) <->
     decode_signal d (8 * f) s <> decode_signal d' (8 * f) s).
Proof. exact layout_lists_value_dependents. Qed.
Print Assumptions C16_layout_lists_value_dependents.

(* ---- dummy signals ---- *)

(* for every frame whatsoever: the existing signals stay first, in order and unchanged; what is added is Motorola *)
Theorem C16_dummy_keeps_existing :
  forall name f sigs,
    exists ds, create_dummy_signals name f sigs = sigs ++ ds /\ Forall (fun t => s_le t = false) ds.
Proof. exact dummy_keeps_existing. Qed.
Print Assumptions C16_dummy_keeps_existing.

(* no overlap before => afterwards all signals lie inside the frame, none overlap, and every payload bit belongs
   to exactly one of them *)
Theorem C16_dummy_partitions_bits :
  forall name f sigs,
    0 <= f -> Forall (fun s => inside (8 * f) s = true) sigs -> pairwise_disjoint sigs ->
    let r := create_dummy_signals name f sigs in
    Forall (fun s => inside (8 * f) s = true) r /\
    pairwise_disjoint r /\
    forall p, 0 <= p < 8 * f -> exactly_one r p.
Proof. exact dummy_partitions_bits. Qed.
Print Assumptions C16_dummy_partitions_bits.

(* ---- frame length ---- *)

(* calc_dlc takes start+size in the signal's own numbering for both byte orders (LSB0 end for Intel, sequential
   MSB0 end for Motorola).  For both this is the smallest byte count n such that every occupied payload bit lies
   in bytes 0..n-1 (`covers`), equivalently such that every signal is `inside` 8n bits. *)
Theorem C16_calc_dlc_minimal_cover :
  forall sigs,
    Forall wellformed sigs ->
    let n := max_byte sigs in
    0 <= n /\ covers n sigs /\ Forall (fun s => inside (8 * n) s = true) sigs /\
    forall m, 0 <= m -> covers m sigs -> n <= m.
Proof. exact calc_dlc_minimal_cover. Qed.
Print Assumptions C16_calc_dlc_minimal_cover.

(* Frame.calc_dlc and recalc_dlc("max"): never below the declared length; the smallest covering length that is
   not below it *)
Theorem C16_calc_dlc_never_shrinks :
  forall f sigs,
    Forall wellformed sigs ->
    let n := calc_dlc f sigs in
    f <= n /\ n = Z.max f (max_byte sigs) /\ covers n sigs /\
    (forall m, f <= m -> 0 <= m -> covers m sigs -> n <= m) /\
    recalc_frame 0 f sigs = n.
Proof. exact calc_dlc_never_shrinks. Qed.
Print Assumptions C16_calc_dlc_never_shrinks.

(* recalc_dlc("force"): the minimal cover whatever was declared (may shrink) *)
Theorem C16_recalc_force_is_minimal :
  forall f sigs,
    Forall wellformed sigs ->
    let n := recalc_frame 1 f sigs in
    n = max_byte sigs /\ 0 <= n /\ covers n sigs /\ forall m, 0 <= m -> covers m sigs -> n <= m.
Proof. exact recalc_force_is_minimal. Qed.
Print Assumptions C16_recalc_force_is_minimal.

(* fit_dlc: least permitted CAN FD length not below the size, for every size 0..64; larger sizes (and sizes up to
   8, including negative ones) are left alone *)
Theorem C16_fit_dlc_smallest_fd_length :
  forall size,
    (0 <= size <= 64 ->
       In (fit_dlc size) fd_lengths /\ size <= fit_dlc size /\
       forall m, In m fd_lengths -> size <= m -> fit_dlc size <= m) /\
    (64 < size -> fit_dlc size = size) /\
    (size <= 8 -> fit_dlc size = size).
Proof. exact fit_dlc_smallest_fd_length. Qed.
Print Assumptions C16_fit_dlc_smallest_fd_length.

(* matrix level (CanMatrix.recalc_dlc, any strategy, any number of frames in any order): the new size of a frame is
   what the strategy gives for that frame alone - no frame before or after it matters *)
Theorem C16_recalc_dlc_frame_by_frame :
  forall strategy before f sigs after,
    let r := recalc_dlc strategy (before ++ (f, sigs) :: after) in
    length r = length (before ++ (f, sigs) :: after) /\
    nth (length before) r 0 = recalc_frame strategy f sigs /\
    r = recalc_dlc strategy before ++ recalc_dlc strategy [(f, sigs)] ++ recalc_dlc strategy after.
Proof. exact recalc_dlc_frame_by_frame. Qed.
Print Assumptions C16_recalc_dlc_frame_by_frame.

Theorem C16_set_fd_types_frame_by_frame :
  forall before f fd after,
    let r := set_fd_types (before ++ (f, fd) :: after) in
    length r = length (before ++ (f, fd) :: after) /\
    nth (length before) r false = (fd || (8 <? f)).
Proof. exact set_fd_types_frame_by_frame. Qed.
Print Assumptions C16_set_fd_types_frame_by_frame.

Theorem C16_set_fd_type_spec :
  forall f is_fd, set_fd_type f is_fd = (is_fd || (8 <? f)).
Proof. exact set_fd_type_spec. Qed.
Print Assumptions C16_set_fd_type_spec.

(* ---- compress ---- *)

(* Termination, for every frame whose signals lie inside it (any mix of byte orders, overlapping or not, zero
   widths allowed): each round of either loop lowers the sum of the start bits by at least one, so
   1 + sum of start bits rounds suffice; with that much fuel or more the model never reports out-of-fuel and
   the answer does not depend on the fuel. *)
Theorem C16_compress_terminates :
  forall f sigs fuel,
    0 <= f -> Forall (fun s => inside0 (8 * f) s = true) sigs -> (compress_fuel sigs <= fuel)%nat ->
    exists r, compress fuel f sigs = Some r /\ compress (compress_fuel sigs) f sigs = Some r.
Proof. exact compress_terminates. Qed.
Print Assumptions C16_compress_terminates.

(* only start bits change: name, width, byte order, signedness, float flag and the order of the signal list stay *)
Theorem C16_compress_changes_only_start_bits :
  forall f sigs fuel r,
    0 <= f -> Forall (fun s => inside0 (8 * f) s = true) sigs ->
    compress fuel f sigs = Some r -> map shape r = map shape sigs.
Proof. exact compress_changes_only_start_bits. Qed.
Print Assumptions C16_compress_changes_only_start_bits.

(* one byte order, no overlap: widths and byte orders kept, and signal i starts before signal j afterwards
   exactly when it did before *)
Theorem C16_compress_keeps_sizes_orders :
  forall f le sigs fuel r,
    0 <= f -> Forall (fun s => inside (8 * f) s = true) sigs -> Forall (fun s => s_le s = le) sigs ->
    pairwise_disjoint sigs -> compress fuel f sigs = Some r ->
    map shape r = map shape sigs /\ same_order (map s_start sigs) (map s_start r).
Proof. exact compress_keeps_sizes_orders. Qed.
Print Assumptions C16_compress_keeps_sizes_orders.

Theorem C16_compress_no_overlap :
  forall f le sigs fuel r,
    0 <= f -> Forall (fun s => inside (8 * f) s = true) sigs -> Forall (fun s => s_le s = le) sigs ->
    pairwise_disjoint sigs -> compress fuel f sigs = Some r ->
    Forall (fun s => inside (8 * f) s = true) r /\ pairwise_disjoint r.
Proof. exact compress_no_overlap. Qed.
Print Assumptions C16_compress_no_overlap.

(* no unused bit before a used one, counted in the frame's byte order: n, m are LSB0 bit numbers for an Intel
   frame and sequential MSB0 numbers for a Motorola frame; walk_pos turns them into payload positions *)
Theorem C16_compress_no_gap_before_last :
  forall f le sigs fuel r,
    0 <= f -> Forall (fun s => inside0 (8 * f) s = true) sigs -> Forall (fun s => s_le s = le) sigs ->
    compress fuel f sigs = Some r ->
    forall n m, 0 <= n < m -> used r (walk_pos le m) -> used r (walk_pos le n).
Proof. exact compress_no_gap_before_last. Qed.
Print Assumptions C16_compress_no_gap_before_last.

(* non-vacuity: a 2-byte frame with a byte-crossing Motorola signal and an Intel signal: usage map, dummies that
   complete the partition, minimal length 2, FD fit 9 -> 12; an Intel frame and a Motorola frame with gaps are
   compressed within the default fuel *)
Example C16_example :
  let m := mkSignal 1 5 4 false false false in
  let i := mkSignal 2 13 2 true false false in
  inside 16 m = true /\ inside 16 i = true /\
  map (map s_name) (get_frame_layout 2 [m; i]) = [[]; []; []; []; []; [1]; [1]; [1]; [1]; [2]; [2]; []; []; []; []; []] /\
  dummies 2 [m; i] = [(0, 5); (11, 5)] /\
  max_byte [m; i] = 2 /\ calc_dlc 1 [m; i] = 2 /\ calc_dlc 8 [m; i] = 8 /\ fit_dlc 9 = 12 /\
  option_map (map s_start)
    (compress (compress_fuel [mkSignal 1 3 4 true false false; mkSignal 2 9 5 true false false]) 2
              [mkSignal 1 3 4 true false false; mkSignal 2 9 5 true false false]) = Some [0; 4] /\
  option_map (map s_start)
    (compress (compress_fuel [mkSignal 1 10 3 false false false; mkSignal 2 2 5 false false false]) 2
              [mkSignal 1 10 3 false false false; mkSignal 2 2 5 false false false]) = Some [5; 0].
Proof. vm_compute. repeat split. Qed.
