(* Hand model of the mechanisms the DBC round trip rests on (src/canmatrix/formats/dbc.py dump ~109-475, load ~482-1024,
   canmatrix.py enum_attribs_to_keys/values ~2443-2478, Signal.phys2raw ~426) and a statement-level model of the
   writer and the reader for the core subset.  Definitions only.

   The model follows the code WITH the repairs of /verif/fixes/C05_*.patch (GenSigStartValue defined before the
   signal loop and written for raw 0 when the initial value is not 0; free-signal frame recognised by the reader).

   Text is `list Z` of character codes.  What is NOT modelled: the regular expressions and %-formatting that map
   statements to bytes (tested by the harness, see harness/p_c05.py), comments, attribute definitions, signal groups,
   environment variables, SG_MUL_VAL_ ranges. *)
From CM Require Import lib.Prelude model.Startbit model.ArbId.
From Coq Require Import DecimalN.

Definition text := list Z.

Fixpoint text_eqb (a b : text) : bool :=
  match a, b with
  | [], [] => true
  | x :: a', y :: b' => (x =? y) && text_eqb a' b'
  | _, _ => false
  end.

(* ------------------------------------------------------------------------------------------------------------ *)
(* 1. start bit: dump writes signal.get_startbit(bit_numbering=1); load builds Signal(start_bit=n) and, for
      Motorola signals only, calls set_startbit(n, bitNumbering=1)  (dbc.py ~304, ~587-589, ~641-643) *)
Definition dbc_write_start (le : bool) (size i : Z) : Z := get_startbit le size i (Some 1) false.
Definition dbc_read_start (le : bool) (size n : Z) : option Z :=
  if le then Some n else set_startbit false size n (Some 1) false.

(* 2. identifiers: "BO_ %d" % arbitration_id.to_compound_integer(); Frame(arbitration_id=int(...)) converts with
      ArbitrationId.from_compound_integer (None = ArbitrationIdOutOfRange -> "error with line no") *)
Definition dbc_write_id (a : arbid) : Z := to_compound_integer a.
Definition dbc_read_id (c : Z) : option arbid := from_compound_integer c.
(* the pseudo frame of signals without frame: id 0x40000000, extended (set field by field, dump ~158-163) *)
Definition free_frame_id : arbid := (1073741824, true).

(* ------------------------------------------------------------------------------------------------------------ *)
(* 3. decimal integer text ('%d' % n, str(n), int(text)) over character codes *)
Fixpoint uint_codes (d : Decimal.uint) : text :=
  match d with
  | Decimal.Nil => []
  | Decimal.D0 r => 48 :: uint_codes r | Decimal.D1 r => 49 :: uint_codes r | Decimal.D2 r => 50 :: uint_codes r
  | Decimal.D3 r => 51 :: uint_codes r | Decimal.D4 r => 52 :: uint_codes r | Decimal.D5 r => 53 :: uint_codes r
  | Decimal.D6 r => 54 :: uint_codes r | Decimal.D7 r => 55 :: uint_codes r | Decimal.D8 r => 56 :: uint_codes r
  | Decimal.D9 r => 57 :: uint_codes r
  end.
Fixpoint codes_uint (l : text) : option Decimal.uint :=
  match l with
  | [] => Some Decimal.Nil
  | c :: r =>
      match codes_uint r with
      | None => None
      | Some d =>
          if c =? 48 then Some (Decimal.D0 d) else if c =? 49 then Some (Decimal.D1 d) else
          if c =? 50 then Some (Decimal.D2 d) else if c =? 51 then Some (Decimal.D3 d) else
          if c =? 52 then Some (Decimal.D4 d) else if c =? 53 then Some (Decimal.D5 d) else
          if c =? 54 then Some (Decimal.D6 d) else if c =? 55 then Some (Decimal.D7 d) else
          if c =? 56 then Some (Decimal.D8 d) else if c =? 57 then Some (Decimal.D9 d) else None
      end
  end.
Definition nat_text (n : N) : text := uint_codes (N.to_uint n).
(* int(''): ValueError -> None.  Only plain digit strings are modelled (Python also accepts '+', '_', blanks). *)
Definition text_nat (l : text) : option N :=
  match l with
  | [] => None
  | _ => match codes_uint l with Some d => Some (N.of_uint d) | None => None end
  end.
Definition int_text (z : Z) : text := if z <? 0 then 45 :: nat_text (Z.to_N (- z)) else nat_text (Z.to_N z).
Definition text_int (l : text) : option Z :=
  match l with
  | [] => None
  | c :: r =>
      if c =? 45 then match text_nat r with Some n => Some (- Z.of_N n) | None => None end
      else match text_nat l with Some n => Some (Z.of_N n) | None => None end
  end.

(* ------------------------------------------------------------------------------------------------------------ *)
(* 4. multiplex token between the signal name and ':' in an SG_ line.
      dump ~295-302: "m%d" if mux_val is not None; "M " if multiplex == 'Multiplexor'.
      load ~599-615: 'M' -> multiplexer; trailing 'M' -> multiplexed multiplexer; int(token[1:]) *)
Inductive mux_role := MuxNone | MuxM | Muxm (n : Z) | MuxmM (n : Z).
Definition role_of (mux_val : option Z) (multiplexor : bool) : mux_role :=
  match mux_val, multiplexor with
  | None, false => MuxNone | None, true => MuxM | Some n, false => Muxm n | Some n, true => MuxmM n
  end.
Definition mux_token (r : mux_role) : text :=
  match r with
  | MuxNone => []
  | MuxM => [77]
  | Muxm n => 109 :: int_text n
  | MuxmM n => 109 :: int_text n ++ [77]
  end.
(* None = the line raises ('error decoding line' -> "error with line no") *)
Definition parse_mux_token (t : text) : option mux_role :=
  match t with
  | [] => Some MuxNone                                     (* first pattern of load: no token at all *)
  | _ =>
      if text_eqb t [77] then Some MuxM
      else
        let cplx := last t 0 =? 77 in
        let body := if cplx then removelast t else t in
        match text_int (tl body) with                      (* multiplex[1:] - whatever the first character is *)
        | Some n => Some (if cplx then MuxmM n else Muxm n)
        | None => None
        end
  end.
Definition mux_ok (r : mux_role) : Prop :=
  match r with Muxm n | MuxmM n => 0 <= n | _ => True end.

(* ------------------------------------------------------------------------------------------------------------ *)
(* 5. names longer than 32 characters (ECUs ~180-183, frames ~202-207, signals ~211-216, env vars ~166-170):
      the object is written under name[0:32] and a BA_ "System...LongSymbol" <object by its short name> "<name>"
      statement carries the full name; the reader attaches the attribute to the FIRST object of that (short) name in
      its scope and renames every object that has the attribute (load ~949-977). *)
Definition short_name (n : text) : text := firstn 32 n.
Definition is_long (n : text) : bool := (32 <? length n)%nat.
(* writer: objects of one scope in order, and the long-symbol statements *)
Definition w_short_names (ns : list text) : list text := map short_name ns.
Definition w_long_attrs (ns : list text) : list (text * text) :=
  flat_map (fun n => if is_long n then [(short_name n, n)] else []) ns.
(* reader *)
Definition nobj := (text * option text)%type.           (* (name as read, LongSymbol attribute) *)
Fixpoint set_first_attr (k v : text) (os : list nobj) : list nobj :=
  match os with
  | [] => []                                              (* object not found: the statement has no effect here *)
  | (n, a) :: r => if text_eqb n k then (n, Some v) :: r else (n, a) :: set_first_attr k v r
  end.
Definition r_names (shorts : list text) (attrs : list (text * text)) : list text :=
  map (fun o => match snd o with Some l => l | None => fst o end)
      (fold_left (fun os kv => set_first_attr (fst kv) (snd kv) os) attrs (map (fun n => (n, None)) shorts)).

(* ------------------------------------------------------------------------------------------------------------ *)
(* 6. ENUM attributes: dump stores str(values.index(v)) (ValueError -> None), load values[int(float(key))] *)
Fixpoint index_of (v : text) (vals : list text) : option nat :=
  match vals with
  | [] => None
  | x :: r => if text_eqb x v then Some O else match index_of v r with Some k => Some (S k) | None => None end
  end.
Definition enum_to_key (v : text) (vals : list text) : option text :=
  match index_of v vals with Some k => Some (nat_text (N.of_nat k)) | None => None end.
Definition enum_to_value (key : text) (vals : list text) : option text :=
  match text_nat key with Some k => nth_error vals (N.to_nat k) | None => None end.

(* ------------------------------------------------------------------------------------------------------------ *)
(* 7. initial values (integer signals).  All decimals of one signal are scaled to a common power of ten by the
      caller: I = initial value, O = offset, F = factor (<> 0), MIN, MAX.  round(): Decimal.__round__ = half even.
      The 28-digit rounding of the quotient before round() is not modelled (exact on the raw grid). *)
Definition round_half_even_div (a b : Z) : Z :=
  let b' := Z.abs b in
  let a' := a * Z.sgn b in
  let q := a' / b' in
  let r := a' mod b' in
  if 2 * r <? b' then q else if b' <? 2 * r then q + 1 else if Z.even q then q else q + 1.
(* Signal.phys2raw(None): the initial value, or min when it lies outside the limits *)
Definition phys2raw_none (I O F MIN MAX : Z) : Z :=
  let v := if (MIN <=? I) && (I <=? MAX) then I else MIN in
  round_half_even_div (v - O) F.
(* the GenSigStartValue attribute a signal ends up with in dump (define without default; attr_in = the signal's own
   attribute before the export) *)
Definition write_start_attr (attr_in : option Z) (I O F MIN MAX : Z) : option Z :=
  let r := phys2raw_none I O F MIN MAX in
  if negb (r =? 0) || (negb (I =? 0) && match attr_in with None => true | Some _ => false end)
  then Some r else attr_in.
(* load ~966-973: a fresh Signal has initial_value 0; without attribute the raw value of physical 0 is assumed *)
Definition read_initial (attr : option Z) (O F MIN MAX : Z) : Z :=
  let raw := match attr with Some r => r | None => phys2raw_none 0 O F MIN MAX end in
  raw * F + O.

(* ------------------------------------------------------------------------------------------------------------ *)
(* 8. statement-level model, core subset.  Matrices are in normal form: dict-valued fields (value tables, signal
      values) are lists sorted by key, as the writer emits them. *)
Definition num := (Z * Z)%type.                        (* a Decimal as (signed coefficient, exponent); carried as a token *)
Definition rows := list (Z * text).

Record signal := mkSig {
  s_name : text; s_start : Z; s_size : Z; s_le : bool; s_signed : bool; s_float : bool;
  s_factor : num; s_offset : num; s_min : num; s_max : num; s_unit : text; s_receivers : list text;
  s_mux : mux_role; s_values : rows }.
Record frame := mkFrame { f_id : arbid; f_name : text; f_size : Z; f_tx : list text; f_sigs : list signal }.
Record matrix := mkMatrix { m_ecus : list text; m_vtabs : list (text * rows); m_frames : list frame }.

Inductive stmt :=
| St_BU (ecus : list text)
| St_VAL_TABLE (n : text) (r : rows)
| St_BO (cid : Z) (n : text) (size : Z) (tx : text)
| St_SG (n : text) (mux : mux_role) (start size : Z) (le signed : bool) (factor offset mn mx : num) (unit : text)
        (recv : list text)
| St_BO_TX_BU (cid : Z) (txs : list text)
| St_VAL (cid : Z) (sg : text) (r : rows)
| St_SIG_VALTYPE (cid : Z) (sg : text) (ty : Z).

Definition vector_xxx : text := [86; 101; 99; 116; 111; 114; 95; 95; 88; 88; 88].
Definition fill (l : list text) : list text := match l with [] => [vector_xxx] | _ => l end.
Definition is_M (r : mux_role) : bool := match r with MuxM => true | _ => false end.

(* ---- writer (dump ~272-330, 333-335, 425-449) ---- *)
Definition w_sig (s : signal) : stmt :=
  St_SG (s_name s) (s_mux s) (dbc_write_start (s_le s) (s_size s) (s_start s)) (s_size s) (s_le s) (s_signed s)
        (s_factor s) (s_offset s) (s_min s) (s_max s) (s_unit s) (fill (s_receivers s)).
(* `if signal.multiplex == 'Multiplexor' and multiplex_written and not frame.is_complex_multiplexed: continue`
   (frames of the core subset are not complex multiplexed) *)
Fixpoint w_sigs (written : bool) (l : list signal) : list stmt :=
  match l with
  | [] => []
  | s :: r => if is_M (s_mux s) && written then w_sigs written r
              else w_sig s :: w_sigs (written || is_M (s_mux s)) r
  end.
Definition w_frame (f : frame) : list stmt :=
  St_BO (dbc_write_id (f_id f)) (f_name f) (f_size f) (hd vector_xxx (fill (f_tx f))) :: w_sigs false (f_sigs f).
Definition w_tx (f : frame) : list stmt :=
  if (1 <? length (fill (f_tx f)))%nat then [St_BO_TX_BU (dbc_write_id (f_id f)) (fill (f_tx f))] else [].
Definition w_vals (f : frame) : list stmt :=
  flat_map (fun s => match s_values s with [] => [] | v => [St_VAL (dbc_write_id (f_id f)) (s_name s) v] end) (f_sigs f).
Definition w_valtypes (f : frame) : list stmt :=
  flat_map (fun s => if s_float s then [St_SIG_VALTYPE (dbc_write_id (f_id f)) (s_name s) (if 32 <? s_size s then 2 else 1)]
                     else []) (f_sigs f).
Definition dbc_write (m : matrix) : list stmt :=
  St_BU (m_ecus m) :: map (fun t => St_VAL_TABLE (fst t) (snd t)) (m_vtabs m)
  ++ flat_map w_frame (m_frames m) ++ flat_map w_tx (m_frames m)
  ++ flat_map w_vals (m_frames m) ++ flat_map w_valtypes (m_frames m).

(* ---- reader (load) ---- *)
(* rs_cur: the `frame` variable of load (index into rs_frames); rs_err: "error with line no" prints;
   rs_log: logger.error("Error with Line ...") calls *)
Record rstate := mkRS { rs_ecus : list text; rs_vtabs : list (text * rows); rs_frames : list frame;
                        rs_cur : option nat; rs_err : Z; rs_log : Z }.
Definition rs0 : rstate := mkRS [] [] [] None 0 0.

Fixpoint find_last_idx {A} (p : A -> bool) (l : list A) : option nat :=
  match l with
  | [] => None
  | x :: r => match find_last_idx p r with
              | Some i => Some (S i)
              | None => if p x then Some O else None
              end
  end.
Fixpoint find_first_idx {A} (p : A -> bool) (l : list A) : option nat :=
  match l with
  | [] => None
  | x :: r => if p x then Some O else match find_first_idx p r with Some i => Some (S i) | None => None end
  end.
Fixpoint upd_nth {A} (i : nat) (g : A -> A) (l : list A) : list A :=
  match l, i with
  | [], _ => []
  | x :: r, O => g x :: r
  | x :: r, S j => x :: upd_nth j g r
  end.
(* dict assignment d[k] = v on an association list in insertion order *)
Fixpoint assoc_set {K V} (eqb : K -> K -> bool) (k : K) (v : V) (l : list (K * V)) : list (K * V) :=
  match l with
  | [] => [(k, v)]
  | (k', v') :: r => if eqb k' k then (k', v) :: r else (k', v') :: assoc_set eqb k v r
  end.
(* frames_by_id[hash((id, extended))] = frame: the last frame read with that identifier *)
Definition frame_idx_by_id (a : arbid) (fs : list frame) : option nat :=
  find_last_idx (fun f => arbid_eqb (f_id f) a) fs.
(* Frame.signal_by_name: the first signal of that name *)
Definition sig_idx_by_name (n : text) (sgs : list signal) : option nat :=
  find_first_idx (fun s => text_eqb (s_name s) n) sgs.
Definition add_unique (x : text) (l : list text) : list text := if existsb (text_eqb x) l then l else l ++ [x].
Definition set_frames (st : rstate) (fs : list frame) : rstate :=
  mkRS (rs_ecus st) (rs_vtabs st) fs (rs_cur st) (rs_err st) (rs_log st).
Definition set_cur (st : rstate) (c : option nat) : rstate :=
  mkRS (rs_ecus st) (rs_vtabs st) (rs_frames st) c (rs_err st) (rs_log st).
Definition line_error (st : rstate) : rstate :=
  mkRS (rs_ecus st) (rs_vtabs st) (rs_frames st) (rs_cur st) (rs_err st + 1) (rs_log st).
Definition log_error (st : rstate) : rstate :=
  mkRS (rs_ecus st) (rs_vtabs st) (rs_frames st) (rs_cur st) (rs_err st) (rs_log st + 1).

Definition r_stmt (st : rstate) (s : stmt) : rstate :=
  match s with
  | St_BU names =>                                       (* `if len(ele.strip()) > 1: db.ecus.append(Ecu(ele))` *)
      mkRS (rs_ecus st ++ filter (fun n => (1 <? length n)%nat) names) (rs_vtabs st) (rs_frames st) (rs_cur st)
           (rs_err st) (rs_log st)
  | St_VAL_TABLE n r =>                                  (* value_hash[key] = label; db.value_tables[name] = ... *)
      mkRS (rs_ecus st)
           (assoc_set text_eqb n (fold_left (fun acc kv => assoc_set Z.eqb (fst kv) (snd kv) acc) r []) (rs_vtabs st))
           (rs_frames st) (rs_cur st) (rs_err st) (rs_log st)
  | St_BO cid n size tx =>
      match dbc_read_id cid with
      | None => line_error st                            (* ArbitrationIdOutOfRange: `frame` keeps its old value *)
      | Some a => mkRS (rs_ecus st) (rs_vtabs st) (rs_frames st ++ [mkFrame a n size [tx] []])
                       (Some (length (rs_frames st))) (rs_err st) (rs_log st)
      end
  | St_SG n mux start size le signed factor offset mn mx unit recv =>
      match rs_cur st, dbc_read_start le size start with
      | Some i, Some internal =>
          set_frames st (upd_nth i (fun f => mkFrame (f_id f) (f_name f) (f_size f) (f_tx f)
               (f_sigs f ++ [mkSig n internal size le signed false factor offset mn mx unit recv mux []])) (rs_frames st))
      | _, _ => line_error st                            (* frame is None / StartbitLowerZero *)
      end
  | St_BO_TX_BU cid txs =>
      match dbc_read_id cid with
      | None => line_error st
      | Some a =>
          match frame_idx_by_id a (rs_frames st) with
          | None => line_error (set_cur st None)         (* frame = None; None.add_transmitter raises *)
          | Some i => set_cur (set_frames st (upd_nth i (fun f => mkFrame (f_id f) (f_name f) (f_size f)
                                (fold_left (fun acc t => add_unique t acc) txs (f_tx f)) (f_sigs f)) (rs_frames st))) (Some i)
          end
      end
  | St_VAL cid sg r =>                                   (* inner try/except: logger.error, no line error *)
      match dbc_read_id cid with
      | None => log_error st
      | Some a =>
          match frame_idx_by_id a (rs_frames st) with
          | None => log_error (set_cur st None)
          | Some i =>
              set_cur (set_frames st (upd_nth i (fun f =>
                  match sig_idx_by_name sg (f_sigs f) with
                  | None => f                            (* `if sg:` *)
                  | Some j => mkFrame (f_id f) (f_name f) (f_size f) (f_tx f)
                      (upd_nth j (fun s => mkSig (s_name s) (s_start s) (s_size s) (s_le s) (s_signed s) (s_float s)
                         (s_factor s) (s_offset s) (s_min s) (s_max s) (s_unit s) (s_receivers s) (s_mux s)
                         (fold_left (fun acc kv => assoc_set Z.eqb (fst kv) (snd kv) acc) r (s_values s))) (f_sigs f))
                  end) (rs_frames st))) (Some i)
          end
      end
  | St_SIG_VALTYPE cid sg ty =>
      match dbc_read_id cid with
      | None => line_error st
      | Some a =>
          match frame_idx_by_id a (rs_frames st) with
          | None => set_cur st None                      (* `if frame:` *)
          | Some i =>
              match nth_error (rs_frames st) i with
              | None => line_error st
              | Some f =>
                  match sig_idx_by_name sg (f_sigs f) with
                  | None => line_error (set_cur st (Some i))     (* None.is_float = True raises *)
                  | Some j =>
                      set_cur (set_frames st (upd_nth i (fun f => mkFrame (f_id f) (f_name f) (f_size f) (f_tx f)
                        (upd_nth j (fun s => mkSig (s_name s) (s_start s) (s_size s) (s_le s) (s_signed s) true
                           (s_factor s) (s_offset s) (s_min s) (s_max s) (s_unit s) (s_receivers s) (s_mux s) (s_values s))
                           (f_sigs f))) (rs_frames st))) (Some i)
                  end
              end
          end
      end
  end.

(* ---- post-processing of load: update_ecu_list, del_ecu("Vector__XXX") ---- *)
Definition frame_refs (f : frame) : list text := f_tx f ++ flat_map s_receivers (f_sigs f).
Definition update_ecu_list (ecus : list text) (fs : list frame) : list text :=
  fold_left (fun acc n => add_unique n acc) (flat_map frame_refs fs) ecus.
Fixpoint remove_first (x : text) (l : list text) : list text :=
  match l with
  | [] => []
  | y :: r => if text_eqb y x then r else y :: remove_first x r
  end.
Definition del_ecu_in_frame (x : text) (f : frame) : frame :=
  mkFrame (f_id f) (f_name f) (f_size f) (remove_first x (f_tx f))
    (map (fun s => mkSig (s_name s) (s_start s) (s_size s) (s_le s) (s_signed s) (s_float s) (s_factor s) (s_offset s)
                     (s_min s) (s_max s) (s_unit s) (remove_first x (s_receivers s)) (s_mux s) (s_values s)) (f_sigs f)).
(* one iteration of del_ecu's loop (one Ecu object named x) *)
Definition del_ecu_step (x : text) (ef : list text * list frame) : list text * list frame :=
  (remove_first x (fst ef), map (del_ecu_in_frame x) (snd ef)).
Definition count_name (x : text) (l : list text) : nat := length (filter (text_eqb x) l).
Definition post_process (st : rstate) : matrix :=
  let ecus1 := update_ecu_list (rs_ecus st) (rs_frames st) in
  let ef := Nat.iter (count_name vector_xxx ecus1) (del_ecu_step vector_xxx) (ecus1, rs_frames st) in
  mkMatrix (fst ef) (rs_vtabs st) (snd ef).

(* result: the matrix, the number of "error with line no" prints, the number of logged line errors *)
Definition dbc_read (l : list stmt) : matrix * Z * Z :=
  let st := fold_left r_stmt l rs0 in (post_process st, rs_err st, rs_log st).

(* ---- the envelope (DESIGN.md Appendix A, DBC) for the core subset ---- *)
Definition keys_nodup {V} (l : list (Z * V)) : Prop := NoDup (map fst l).
Definition sig_expressible (ecus : list text) (s : signal) : Prop :=
  0 <= s_start s /\ mux_ok (s_mux s) /\ (forall n, s_mux s <> MuxmM n) /\
  (forall r, In r (s_receivers s) -> In r ecus) /\ keys_nodup (s_values s).
Definition at_most_one_M (l : list signal) : Prop := (length (filter (fun s => is_M (s_mux s)) l) <= 1)%nat.
Definition frame_expressible (ecus : list text) (f : frame) : Prop :=
  (valid_ext (f_id f) \/ valid_std (f_id f)) /\
  (forall t, In t (f_tx f) -> In t ecus) /\ NoDup (f_tx f) /\
  NoDup (map s_name (f_sigs f)) /\ at_most_one_M (f_sigs f) /\
  Forall (sig_expressible ecus) (f_sigs f).
Definition dbc_expressible (m : matrix) : Prop :=
  Forall (fun n => (2 <= length n)%nat) (m_ecus m) /\ ~ In vector_xxx (m_ecus m) /\
  NoDup (map fst (m_vtabs m)) /\ Forall (fun t => keys_nodup (snd t)) (m_vtabs m) /\
  NoDup (map f_id (m_frames m)) /\ Forall (frame_expressible (m_ecus m)) (m_frames m).

(* ------------------------------------------------------------------------------------------------------------ *)
(* 9. numbers in SG_ lines: dbc.format_float(Decimal) (~53-62) on top of str(Decimal) (_pydecimal.Decimal.__str__, capitals = 1),
      and Decimal(text) for the texts the writer produces.  A finite Decimal is (sign, _int digit string, exponent); the digit
      string has no leading zero unless it is "0". *)
Definition dec := (bool * text * Z)%type.
Definition zeros (k : nat) : text := repeat 48 k.
Definition is_digit (c : Z) : bool := (48 <=? c) && (c <=? 57).

Definition dec_str (d : dec) : text :=
  match d with
  | (neg, ds, e) =>
      let n := Z.of_nat (length ds) in
      let leftdigits := e + n in
      let dotplace := if (e <=? 0) && (-6 <? leftdigits) then leftdigits else 1 in
      let intfrac :=
        if dotplace <=? 0 then 48 :: 46 :: zeros (Z.to_nat (- dotplace)) ++ ds
        else if n <=? dotplace then ds ++ zeros (Z.to_nat (dotplace - n))
        else firstn (Z.to_nat dotplace) ds ++ 46 :: skipn (Z.to_nat dotplace) ds in
      let x := leftdigits - dotplace in
      let exp_str := if x =? 0 then [] else 69 :: (if 0 <=? x then 43 else 45) :: nat_text (Z.to_N (Z.abs x)) in
      (if neg then [45] else []) ++ intfrac ++ exp_str
  end.

(* s.endswith('.0') -> s[:-2] *)
Fixpoint strip_dot0 (s : text) : text :=
  match s with
  | [] => []
  | c :: r =>
      match r with
      | [b] => if (c =? 46) && (b =? 48) then [] else s
      | _ => c :: strip_dot0 r
      end
  end.
(* s.split(ch) at the first occurrence *)
Fixpoint split_at (ch : Z) (s : text) : text * option text :=
  match s with
  | [] => ([], None)
  | c :: r => if c =? ch then ([], Some r) else match split_at ch r with (a, b) => (c :: a, b) end
  end.
Definition rjust3 (t : text) : text := zeros (3 - length t) ++ t.
Definition format_float (d : dec) : text :=
  let s := strip_dot0 (dec_str d) in
  match split_at 69 s with
  | (m, Some (sg :: digs)) => m ++ 69 :: sg :: rjust3 digs
  | _ => s
  end.

(* Decimal(text) on the subset [-]digits[.digits][E(+|-)digits]; _int = str(int(intpart + fracpart)) drops leading zeros *)
Fixpoint lstrip0 (l : text) : text :=
  match l with
  | [] => [48]
  | c :: r => if c =? 48 then lstrip0 r else l
  end.
Definition all_digits (l : text) : bool := forallb is_digit l.
Definition dec_parse (s : text) : option dec :=
  let neg := match s with c :: _ => c =? 45 | [] => false end in
  let body := if neg then tl s else s in
  let mant := fst (split_at 69 body) in
  let ip := fst (split_at 46 mant) in
  let fp := match snd (split_at 46 mant) with Some f => f | None => [] end in
  let ex := match snd (split_at 69 body) with
            | None => Some 0
            | Some [] => None
            | Some (sg :: digs) =>
                if all_digits digs then
                  match text_nat digs with
                  | Some n => if sg =? 43 then Some (Z.of_N n) else if sg =? 45 then Some (- Z.of_N n) else None
                  | None => None
                  end
                else None
            end in
  match ip ++ fp, ex with
  | [], _ => None
  | _, None => None
  | ds, Some e => if all_digits ds then Some (neg, lstrip0 ds, e - Z.of_nat (length fp)) else None
  end.
(* value of a digit string *)
Definition dval (l : text) : Z := fold_left (fun a c => 10 * a + (c - 48)) l 0.
(* Decimal._int: digits only, no leading zero unless it is "0" *)
Definition canonical (ds : text) : Prop := ds <> [] /\ all_digits ds = true /\ (ds = [48] \/ hd 0 ds <> 48).

(* ------------------------------------------------------------------------------------------------------------ *)
(* 10. long names of the signals of ONE frame (dump ~218-257 with dbcUniqueSignalNames, the default): signals whose shortened
       names collide get a numeric suffix on their SG_ symbol - the number of earlier signals of the frame with the same
       shortened name - and every statement (BA_, CM_, VAL_, ...) addresses the signal by that symbol.  Frames are addressed
       by their identifier (the per-object case of section 5); ECUs and environment variables have no such disambiguation
       (section 5 as it stands: 32-character prefixes must be unique). *)
Fixpoint out_pairs (all_shorts seen : list text) (ns : list text) : list (text * text) :=
  match ns with
  | [] => []
  | n :: r =>
      let s := short_name n in
      (s ++ (if (1 <? count_name s all_shorts)%nat then nat_text (N.of_nat (count_name s seen)) else []), n)
      :: out_pairs all_shorts (seen ++ [s]) r
  end.
Definition w_out_pairs (ns : list text) : list (text * text) := out_pairs (map short_name ns) [] ns.
Definition w_out_names (ns : list text) : list text := map fst (w_out_pairs ns).
Definition w_out_attrs (ns : list text) : list (text * text) :=
  flat_map (fun p => if is_long (snd p) then [(fst p, snd p)] else []) (w_out_pairs ns).
