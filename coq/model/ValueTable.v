(* Hand model of a signal's value table (Signal.values, src/canmatrix/canmatrix.py ~133, ~184, ~439-443, ~474-478).
   A Python dict is an insertion-ordered association list with unique keys; labels are interned as integers.
   Definitions only. *)
From CM Require Import lib.Prelude.

(* (raw key, label) in dict iteration order *)
Definition vtable := list (Z * Z).

(* d[k] = v on an insertion-ordered dict: an existing key keeps its position and gets the new value *)
Fixpoint dict_set (t : vtable) (k v : Z) : vtable :=
  match t with
  | [] => [(k, v)]
  | (k', v') :: r => if k' =? k then (k, v) :: r else (k', v') :: dict_set r k v
  end.

(* normalize_value_table: {int(k): v for k, v in table.items()} ; the input pairs already carry int(k)
   (distinct source keys such as 1 and '1' may collide after int()) *)
Definition normalize_value_table (items : list (Z * Z)) : vtable :=
  fold_left (fun t kv => dict_set t (fst kv) (snd kv)) items [].

(* phys2raw's label scan: `for value_key, value_string in self.values.items(): if value_string == value: return value_key`
   None = no such label (the code then falls through to decimal.Decimal(value)) *)
Fixpoint label_to_raw (t : vtable) (label : Z) : option Z :=
  match t with
  | [] => None
  | (k, l) :: r => if l =? label then Some k else label_to_raw r label
  end.

(* raw2phys's scan with decode_to_str: `if value_key == value: return value_string` *)
Fixpoint raw_to_label (t : vtable) (raw : Z) : option Z :=
  match t with
  | [] => None
  | (k, l) :: r => if k =? raw then Some l else raw_to_label r raw
  end.

Definition keys (t : vtable) : list Z := map fst t.
Definition labels (t : vtable) : list Z := map snd t.
