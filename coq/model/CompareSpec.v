(* Specification vocabulary for C13 (definitions only).  Nothing here mentions compare_*: `agree` is the
   independent meaning of "the two matrices agree on every compared property", written with membership and
   equality only (no look-ups, no traversal order). *)
From CM Require Import lib.Prelude model.Compare.
From Coq Require Import Permutation.

(* ------------------------------------------------------------------ envelope *)
Definition keys {A} (d : list (Z * A)) : list Z := map fst d.
Definition arb (f : frame) : Z * bool := (fr_id f, fr_ext f).

(* representation invariant of Python dicts: keys are unique *)
Definition dicts_ok_signal (s : signal) : Prop := NoDup (keys (sg_values s)) /\ NoDup (keys (sg_attrs s)).
Definition dicts_ok_frame (f : frame) : Prop := NoDup (keys (fr_attrs f)) /\ Forall dicts_ok_signal (fr_signals f).
(* the property's envelope: names identify objects *)
Definition names_ok_frame (f : frame) : Prop :=
  NoDup (map sg_name (fr_signals f)) /\ NoDup (map gr_name (fr_groups f)).

Definition wf_frame (f : frame) : Prop := names_ok_frame f /\ dicts_ok_frame f.
Definition wf_ecu (e : ecu) : Prop := NoDup (keys (ec_attrs e)).

Definition wf_matrix (m : matrix) : Prop :=
  NoDup (map fr_name (m_frames m)) /\              (* frame names unique *)
  NoDup (map ec_name (m_ecus m)) /\                (* ECU names unique *)
  Forall wf_frame (m_frames m) /\                  (* signal / signal group names unique per frame *)
  Forall wf_ecu (m_ecus m) /\
  NoDup (keys (m_attrs m)) /\ NoDup (keys (m_gdefs m)) /\ NoDup (keys (m_edefs m)) /\
  NoDup (keys (m_fdefs m)) /\ NoDup (keys (m_sdefs m)) /\
  NoDup (keys (m_vtables m)) /\ Forall (fun t => NoDup (keys (snd t))) (m_vtables m).

(* identifiers (id, extended flag) unique in a matrix *)
Definition ids_unique (m : matrix) : Prop := NoDup (map arb (m_frames m)).

(* no frame of one matrix shares its identifier with a differently named frame of the other
   (then compare_db never falls back to matching by identifier) *)
Definition coherent (a b : matrix) : Prop :=
  forall fa fb, In fa (m_frames a) -> In fb (m_frames b) -> arb fa = arb fb -> fr_name fa = fr_name fb.

Definition limits_present (m : matrix) : Prop :=
  forall f s, In f (m_frames m) -> In s (fr_signals f) -> sg_min s <> None /\ sg_max s <> None.

(* ------------------------------------------------------------------ agreement *)
Definition set_eq (l1 l2 : list Z) : Prop := forall x, In x l1 <-> In x l2.
Definition dict_agree {A} (d1 d2 : list (Z * A)) : Prop := forall k v, In (k, v) d1 <-> In (k, v) d2.
Definition same_names {A} (name : A -> Z) (l1 l2 : list A) : Prop := set_eq (map name l1) (map name l2).
Definition pairwise {A} (name : A -> Z) (P : A -> A -> Prop) (l1 l2 : list A) : Prop :=
  forall x y, In x l1 -> In y l2 -> name x = name y -> P x y.

Definition signal_agree (ign : ignore) (s1 s2 : signal) : Prop :=
  sg_start s1 = sg_start s2 /\ sg_size s1 = sg_size s2 /\ sg_le s1 = sg_le s2 /\ sg_signed s1 = sg_signed s2 /\
  sg_factor s1 = sg_factor s2 /\ sg_offset s1 = sg_offset s2 /\ sg_min s1 = sg_min s2 /\ sg_max s1 = sg_max s2 /\
  sg_mux s1 = sg_mux s2 /\ sg_unit s1 = sg_unit s2 /\
  set_eq (map snd (sg_receivers s1)) (map snd (sg_receivers s2)) /\          (* receiver set, names stripped *)
  (ig_vt ign = false -> dict_agree (sg_values s1) (sg_values s2)) /\
  (ig_comment ign = false -> comment_text (sg_comment s1) = comment_text (sg_comment s2)) /\
  (ig_attr ign = false -> dict_agree (sg_attrs s1) (sg_attrs s2)).

Definition group_agree (g1 g2 : sgroup) : Prop :=
  gr_id g1 = gr_id g2 /\ set_eq (gr_members g1) (gr_members g2).

Definition frame_agree (ign : ignore) (f1 f2 : frame) : Prop :=
  fr_size f1 = fr_size f2 /\ fr_id f1 = fr_id f2 /\ fr_ext f1 = fr_ext f2 /\
  set_eq (fr_tx f1) (fr_tx f2) /\
  same_names sg_name (fr_signals f1) (fr_signals f2) /\
  pairwise sg_name (signal_agree ign) (fr_signals f1) (fr_signals f2) /\
  same_names gr_name (fr_groups f1) (fr_groups f2) /\
  pairwise gr_name group_agree (fr_groups f1) (fr_groups f2) /\
  (ig_comment ign = false -> comment_text (fr_comment f1) = comment_text (fr_comment f2)) /\
  (ig_attr ign = false -> dict_agree (fr_attrs f1) (fr_attrs f2)).

(* an ECU's comment field is compared as it is (compare_ecu distinguishes a missing comment from an empty one) *)
Definition ecu_agree (ign : ignore) (e1 e2 : ecu) : Prop :=
  (ig_comment ign = false -> ec_comment e1 = ec_comment e2) /\
  (ig_attr ign = false -> dict_agree (ec_attrs e1) (ec_attrs e2)).

Definition vtables_agree (t1 t2 : list (Z * dict)) : Prop :=
  same_names fst t1 t2 /\ pairwise fst (fun x y => dict_agree (snd x) (snd y)) t1 t2.

Definition agree (ign : ignore) (a b : matrix) : Prop :=
  same_names fr_name (m_frames a) (m_frames b) /\
  pairwise fr_name (frame_agree ign) (m_frames a) (m_frames b) /\
  same_names ec_name (m_ecus a) (m_ecus b) /\
  pairwise ec_name (ecu_agree ign) (m_ecus a) (m_ecus b) /\
  (ig_attr ign = false -> dict_agree (m_attrs a) (m_attrs b)) /\
  (ig_def ign = false ->
     dict_agree (m_gdefs a) (m_gdefs b) /\ dict_agree (m_edefs a) (m_edefs b) /\
     dict_agree (m_fdefs a) (m_fdefs b) /\ dict_agree (m_sdefs a) (m_sdefs b)) /\
  (ig_vt ign = false -> vtables_agree (m_vtables a) (m_vtables b)).

(* ------------------------------------------------------------------ reading a report *)
(* every node below the root is "equal": dump_result prints nothing *)
Fixpoint all_equal (t : cres) : bool :=
  match t with Node r _ _ kids => is_equal r && forallb all_equal kids end.
Definition reports_nothing (t : cres) : Prop := forallb all_equal (kids_of t) = true.

(* `reports t path r ty ref`: below the root there is the chain of "changed" nodes path = [(type, ref); ...]
   (the objects concerned, outermost first) ending in a childless node with result r, type ty and reference ref *)
Fixpoint reports (t : cres) (path : list (ctype * Z)) (r : cresult) (ty : ctype) (ref : Z) : Prop :=
  match path with
  | [] => In (Node r ty ref []) (kids_of t)
  | (pt, pref) :: rest =>
      exists c, In c (kids_of t) /\ type_of c = pt /\ ref_of c = pref /\ result_of c = RChanged /\
                reports c rest r ty ref
  end.

(* all nodes whose result satisfies `want`, each as the list of (type, ref) from the root down to it *)
Fixpoint collect (want : cresult -> bool) (t : cres) : list (list (ctype * Z)) :=
  match t with
  | Node r ty ref kids =>
      (if want r then [[(ty, ref)]] else []) ++ map (cons (ty, ref)) (flat_map (collect want) kids)
  end.
Definition is_added (r : cresult) : bool := match r with RAdded => true | _ => false end.
Definition is_deleted (r : cresult) : bool := match r with RDeleted | RRemoved => true | _ => false end.

(* ------------------------------------------------------------------ single edits of dict-valued properties *)
(* deletion, change and addition of an entry (d1 -> d2) are reported below `path`;
   tdel/tchg/tadd: leaf types, rdel: "deleted" or "removed", ref/refchg: the leaf's reference *)
Definition dict_edits_reported {A} (t : cres) (path : list (ctype * Z)) (d1 d2 : list (Z * A))
  (tdel tchg tadd : Z -> A -> ctype) (rdel : cresult) (ref refchg : A -> Z) : Prop :=
  (forall k v, In (k, v) d1 -> ~ In k (keys d2) -> reports t path rdel (tdel k v) (ref v)) /\
  (forall k v v2, In (k, v) d1 -> In (k, v2) d2 -> v <> v2 -> reports t path RChanged (tchg k v) (refchg v)) /\
  (forall k v, In (k, v) d2 -> ~ In k (keys d1) -> reports t path RAdded (tadd k v) (ref v)).

Definition attrs_reported (t : cres) (path : list (ctype * Z)) (a1 a2 : dict) : Prop :=
  dict_edits_reported t path a1 a2 (fun k _ => TAttr k) (fun k _ => TAttr k) (fun k _ => TAttr k) RDeleted (fun v => v) (fun v => v).
Definition values_reported (t : cres) (path : list (ctype * Z)) (v1 v2 : dict) : Prop :=
  dict_edits_reported t path v1 v2 (fun k _ => TValue k) (fun k v => TValueChanged k v) (fun k _ => TValue k) RRemoved (fun v => v) (fun _ => -1).

(* one define list (type ty): define deleted / definition changed / default changed / define added *)
Definition defines_reported (t : cres) (ty : ctype) (d1 d2 : defines) : Prop :=
  (forall k v, In (k, v) d1 -> ~ In k (keys d2) -> reports t [(ty, -1)] RDeleted (TDefine k) (-1)) /\
  (forall k v v2, In (k, v) d1 -> In (k, v2) d2 -> fst v <> fst v2 -> reports t [(ty, -1)] RChanged TDefinition (fst v)) /\
  (forall k v v2, In (k, v) d1 -> In (k, v2) d2 -> snd v <> snd v2 -> reports t [(ty, -1)] RChanged TDefaultValue (fst v)) /\
  (forall k v, In (k, v) d2 -> ~ In k (keys d1) -> reports t [(ty, -1)] RAdded (TDefine k) (-1)).

(* ------------------------------------------------------------------ which frames belong together *)
(* the documented pairing rule, as a symmetric relation: frames of one name; failing that - neither name occurs in the
   other matrix - frames of one identifier *)
Definition paired (a b : matrix) (f1 f2 : frame) : Prop :=
  In f1 (m_frames a) /\ In f2 (m_frames b) /\
  (fr_name f1 = fr_name f2 \/
   (~ In (fr_name f1) (map fr_name (m_frames b)) /\ ~ In (fr_name f2) (map fr_name (m_frames a)) /\ arb f1 = arb f2)).

(* names of the frames reported directly below the root with a result satisfying `want` *)
Definition top_frames (want : cresult -> bool) (t : cres) : list Z :=
  flat_map (fun k => match k with
                     | Node r TFRAME ref [] => if want r then [ref] else []
                     | _ => []
                     end) (kids_of t).
