(* Hand model of the payload codec of src/canmatrix/canmatrix.py:
     Frame.bytes_to_bitstrings (~1409), Frame.bitstring_to_signal_list (~1424), unpack_bitstring (~577),
     pack_bitstring (~605), Frame.signals_to_bytes (~1329), the length gate of Frame.unpack (~1464-1482).
   Python strings of '0'/'1' are `list bool`; Python slices keep their clamping semantics (py_slice), so the
   model also agrees with the code for placements that leave the frame.  Definitions only. *)
From CM Require Import lib.Prelude.

(* ---------- Python sequence helpers ---------- *)

Definition zlen {A} (l : list A) : Z := Z.of_nat (length l).

(* normalisation of a slice bound against a length: negative counts from the end, then clamp *)
Definition py_bound (len i : Z) : Z :=
  if i <? 0 then Z.max 0 (i + len) else Z.min i len.

(* l[a:b] *)
Definition py_slice {A} (l : list A) (a b : Z) : list A :=
  let a' := py_bound (zlen l) a in
  let b' := py_bound (zlen l) b in
  firstn (Z.to_nat (b' - a')) (skipn (Z.to_nat a') l).

(* l[a:b] = v *)
Definition py_set_slice {A} (l : list A) (a b : Z) (v : list A) : list A :=
  let a' := py_bound (zlen l) a in
  let b' := Z.max a' (py_bound (zlen l) b) in
  firstn (Z.to_nat a') l ++ v ++ skipn (Z.to_nat b') l.

(* consecutive chunks of k elements (the last one may be shorter); fuel = length suffices *)
Fixpoint chunks_fuel {A} (fuel : nat) (k : nat) (l : list A) : list (list A) :=
  match fuel with
  | O => []
  | S f => match l with
           | [] => []
           | _ => firstn k l :: chunks_fuel f k (skipn k l)
           end
  end.
Definition chunks {A} (k : nat) (l : list A) : list (list A) := chunks_fuel (length l) k l.

(* itertools.chain of the reversed 8-groups of l, for a length that is a multiple of 8 *)
Definition grev {A} (l : list A) : list A := concat (rev (chunks 8 l)).

(* ---------- bits ---------- *)

(* '{:08b}'.format(b) for a byte *)
Definition byte_bits (b : Z) : list bool :=
  map (fun k => Z.testbit b k) [7; 6; 5; 4; 3; 2; 1; 0].

Definition big (d : list Z) : list bool := flat_map byte_bits d.           (* ''.join(b) *)
Definition little (d : list Z) : list bool := flat_map byte_bits (rev d).  (* ''.join(reversed(b)) *)

(* int(bits, 2) *)
Definition bin_value (bs : list bool) : Z := fold_left (fun acc b => 2 * acc + Z.b2z b) bs 0.

(* ---------- signals ---------- *)

Record signal := mkSignal {
  s_name : Z;            (* names are interned as integers by the harness *)
  s_start : Z;           (* Signal.start_bit (internal notation) *)
  s_size : Z;
  s_le : bool;
  s_signed : bool;
  s_float : bool
}.

(* a decoded / supplied raw value: an integer, or the bit pattern of a float field (the IEEE
   conversion itself is struct's and is applied by the harness to both sides) *)
Inductive raw :=
| RInt (v : Z)
| RFloat (pattern : Z).

(* unpack_bitstring: None where Python raises (int('', 2), struct size mismatch, unknown float width) *)
Definition unpack_bitstring (size : Z) (is_float is_signed : bool) (bits : list bool) : option raw :=
  if is_float then
    if ((size =? 32) || (size =? 64)) && (zlen bits =? size) then Some (RFloat (bin_value bits)) else None
  else
    match bits with
    | [] => None
    | top :: _ =>
        let v := bin_value bits in
        Some (RInt (if is_signed && top then v - 2 ^ zlen bits else v))
    end.

(* the slice bitstring_to_signal_list takes for one signal; nbits = 8 * frame size *)
Definition signal_bits (s : signal) (bigs littles : list bool) (nbits : Z) : list bool :=
  if s_le s then
    let least := nbits - s_start s in
    let most := least - s_size s in
    py_slice littles most least
  else
    let most := s_start s in
    let least := most + s_size s in
    py_slice bigs most least.

Definition decode_signal (d : list Z) (nbits : Z) (s : signal) : option raw :=
  unpack_bitstring (s_size s) (s_float s) (s_signed s) (signal_bits s (big d) (little d) nbits).

(* Frame.unpack's length gate: Some data' = the payload that is decoded, None = DecodingFrameLength *)
Definition ljust (d : list Z) (n : Z) (fill : Z) : list Z :=
  d ++ repeat fill (Z.to_nat (n - zlen d)).

Definition unpack_gate (fsize : Z) (allow_truncated allow_exceeded : bool) (d : list Z) : option (list Z) :=
  if zlen d =? fsize then Some d
  else
    let d1 := if allow_truncated then ljust d fsize 255 else d in
    let d2 := if allow_exceeded then py_slice d1 0 fsize else d1 in
    if zlen d2 =? fsize then Some d2 else None.

(* flat Frame.unpack of a plain frame: per signal the raw value, in signal order *)
Inductive unpack_result :=
| ULengthError
| UConvError                    (* Python raises ValueError/struct.error/KeyError inside the conversion *)
| UOk (vals : list (Z * raw)).

Fixpoint decode_all (d : list Z) (nbits : Z) (sigs : list signal) : option (list (Z * raw)) :=
  match sigs with
  | [] => Some []
  | s :: r =>
      match decode_signal d nbits s, decode_all d nbits r with
      | Some v, Some vs => Some ((s_name s, v) :: vs)
      | _, _ => None
      end
  end.

Definition frame_unpack (fsize : Z) (sigs : list signal) (at_ ae : bool) (d : list Z) : unpack_result :=
  match unpack_gate fsize at_ ae d with
  | None => ULengthError
  | Some d' =>
      match decode_all d' (fsize * 8) sigs with
      | None => UConvError
      | Some vs => UOk vs
      end
  end.

(* ---------- encoding ---------- *)

(* binary digits, most significant first, of a positive number *)
Fixpoint pos_digits (p : positive) : list bool :=
  match p with
  | xH => [true]
  | xO q => pos_digits q ++ [false]
  | xI q => pos_digits q ++ [true]
  end.

Definition lastn {A} (n : nat) (l : list A) : list A := skipn (length l - n) l.

(* pack_bitstring, integer branch: '{:0{}b}'.format((2 << length) + value, length)[-length:].
   None = outside the envelope the model covers (size < 1, or (2<<size)+value not positive - then Python
   formats a '-' sign into the string). *)
Definition pack_int (size v : Z) : option (list bool) :=
  if size <? 1 then None else
  match 2 * 2 ^ size + v with
  | Zpos p =>
      let digits := pos_digits p in
      let padded := repeat false (Z.to_nat size - length digits) ++ digits in
      Some (lastn (Z.to_nat size) padded)
  | _ => None
  end.

(* float branch: the 32/64 bits of the pattern (struct.pack's big-endian bytes, MSB first) *)
Definition pack_float (size pattern : Z) : option (list bool) :=
  if (size =? 32) || (size =? 64) then
    Some (map (fun k => Z.testbit pattern (size - 1 - Z.of_nat k)) (seq 0 (Z.to_nat size)))
  else None.

Definition pack_bitstring (s : signal) (v : raw) : option (list bool) :=
  match s_float s, v with
  | true, RFloat p => pack_float (s_size s) p
  | false, RInt z => pack_int (s_size s) z
  | _, _ => None
  end.

(* a signal lies inside a frame of nbits bits (both byte orders in their internal notation) *)
Definition inside (nbits : Z) (s : signal) : bool :=
  (0 <=? s_start s) && (1 <=? s_size s) && (s_start s + s_size s <=? nbits).

Fixpoint lookup (name : Z) (data : list (Z * raw)) : option raw :=
  match data with
  | [] => None
  | (n, v) :: r => if Z.eqb n name then Some v else lookup name r
  end.

(* the loop of signals_to_bytes over self.signals; None = outside the modelled envelope (a supplied
   signal leaves the frame, or its value cannot be packed) *)
Fixpoint place_signals (nbits : Z) (sigs : list signal) (data : list (Z * raw))
         (little_bits big_bits : list (option bool)) : option (list (option bool) * list (option bool)) :=
  match sigs with
  | [] => Some (little_bits, big_bits)
  | s :: r =>
      match lookup (s_name s) data with
      | None => place_signals nbits r data little_bits big_bits
      | Some v =>
          if inside nbits s then
            match pack_bitstring s v with
            | None => None
            | Some bits =>
                let obits := map Some bits in
                if s_le s then
                  let least := nbits - s_start s in
                  let most := least - s_size s in
                  place_signals nbits r data (py_set_slice little_bits most least obits) big_bits
                else
                  let most := s_start s in
                  let least := most + s_size s in
                  place_signals nbits r data little_bits (py_set_slice big_bits most least obits)
            end
          else None
      end
  end.

(* next(x for x in (l, b, '0') if x is not None) *)
Definition merge_bit (lb : option bool * option bool) : bool :=
  match lb with
  | (Some x, _) => x
  | (None, Some y) => y
  | (None, None) => false
  end.

Definition signals_to_bytes (fsize : Z) (sigs : list signal) (data : list (Z * raw)) : option (list Z) :=
  if fsize <? 0 then None else
  let nbits := fsize * 8 in
  let empty := repeat (@None bool) (Z.to_nat nbits) in
  match place_signals nbits sigs data empty empty with
  | None => None
  | Some (lb, bb) =>
      let bitstring := map merge_bit (combine (grev lb) bb) in
      Some (map bin_value (chunks 8 bitstring))
  end.

(* ---------- specification vocabulary ---------- *)

(* payload bit n in LSB0 numbering (byte n/8, bit n mod 8 from the LSB) *)
Definition pbit (d : list Z) (n : Z) : bool := Z.testbit (nth (Z.to_nat (n / 8)) d 0) (n mod 8).
(* payload bit p in sequential MSB0 numbering (byte p/8, bit 7 - p mod 8) *)
Definition mbit (d : list Z) (p : Z) : bool := Z.testbit (nth (Z.to_nat (p / 8)) d 0) (7 - p mod 8).

(* sum_{i<n} 2^i * f(i) *)
Fixpoint bitsum (f : nat -> bool) (n : nat) : Z :=
  match n with
  | O => 0
  | S m => bitsum f m + 2 ^ Z.of_nat m * Z.b2z (f m)
  end.

(* the convention's reading of a signal: bit of significance i *)
Definition sig_bit (d : list Z) (s : signal) (i : nat) : bool :=
  if s_le s then pbit d (s_start s + Z.of_nat i)
  else mbit d (s_start s + (s_size s - 1 - Z.of_nat i)).

Definition unsigned_value (d : list Z) (s : signal) : Z := bitsum (sig_bit d s) (Z.to_nat (s_size s)).

Definition convention_value (d : list Z) (s : signal) : raw :=
  let u := unsigned_value d s in
  if s_float s then RFloat u
  else RInt (if s_signed s && sig_bit d s (Z.to_nat (s_size s) - 1) then u - 2 ^ s_size s else u).

(* the payload positions (sequential MSB0 numbering = index into `big`) a signal occupies *)
Definition pos_of (s : signal) (i : nat) : Z :=
  if s_le s then
    let n := s_start s + Z.of_nat i in           (* LSB0 number *)
    8 * (n / 8) + (7 - n mod 8)
  else s_start s + (s_size s - 1 - Z.of_nat i).
Definition occupies (s : signal) (p : Z) : Prop :=
  exists i, (i < Z.to_nat (s_size s))%nat /\ pos_of s i = p.
Definition occupiesb (s : signal) (p : Z) : bool :=
  existsb (fun i => Z.eqb (pos_of s i) p) (seq 0 (Z.to_nat (s_size s))).

Definition bytes_ok (d : list Z) : bool := forallb (fun b => (0 <=? b) && (b <? 256)) d.

(* representable raw values of a signal *)
Definition in_range (s : signal) (v : raw) : Prop :=
  match s_float s, v with
  | true, RFloat p => 0 <= p < 2 ^ s_size s
  | false, RInt z => if s_signed s then - 2 ^ (s_size s - 1) <= z < 2 ^ (s_size s - 1)
                     else 0 <= z < 2 ^ s_size s
  | _, _ => False
  end.

Definition float_ok (s : signal) : Prop := s_float s = true -> s_size s = 32 \/ s_size s = 64.

(* a frame layout the encoder is specified for: unique names, every signal inside, pairwise disjoint *)
Definition names_unique (sigs : list signal) : Prop := NoDup (map s_name sigs).
Definition pairwise_disjoint (sigs : list signal) : Prop :=
  ForallOrdPairs (fun s t => forall p, ~ (occupies s p /\ occupies t p)) sigs.
Definition layout_ok (fsize : Z) (sigs : list signal) : Prop :=
  0 <= fsize /\ names_unique sigs /\ pairwise_disjoint sigs /\
  Forall (fun s => inside (8 * fsize) s = true /\ float_ok s) sigs.
