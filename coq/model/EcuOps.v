(* EcuOps.v - ECU list maintenance of CanMatrix and the sender/receiver references it must keep
   consistent (property C11).  Definitions only; proofs are in proofs/C11_*.v.

   Mirrors /repo/src/canmatrix/canmatrix.py:
     Signal.add_receiver / del_receiver (~278-293), Frame.add_transmitter / del_transmitter / add_receiver
     (~1147-1172), Frame.update_receiver (~1320), CanMatrix.delete_obsolete_ecus (~1937), ecu_by_name (~2072),
     glob_ecus / glob_frames / Frame.glob_signals, rename_ecu (~2185), add_ecu (~2206), del_ecu (~2218),
     update_ecu_list (~2235), add_signal_receiver / del_signal_receiver (~2310-2334).

   What is kept of the objects: names (character-code lists, so that glob patterns and str.strip can be
   evaluated), the three kinds of reference lists as Python lists (order and multiplicity matter:
   `list.remove` deletes the FIRST occurrence, `add_*` append only when absent), and one opaque integer per
   object standing for every other field (Ecu: comment + attributes; Frame: id, size, comment, attributes,
   ...; Signal: layout, scaling, ...).  No operation below reads or writes that payload except that
   `Ecu` equality (`@attr.s` generates a by-value `__eq__` over name, comment, attributes) compares it. *)
From Coq Require Import Permutation.
From CM Require Import lib.Prelude model.Glob.

Record ecu := mkEcu { ename : name; epay : Z }.
Record signal := mkSig { sname : name; sreceivers : list name; spay : Z }.
Record frame := mkFrame { fname : name; transmitters : list name; receivers : list name;
                          signals : list signal; fpay : Z }.
(* free : CanMatrix.signals, the signals that belong to no frame *)
Record matrix := mkMatrix { ecus : list ecu; frames : list frame; free : list signal }.

(* ---- Python list idioms ---- *)
Definition mem (x : name) (l : list name) : bool := existsb (name_eqb x) l.      (* x in l *)
Fixpoint remove_first (x : name) (l : list name) : list name :=                    (* l.remove(x), x present or not *)
  match l with
  | [] => []
  | y :: r => if name_eqb x y then r else y :: remove_first x r
  end.
(* `if x not in l: l.append(x)` : Signal.add_receiver, Frame.add_transmitter, Frame.add_receiver *)
Definition add_name (x : name) (l : list name) : list name := if mem x l then l else l ++ [x].
(* `if x in l: l.remove(x)` : Signal.del_receiver, Frame.del_transmitter *)
Definition del_name (x : name) (l : list name) : list name := if mem x l then remove_first x l else l.
(* `if old in l: l.remove(old); add(new)` : the two rewrites inside rename_ecu *)
Definition rename_in (old new : name) (l : list name) : list name :=
  if mem old l then add_name new (remove_first old l) else l.

Definition set_sreceivers (s : signal) (l : list name) : signal := mkSig (sname s) l (spay s).

(* Frame.update_receiver: self.receivers = []; for sig: for r in sig.receivers: self.add_receiver(r) *)
Definition dedup (l : list name) : list name := fold_left (fun acc r => add_name r acc) l [].
Definition update_receiver (f : frame) : frame :=
  mkFrame (fname f) (transmitters f) (dedup (flat_map sreceivers (signals f))) (signals f) (fpay f).

(* apply g to the transmitter list and to every signal's receiver list, then update_receiver *)
Definition rewrite_frame (g : list name -> list name) (f : frame) : frame :=
  update_receiver
    (mkFrame (fname f) (g (transmitters f)) (receivers f)
             (map (fun s => set_sreceivers s (g (sreceivers s))) (signals f)) (fpay f)).

(* ---- rename_ecu ---- *)
Fixpoint ecu_index (n : name) (es : list ecu) : option nat :=      (* position of ecu_by_name's answer *)
  match es with
  | [] => None
  | e :: r => if name_eqb (ename e) n then Some O
              else match ecu_index n r with Some i => Some (S i) | None => None end
  end.
Fixpoint set_nth_ecu (i : nat) (e : ecu) (es : list ecu) : list ecu :=
  match es, i with
  | [], _ => []
  | _ :: r, O => e :: r
  | x :: r, S j => x :: set_nth_ecu j e r
  end.
(* rename_ecu(<the i-th Ecu object of the list>, new): ecu.name = new; per frame the two rewrites, update_receiver.
   Free signals (CanMatrix.signals) are not visited. *)
Definition rename_ecu_at (i : nat) (new : name) (m : matrix) : matrix :=
  match nth_error (ecus m) i with
  | None => m
  | Some e =>
      mkMatrix (set_nth_ecu i (mkEcu new (epay e)) (ecus m))
               (map (rewrite_frame (rename_in (ename e) new)) (frames m))
               (free m)
  end.
(* rename_ecu(old_name, new): ecu_by_name returns the first listed ECU of that name; `if ecu is None: return` -
   a name that is referenced by frames but not listed is NOT renamed *)
Definition rename_ecu_name (old new : name) (m : matrix) : matrix :=
  match ecu_index old (ecus m) with
  | None => m
  | Some i => rename_ecu_at i new m
  end.

(* ---- del_ecu ---- *)
Definition ecu_eqb (a b : ecu) : bool := name_eqb (ename a) (ename b) && (epay a =? epay b).
Definition ecu_mem (e : ecu) (es : list ecu) : bool := existsb (ecu_eqb e) es.   (* `ecu in self.ecus`, by value *)
Fixpoint remove_first_ecu (e : ecu) (es : list ecu) : list ecu :=                  (* self.ecus.remove(ecu), by value *)
  match es with
  | [] => []
  | y :: r => if ecu_eqb e y then r else y :: remove_first_ecu e r
  end.
(* loop body of del_ecu for one Ecu object *)
Definition del_one (e : ecu) (m : matrix) : matrix :=
  if ecu_mem e (ecus m)
  then mkMatrix (remove_first_ecu e (ecus m)) (map (rewrite_frame (del_name (ename e))) (frames m)) (free m)
  else m.
(* del_ecu(<Ecu object>): the object need not be one of the list; it is compared by value *)
Definition del_ecu_inst (e : ecu) (m : matrix) : matrix := del_one e m.
Definition glob_ecus (pat : name) (es : list ecu) : list ecu := filter (fun e => glob_match pat (ename e)) es.
(* del_ecu(<str>): the list of matching objects is taken first, then each is removed in turn *)
Definition del_ecu_glob (pat : name) (m : matrix) : matrix :=
  fold_left (fun m e => del_one e m) (glob_ecus pat (ecus m)) m.

(* ---- add_ecu / update_ecu_list ---- *)
(* str.strip(): the characters with str.isspace() true *)
Definition is_space (c : Z) : bool :=
  ((9 <=? c) && (c <=? 13)) || ((28 <=? c) && (c <=? 32)) || (c =? 133) || (c =? 160) || (c =? 5760) ||
  ((8192 <=? c) && (c <=? 8202)) || (c =? 8232) || (c =? 8233) || (c =? 8239) || (c =? 8287) || (c =? 12288).
Fixpoint lstrip (l : name) : name :=
  match l with
  | [] => []
  | c :: r => if is_space c then lstrip r else l
  end.
Definition strip (l : name) : name := rev (lstrip (rev (lstrip l))).
(* what Ecu(name) carries besides the name: comment None, no attributes *)
Definition default_epay : Z := 0.
(* add_ecu(Ecu(n)): `for bu in self.ecus: if bu.name.strip() == ecu.name: return` else append *)
Definition add_ecu (n : name) (es : list ecu) : list ecu :=
  if existsb (fun e => name_eqb (strip (ename e)) n) es then es else es ++ [mkEcu n default_epay].
(* the names update_ecu_list passes to add_ecu, in loop order: per frame its transmitters, then its signals'
   receivers (frame.receivers is rebuilt in between but not read) *)
Definition update_order (fs : list frame) : list name :=
  flat_map (fun f => transmitters f ++ flat_map sreceivers (signals f)) fs.
Definition update_ecu_list (m : matrix) : matrix :=
  mkMatrix (fold_left (fun es n => add_ecu n es) (update_order (frames m)) (ecus m))
           (map update_receiver (frames m))
           (free m).

(* ---- delete_obsolete_ecus ---- *)
(* used_ecus: transmitters, frame receivers, receivers of the frames' signals, receivers of the free signals *)
Definition used_names (m : matrix) : list name :=
  flat_map transmitters (frames m) ++ flat_map receivers (frames m) ++
  flat_map (fun f => flat_map sreceivers (signals f)) (frames m) ++ flat_map sreceivers (free m).
Definition obsolete_names (m : matrix) : list name :=
  map ename (filter (fun e => negb (mem (ename e) (used_names m))) (ecus m)).
(* `for ecu in ecus_to_delete: self.del_ecu(ecu)` - ecu is a NAME here, so del_ecu treats it as a glob pattern *)
Definition delete_obsolete_ecus (m : matrix) : matrix :=
  fold_left (fun m n => del_ecu_glob n m) (obsolete_names m) m.

(* ---- add_signal_receiver / del_signal_receiver ---- *)
Definition sig_recv_op (g : list name -> list name) (gf gs : name) (m : matrix) : matrix :=
  mkMatrix (ecus m)
           (map (fun f =>
                   if glob_match gf (fname f)
                   then update_receiver
                          (mkFrame (fname f) (transmitters f) (receivers f)
                                   (map (fun s => if glob_match gs (sname s) then set_sreceivers s (g (sreceivers s)) else s)
                                        (signals f))
                                   (fpay f))
                   else f)
                (frames m))
           (free m).
Definition add_signal_receiver (gf gs n : name) := sig_recv_op (add_name n) gf gs.
Definition del_signal_receiver (gf gs n : name) := sig_recv_op (del_name n) gf gs.

(* ---- operation histories ---- *)
Inductive op :=
| RenameName (old new : name)          (* rename_ecu("old", "new") *)
| RenameInst (i : nat) (new : name)    (* rename_ecu(db.ecus[i], "new") *)
| DelInst (e : ecu)                    (* del_ecu(<Ecu equal to e>) *)
| DelGlob (pat : name)                 (* del_ecu("pat") *)
| UpdateEcuList
| DeleteObsolete
| AddSigRecv (gf gs n : name)
| DelSigRecv (gf gs n : name).

Definition step (m : matrix) (o : op) : matrix :=
  match o with
  | RenameName old new => rename_ecu_name old new m
  | RenameInst i new => rename_ecu_at i new m
  | DelInst e => del_ecu_inst e m
  | DelGlob pat => del_ecu_glob pat m
  | UpdateEcuList => update_ecu_list m
  | DeleteObsolete => delete_obsolete_ecus m
  | AddSigRecv gf gs n => add_signal_receiver gf gs n m
  | DelSigRecv gf gs n => del_signal_receiver gf gs n m
  end.
Definition run_ops (m : matrix) (ops : list op) : matrix := fold_left step ops m.

(* ================= specification vocabulary (used by props/C11.v) ================= *)

(* first-occurrence de-duplication, written without reference to the code's loop *)
Fixpoint nub (l : list name) : list name :=
  match l with
  | [] => []
  | x :: r => x :: filter (fun y => negb (name_eqb x y)) (nub r)
  end.

(* "the frame's receiver list is up to date": the state Frame.update_receiver / the readers produce *)
Definition frame_uptodate (f : frame) : Prop := receivers f = nub (flat_map sreceivers (signals f)).
Definition receivers_uptodate (m : matrix) : Prop := Forall frame_uptodate (frames m).
(* every reference list names an ECU at most once (what add_transmitter / add_receiver maintain) *)
Definition frame_refs_nodup (f : frame) : Prop :=
  NoDup (transmitters f) /\ Forall (fun s => NoDup (sreceivers s)) (signals f).
Definition refs_nodup (m : matrix) : Prop := Forall frame_refs_nodup (frames m).
Definition wf (m : matrix) : Prop := receivers_uptodate m /\ refs_nodup m.

(* the three kinds of reference of the property: frame senders, receivers of the frames' signals, frame receivers *)
Definition frame_refs (f : frame) : list name :=
  transmitters f ++ flat_map sreceivers (signals f) ++ receivers f.
Definition refs3 (m : matrix) : list name := flat_map frame_refs (frames m).
Definition listed (m : matrix) : list name := map ename (ecus m).

(* old -> new on one name *)
Definition subst (old new x : name) : name := if name_eqb x old then new else x.
Definition keep_not (n : name) (x : name) : bool := negb (name_eqb n x).

(* apply g to every reference list of the frame and to nothing else *)
Definition map_refs (g : list name -> list name) (f : frame) : frame :=
  mkFrame (fname f) (g (transmitters f)) (g (receivers f))
          (map (fun s => mkSig (sname s) (g (sreceivers s)) (spay s)) (signals f)) (fpay f).

(* position-exact description of one rewritten list: untouched when old is absent, otherwise the other entries
   keep their order and new is appended *)
Definition repl (old new : name) (l : list name) : list name :=
  if mem old l then filter (keep_not old) l ++ [new] else l.

(* relation between a frame before and after renaming old -> new *)
Definition renamed_frame (old new : name) (f f' : frame) : Prop :=
  fname f' = fname f /\ fpay f' = fpay f /\
  transmitters f' = repl old new (transmitters f) /\
  Permutation (map (subst old new) (transmitters f)) (transmitters f') /\
  Forall2 (fun s s' => sname s' = sname s /\ spay s' = spay s /\
                       sreceivers s' = repl old new (sreceivers s) /\
                       Permutation (map (subst old new) (sreceivers s)) (sreceivers s'))
          (signals f) (signals f') /\
  Permutation (map (subst old new) (receivers f)) (receivers f') /\
  frame_uptodate f'.

(* names without surrounding white space (str.strip is the identity on them) *)
Definition clean (n : name) : Prop := strip n = n.
Definition names_clean (m : matrix) : Prop :=
  Forall clean (listed m) /\ Forall clean (update_order (frames m)).
(* listed ECU names contain no glob metacharacter *)
Definition listed_literal (m : matrix) : Prop := Forall (fun n => literal n = true) (listed m).

(* a glob pattern hits a reference x iff x is the name of a LISTED ECU the pattern matches *)
Definition glob_hit (pat : name) (m : matrix) (x : name) : bool :=
  glob_match pat x && mem x (listed m).

(* ================= patterns with character classes (appended; nothing above changes) =================
   del_ecu / add_signal_receiver / del_signal_receiver select by fnmatch.fnmatchcase, whose pattern language also has
   `[seq]` / `[!seq]`.  The selection enters the operations only as a predicate on names, so they are restated over an
   arbitrary predicate; step_cls instantiates it with glob_match_cls (Glob.v).  del_ecu_glob pat = del_ecu_by (glob_match pat)
   and sig_recv_op g gf gs = sig_recv_by g (glob_match gf) (glob_match gs) by definition. *)
Definition del_ecu_by (p : name -> bool) (m : matrix) : matrix :=
  fold_left (fun m e => del_one e m) (filter (fun e => p (ename e)) (ecus m)) m.
Definition sig_recv_by (g : list name -> list name) (pf ps : name -> bool) (m : matrix) : matrix :=
  mkMatrix (ecus m)
           (map (fun f =>
                   if pf (fname f)
                   then update_receiver
                          (mkFrame (fname f) (transmitters f) (receivers f)
                                   (map (fun s => if ps (sname s) then set_sreceivers s (g (sreceivers s)) else s)
                                        (signals f))
                                   (fpay f))
                   else f)
                (frames m))
           (free m).
(* a predicate hits a reference x iff x is the name of a LISTED ECU it accepts *)
Definition hit_by (p : name -> bool) (m : matrix) (x : name) : bool := p x && mem x (listed m).

(* one operation, patterns read with character classes (delete_obsolete_ecus hands ECU NAMES to del_ecu: names
   containing `[` stay outside the model) *)
Definition step_cls (m : matrix) (o : op) : matrix :=
  match o with
  | DelGlob pat => del_ecu_by (glob_match_cls pat) m
  | AddSigRecv gf gs n => sig_recv_by (add_name n) (glob_match_cls gf) (glob_match_cls gs) m
  | DelSigRecv gf gs n => sig_recv_by (del_name n) (glob_match_cls gf) (glob_match_cls gs) m
  | _ => step m o
  end.
Definition run_ops_cls (m : matrix) (ops : list op) : matrix := fold_left step_cls ops m.
Definition op_no_bracket (o : op) : bool :=
  match o with
  | DelGlob pat => no_bracket pat
  | AddSigRecv gf gs _ => no_bracket gf && no_bracket gs
  | DelSigRecv gf gs _ => no_bracket gf && no_bracket gs
  | _ => true
  end.

(* ================= shared list objects (appended; nothing above changes) =================
   Python reference lists are objects: one list may sit in several slots (handed to a Frame and to its Signal, kept by a
   copy.copy clone, ...).  heap = the list objects, slots hold indices.  rename_ecu / del_ecu rewrite the sender list and
   the signals' receiver lists IN PLACE (remove / append), while Frame.update_receiver REBINDS: `self.receivers = []`
   creates a new object and never writes into an existing one.  hrewrite_all is that discipline; the theorem
   (props/C11.v, C11_shared_lists_transparent) says its result, read through the slots, is the result on the matrix with
   every slot holding its own copy.  hrewrite_all_inplace is the other discipline (`del self.receivers[:]`), for the witness. *)
Definition heap := list (list name).
Record hsig := mkHSig { hs_name : name; hs_cell : nat; hs_pay : Z }.
Record hframe := mkHFrame { hf_name : name; hf_tx : nat; hf_rx : nat; hf_sigs : list hsig; hf_pay : Z }.
Definition rd (h : heap) (i : nat) : list name := nth i h [].
Fixpoint wr (h : heap) (i : nat) (v : list name) : heap :=
  match h, i with
  | [], _ => []
  | _ :: r, O => v :: r
  | x :: r, S j => x :: wr r j v
  end.
Definition deref_sig (h : heap) (s : hsig) : signal := mkSig (hs_name s) (rd h (hs_cell s)) (hs_pay s).
Definition deref_frame (h : heap) (f : hframe) : frame :=
  mkFrame (hf_name f) (rd h (hf_tx f)) (rd h (hf_rx f)) (map (deref_sig h) (hf_sigs f)) (hf_pay f).
Definition hrewrite_cells (g : list name -> list name) (f : hframe) (h : heap) : heap :=
  fold_left (fun h s => wr h (hs_cell s) (g (rd h (hs_cell s)))) (hf_sigs f)
            (wr h (hf_tx f) (g (rd h (hf_tx f)))).
Definition hrewrite_frame (g : list name -> list name) (st : heap * list hframe) (f : hframe) : heap * list hframe :=
  let h2 := hrewrite_cells g f (fst st) in
  let rxv := dedup (flat_map (fun s => rd h2 (hs_cell s)) (hf_sigs f)) in
  (h2 ++ [rxv], snd st ++ [mkHFrame (hf_name f) (hf_tx f) (length h2) (hf_sigs f) (hf_pay f)]).
Definition hrewrite_all (g : list name -> list name) (h : heap) (fs : list hframe) : heap * list hframe :=
  fold_left (hrewrite_frame g) fs (h, []).
Definition hframe_in_range (h : heap) (f : hframe) : Prop :=
  (hf_tx f < length h)%nat /\ Forall (fun s => (hs_cell s < length h)%nat) (hf_sigs f).
(* the in-place variant: the receiver list object is emptied and refilled *)
Definition hrewrite_frame_inplace (g : list name -> list name) (st : heap * list hframe) (f : hframe) : heap * list hframe :=
  let h2 := wr (hrewrite_cells g f (fst st)) (hf_rx f) [] in
  let rxv := dedup (flat_map (fun s => rd h2 (hs_cell s)) (hf_sigs f)) in
  (wr h2 (hf_rx f) rxv, snd st ++ [f]).
Definition hrewrite_all_inplace (g : list name -> list name) (h : heap) (fs : list hframe) : heap * list hframe :=
  fold_left (hrewrite_frame_inplace g) fs (h, []).
