(* Executable entry point of property C03 (commands 301..): integer groups -> model/Mux.v calls.
   signal group: [name; start; size; le; signed; float; is_mux; has_mux_val; mux_val; has_parent; parent; lo1; hi1; lo2; hi2; ...] *)
From CM Require Import lib.Prelude model.RunBase model.Codec model.Mux.

Fixpoint pairs_of (g : list Z) (fuel : nat) : list (Z * Z) :=
  match fuel with
  | O => []
  | S f => match g with
           | lo :: hi :: r => (lo, hi) :: pairs_of r f
           | _ => []
           end
  end.
Definition flagged (flag v : Z) : option Z := if zb flag then Some v else None.

Definition msig_of (g : list Z) : msignal :=
  mkM (mkSignal (nthz g 0) (nthz g 1) (nthz g 2) (zb (nthz g 3)) (zb (nthz g 4)) (zb (nthz g 5)))
      (zb (nthz g 6)) (flagged (nthz g 7) (nthz g 8)) (pairs_of (skipn 11 g) (length g))
      (flagged (nthz g 9) (nthz g 10)).

Definition named_raw (nv : Z * raw) : list Z :=
  match snd nv with RInt v => [fst nv; 1; v] | RFloat p => [fst nv; 2; p] end.
Fixpoint triples_of (g : list Z) (fuel : nat) : list (Z * raw) :=
  match fuel with
  | O => []
  | S f => match g with
           | n :: k :: v :: r => (n, if k =? 2 then RFloat v else RInt v) :: triples_of r f
           | _ => []
           end
  end.

(* The property observes the decode result as a set of (name, value) entries (observe_at: set(Frame.decode(..).keys()));
   the order of the dict is not constrained.  The answer of 301 is therefore given in canonical form: entries sorted by
   name (names are unique in every generated frame); the harness sorts the implementation's answer the same way. *)
Fixpoint insert_entry (e : list Z) (l : io) : io :=
  match l with
  | [] => [e]
  | x :: r => if nthz e 0 <=? nthz x 0 then e :: l else x :: insert_entry e r
  end.
Definition sort_entries (l : io) : io := fold_right insert_entry [] l.

(* 301: [fsize; complex] | payload | sig ... -> Frame.decode (entries in canonical order) *)
Definition run_301 (h d : list Z) (sgs : io) : io :=
  match frame_decode (mkFrame (nthz h 0) (zb (nthz h 1)) (map msig_of sgs)) d with
  | DLengthError => [[0]]
  | DConvError => [[1]]
  | DOk vs => [2] :: sort_entries (map named_raw vs)
  | DFloatSelector => [[3]]
  | DOutOfFuel => [[4]]
  | DKeyError => [[5]]
  end.
(* 302: [fsize; complex] | data triples (name kind value) | sig ... -> Frame.encode *)
Definition run_302 (h dg : list Z) (sgs : io) : io :=
  match frame_encode (mkFrame (nthz h 0) (zb (nthz h 1)) (map msig_of sgs)) (triples_of dg (length dg)) with
  | EComplex => [[0]]
  | EOk b => [[1]; b]
  | EOutside => [[2]]
  | EFloatSelector => [[3]]
  end.
(* 303: [has_value; value] | sig -> multiplexer_value_in_range *)
Definition run_303 (h sg : list Z) : io :=
  [[bz (value_in_range (msig_of sg) (flagged (nthz h 0) (nthz h 1)))]].
(* 304: [] | sig ... -> wf_extb *)
Definition run_304 (sgs : io) : io := [[bz (wf_extb (map msig_of sgs))]].
(* 305: [] | [kind; value] ++ sig group ... -> Frame.multiplex_signals on signals whose `multiplex` attribute is
   kind 0 None / 1 'Multiplexor' / 2 the number; answers the roles per signal *)
Definition mplex_of (k v : Z) : mplex := if k =? 1 then MxMux else if k =? 2 then MxVal v else MxNone.
Definition role_out (s : msignal) : list Z :=
  [bz (m_is_mux s); bz (negb (is_none (m_mux_val s))); match m_mux_val s with Some v => v | None => 0 end;
   bz (negb (is_none (m_parent s))); match m_parent s with Some v => v | None => 0 end].
Definition run_305 (sgs : io) : io :=
  match multiplex_signals (map (fun g => (msig_of (skipn 2 g), mplex_of (nthz g 0) (nthz g 1))) sgs) with
  | None => [[0]]
  | Some l => [1] :: map role_out l
  end.
(* 306: [kind; value] -> multiplex_setter *)
Definition run_306 (h : list Z) : io :=
  let r := multiplex_setter (mplex_of (nthz h 0) (nthz h 1)) in
  [[bz (fst r); bz (negb (is_none (snd r))); match snd r with Some v => v | None => 0 end]].

(* 307: ops [opcode; i; kind; value]* | [kind; value] ++ sig group ... -> a role history on live signals: every signal
   is constructed with its token (the role fields of the sig group are ignored), then the operations run in order:
   opcode 0 s.multiplex_setter(x), 1 s.multiplex = s.multiplex_setter(x), 2 frame.multiplex_signals().
   Answer: [1] :: per signal [is_mux; has_mux_val; mux_val; has_parent; parent], [[0]] = outside.  The `multiplex` attribute is
   state of the model only: the property names mux_val / is_multiplexer / muxer_for_signal / mux_val_grp, not `multiplex`,
   so it is not part of the answer that is compared with the implementation. *)
Fixpoint ops_of (g : list Z) (fuel : nat) : list frame_op :=
  match fuel with
  | O => []
  | S f => match g with
           | c :: i :: k :: v :: r =>
               (if c =? 2 then FMuxSignals
                else FSig (Z.to_nat i) (if c =? 1 then OpAssign (mplex_of k v) else OpSet (mplex_of k v))) :: ops_of r f
           | _ => []
           end
  end.
Definition mplex_out (x : mplex) : list Z := match x with MxNone => [0; 0] | MxMux => [1; 0] | MxVal v => [2; v] end.
Definition run_307 (og : list Z) (sgs : io) : io :=
  match run_history (map (fun g => (m_sig (msig_of (skipn 2 g)), mplex_of (nthz g 0) (nthz g 1))) sgs) (ops_of og (length og)) with
  | None => [[0]]
  | Some l => [1] :: map (fun st => role_out (fst st)) l
  end.

Definition run_c03 (cmd : Z) (a : io) : io :=
  match cmd, a with
  | 301, h :: d :: sgs => run_301 h d sgs
  | 302, h :: dg :: sgs => run_302 h dg sgs
  | 303, [h; sg] => run_303 h sg
  | 304, _ :: sgs => run_304 sgs
  | 305, _ :: sgs => run_305 sgs
  | 306, [h] => run_306 h
  | 307, og :: sgs => run_307 og sgs
  | _, _ => [[-999]]
  end.
