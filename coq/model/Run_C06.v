(* Executable entry points for C06 (commands 601-606): the field codecs of model/FmtPos.v.
   fmt codes: 1 dbc 2 dbf 3 sym 4 kcd 5 json 6 xls 7 arxml, 8 the KCD Multiplex element; notation: 0 lsb 1 msb 2 msbreverse. *)
From CM Require Import lib.Prelude model.RunBase model.Startbit model.ArbId model.FmtPos.

Definition pos_out (o : option pos) : list Z :=
  match o with None => [0] | Some p => [1; bz (p_le p); p_size p; p_start p] end.
Definition arb_out6 (o : option arbid) : list Z :=
  match o with None => [0] | Some a => [1; fst a; bz (snd a)] end.

(* 601: [fmt; notation; le; size; start] -> the position fields the writer emits *)
Definition run_601 (g : list Z) : io :=
  [write_pos (nthz g 0) (notation_of (nthz g 1)) (mkPos (zb (nthz g 2)) (nthz g 3) (nthz g 4))].
(* 602: [fmt; notation] | fields -> what the reader stores: [0] raises, else [1; le; size; start] *)
Definition run_602 (g f : list Z) : io := [pos_out (read_pos (nthz g 0) (notation_of (nthz g 1)) f)].
(* 603: [fmt; id; ext] -> identity fields ; 604: [fmt] | fields -> [0] raises / [1; id; ext] *)
Definition run_603 (g : list Z) : io := [write_id (nthz g 0) (nthz g 1, zb (nthz g 2))].
Definition run_604 (g f : list Z) : io := [arb_out6 (read_id (nthz g 0) f)].
(* 605: [fmt; notation; le; size; start] -> read (write p), the whole round trip in the model *)
Definition run_605 (g : list Z) : io :=
  let n := notation_of (nthz g 1) in
  [pos_out (read_pos (nthz g 0) n (write_pos (nthz g 0) n (mkPos (zb (nthz g 2)) (nthz g 3) (nthz g 4))))].
(* 606: [can_code; bus] | [name; id; ext; id; ext ...] ... -> the frames the reader files under that bus ([0] = no such bus) *)
Fixpoint ids_of (fuel : nat) (l : list Z) : list arbid :=
  match fuel with
  | O => []
  | S f => match l with i :: e :: r => (i, zb e) :: ids_of f r | _ => [] end
  end.
Definition bus_of (g : list Z) : bus := (nthz g 0, ids_of (length g) (tl g)).
Definition run_606 (h : list Z) (bs : io) : io :=
  match dict_get (bus_key (nthz h 0) (nthz h 1)) (read_cluster (write_cluster (nthz h 0) (map bus_of bs))) with
  | None => [[0]]
  | Some fs => [1] :: map (fun a => [fst a; bz (snd a)]) fs
  end.

Definition run_c06 (cmd : Z) (a : io) : io :=
  match cmd, a with
  | 601, [g] => run_601 g
  | 602, [g; f] => run_602 g f
  | 603, [g] => run_603 g
  | 604, [g; f] => run_604 g f
  | 605, [g] => run_605 g
  | 606, h :: bs => run_606 h bs
  | _, _ => [[-999]]
  end.
