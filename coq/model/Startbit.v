(* Hand model of Signal.set_startbit / Signal.get_startbit (src/canmatrix/canmatrix.py ~330-366).
   Definitions only. The translator regenerates gen/Gen_startbit.v from the source on every run and
   gen/Tie_startbit.v proves both equal for all arguments; the correspondence run compares this model
   with the implementation on the property's whole finite domain. *)
From CM Require Import lib.Prelude.

(* start_bit - (start_bit % 8) + 7 - (start_bit % 8); Python % is floor-mod = Z.modulo for divisor 8 *)
Definition flip (b : Z) : Z := b - b mod 8 + 7 - b mod 8.

(* bit_numbering: None | Some 0 | Some 1 as passed by callers; `bn != is_little_endian` compares the
   int with the bool, i.e. (bn = 1) <> le for bn in {0,1}.  start_little: the test is `is True`. *)
Definition numbering_differs (bn : option Z) (le : bool) : bool :=
  match bn with
  | None => false
  | Some n => negb (Z.eqb n (if le then 1 else 0))
  end.

(* returns None where the code raises StartbitLowerZero (nothing stored) *)
Definition set_startbit (le : bool) (size : Z) (sb : Z) (bn : option Z) (sl : bool) : option Z :=
  let sb1 := if numbering_differs bn le then flip sb else sb in
  let sb2 := if sl && negb le then sb1 + 1 - size else sb1 in
  if sb2 <? 0 then None else Some sb2.

Definition get_startbit (le : bool) (size : Z) (internal : Z) (bn : option Z) (sl : bool) : Z :=
  let s1 := if sl && negb le then internal + size - 1 else internal in
  if numbering_differs bn le then flip s1 else s1.

(* ---- specification vocabulary (physical coordinates) ---- *)

(* a bit of the payload: (byte index, bit index counted from the byte's least significant bit) *)
Definition coord := (Z * Z)%type.
Definition coord_lsb0 (n : Z) : coord := (n / 8, n mod 8).          (* DBC / ARXML numbering *)
Definition coord_msb0 (p : Z) : coord := (p / 8, 7 - p mod 8).      (* sequential MSB-first numbering *)

(* the numbering a call talks in: explicit 1 = LSB0, explicit 0 = MSB0, None = "consistent with the
   byte order" (little = LSB0, big = MSB0) *)
Definition eff_lsb0 (le : bool) (bn : option Z) : bool :=
  match bn with None => le | Some n => Z.eqb n 1 end.
Definition num_coord (lsb0 : bool) (n : Z) : coord := if lsb0 then coord_lsb0 n else coord_msb0 n.

(* physical coordinate of the bit of significance k (0 = least significant) of a signal whose
   internal start is i: Intel signals grow with ascending LSB0 number from the start bit; Motorola
   signals start at their most significant bit and walk the sequential MSB0 numbering upwards *)
Definition bit_coord (le : bool) (size i k : Z) : coord :=
  if le then coord_lsb0 (i + k) else coord_msb0 (i + (size - 1 - k)).

(* which bit a notation's number refers to: Intel always the LSB; Motorola the MSB unless start_little *)
Definition ref_bit (le : bool) (size : Z) (sl : bool) : Z :=
  if le then 0 else if sl then 0 else size - 1.
