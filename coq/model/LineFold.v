(* C20: readers as folds over lines with a per-line exception handler.

   Python:   for line in f:
                 try:    <statement branches mutate db and the loop variables>
                 except: <report, go on>          (dbc.py load ~509-940: print "error with line no";
                                                   sym.py load ~347-648: db.load_errors.append(e))
             <post-processing outside the try block>
   Exceptions do not roll anything back, so a failing statement leaves whatever it had already changed:
   `Fail` carries the PARTIALLY MUTATED state.  Definitions only; proofs are in proofs/C20_*.v.

   Part 1  generic fold, predicates about step functions.
   Part 2  a small DBC-like statement language (BO_ SG_ BA_ CM_ VAL_ SG_MUL_VAL_ unknown) with the structure of
           dbc.py load.  `dbc_step_gen atomic check`: atomic = SG_MUL_VAL_ / VAL_ parse the whole line before they change
           anything (repaired, fixes/C20_dbc_a, _b); check = BA_ values must be a number or a quoted string (the repair that
           was DECLINED: canmatrix's own writer emits bare words for matrix-level ENUM attributes).
           `dbc_step = dbc_step_gen true false` is the reader as it is now, `dbc_step_orig = dbc_step_gen false false` the
           reader as found, `dbc_step_strict = dbc_step_gen true true` the reader with the declined repair.
           The post-processing is tolerant now (fixes/C20_dbc_c1, _c2); `dbc_post_orig` raised.
   Part 3  a small SYM-like language ([frame] ID Type DLC CycleTime Var Mux unknown) with the structure of sym.py load:
           `sym_step` follows fixes/C20_sym_reader.patch, `sym_step_orig` the reader as found (a failing Mux= line
           poisons the loop variable `multiplexor` and writes mux_names before the <frame>_MUX signal exists; the
           end-of-file step `frame.signal_by_name(frame.name + "_MUX").values = ...` runs outside the try block).
   Names and texts are interned as integers by the harness.  Not modelled: the regular expressions and str.split
   (a line arrives as a tuple of fields, each a number, a string or malformed/missing), multi-line CM_ follow-up
   lines, the other statement kinds, everything of the post-processing except the cycle-time conversion. *)
From CM Require Import lib.Prelude model.ArbId.

(* ------------------------------------------------------------------------------------------------ *)
(* Part 1: generic                                                                                   *)
(* ------------------------------------------------------------------------------------------------ *)
Inductive outcome (S : Type) : Type :=
| Ok (s : S)        (* the statement ran to its end (or no branch recognised the line) *)
| Fail (s : S).     (* an exception reached the per-line handler; s = state at that moment *)
Arguments Ok {S} s.
Arguments Fail {S} s.

Definition settle {S} (o : outcome S) : S := match o with Ok s => s | Fail s => s end.
Definition step' {S L} (step : S -> L -> outcome S) (s : S) (l : L) : S := settle (step s l).
Definition read {S L} (step : S -> L -> outcome S) (s0 : S) (ls : list L) : S := fold_left (step' step) ls s0.
(* None = an exception escapes load() *)
Definition load_with {S L R} (step : S -> L -> outcome S) (post : S -> option R) (s0 : S) (ls : list L) : option R :=
  post (read step s0 ls).

(* a line the step function fails on before its first mutation, or that no branch recognises *)
Definition fails_before_mutation {S L} (step : S -> L -> outcome S) (l : L) : Prop := forall s, step s l = Fail s.
Definition unrecognised {S L} (step : S -> L -> outcome S) (l : L) : Prop := forall s, step s l = Ok s.
Definition neutral {S L} (step : S -> L -> outcome S) (l : L) : Prop := forall s, step' step s l = s.

(* merged is an interleaving of bads and goods (both keep their order) *)
Inductive Interleave {L} : list L -> list L -> list L -> Prop :=
| il_nil : Interleave [] [] []
| il_bad x bads goods merged : Interleave bads goods merged -> Interleave (x :: bads) goods (x :: merged)
| il_good x bads goods merged : Interleave bads goods merged -> Interleave bads (x :: goods) (x :: merged).

(* Fault isolation up to an observation.  sim s1 s2: "the same matrix" (loop variables may differ).
   A bad line keeps the observation; a preserving line maps sim-related states to sim-related states; a resetting
   line maps sim-related states to EQUAL states (it overwrites the loop variables from the observation).
   Faulted d clean faulted: faulted = clean + inserted bad lines, where after an insertion (d = true: the loop
   variables may be out of step) only preserving lines may follow until the next resetting line. *)
Definition sim_neutral {S L} (sim : S -> S -> Prop) (step : S -> L -> outcome S) (l : L) : Prop :=
  forall s, sim (step' step s l) s.
Definition sim_preserving {S L} (sim : S -> S -> Prop) (step : S -> L -> outcome S) (l : L) : Prop :=
  forall s1 s2, sim s1 s2 -> sim (step' step s1 l) (step' step s2 l).
Definition sim_resetting {S L} (sim : S -> S -> Prop) (step : S -> L -> outcome S) (l : L) : Prop :=
  forall s1 s2, sim s1 s2 -> step' step s1 l = step' step s2 l.

Inductive Faulted {L} (bad resetting preserving : L -> Prop) : bool -> list L -> list L -> Prop :=
| fa_nil d : Faulted bad resetting preserving d [] []
| fa_bad d x a b : bad x -> Faulted bad resetting preserving true a b -> Faulted bad resetting preserving d a (x :: b)
| fa_reset d l a b : resetting l -> Faulted bad resetting preserving false a b ->
                     Faulted bad resetting preserving d (l :: a) (l :: b)
| fa_pres d l a b : preserving l -> Faulted bad resetting preserving d a b ->
                    Faulted bad resetting preserving d (l :: a) (l :: b)
| fa_any l a b : Faulted bad resetting preserving false a b -> Faulted bad resetting preserving false (l :: a) (l :: b).

(* steps never remove or alter what earlier steps introduced; objs s o: object o is present in s *)
Definition preserves_introduced {S L O} (step : S -> L -> outcome S) (objs : S -> O -> Prop) : Prop :=
  forall s l o, objs s o -> objs (step' step s l) o.

(* ------------------------------------------------------------------------------------------------ *)
(* Part 2: DBC-like language                                                                         *)
(* ------------------------------------------------------------------------------------------------ *)
Inductive field :=
| Num (z : Z)      (* a token that is a number (for attribute values: the interned numeric text) *)
| Str (z : Z)      (* an identifier or a quoted string, interned *)
| Bad.             (* missing (line cut before it) or malformed (letters where a number belongs, unterminated string) *)

Definition num_of (f : field) : option Z := match f with Num z => Some z | _ => None end.
Definition name_of (f : field) : option Z := match f with Num z => Some z | Str z => Some z | Bad => None end.
Definition is_bad (f : field) : bool := match f with Bad => true | _ => false end.
Definition not_num (f : field) : bool := match f with Num _ => false | _ => true end.

(* what stands in the value position of a BA_ line *)
Inductive aval :=
| VNum (z : Z)      (* a number (interned text) *)
| VStr (z : Z)      (* a quoted string *)
| VWord (z : Z)     (* some other token: a bare word, a string cut before its closing quote - not an attribute_value of the
                       DBC grammar, but the pattern of the reader matches it *)
| VMissing.         (* nothing, or no terminating ';': the pattern does not match *)
Definition aval_grammatical (v : aval) : bool := match v with VNum _ | VStr _ => true | _ => false end.
Definition aval_missing (v : aval) : bool := match v with VMissing => true | _ => false end.

Record signal := mkSig {
  s_name : Z; s_start : Z; s_size : Z; s_le : bool; s_signed : bool; s_factor : Z; s_offset : Z;
  s_mux : Z;                         (* -1 none, -2 multiplexor (M), k >= 0: m<k> *)
  s_attrs : list (Z * aval); s_comment : option Z; s_values : list (Z * Z);
  s_muxer : option Z; s_ranges : list (Z * Z) }.
Record frame := mkFrame {
  f_id : arbid; f_name : Z; f_size : Z; f_sender : Z;
  f_attrs : list (Z * aval); f_comment : option Z; f_complex : bool; f_signals : list signal }.
(* frames: db.frames (append only while reading); cur: the loop variable `frame` = index of a frame object, None = Python None *)
Record dstate := mkD { frames : list frame; cur : option nat }.
Definition dbc_init : dstate := mkD [] None.

Inductive line :=
| LBo (id name size sender : field)                                   (* BO_ id name: size sender *)
| LSg (name : field) (mux : option field) (start size order sign factor offset : field)
      (* SG_ name [M|m<k>] : start|size@order sign (factor,offset) ...; mux: None absent, Some (Str _) "M", Some (Num k) "m<k>",
         Some Bad malformed; order: Num 1 Intel; sign: Num 1 '-', Num 0 '+' *)
| LBaBo (attr : Z) (id : field) (value : aval)                        (* BA_ "attr" BO_ id value; *)
| LBaSg (attr : Z) (id sname : field) (value : aval)                  (* BA_ "attr" SG_ id sname value; *)
| LCmBo (id text : field)                                             (* CM_ BO_ id "text"; *)
| LCmSg (id sname text : field)                                       (* CM_ SG_ id sname "text"; *)
| LVal (id sname : field) (pairs : list (field * field)) (terminated : bool)        (* VAL_ id sname k "label" ... ; *)
| LMulVal (id sname muxer : field) (ranges : list (field * field)) (terminated : bool)   (* SG_MUL_VAL_ id sname muxer a-b, ... ; *)
| LRef (id : field)
      (* BO_TX_BU_ id : ..; / SIG_GROUP_ id ..; / SIG_VALTYPE_ id sig : 1;  - statements that look a frame up INTO THE LOOP VARIABLE
         `frame`; what they attach (transmitters, signal groups, the float flag) is outside the modelled matrix *)
| LUnknown (kw : Z).

Definition eq_arbid (a b : arbid) : bool := (fst a =? fst b) && Bool.eqb (snd a) (snd b).

(* frames_by_id[hash(id)] : the dict is overwritten by a later BO_ with the same identifier -> last match *)
Fixpoint find_frame_from (fs : list frame) (a : arbid) (i : nat) (acc : option nat) : option nat :=
  match fs with
  | [] => acc
  | f :: r => find_frame_from r a (S i) (if eq_arbid (f_id f) a then Some i else acc)
  end.
Definition find_frame (fs : list frame) (a : arbid) : option nat := find_frame_from fs a O None.

Fixpoint upd_nth {A} (l : list A) (i : nat) (g : A -> A) : list A :=
  match l, i with
  | [], _ => []
  | x :: r, O => g x :: r
  | x :: r, S j => x :: upd_nth r j g
  end.

(* Frame.signal_by_name: first signal with that name *)
Fixpoint has_signal (sigs : list signal) (n : Z) : bool :=
  match sigs with [] => false | x :: r => (s_name x =? n) || has_signal r n end.
Fixpoint upd_signal (sigs : list signal) (n : Z) (g : signal -> signal) : list signal :=
  match sigs with
  | [] => []
  | x :: r => if s_name x =? n then g x :: r else x :: upd_signal r n g
  end.

Definition set_assoc {V} (l : list (Z * V)) (k : Z) (v : V) : list (Z * V) :=
  (filter (fun kv => negb (fst kv =? k)) l) ++ [(k, v)].

Definition with_frames (s : dstate) (fs : list frame) : dstate := mkD fs (cur s).
Definition with_cur (s : dstate) (c : option nat) : dstate := mkD (frames s) c.
Definition on_frame (s : dstate) (i : nat) (g : frame -> frame) : list frame := upd_nth (frames s) i g.
Definition on_signal (n : Z) (g : signal -> signal) (f : frame) : frame :=
  mkFrame (f_id f) (f_name f) (f_size f) (f_sender f) (f_attrs f) (f_comment f) (f_complex f) (upd_signal (f_signals f) n g).
Definition frame_has_signal (s : dstate) (i : nat) (n : Z) : bool :=
  match nth_error (frames s) i with Some f => has_signal (f_signals f) n | None => false end.

Definition f_set_attr (a : Z) (v : aval) (f : frame) : frame :=
  mkFrame (f_id f) (f_name f) (f_size f) (f_sender f) (set_assoc (f_attrs f) a v) (f_comment f) (f_complex f) (f_signals f).
Definition f_set_comment (t : Z) (f : frame) : frame :=
  mkFrame (f_id f) (f_name f) (f_size f) (f_sender f) (f_attrs f) (Some t) (f_complex f) (f_signals f).
Definition f_set_complex (f : frame) : frame :=
  mkFrame (f_id f) (f_name f) (f_size f) (f_sender f) (f_attrs f) (f_comment f) true (f_signals f).
Definition f_add_signal (x : signal) (f : frame) : frame :=
  mkFrame (f_id f) (f_name f) (f_size f) (f_sender f) (f_attrs f) (f_comment f) (f_complex f) (f_signals f ++ [x]).
Definition s_set_attr (a : Z) (v : aval) (x : signal) : signal :=
  mkSig (s_name x) (s_start x) (s_size x) (s_le x) (s_signed x) (s_factor x) (s_offset x) (s_mux x)
        (set_assoc (s_attrs x) a v) (s_comment x) (s_values x) (s_muxer x) (s_ranges x).
Definition s_set_comment (t : Z) (x : signal) : signal :=
  mkSig (s_name x) (s_start x) (s_size x) (s_le x) (s_signed x) (s_factor x) (s_offset x) (s_mux x)
        (s_attrs x) (Some t) (s_values x) (s_muxer x) (s_ranges x).
Definition s_add_value (k v : Z) (x : signal) : signal :=
  mkSig (s_name x) (s_start x) (s_size x) (s_le x) (s_signed x) (s_factor x) (s_offset x) (s_mux x)
        (s_attrs x) (s_comment x) (set_assoc (s_values x) k v) (s_muxer x) (s_ranges x).
Definition s_set_muxer (m : Z) (x : signal) : signal :=
  mkSig (s_name x) (s_start x) (s_size x) (s_le x) (s_signed x) (s_factor x) (s_offset x) (s_mux x)
        (s_attrs x) (s_comment x) (s_values x) (Some m) (s_ranges x).
Definition s_add_ranges (rs : list (Z * Z)) (x : signal) : signal :=
  mkSig (s_name x) (s_start x) (s_size x) (s_le x) (s_signed x) (s_factor x) (s_offset x) (s_mux x)
        (s_attrs x) (s_comment x) (s_values x) (s_muxer x) (s_ranges x ++ rs).

(* check_attribute_value (the declined repair): a number or a quoted string *)
Definition value_ok (v : aval) : bool := aval_grammatical v.

Definition mux_code (m : option field) : option Z :=
  match m with
  | None => Some (-1)
  | Some (Str _) => Some (-2)
  | Some (Num k) => Some k
  | Some Bad => None
  end.

(* all keys numbers and all labels terminated strings: Some list, else None *)
Fixpoint parse_pairs (ps : list (field * field)) : option (list (Z * Z)) :=
  match ps with
  | [] => Some []
  | (k, v) :: r =>
      match num_of k, name_of v, parse_pairs r with
      | Some a, Some b, Some t => Some ((a, b) :: t)
      | _, _, _ => None
      end
  end.

Definition step_bo (s : dstate) (id name size sender : field) : outcome dstate :=
  match num_of id, name_of name, num_of size, name_of sender with
  | Some i, Some n, Some z, Some e =>
      match from_compound_integer i with                (* Frame(arbitration_id=int(..)) may raise ArbitrationIdOutOfRange *)
      | Some a => Ok (mkD (frames s ++ [mkFrame a n z e [] None false []]) (Some (length (frames s))))
      | None => Fail s
      end
  | _, _, _, _ => Fail s                               (* regex does not match / int() raises: nothing touched yet *)
  end.

Definition step_sg (s : dstate) (name : field) (mux : option field) (start size order sign factor offset : field)
  : outcome dstate :=
  match name_of name, mux_code mux, num_of start, num_of size with
  | Some n, Some m, Some st, Some sz =>
      match num_of order, num_of sign, num_of factor, num_of offset with
      | Some o, Some sg, Some fa, Some off =>
          (* the Signal object is complete; only now: frame.add_signal(temp_signal) on the loop variable `frame` *)
          match cur s with
          | Some i =>
              if (i <? length (frames s))%nat
              then Ok (with_frames s (on_frame s i (f_add_signal (mkSig n st sz (o =? 1) (sg =? 1) fa off m [] None [] None []))))
              else Fail s
          | None => Fail s                               (* AttributeError: 'NoneType' has no attribute add_signal *)
          end
      | _, _, _, _ => Fail s
      end
  | _, _, _, _ => Fail s
  end.

Definition step_babo (check : bool) (s : dstate) (a : Z) (id : field) (v : aval) : outcome dstate :=
  match num_of id with
  | None => Fail s                                       (* (\d+) does not match -> temp is None -> AttributeError *)
  | Some i =>
      if aval_missing v then Fail s else                 (* no value / no ';' : temp is None -> AttributeError *)
      match from_compound_integer i with
      | None => Fail s
      | Some key =>
          match find_frame (frames s) key with
          | None => Fail s                               (* None.add_attribute *)
          | Some k => if check && negb (value_ok v) then Fail s
                      else Ok (with_frames s (on_frame s k (f_set_attr a v)))
          end
      end
  end.

Definition step_basg (check : bool) (s : dstate) (a : Z) (id sn : field) (v : aval) : outcome dstate :=
  match num_of id, name_of sn with
  | Some i, Some n =>
      if aval_missing v then Ok s else                   (* `if temp is not None` *)
      match from_compound_integer i with
      | None => Fail s
      | Some key =>
          match find_frame (frames s) key with
          | None => Fail s
          | Some k => if frame_has_signal s k n
                      then (if check && negb (value_ok v) then Fail s
                            else Ok (with_frames s (on_frame s k (on_signal n (s_set_attr a v)))))
                      else Fail s                        (* None.add_attribute *)
          end
      end
  | _, _ => Ok s                                         (* `if temp is not None` : silently skipped *)
  end.

Definition step_cmbo (s : dstate) (id text : field) : outcome dstate :=
  match text with
  | Bad => Ok s                                          (* neither comment pattern matches *)
  | Num t | Str t =>
      match num_of id with
      | None => Fail s                                   (* int('abc') *)
      | Some i =>
          match from_compound_integer i with
          | None => Fail s
          | Some key =>
              let k := find_frame (frames s) key in      (* frame = get_frame_by_id(..)  : the loop variable is overwritten *)
              match k with
              | Some kk => Ok (mkD (on_frame s kk (f_set_comment t)) k)
              | None => Ok (with_cur s None)             (* `if frame:` *)
              end
          end
      end
  end.

Definition step_cmsg (s : dstate) (id sn text : field) : outcome dstate :=
  match text, name_of sn with
  | Bad, _ => Ok s
  | _, None => Ok s
  | Num t, Some n | Str t, Some n =>
      match num_of id with
      | None => Fail s
      | Some i =>
          match from_compound_integer i with
          | None => Fail s
          | Some key =>
              let k := find_frame (frames s) key in
              match k with
              | Some kk => Ok (mkD (on_frame s kk (on_signal n (s_set_comment t))) k)      (* `if signal:` inside upd_signal *)
              | None => Fail (with_cur s None)           (* frame = None ; None.signal_by_name -> AttributeError *)
              end
          end
      end
  end.

Fixpoint add_values (ps : list (Z * Z)) (x : signal) : signal :=
  match ps with [] => x | (k, v) :: r => add_values r (s_add_value k v x) end.

(* original reader: descriptions are added one by one until a malformed key stops the loop *)
Fixpoint add_values_until_bad (ps : list (field * field)) (x : signal) : signal * bool :=
  match ps with
  | [] => (x, true)
  | (k, v) :: r =>
      match num_of k, name_of v with
      | Some a, Some b => add_values_until_bad r (s_add_value a b x)
      | _, _ => (x, false)
      end
  end.
Definition completed (ps : list (field * field)) : bool :=
  match parse_pairs ps with Some _ => true | None => false end.

Definition step_val (fixed : bool) (s : dstate) (id sn : field) (ps : list (field * field)) (term : bool) : outcome dstate :=
  if negb term then Ok s else                            (* no terminating ';' : the pattern does not match *)
  match num_of id, name_of sn with
  | Some i, Some n =>
      match from_compound_integer i with
      | None => Fail s
      | Some key =>
          let k := find_frame (frames s) key in
          match k with
          | None => Fail (with_cur s None)
          | Some kk =>
              if fixed then
                match parse_pairs ps with
                | Some vs => Ok (mkD (on_frame s kk (on_signal n (add_values vs))) k)
                | None => Fail (with_cur s k)            (* validated before the first add_values *)
                end
              else
                (if completed ps then Ok else Fail)
                  (mkD (on_frame s kk (on_signal n (fun x => fst (add_values_until_bad ps x)))) k)
          end
      end
  | _, _ => Ok s                                         (* environment-variable branch / no match: matrix untouched *)
  end.

Fixpoint parse_ranges (rs : list (field * field)) : option (list (Z * Z)) :=
  match rs with
  | [] => Some []
  | (a, b) :: r =>
      match num_of a, num_of b, parse_ranges r with
      | Some x, Some y, Some t => Some ((x, y) :: t)
      | _, _, _ => None
      end
  end.
Fixpoint ranges_until_bad (rs : list (field * field)) : list (Z * Z) :=
  match rs with
  | [] => []
  | (a, b) :: r => match num_of a, num_of b with Some x, Some y => (x, y) :: ranges_until_bad r | _, _ => [] end
  end.

Definition step_mulval (fixed : bool) (s : dstate) (id sn muxer : field) (rs : list (field * field)) (term : bool)
  : outcome dstate :=
  if negb term then Ok s else
  match num_of id, name_of sn, name_of muxer with
  | Some i, Some n, Some m =>
      match from_compound_integer i with
      | None => Fail s
      | Some key =>
          let k := find_frame (frames s) key in
          match k with
          | None => Ok (with_cur s None)                 (* `if frame is not None` *)
          | Some kk =>
              if fixed then
                if frame_has_signal s kk n then
                  match parse_ranges rs with
                  | Some v => Ok (mkD (on_frame s kk (fun f => f_set_complex (on_signal n (fun x => s_add_ranges v (s_set_muxer m x)) f))) k)
                  | None => Fail (with_cur s k)
                  end
                else Fail (with_cur s k)
              else
                (* frame.is_complex_multiplexed = True ; signal.muxer_for_signal = .. ; then the ranges one by one *)
                if frame_has_signal s kk n then
                  (match parse_ranges rs with Some _ => Ok | None => Fail end)
                    (mkD (on_frame s kk (fun f => f_set_complex (on_signal n (fun x => s_add_ranges (ranges_until_bad rs) (s_set_muxer m x)) f))) k)
                else Fail (mkD (on_frame s kk f_set_complex) k)
          end
      end
  | _, _, _ => Ok s
  end.

Definition dbc_step_gen (atomic check : bool) (s : dstate) (l : line) : outcome dstate :=
  match l with
  | LBo id name size sender => step_bo s id name size sender
  | LSg name mux start size order sign factor offset => step_sg s name mux start size order sign factor offset
  | LBaBo a id v => step_babo check s a id v
  | LBaSg a id sn v => step_basg check s a id sn v
  | LCmBo id t => step_cmbo s id t
  | LCmSg id sn t => step_cmsg s id sn t
  | LVal id sn ps term => step_val atomic s id sn ps term
  | LMulVal id sn m rs term => step_mulval atomic s id sn m rs term
  | LRef id =>
      match num_of id with
      | None => Fail s                                   (* the pattern does not match / int() raises *)
      | Some i => match from_compound_integer i with
                  | None => Fail s
                  | Some key => Ok (with_cur s (find_frame (frames s) key))   (* frame = get_frame_by_id(..) *)
                  end
      end
  | LUnknown _ => Ok s
  end.
Definition dbc_step := dbc_step_gen true false.          (* the reader as it is now *)
Definition dbc_step_orig := dbc_step_gen false false.    (* the reader as found *)
Definition dbc_step_strict := dbc_step_gen true true.    (* with the declined BA_ value check *)

(* post-processing: frame.cycle_time = int(float(frame.attributes.get("GenMsgCycleTime", 0)));  attribute code 1 = GenMsgCycleTime.
   Result per frame: (identifier, cycle-time text code or -1 for the default 0).  None = the conversion raises. *)
Definition gen_msg_cycle_time : Z := 1.
Fixpoint assoc {V} (l : list (Z * V)) (k : Z) : option V :=
  match l with [] => None | (a, v) :: r => if a =? k then Some v else assoc r k end.
Definition cycle_of (fixed : bool) (f : frame) : option Z :=
  match assoc (f_attrs f) gen_msg_cycle_time with
  | None => Some (-1)
  | Some (VNum z) => Some z
  | Some _ => if fixed then Some (-1) else None      (* convert_or_default / ValueError *)
  end.
Fixpoint dbc_post_gen (fixed : bool) (fs : list frame) : option (list (arbid * Z)) :=
  match fs with
  | [] => Some []
  | f :: r => match cycle_of fixed f, dbc_post_gen fixed r with
              | Some c, Some t => Some ((f_id f, c) :: t)
              | _, _ => None
              end
  end.
Definition dbc_post (s : dstate) := dbc_post_gen true (frames s).
Definition dbc_post_orig (s : dstate) := dbc_post_gen false (frames s).

(* what the cut property speaks about: frames by identifier, signals with placement, byte order, sign, scaling *)
Definition sig_skel (x : signal) : list Z :=
  [s_name x; s_start x; s_size x; if s_le x then 1 else 0; if s_signed x then 1 else 0; s_factor x; s_offset x].
Inductive dobj := OFrame (a : arbid) | OSignal (a : arbid) (skel : list Z).
Definition dbc_objs (s : dstate) (o : dobj) : Prop :=
  match o with
  | OFrame a => exists f, In f (frames s) /\ f_id f = a
  | OSignal a sk => exists f x, In f (frames s) /\ f_id f = a /\ In x (f_signals f) /\ sig_skel x = sk
  end.

(* syntactically malformed lines of the language (the three fault kinds): a mandatory field is missing or of the wrong type,
   or the keyword is unknown *)
Definition pair_bad (p : field * field) : bool := is_bad (fst p) || is_bad (snd p).
Definition dbc_malformed_gen (check : bool) (l : line) : bool :=
  match l with
  | LBo id name size sender =>
      not_num id || is_bad name || not_num size || is_bad sender
      || match id with Num i => match from_compound_integer i with None => true | Some _ => false end | _ => false end
  | LSg name mux start size order sign factor offset =>
      is_bad name || match mux with Some Bad => true | _ => false end
      || not_num start || not_num size || not_num order || not_num sign || not_num factor || not_num offset
  (* a BA_ value that is present but not an attribute_value of the grammar counts only when the reader checks it *)
  | LBaBo _ id v => not_num id || aval_missing v || (check && negb (aval_grammatical v))
  | LBaSg _ id sn v => not_num id || is_bad sn || aval_missing v || (check && negb (aval_grammatical v))
  | LCmBo id t => not_num id || is_bad t
  | LCmSg id sn t => not_num id || is_bad sn || is_bad t
  | LVal id sn ps term => negb term || not_num id || is_bad sn || negb (completed ps)
  | LMulVal id sn m rs term => negb term || not_num id || is_bad sn || is_bad m
                               || match parse_ranges rs with Some _ => false | None => true end
  | LRef id => not_num id
  | LUnknown _ => true
  end.
(* the malformed lines the reader as it is now skips: every kind but "BA_ with a non-grammatical value that is present" *)
Definition dbc_malformed := dbc_malformed_gen false.
Definition is_sg (l : line) : bool := match l with LSg _ _ _ _ _ _ _ _ => true | _ => false end.
Definition is_bo (l : line) : bool := match l with LBo _ _ _ _ => true | _ => false end.
(* well-formed shape of a file: every SG_ line directly follows a BO_ line or another SG_ line *)
Fixpoint sg_guarded_from (prev_ok : bool) (ls : list line) : bool :=
  match ls with
  | [] => true
  | l :: r => (if is_sg l then prev_ok else true) && sg_guarded_from (is_sg l && prev_ok || (is_bo l && negb (dbc_malformed l))) r
  end.
Definition sg_guarded (ls : list line) : bool := sg_guarded_from false ls.
(* faulted = clean with malformed lines inserted, never directly before an SG_ line *)
Inductive DbcInserted (check : bool) : list line -> list line -> Prop :=
| di_nil : DbcInserted check [] []
| di_keep l a b : DbcInserted check a b -> DbcInserted check (l :: a) (l :: b)
| di_bad x a b : dbc_malformed_gen check x = true -> match a with l :: _ => is_sg l = false | [] => True end ->
                 DbcInserted check a b -> DbcInserted check a (x :: b).

(* ------------------------------------------------------------------------------------------------ *)
(* Part 3: SYM-like language                                                                         *)
(* ------------------------------------------------------------------------------------------------ *)
Record ysig := mkYSig { ys_name : Z; ys_start : Z; ys_size : Z; ys_le : bool; ys_signed : bool; ys_mux : Z (* -1 static, -2 multiplexor, k *) }.
Record yframe := mkYFrame { yf_name : Z; yf_id : Z; yf_ext : bool; yf_size : Z; yf_cycle : Z;
                            yf_muxnames : list (Z * Z); yf_signals : list ysig }.
(* the loop variable `multiplexor`: None, an int, or (reader as found) the raw text of a Mux value that failed to parse *)
Inductive muxvar := MNone | MVal (k : Z) | MPoison.
Record ystate := mkY { y_done : list yframe;          (* db.frames *)
                       y_cur : option yframe;         (* loop variable `frame`, not yet in db.frames *)
                       y_fname : Z;                   (* loop variable `frame_name` (-1: "") *)
                       y_mux : muxvar;
                       y_errs : nat }.                (* len(db.load_errors) *)
Definition sym_init : ystate := mkY [] None (-1) MNone O.
Definition record_error (s : ystate) : ystate := mkY (y_done s) (y_cur s) (y_fname s) (y_mux s) (S (y_errs s)).

Inductive sline :=
| YHeader (name : Z) (closed : bool)                    (* [name]   closed = false: the bracket is not closed *)
| YId (v : field) (hsuffix : bool)                      (* ID=<hex>h *)
| YType (v : field)                                     (* Type=Extended: Num 1, Type=Standard: Num 0, anything else: Bad (ignored) *)
| YDlc (v : field)
| YCycle (v : field)
| YVar (name ty start size : field) (motorola nums_ok : bool)
      (* Var=name type start,size [-m] [/f: /o: /min: /max: /d: /p:] ; ty: Num 0 unsigned, Num 1 signed, Bad unknown type;
         nums_ok: every number in the switches is well-formed *)
| YMux (name start size value : field) (motorola nums_ok : bool)     (* Mux=name start,size value [-m] [...] *)
| YUnknown (kw : Z).

Definition mux_signal_name (fname : Z) : Z := - fname - 1000.      (* frame_name + "_MUX": a name no Var= line can have *)
Fixpoint yhas (sigs : list ysig) (n : Z) : bool := match sigs with [] => false | x :: r => (ys_name x =? n) || yhas r n end.
Definition yf_upd (f : yframe) (id : Z) (ext : bool) (size cyc : Z) : yframe :=
  mkYFrame (yf_name f) id ext size cyc (yf_muxnames f) (yf_signals f).
Definition yf_add_signal (f : yframe) (x : ysig) : yframe :=
  mkYFrame (yf_name f) (yf_id f) (yf_ext f) (yf_size f) (yf_cycle f) (yf_muxnames f) (yf_signals f ++ [x]).
Definition yf_add_muxname (f : yframe) (k n : Z) : yframe :=
  mkYFrame (yf_name f) (yf_id f) (yf_ext f) (yf_size f) (yf_cycle f) (yf_muxnames f ++ [(k, n)]) (yf_signals f).
Definition mux_in (f : yframe) (k : Z) : bool := existsb (fun kv => fst kv =? k) (yf_muxnames f).

(* "if len(frame.mux_names) > 0: frame.signal_by_name(frame.name + '_MUX').values = frame.mux_names ; db.add_frame(frame)"
   None = AttributeError on None *)
Definition close_frame (f : yframe) : option yframe :=
  match yf_muxnames f with
  | [] => Some f
  | _ :: _ => if yhas (yf_signals f) (mux_signal_name (yf_name f)) then Some f else None
  end.

Definition with_ycur (s : ystate) (f : yframe) : ystate := mkY (y_done s) (Some f) (y_fname s) (y_mux s) (y_errs s).
Definition mux_of_var (m : muxvar) : option Z := match m with MNone => Some (-1) | MVal k => Some k | MPoison => None end.

Definition ystep_header (fixed : bool) (s : ystate) (name : Z) (closed : bool) : outcome ystate :=
  if fixed && negb closed then Fail (record_error s) else
  (* multiplexor = None *)
  if name =? y_fname s then Ok (mkY (y_done s) (y_cur s) (y_fname s) MNone (y_errs s)) else
  (* frame_name = <new name>, then the pending frame is completed and added, then frame = Frame(frame_name) *)
  match y_cur s with
  | None => Ok (mkY (y_done s) (Some (mkYFrame name 0 false 0 0 [] [])) name MNone (y_errs s))
  | Some f =>
      match close_frame f with
      | Some f' => Ok (mkY (y_done s ++ [f']) (Some (mkYFrame name 0 false 0 0 [] [])) name MNone (y_errs s))
      | None => Fail (record_error (mkY (y_done s) (y_cur s) name MNone (y_errs s)))
      end
  end.

Definition ystep_var (s : ystate) (name ty start size : field) (motorola nums_ok : bool) : outcome ystate :=
  match name_of name, num_of ty, num_of start, num_of size with
  | Some n, Some t, Some st, Some sz =>
      if negb nums_ok then Fail (record_error s) else
      match mux_of_var (y_mux s), y_cur s with
      | Some m, Some f => Ok (with_ycur s (yf_add_signal f (mkYSig n st sz (negb motorola) (t =? 1) m)))
      | _, _ => Fail (record_error s)        (* Signal(multiplex='zz') raises / frame is None *)
      end
  | _, _, _, _ => Fail (record_error s)
  end.

Definition ystep_mux (fixed : bool) (s : ystate) (name start size value : field) (motorola nums_ok : bool) : outcome ystate :=
  match name_of name, num_of start, num_of size with
  | Some n, Some st, Some sz =>
      match value with
      | Bad => Fail (record_error s)                    (* the value is missing: IndexError before anything is assigned *)
      | Str _ =>
          (* int(multiplexor) raises; the reader as found had already assigned the raw text to `multiplexor` *)
          if fixed then Fail (record_error s)
          else Fail (record_error (mkY (y_done s) (y_cur s) (y_fname s) MPoison (y_errs s)))
      | Num k =>
          match y_cur s with
          | None => Fail (record_error (if fixed then s else mkY (y_done s) (y_cur s) (y_fname s) (MVal k) (y_errs s)))
          | Some f =>
              let s1 := if fixed then s else mkY (y_done s) (y_cur s) (y_fname s) (MVal k) (y_errs s) in
              if mux_in f k then Fail (record_error s1) else             (* DuplicateMuxIdError *)
              let mname := mux_signal_name (y_fname s) in
              if fixed then
                if negb nums_ok then Fail (record_error s) else
                let f1 := if yhas (yf_signals f) mname then f
                          else yf_add_signal f (mkYSig mname st sz (negb motorola) false (-2)) in
                Ok (mkY (y_done s) (Some (yf_add_muxname f1 k n)) (y_fname s) (MVal k) (y_errs s))
              else
                let f0 := yf_add_muxname f k n in                          (* frame.mux_names[multiplexor] = sig_name *)
                if yhas (yf_signals f) mname then Ok (mkY (y_done s) (Some f0) (y_fname s) (MVal k) (y_errs s))
                else if negb nums_ok                                       (* Signal(factor='abc') raises *)
                     then Fail (record_error (mkY (y_done s) (Some f0) (y_fname s) (MVal k) (y_errs s)))
                     else Ok (mkY (y_done s) (Some (yf_add_signal f0 (mkYSig mname st sz (negb motorola) false (-2))))
                                  (y_fname s) (MVal k) (y_errs s))
          end
      end
  | _, _, _ => Fail (record_error s)
  end.

Definition ystep_set (s : ystate) (g : yframe -> yframe) : outcome ystate :=
  match y_cur s with
  | Some f => Ok (with_ycur s (g f))
  | None => Fail (record_error s)                       (* frame is None *)
  end.

Definition sym_step_gen (fixed : bool) (s : ystate) (l : sline) : outcome ystate :=
  match l with
  | YHeader n c => ystep_header fixed s n c
  | YId v h =>
      match num_of v with
      | Some i =>
          if h then ystep_set s (fun f => yf_upd f i (yf_ext f) (yf_size f) (yf_cycle f))
          (* no 'h' suffix: the reader (repaired or not - whether a plain number is legal in PEAK's format is left open, so
             nothing was changed here) cuts the last character off whatever it is: the last hex digit is lost *)
          else if i <? 16 then Fail (record_error s)
          else ystep_set s (fun f => yf_upd f (i / 16) (yf_ext f) (yf_size f) (yf_cycle f))
      | None => Fail (record_error s)
      end
  | YType v =>
      match v with
      | Num 1 => ystep_set s (fun f => yf_upd f (yf_id f) true (yf_size f) (yf_cycle f))
      | _ => Ok s
      end
  | YDlc v => match num_of v with
              | Some z => ystep_set s (fun f => yf_upd f (yf_id f) (yf_ext f) z (yf_cycle f))
              | None => Fail (record_error s) end
  | YCycle v => match num_of v with
                | Some z => ystep_set s (fun f => yf_upd f (yf_id f) (yf_ext f) (yf_size f) z)
                | None => Fail (record_error s) end
  | YVar n t st sz m ok => ystep_var s n t st sz m ok
  | YMux n st sz v m ok => ystep_mux fixed s n st sz v m ok
  | YUnknown _ => Ok s
  end.
Definition sym_step := sym_step_gen true.
Definition sym_step_orig := sym_step_gen false.

(* end of file, outside the try block: the pending frame is completed and added.  None = the exception escapes load() *)
Definition sym_post (s : ystate) : option (list yframe * nat) :=
  match y_cur s with
  | None => Some (y_done s, y_errs s)
  | Some f => match close_frame f with
              | Some f' => Some (y_done s ++ [f'], y_errs s)
              | None => None
              end
  end.

Definition sym_malformed (l : sline) : bool :=
  match l with
  | YHeader _ c => negb c
  | YId v h => not_num v
  | YType _ => false
  | YDlc v | YCycle v => not_num v
  | YVar n t st sz _ ok => is_bad n || not_num t || not_num st || not_num sz || negb ok
  | YMux n st sz v _ ok => is_bad n || not_num st || not_num sz || not_num v || negb ok
  | YUnknown _ => false
  end.
(* frames with their signals, pending frame included: what a SYM file has introduced so far *)
Definition sym_all_frames (s : ystate) : list yframe := y_done s ++ match y_cur s with Some f => [f] | None => [] end.
Definition sym_objs (s : ystate) (o : Z * ysig) : Prop :=
  exists f, In f (sym_all_frames s) /\ yf_name f = fst o /\ In (snd o) (yf_signals f).

(* invariant of the repaired SYM reader: the pending frame carries the current frame name, and if it has mux names it has its
   <frame>_MUX signal (so the end-of-file step cannot raise) *)
Definition mux_inv (s : ystate) : Prop :=
  match y_cur s with
  | None => True
  | Some f => yf_name f = y_fname s /\
              (yf_muxnames f = [] \/ yhas (yf_signals f) (mux_signal_name (yf_name f)) = true)
  end.
Fixpoint add_errors (n : nat) (s : ystate) : ystate := match n with O => s | S k => record_error (add_errors k s) end.
