(* Field codecs of the write+read formats for a signal's value interpretation: sign/float type words, multiplex
   tokens, and the text of decimal numbers (factor / offset).  Definitions only.

   mirrors (src/canmatrix/formats):
     type words   dbc.py dump ~306-312 (+/-), ~441-448 (SIG_VALTYPE_), load ~576/~628 and ~884-888
                  dbf.py dump ~372-384 (U/I/F/D), load ~262-269
                  kcd.py create_signal ~81-88 (Value@type), parse_signal ~276-284
                  sym.py create_signal ~108-116 (after the repair: float before signed), load ~444-462
                  arxml.py get_base_type_of_signal ~317-352, dump ~662-665/~768-776 (AR4), ~709-712/~744-756 (AR3),
                           eval_type_of_signal ~1075-1098, get_signals ~1157-1165, ~1227 (after the repair: ENCODING text)
                  json.py dump is_signed / is_float, load ~244-246
     multiplex    dbc.py dump ~291-302, load ~599-643 ; dbf.py dump ~403-408, load ~253-258 ;
                  sym.py dump ~272-296 (Mux= value token), load ~484-489 ; kcd.py Multiplex / MuxGroup@count ;
                  json.py dump ~146-150, load ~269 (after the repair: through multiplex_setter; before: see json_read_mux_before_fix) ;
                  xls_common.py ~84-88 / xls.py ~471-476 ("Mode Signal:", "Mode <n>:")
     decimals     str(decimal.Decimal) (_pydecimal.Decimal.__str__, finite numbers, default context: capitals=1),
                  decimal.Decimal(<text>) (_pydecimal: _parser regex, int(intpart+fracpart), exp - len(fracpart)),
                  dbc.py / sym.py format_float ~53 / ~88.
   A decimal text is modelled as its token structure (sign, integer digits, fraction digits, exponent sign and digits);
   the characters '.', 'E', '+', '-' that join the tokens are outside the model. *)
From CM Require Import lib.Prelude.

(* ================= sign / float type ================= *)
(* what canmatrix stores: width, is_signed, is_float *)
Record sigtype := mkType { ty_size : Z; ty_signed : bool; ty_float : bool }.

Definition b2z' (b : bool) : Z := if b then 1 else 0.
Definition gnth (l : list Z) (i : nat) : Z := nth i l 0.

(* DBC: sign character (1 = '-') and the SIG_VALTYPE_ statement (0 = none, 1 = 32 bit IEEE float, 2 = 64 bit) *)
Definition dbc_write_type (t : sigtype) : list Z :=
  [b2z' (ty_signed t); if ty_float t then (if ty_size t >? 32 then 2 else 1) else 0].
Definition dbc_read_type (f : list Z) : option (bool * bool) :=
  Some (gnth f 0 =? 1, negb (gnth f 1 =? 0)).

(* DBF sign column: 0 'U', 1 'I', 2 'F', 3 'D' *)
Definition dbf_write_type (t : sigtype) : list Z :=
  [if ty_float t then (if ty_size t >? 32 then 3 else 2) else if ty_signed t then 1 else 0].
Definition dbf_read_type (f : list Z) : option (bool * bool) :=
  let c := gnth f 0 in
  if c =? 0 then Some (false, false)
  else if (c =? 2) || (c =? 3) then Some (false, true)
  else Some (true, false).

(* KCD Value@type: 0 absent, 1 "signed", 2 "single", 3 "double", 4 "unsigned" *)
Definition kcd_write_type (t : sigtype) : list Z :=
  [if ty_float t then (if ty_size t >? 32 then 3 else 2) else if ty_signed t then 1 else 0].
Definition kcd_read_type (f : list Z) : option (bool * bool) :=
  let c := gnth f 0 in
  if c =? 0 then Some (false, false)
  else if (c =? 2) || (c =? 3) then Some (false, true)
  else if c =? 4 then Some (false, false)
  else Some (true, false).

(* SYM type word: 0 unsigned, 1 signed, 2 float, 3 double, 4 bit, 5 raw, 6 char, 7 string; other words are
   enumeration names or raise ValueError (None) *)
Definition sym_write_type (t : sigtype) : list Z :=
  [if ty_float t then (if ty_size t >? 32 then 3 else 2) else if ty_signed t then 1 else 0].
Definition sym_read_type (f : list Z) : option (bool * bool) :=
  let c := gnth f 0 in
  if (c =? 0) || (c =? 4) || (c =? 5) || (c =? 6) || (c =? 7) then Some (false, false)
  else if c =? 1 then Some (true, false)
  else if (c =? 2) || (c =? 3) then Some (false, true)
  else None.
(* the writer before the repair: `if is_signed: signed elif is_float: float` *)
Definition sym_write_type_before_fix (t : sigtype) : list Z :=
  [if ty_signed t then 1 else if ty_float t then 2 else 0].

(* ARXML 4: SW-BASE-TYPE by width class: [kind; bits], kind 0 uintN, 1 sintN, 2 single/double (BASE-TYPE-ENCODING IEEE754) *)
Definition width_class (size : Z) : Z :=
  if size >? 32 then 64 else if size >? 16 then 32 else if size >? 8 then 16 else 8.
Definition arxml4_write_type (t : sigtype) : list Z :=
  if ty_float t then [2; if ty_size t >? 32 then 64 else 32]
  else [b2z' (ty_signed t); width_class (ty_size t)].
Definition arxml4_read_type (f : list Z) : option (bool * bool) :=
  let k := gnth f 0 in
  if k =? 2 then Some (true, true)                    (* IEEE754 *)
  else if k =? 0 then Some (false, false)             (* type name starts with 'u' *)
  else Some (true, false).
(* ARXML 3: INTEGER-TYPE (nothing about the sign) or REAL-TYPE with ENCODING SINGLE / DOUBLE: [0] resp. [1; bits] *)
Definition arxml3_write_type (t : sigtype) : list Z :=
  if ty_float t then [1; if ty_size t >? 32 then 64 else 32] else [0].
Definition arxml3_read_type (f : list Z) : option (bool * bool) :=
  if gnth f 0 =? 1 then Some (true, true) else Some (false, false).

(* JSON: the two booleans *)
Definition json_write_type (t : sigtype) : list Z := [b2z' (ty_signed t); b2z' (ty_float t)].
Definition json_read_type (f : list Z) : option (bool * bool) := Some (gnth f 0 =? 1, gnth f 1 =? 1).

(* format codes as in FmtPos: 1 dbc 2 dbf 3 sym 4 kcd 5 json 7 arxml 4.x ; 9 arxml 3.x ; 10 sym before the repair *)
Definition write_type (fmt : Z) (t : sigtype) : list Z :=
  match fmt with
  | 1 => dbc_write_type t | 2 => dbf_write_type t | 3 => sym_write_type t | 4 => kcd_write_type t
  | 5 => json_write_type t | 7 => arxml4_write_type t | 9 => arxml3_write_type t
  | 10 => sym_write_type_before_fix t
  | _ => []
  end.
Definition read_type (fmt : Z) (f : list Z) : option (bool * bool) :=
  match fmt with
  | 1 => dbc_read_type f | 2 => dbf_read_type f | 3 => sym_read_type f | 4 => kcd_read_type f
  | 5 => json_read_type f | 7 => arxml4_read_type f | 9 => arxml3_read_type f
  | 10 => sym_read_type f
  | _ => None
  end.

(* the interpretation that matters: float or not, and the sign of an integer (a float's is_signed is not used by the codec) *)
Definition type_meaning (signed float : bool) : bool * bool := (if float then false else signed, float).

(* ================= multiplexing ================= *)
(* Signal.is_multiplexer and Signal.mux_val as derived by multiplex_setter (extended multiplexing: both) *)
Record muxrole := mkMux { mx_is : bool; mx_val : option Z }.

Definition oz' (o : option Z) : Z := match o with Some v => v | None => -1 end.

(* DBC token: [0] none, [1] "M", [2; n] "m<n>", [3; n] "m<n>M" *)
Definition dbc_write_mux (r : muxrole) : list Z :=
  match mx_val r, mx_is r with
  | Some v, true => [3; v]
  | Some v, false => [2; v]
  | None, true => [1]
  | None, false => [0]
  end.
Definition dbc_read_mux (f : list Z) : option muxrole :=
  match gnth f 0 with
  | 0 => Some (mkMux false None)
  | 1 => Some (mkMux true None)
  | 2 => Some (mkMux false (Some (gnth f 1)))
  | 3 => Some (mkMux true (Some (gnth f 1)))
  | _ => None
  end.

(* DBF / XLS / KCD / JSON carry simple multiplexing: none, the multiplexer, or a group number.
   token [0] none, [1] multiplexer ("M", "Mode Signal:", <Multiplex>, "Multiplexor"), [2; n] group n *)
Definition simple_write_mux (r : muxrole) : list Z :=
  if mx_is r then [1] else match mx_val r with Some v => [2; v] | None => [0] end.
Definition simple_read_mux (f : list Z) : option muxrole :=
  match gnth f 0 with
  | 0 => Some (mkMux false None)
  | 1 => Some (mkMux true None)
  | 2 => Some (mkMux false (Some (gnth f 1)))
  | _ => None
  end.
(* the JSON reader before the repair: `if signal.get("multiplex", False): new_signal.multiplex = ...` - group 0 is
   skipped and the plain attribute assignment derives neither is_multiplexer nor mux_val *)
Definition json_read_mux_before_fix (f : list Z) : option muxrole := Some (mkMux false None).

(* ---- digits (shared by the SYM selector token and the decimal texts) ---- *)
(* most significant first; [0] for zero; fuel = number of binary digits suffices *)
Fixpoint digs (base : Z) (fuel : nat) (n : Z) : list Z :=
  match fuel with
  | O => []
  | S f => if n <? base then [n] else digs base f (n / base) ++ [n mod base]
  end.
Definition digits (base n : Z) : list Z := digs base (S (Z.to_nat (Z.log2 n))) n.
Definition undigits (base : Z) (l : list Z) : Z := fold_left (fun a d => base * a + d) l 0.
Definition zeros (k : Z) : list Z := repeat 0 (Z.to_nat k).
Definition llen {A} (l : list A) : Z := Z.of_nat (length l).

(* SYM Mux= selector token: str(i) if it has one character, else upper-case hex padded to the width of the
   multiplexer's maximum, with an 'h' suffix.  token = (hex?, digit values) *)
Definition sym_write_selector (mux_size v : Z) : bool * list Z :=
  if v <? 10 then (false, digits 10 v)
  else let w := llen (digits 16 (2 ^ mux_size - 1)) in
       let ds := digits 16 v in
       (true, zeros (w - llen ds) ++ ds).
Definition sym_read_selector (t : bool * list Z) : Z :=
  if fst t then undigits 16 (snd t) else undigits 10 (snd t).

(* ================= decimal numbers ================= *)
(* a finite decimal.Decimal: (-1)^neg * coef * 10^exp with coef >= 0 (as_tuple(): sign, digits, exponent) *)
Record dec := mkDec { d_neg : bool; d_coef : Z; d_exp : Z }.
(* token structure of a number text: sign, integer digits, fraction digits ('.' is present iff there are any),
   exponent: (negative?, digits) *)
Record numtext := mkNum { t_neg : bool; t_int : list Z; t_frac : list Z; t_exp : option (bool * list Z) }.

(* str(Decimal) *)
Definition str_dec (d : dec) : numtext :=
  let ds := digits 10 (d_coef d) in
  let len := llen ds in
  let left := d_exp d + len in                                  (* leftdigits *)
  if (d_exp d <=? 0) && (left >? -6) then
    if left <=? 0 then mkNum (d_neg d) [0] (zeros (- left) ++ ds) None
    else if left >=? len then mkNum (d_neg d) (ds ++ zeros (left - len)) [] None
    else mkNum (d_neg d) (firstn (Z.to_nat left) ds) (skipn (Z.to_nat left) ds) None
  else                                                           (* scientific: one digit before the point *)
    let e := left - 1 in
    mkNum (d_neg d) (firstn 1 ds) (skipn 1 ds)
          (if left =? 1 then None else Some (e <? 0, digits 10 (Z.abs e))).

(* dbc.format_float / sym.format_float applied to that text: a trailing ".0" is cut, the exponent is
   right-justified to three digits with '0' *)
Definition is_single_zero (l : list Z) : bool := match l with [0] => true | _ => false end.
Definition format_float (t : numtext) : numtext :=
  let frac := match t_exp t with
              | None => if is_single_zero (t_frac t) then [] else t_frac t
              | Some _ => t_frac t
              end in
  mkNum (t_neg t) (t_int t) frac
        (match t_exp t with
         | None => None
         | Some (neg, eds) => Some (neg, zeros (3 - llen eds) ++ eds)
         end).

(* decimal.Decimal(text): None where the text is not a number (no digit at all) *)
Definition exp_value (o : option (bool * list Z)) : Z :=
  match o with
  | None => 0
  | Some (neg, eds) => if neg then - undigits 10 eds else undigits 10 eds
  end.
Definition parse_num (t : numtext) : option dec :=
  match t_int t ++ t_frac t with
  | [] => None
  | _ => Some (mkDec (t_neg t) (undigits 10 (t_int t ++ t_frac t)) (exp_value (t_exp t) - llen (t_frac t)))
  end.

(* ---------- specification vocabulary ---------- *)
(* same number: equal sign flag and equal coef * 10^exp, compared after scaling to the smaller exponent *)
Definition dec_same_value (a b : dec) : Prop :=
  d_neg a = d_neg b /\
  d_coef a * 10 ^ (d_exp a - Z.min (d_exp a) (d_exp b)) = d_coef b * 10 ^ (d_exp b - Z.min (d_exp a) (d_exp b)).
Definition dec_ok (d : dec) : Prop := 0 <= d_coef d.
Definition role_ok (r : muxrole) : Prop := match mx_val r with Some v => 0 <= v | None => True end.
Definition role_simple (r : muxrole) : Prop := mx_is r = true -> mx_val r = None.
