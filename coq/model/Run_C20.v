(* Executable entry points for C20 (commands 2001-2099): run the line folds of model/LineFold.v on encoded line lists.
   A field is two integers  tag value : tag 0 = Num value, 1 = Str value, 2 = Bad.
   DBC line groups:
     [1; id; name; size; sender]                       BO_      (each a field = 2 integers)
     [2; name; hasmux; mux; start; size; order; sign; factor; offset]   SG_   (hasmux 0/1 one integer, mux a field)
     [3; attr; id; value]   [4; attr; id; sname; value]                 BA_ BO_ / BA_ SG_   (attr one integer)
     [5; id; text]          [6; id; sname; text]                        CM_ BO_ / CM_ SG_
     [7; terminated; id; sname; k1; v1; k2; v2 ...]                     VAL_
     [8; terminated; id; sname; muxer; a1; b1; ...]                     SG_MUL_VAL_
     [9; kw]                                                            unknown
     [10; id]                                                           BO_TX_BU_ / SIG_GROUP_ / SIG_VALTYPE_ (frame lookup only)
   The value of a BA_ line is tag value with tag 0 number, 1 quoted string, 2 missing, 3 other token.
   2001 / 2002 / 2005: fold with dbc_step (reader as it is) / dbc_step_orig (as found) / dbc_step_strict (declined BA_ check), answer:
     [1; cur] then per frame [10; id; ext; name; size; sender; complex; comment] [11; attrs (code tag value)*]
     and per signal [20; name; start; size; le; signed; factor; offset; mux; comment; muxer] [21; (k v)*] [22; attrs] [23; (a b)*],
     finally [30; cycle-time codes in frame order] or [30; -2] when the post-processing raises.
   SYM line groups:
     [1; name; closed] [2; v; hsuffix] [3; v] [4; v] [5; v]       header, ID, Type, DLC, CycleTime  (v a field)
     [6; name; ty; start; size; motorola; nums_ok]  [7; name; start; size; value; motorola; nums_ok]   Var, Mux
     [9; kw]
   2003 / 2004: fold with sym_step / sym_step_orig, answer [1; errs] or [0; errs-so-far] when the end-of-file step raises,
     then per frame [10; name; id; ext; size; cycle; (k n)*] and per signal [20; name; start; size; le; signed; mux]. *)
From CM Require Import lib.Prelude model.RunBase model.ArbId model.LineFold.

Definition fld (t v : Z) : field := if t =? 0 then Num v else if t =? 1 then Str v else Bad.
Definition fld_out (f : field) : list Z := match f with Num z => [0; z] | Str z => [1; z] | Bad => [2; 0] end.
(* BA_ value: tag 0 number, 1 quoted string, 2 missing, 3 other token (bare word, broken string) *)
Definition avl (t v : Z) : aval := if t =? 0 then VNum v else if t =? 1 then VStr v else if t =? 3 then VWord v else VMissing.
Definition avl_out (a : aval) : list Z :=
  match a with VNum z => [0; z] | VStr z => [1; z] | VMissing => [2; 0] | VWord z => [3; z] end.

Fixpoint pairs_of (g : list Z) (fuel : nat) : list (field * field) :=
  match fuel with
  | O => []
  | S n => match g with
           | t1 :: v1 :: t2 :: v2 :: r => (fld t1 v1, fld t2 v2) :: pairs_of r n
           | _ => []
           end
  end.

Definition dline_of (g : list Z) : line :=
  match g with
  | 1 :: a :: b :: c :: d :: e :: f :: h :: i :: _ => LBo (fld a b) (fld c d) (fld e f) (fld h i)
  | 2 :: n1 :: n2 :: hm :: m1 :: m2 :: r =>
      let f k := fld (nthz r (2 * k)) (nthz r (2 * k + 1)) in
      LSg (fld n1 n2) (if hm =? 0 then None else Some (fld m1 m2)) (f 0%nat) (f 1%nat) (f 2%nat) (f 3%nat) (f 4%nat) (f 5%nat)
  | 3 :: at_ :: a :: b :: c :: d :: _ => LBaBo at_ (fld a b) (avl c d)
  | 4 :: at_ :: a :: b :: c :: d :: e :: f :: _ => LBaSg at_ (fld a b) (fld c d) (avl e f)
  | 5 :: a :: b :: c :: d :: _ => LCmBo (fld a b) (fld c d)
  | 6 :: a :: b :: c :: d :: e :: f :: _ => LCmSg (fld a b) (fld c d) (fld e f)
  | 7 :: t :: a :: b :: c :: d :: r => LVal (fld a b) (fld c d) (pairs_of r (length r)) (zb t)
  | 8 :: t :: a :: b :: c :: d :: e :: f :: r => LMulVal (fld a b) (fld c d) (fld e f) (pairs_of r (length r)) (zb t)
  | 9 :: k :: _ => LUnknown k
  | 10 :: a :: b :: _ => LRef (fld a b)
  | _ => LUnknown (-1)
  end.

Definition attrs_out (l : list (Z * aval)) : list Z := flat_map (fun kv => fst kv :: avl_out (snd kv)) l.
Definition pairs_out (l : list (Z * Z)) : list Z := flat_map (fun kv => [fst kv; snd kv]) l.

Definition sig_out (x : signal) : io :=
  [[20; s_name x; s_start x; s_size x; bz (s_le x); bz (s_signed x); s_factor x; s_offset x; s_mux x; oz (s_comment x); oz (s_muxer x)];
   21 :: pairs_out (s_values x); 22 :: attrs_out (s_attrs x); 23 :: pairs_out (s_ranges x)].
Definition frame_out (f : frame) : io :=
  [[10; fst (f_id f); bz (snd (f_id f)); f_name f; f_size f; f_sender f; bz (f_complex f); oz (f_comment f)];
   11 :: attrs_out (f_attrs f)] ++ flat_map sig_out (f_signals f).
Definition dstate_out (s : dstate) (post : option (list (arbid * Z))) : io :=
  [[1; match cur s with Some i => Z.of_nat i | None => -1 end]] ++ flat_map frame_out (frames s) ++
  [30 :: match post with Some l => map snd l | None => [-2] end].

Definition run_2001 (a : io) : io := let s := read dbc_step dbc_init (map dline_of a) in dstate_out s (dbc_post s).
Definition run_2002 (a : io) : io := let s := read dbc_step_orig dbc_init (map dline_of a) in dstate_out s (dbc_post_orig s).
Definition run_2005 (a : io) : io := let s := read dbc_step_strict dbc_init (map dline_of a) in dstate_out s (dbc_post s).

Definition sline_of (g : list Z) : sline :=
  match g with
  | 1 :: n :: c :: _ => YHeader n (zb c)
  | 2 :: a :: b :: h :: _ => YId (fld a b) (zb h)
  | 3 :: a :: b :: _ => YType (fld a b)
  | 4 :: a :: b :: _ => YDlc (fld a b)
  | 5 :: a :: b :: _ => YCycle (fld a b)
  | 6 :: a :: b :: c :: d :: e :: f :: h :: i :: m :: ok :: _ => YVar (fld a b) (fld c d) (fld e f) (fld h i) (zb m) (zb ok)
  | 7 :: a :: b :: c :: d :: e :: f :: h :: i :: m :: ok :: _ => YMux (fld a b) (fld c d) (fld e f) (fld h i) (zb m) (zb ok)
  | 9 :: k :: _ => YUnknown k
  | _ => YUnknown (-1)
  end.
Definition ysig_out (x : ysig) : list Z := [20; ys_name x; ys_start x; ys_size x; bz (ys_le x); bz (ys_signed x); ys_mux x].
Definition yframe_out (f : yframe) : io :=
  (10 :: yf_name f :: yf_id f :: bz (yf_ext f) :: yf_size f :: yf_cycle f :: pairs_out (yf_muxnames f)) :: map ysig_out (yf_signals f).
Definition ystate_out (s : ystate) : io :=
  match sym_post s with
  | Some (fs, e) => [1; Z.of_nat e] :: flat_map yframe_out fs
  | None => [[0; Z.of_nat (y_errs s)]]
  end.
Definition run_2003 (a : io) : io := ystate_out (read sym_step sym_init (map sline_of a)).
Definition run_2004 (a : io) : io := ystate_out (read sym_step_orig sym_init (map sline_of a)).

Definition run_c20 (cmd : Z) (a : io) : io :=
  match cmd with
  | 2001 => run_2001 a
  | 2002 => run_2002 a
  | 2003 => run_2003 a
  | 2004 => run_2004 a
  | 2005 => run_2005 a
  | _ => [[-999]]
  end.
