(* Hand model of the layout utilities of src/canmatrix/canmatrix.py:
     Frame.get_frame_layout (~1264), Frame.create_dummy_signals (~1302, after the repair aebbbf1),
     Frame.calc_dlc (~1234), Frame.fit_dlc (~1252), CanMatrix.recalc_dlc (~2165), CanMatrix.set_fd_type (~2390),
     Frame._compress_little (~1627), Frame.compress (~1654).
   Plain frames only (is_pdu_container = False).  Signals are Codec.signal records; Python slices keep their
   clamping/wrap-around semantics (py_bound), so the model also agrees with the code for placements that leave the
   frame.  The two `while gap_found` loops run on explicit fuel; running out of fuel is `None`, never a
   normal-looking value.  Definitions only. *)
From CM Require Import lib.Prelude model.Codec.

(* ---------- get_frame_layout ---------- *)

(* for cell in l[a:b]: cell.append(x)      (a, b already normalised against len(l)) *)
Fixpoint mark_from {A} (i : Z) (l : list (list A)) (a b : Z) (x : A) : list (list A) :=
  match l with
  | [] => []
  | c :: r => (if (a <=? i) && (i <? b) then c ++ [x] else c) :: mark_from (i + 1) r a b x
  end.
Definition mark {A} (l : list (list A)) (a b : Z) (x : A) : list (list A) :=
  mark_from 0 l (py_bound (zlen l) a) (py_bound (zlen l) b) x.

(* one round of `for signal in self.signals`; what is appended to the cells is x (the object reference) *)
Definition layout_step {A} (acc : list (list A) * list (list A)) (it : A * signal) :=
  let s := snd it in
  if s_le s then
    let least := zlen (fst acc) - s_start s in
    let most := least - s_size s in
    (mark (fst acc) most least (fst it), snd acc)
  else
    let most := s_start s in
    let least := most + s_size s in
    (fst acc, mark (snd acc) most least (fst it)).

(* the usage map, generic in what stands for the object reference.  len = size*8 is a multiple of 8, so
   grouper(little_bits, 8) never pads and reversed-groups-chained is grev. *)
Definition layout_of {A} (fsize : Z) (items : list (A * signal)) : list (list A) :=
  let empty := repeat (@nil A) (Z.to_nat (fsize * 8)) in
  let acc := fold_left layout_step items (empty, empty) in
  map (fun lb => fst lb ++ snd lb) (combine (grev (fst acc)) (snd acc)).

(* Frame.get_frame_layout: the cells hold the signals themselves *)
Definition get_frame_layout (fsize : Z) (sigs : list signal) : list (list signal) :=
  layout_of fsize (map (fun s => (s, s)) sigs).

(* the same map with the position of the signal in self.signals standing for the object (object identity) *)
Definition layout_idx (fsize : Z) (sigs : list signal) : list (list nat) :=
  layout_of fsize (combine (seq 0 (length sigs)) sigs).

(* ---------- create_dummy_signals (repaired) ---------- *)

Definition is_nil {A} (l : list A) : bool := match l with [] => true | _ => false end.

(* the enumerate loop; state: index, startBit (-1 = none pending); result: (start_bit, size) of the dummies in
   creation order *)
Fixpoint dummy_scan {A} (cells : list (list A)) (index len startBit : Z) (acc : list (Z * Z)) : list (Z * Z) :=
  match cells with
  | [] => acc
  | c :: r =>
      let sb := if is_nil c && (startBit =? -1) then index else startBit in
      if ((index =? len - 1) || negb (is_nil c)) && negb (sb =? -1) then
        let idx := if (index =? len - 1) && is_nil c then len else index in
        dummy_scan r (index + 1) len (-1) (acc ++ [(sb, idx - sb)])
      else dummy_scan r (index + 1) len sb acc
  end.

Definition dummies (fsize : Z) (sigs : list signal) : list (Z * Z) :=
  let bitfield := get_frame_layout fsize sigs in
  dummy_scan bitfield 0 (zlen bitfield) (-1) [].

(* Signal(name, size=.., start_bit=.., is_little_endian=False): signed by default, not float.
   name k = the interned "_Dummy_<frame>_<k>" *)
Fixpoint dummy_signals (name : Z -> Z) (k : Z) (ds : list (Z * Z)) : list signal :=
  match ds with
  | [] => []
  | (st, sz) :: r => mkSignal (name k) st sz false true false :: dummy_signals name (k + 1) r
  end.

Definition create_dummy_signals (name : Z -> Z) (fsize : Z) (sigs : list signal) : list signal :=
  sigs ++ dummy_signals name 0 (dummies fsize sigs).

(* ---------- calc_dlc / recalc_dlc / fit_dlc / set_fd_type ---------- *)

(* get_startbit() without arguments is the internal start bit, for both byte orders *)
Definition max_bit (sigs : list signal) : Z :=
  fold_left (fun m s => if s_start s + s_size s >? m then s_start s + s_size s else m) sigs 0.
Definition max_byte (sigs : list signal) : Z := (max_bit sigs + 7) / 8.

Definition calc_dlc (fsize : Z) (sigs : list signal) : Z := Z.max fsize (max_byte sigs).

(* strategy: 0 = "max", 1 = "force", anything else = some other string (nothing happens);
   a matrix is the list of its frames (size, signals); the result is the list of new sizes *)
Definition recalc_frame (strategy : Z) (fsize : Z) (sigs : list signal) : Z :=
  if strategy =? 0 then calc_dlc fsize sigs
  else if strategy =? 1 then max_byte sigs
  else fsize.
Definition recalc_dlc (strategy : Z) (frames : list (Z * list signal)) : list Z :=
  map (fun f => recalc_frame strategy (fst f) (snd f)) frames.

Fixpoint fit_loop (max_byte last_size : Z) (steps : list Z) : option Z :=
  match steps with
  | [] => None
  | max_size :: r =>
      if (max_byte >? last_size) && (max_byte <? max_size) then Some max_size
      else fit_loop max_byte max_size r
  end.
Definition fit_dlc (fsize : Z) : Z :=
  match fit_loop fsize 8 [12; 16; 20; 24; 32; 48; 64] with
  | Some v => v
  | None => fsize
  end.

Definition set_fd_type (fsize : Z) (is_fd : bool) : bool := if fsize >? 8 then true else is_fd.

(* ---------- compress ---------- *)

Definition set_start (s : signal) (v : Z) : signal :=
  mkSignal (s_name s) v (s_size s) (s_le s) (s_signed s) (s_float s).

(* signal.start_bit = f(signal.start_bit) on the k-th signal object *)
Fixpoint update_start (k : nat) (f : Z -> Z) (sigs : list signal) : list signal :=
  match sigs with
  | [] => []
  | s :: r =>
      match k with
      | O => set_start s (f (s_start s)) :: r
      | S k' => s :: update_start k' f r
      end
  end.

(* compress, the for loop over enumerate(layout): Some (free_start, signal) when a signal is moved *)
Fixpoint find_move_big (cells : list (list nat)) (bit_nr : Z) (free_start : option Z) : option (Z * nat) :=
  match cells with
  | [] => None
  | c :: r =>
      match c with
      | [] => find_move_big r (bit_nr + 1) (match free_start with None => Some bit_nr | Some _ => free_start end)
      | k :: _ =>
          match free_start with
          | Some f => Some (f, k)
          | None => find_move_big r (bit_nr + 1) None
          end
      end
  end.

Fixpoint compress_big_loop (fuel : nat) (fsize : Z) (sigs : list signal) : option (list signal) :=
  match fuel with
  | O => None
  | S fu =>
      match find_move_big (layout_idx fsize sigs) 0 None with
      | None => Some sigs
      | Some (free_start, k) => compress_big_loop fu fsize (update_start k (fun _ => free_start) sigs)
      end
  end.

(* _compress_little: bit_nr = byte*8+bit for byte in range(len//8), bit in 7..0 *)
Definition little_order (nbytes : Z) : list Z :=
  flat_map (fun byte => map (fun bit => Z.of_nat byte * 8 + bit) [7; 6; 5; 4; 3; 2; 1; 0]) (seq 0 (Z.to_nat nbytes)).

(* the cells in the order the two nested loops visit them: Some (gap_len, signal) when a signal is moved *)
Fixpoint find_move_little (cells : list (list nat)) (gap_len : option Z) : option (Z * nat) :=
  match cells with
  | [] => None
  | c :: r =>
      match c with
      | [] => find_move_little r (Some (match gap_len with None => 1 | Some g => g + 1 end))
      | k :: _ =>
          match gap_len with
          | Some g => Some (g, k)
          | None => find_move_little r None
          end
      end
  end.

Definition visit_little (layout : list (list nat)) : list (list nat) :=
  map (fun bit_nr => nth (Z.to_nat bit_nr) layout []) (little_order (zlen layout / 8)).

Fixpoint compress_little_loop (fuel : nat) (fsize : Z) (sigs : list signal) : option (list signal) :=
  match fuel with
  | O => None
  | S fu =>
      match find_move_little (visit_little (layout_idx fsize sigs)) None with
      | None => Some sigs
      | Some (gap_len, k) => compress_little_loop fu fsize (update_start k (fun st => st - gap_len) sigs)
      end
  end.

Definition compress_little (fuel : nat) (fsize : Z) (sigs : list signal) : option (list signal) :=
  if forallb s_le sigs then compress_little_loop fuel fsize sigs else Some sigs.

Definition compress (fuel : nat) (fsize : Z) (sigs : list signal) : option (list signal) :=
  if existsb s_le sigs then compress_little fuel fsize sigs else compress_big_loop fuel fsize sigs.

(* fuel that suffices for frames whose signals lie inside the frame (C16_compress_terminates) *)
Definition compress_fuel (sigs : list signal) : nat :=
  S (Z.to_nat (fold_right (fun s a => s_start s + a) 0 sigs)).

(* ---------- specification vocabulary ---------- *)

(* the signal lies inside a frame of nbits bits; unlike Codec.inside a zero width is allowed *)
Definition inside0 (nbits : Z) (s : signal) : bool :=
  (0 <=? s_start s) && (0 <=? s_size s) && (s_start s + s_size s <=? nbits).

(* bit p (sequential MSB0 numbering) of the frame is used by exactly one element of sigs *)
Definition exactly_one (sigs : list signal) (p : Z) : Prop :=
  exists l1 s l2, sigs = l1 ++ s :: l2 /\ occupies s p /\
    Forall (fun t => ~ occupies t p) l1 /\ Forall (fun t => ~ occupies t p) l2.

(* smallest byte count n such that every used bit lies in the first n bytes *)
Definition covers (n : Z) (sigs : list signal) : Prop :=
  forall s p, In s sigs -> occupies s p -> 0 <= p < 8 * n.

(* permitted CAN FD payload lengths *)
Definition fd_lengths : list Z := [0; 1; 2; 3; 4; 5; 6; 7; 8; 12; 16; 20; 24; 32; 48; 64].

(* everything but the start bit *)
Definition shape (s : signal) := (s_name s, s_size s, s_le s, s_signed s, s_float s).

(* the coordinate in which a signal is an interval: LSB0 number for Intel, sequential MSB0 number for Motorola *)
Definition walk_pos (le : bool) (p : Z) : Z := if le then 8 * (p / 8) + (7 - p mod 8) else p.

(* start bit non-negative, at least one bit wide *)
Definition wellformed (s : signal) : Prop := 0 <= s_start s /\ 1 <= s_size s.

(* two lists of start bits are ordered alike, position by position *)
Definition same_order (xs ys : list Z) : Prop :=
  length xs = length ys /\
  forall i j, (i < length xs)%nat -> (j < length xs)%nat ->
    (nth i xs 0 <? nth j xs 0) = (nth i ys 0 <? nth j ys 0).

(* payload bit p (sequential MSB0 numbering) is used by some signal *)
Definition used (sigs : list signal) (p : Z) : Prop := exists s, In s sigs /\ occupies s p.

(* CanMatrix.set_fd_type over the frames (size, is_fd) of a matrix: the new is_fd flags *)
Definition set_fd_types (frames : list (Z * bool)) : list bool :=
  map (fun f => set_fd_type (fst f) (snd f)) frames.
