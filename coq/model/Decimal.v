(* Hand model of the part of Python's `decimal` arithmetic that canmatrix's physical scaling uses
   (Signal.raw2phys / phys2raw / calc_min / calc_max, src/canmatrix/canmatrix.py ~401-482), following the
   algorithms of CPython's Lib/_pydecimal.py (3.12): Decimal.__add__ (+ _normalize), __sub__, __mul__,
   __truediv__, _fix, _rescale, _round_half_even, __round__.  Definitions only.

   Context = the default one (prec 28, ROUND_HALF_EVEN, Emax 999999, Emin -999999, clamp 0); the harness asserts it.
   Envelope of the model: finite numbers only (no NaN/Infinity), exponents far inside Emin..Emax (no overflow,
   underflow, subnormal or clamping branch of _fix is modelled), and ONE zero per exponent: the coefficient
   carries the sign (`dm`), so Decimal('-0.0') and Decimal('0.0') are the same model value {0; -1}.  The sign of
   a zero result is the only part of `as_tuple()` the model does not reproduce; values are not affected. *)
From CM Require Import lib.Prelude.

(* a finite Decimal: value dm * 10^de.  as_tuple() = (sign of dm, decimal digits of |dm|, de);
   Decimal('1.0') = {10; -1} and Decimal('1.00') = {100; -2} are different representations. *)
Record dec := mkDec { dm : Z; de : Z }.

Definition prec : Z := 28.

(* len(str(n)) for n >= 0: number of decimal digits, '0' has one digit.  Explicit fuel: a number has at most
   as many decimal digits (minus one) as Z.log2 says. *)
Fixpoint ndigits_fuel (fuel : nat) (n : Z) : Z :=
  match fuel with
  | O => 1
  | S f => if n <? 10 then 1 else 1 + ndigits_fuel f (n / 10)
  end.
Definition ndigits (n : Z) : Z :=
  let a := Z.abs n in ndigits_fuel (Z.to_nat (Z.log2 a)) a.

(* _round_half_even(prec) answers "round up?" for the digits that are cut off: n = q*p + r with p = 10^k;
   exactly half (r = p/2) and last kept digit even -> truncate; otherwise first cut digit >= 5 -> up. *)
Definition rhe_up (n p : Z) : bool :=
  let q := n / p in let r := n mod p in
  (p <? 2 * r) || ((p =? 2 * r) && Z.odd q).

Definition with_sign (m c : Z) : Z := if m <? 0 then - c else c.

(* Decimal._fix for a finite number inside the exponent range: zero and numbers of at most 28 digits are
   returned unchanged; otherwise the coefficient is rounded half-even to exactly 28 digits, and a carry
   99..9 -> 100..0 drops the last digit again (coeff[:-1], exp_min += 1). *)
Definition fix28 (d : dec) : dec :=
  if dm d =? 0 then d
  else
    let n := Z.abs (dm d) in
    let exp_min := ndigits n + de d - prec in
    if de d <? exp_min then
      let p := 10 ^ (exp_min - de d) in
      let q := n / p in
      let q' := if rhe_up n p then q + 1 else q in
      if prec <? ndigits q'
      then mkDec (with_sign (dm d) (q' / 10)) (exp_min + 1)
      else mkDec (with_sign (dm d) q') exp_min
    else d.

(* _normalize(op1, op2, prec): `tmp` is the operand with the larger exponent, `other` the one with the smaller.
   If `other` lies entirely below what can influence the rounded sum it is replaced by (sign) 1 at exponent
   exp = tmp.exp + min(-1, len(tmp) - prec - 2); then tmp is padded with zeros to other's exponent.
   Returns (tmp coefficient, other coefficient, common exponent). *)
Definition normalize (tm te om oe : Z) : Z * Z * Z :=
  let exp := te + Z.min (-1) (ndigits tm - prec - 2) in
  let replaced := ndigits om + oe - 1 <? exp in
  let om' := if replaced then Z.sgn om else om in
  let oe' := if replaced then exp else oe in
  (tm * 10 ^ (te - oe'), om', oe').

(* Decimal.__add__ *)
Definition dadd (a b : dec) : dec :=
  let exp := Z.min (de a) (de b) in
  if (dm a =? 0) && (dm b =? 0) then mkDec 0 exp
  else if dm a =? 0 then
    (* other._rescale(max(exp, other._exp - prec - 1)) only ever pads with zeros, then _fix *)
    let e' := Z.max exp (de b - prec - 1) in fix28 (mkDec (dm b * 10 ^ (de b - e')) e')
  else if dm b =? 0 then
    let e' := Z.max exp (de a - prec - 1) in fix28 (mkDec (dm a * 10 ^ (de a - e')) e')
  else
    let '(tm, om, e') := if de a <? de b then normalize (dm b) (de b) (dm a) (de a)
                         else normalize (dm a) (de a) (dm b) (de b) in
    let s := tm + om in
    if s =? 0 then mkDec 0 exp       (* equal and opposite: zero at the ORIGINAL minimum exponent *)
    else fix28 (mkDec s e').

Definition dneg (a : dec) : dec := mkDec (- dm a) (de a).
(* Decimal.__sub__: self + other.copy_negate() *)
Definition dsub (a b : dec) : dec := dadd a (dneg b).

(* Decimal.__mul__ (the shortcuts for a zero operand and for coefficient '1' give the same triple) *)
Definition dmul (a b : dec) : dec := fix28 (mkDec (dm a * dm b) (de a + de b)).

(* the loop of __truediv__ for an exact quotient: strip trailing zeros up to the ideal exponent *)
Fixpoint strip_ideal (fuel : nat) (coeff exp ideal : Z) : Z * Z :=
  match fuel with
  | O => (coeff, exp)
  | S f => if (exp <? ideal) && (coeff mod 10 =? 0) then strip_ideal f (coeff / 10) (exp + 1) ideal
           else (coeff, exp)
  end.

(* Decimal.__truediv__; None = DivisionByZero / DivisionUndefined (both trapped by default -> exception) *)
Definition ddiv (a b : dec) : option dec :=
  if dm b =? 0 then None
  else if dm a =? 0 then Some (mkDec 0 (de a - de b))
  else
    let na := Z.abs (dm a) in
    let nb := Z.abs (dm b) in
    let shift := ndigits nb - ndigits na + prec + 1 in
    let exp := de a - de b - shift in
    let num := if 0 <=? shift then na * 10 ^ shift else na in
    let den := if 0 <=? shift then nb else nb * 10 ^ (- shift) in
    let coeff := num / den in
    let ce := if num mod den =? 0
              then strip_ideal (Z.to_nat shift) coeff exp (de a - de b)
              else (if coeff mod 5 =? 0 then coeff + 1 else coeff, exp) in
    let neg := xorb (dm a <? 0) (dm b <? 0) in
    Some (fix28 (mkDec (if neg then - fst ce else fst ce) (snd ce))).

(* Decimal.__round__() without ndigits: int(self._rescale(0, ROUND_HALF_EVEN)) *)
Definition dround_int (d : dec) : Z :=
  if dm d =? 0 then 0
  else if 0 <=? de d then dm d * 10 ^ de d
  else
    let n := Z.abs (dm d) in
    let p := 10 ^ (- de d) in
    let q := n / p in
    with_sign (dm d) (if rhe_up n p then q + 1 else q).

(* Decimal(int): exact, exponent 0 *)
Definition of_Z (n : Z) : dec := mkDec n 0.
