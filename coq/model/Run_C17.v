(* Executable entry point for C17 (commands 1701-1799): integer groups -> model/BulkOps.v calls -> integer groups.
   Matrix encoding (a sequence of groups, in order):
     [1; fid; payload; n; c1..cn; k1; v1; ...]        a frame (name of n characters, then attribute key/value pairs)
     [2; sid; size; payload; n; c1..cn; k1; v1; ...]  a signal of the nearest frame group before it
     [3; ename; k1; v1; ...]                          an ECU
     [4; k; v] / [5; k; v] / [6; k; v]                one frame / ECU / signal define
     [7; sid; size; payload; n; c1..cn; k1; v1; ...]  a free signal (CanMatrix.signals)
   Answers: [[0]] when the call raises, else [1] followed by the matrix in the same encoding. *)
From CM Require Import lib.Prelude model.RunBase model.Glob_c17 model.BulkOps.

Fixpoint pairs_of (l : list Z) : dict :=
  match l with
  | k :: v :: r => (k, v) :: pairs_of r
  | _ => []
  end.
Fixpoint flat_pairs (d : dict) : list Z :=
  match d with
  | [] => []
  | (k, v) :: r => k :: v :: flat_pairs r
  end.
(* n; c1..cn; rest  ->  (name, rest) *)
Definition name_and_rest (l : list Z) : str * list Z :=
  match l with
  | [] => ([], [])
  | n :: r => (firstn (Z.to_nat n) r, skipn (Z.to_nat n) r)
  end.
Definition sig_of_group (g : list Z) : bsignal :=    (* g without the tag *)
  let nr := name_and_rest (skipn 3 g) in
  mkBSignal (nthz g 0) (fst nr) (nthz g 1) (pairs_of (snd nr)) (nthz g 2).
Definition frame_of_group (g : list Z) (sigs : list bsignal) : bframe :=
  let nr := name_and_rest (skipn 2 g) in
  mkBFrame (nthz g 0) (fst nr) (pairs_of (snd nr)) (nthz g 1) sigs.

Record dec_state := mkDec { d_m : bmatrix; d_pending : list bsignal }.
Definition dec_step (g : list Z) (st : dec_state) : dec_state :=
  let m := d_m st in
  match g with
  | 1 :: r => mkDec (set_frames m (frame_of_group r (d_pending st) :: bm_frames m)) []
  | 2 :: r => mkDec m (sig_of_group r :: d_pending st)
  | 3 :: e :: r => mkDec (mkBMatrix (bm_frames m) (mkBEcu e (pairs_of r) :: bm_ecus m) (bm_free m) (bm_fdefs m) (bm_edefs m) (bm_sdefs m)) (d_pending st)
  | 4 :: r => mkDec (set_defines m (pairs_of r ++ bm_fdefs m) (bm_edefs m) (bm_sdefs m)) (d_pending st)
  | 5 :: r => mkDec (set_defines m (bm_fdefs m) (pairs_of r ++ bm_edefs m) (bm_sdefs m)) (d_pending st)
  | 6 :: r => mkDec (set_defines m (bm_fdefs m) (bm_edefs m) (pairs_of r ++ bm_sdefs m)) (d_pending st)
  | 7 :: r => mkDec (mkBMatrix (bm_frames m) (bm_ecus m) (sig_of_group r :: bm_free m) (bm_fdefs m) (bm_edefs m) (bm_sdefs m)) (d_pending st)
  | _ => st
  end.
Definition matrix_of (gs : io) : bmatrix :=
  d_m (fold_right dec_step (mkDec (mkBMatrix [] [] [] [] [] []) []) gs).

Definition sig_group (tag : Z) (s : bsignal) : list Z :=
  tag :: bs_id s :: bs_size s :: bs_payload s :: Z.of_nat (length (bs_name s)) :: bs_name s ++ flat_pairs (bs_attrs s).
Definition frame_groups (f : bframe) : io :=
  (1 :: bf_id f :: bf_payload f :: Z.of_nat (length (bf_name f)) :: bf_name f ++ flat_pairs (bf_attrs f))
    :: map (sig_group 2) (bf_signals f).
Definition matrix_out (m : bmatrix) : io :=
  flat_map frame_groups (bm_frames m)
  ++ map (fun e => 3 :: be_name e :: flat_pairs (be_attrs e)) (bm_ecus m)
  ++ map (fun kv => [4; fst kv; snd kv]) (bm_fdefs m)
  ++ map (fun kv => [5; fst kv; snd kv]) (bm_edefs m)
  ++ map (fun kv => [6; fst kv; snd kv]) (bm_sdefs m)
  ++ map (sig_group 7) (bm_free m).
Definition answer (o : option bmatrix) : io :=
  match o with None => [[0]] | Some m => [1] :: matrix_out m end.

(* an operation of a history: [code; ...] with code = last two digits of the single-call command;
   renames: [code; n; old (n characters); new (the rest)] *)
Definition op_of_group (g : list Z) : option bulk_op :=
  match g with
  | 1 :: _ => Some OpDeleteZero
  | 2 :: _ => Some OpDeleteObsoleteDefines
  | 3 :: r => Some (OpDelSignal r)
  | 5 :: r => let nr := name_and_rest r in Some (OpRenameSignal (fst nr) (snd nr))
  | 6 :: r => Some (OpDelFrame r)
  | 8 :: r => let nr := name_and_rest r in Some (OpRenameFrame (fst nr) (snd nr))
  | 9 :: r => Some (OpDelSignalAttributes r)
  | 10 :: r => Some (OpDelFrameAttributes r)
  | _ => None
  end.
Fixpoint ops_of (gs : io) : option (list bulk_op) :=
  match gs with
  | [] => Some []
  | g :: r => match op_of_group g, ops_of r with
              | Some o, Some os => Some (o :: os)
              | _, _ => None
              end
  end.

Definition run_c17 (cmd : Z) (a : io) : io :=
  let g0 := nth 0 a [] in let g1 := nth 1 a [] in
  match cmd with
  | 1701 => answer (Some (delete_zero_signals (matrix_of a)))
  | 1702 => answer (Some (delete_obsolete_defines (matrix_of a)))
  | 1703 => answer (Some (del_signal_glob g0 (matrix_of (skipn 1 a))))
  | 1704 => answer (Some (del_signal_obj (nthz g0 0) (matrix_of (skipn 1 a))))
  | 1705 => answer (rename_signal g0 g1 (matrix_of (skipn 2 a)))
  | 1706 => answer (Some (del_frame_name g0 (matrix_of (skipn 1 a))))
  | 1707 => answer (del_frame_obj (nthz g0 0) (matrix_of (skipn 1 a)))
  | 1708 => answer (rename_frame g0 g1 (matrix_of (skipn 2 a)))
  | 1709 => answer (Some (del_signal_attributes g0 (matrix_of (skipn 1 a))))
  | 1710 => answer (Some (del_frame_attributes g0 (matrix_of (skipn 1 a))))
  | 1711 => [[bz (glob_match g0 g1)]]                               (* [pattern] | [name] *)
  | 1712 =>                                                         (* [n] | n op groups | matrix : the code, op by op *)
      let n := Z.to_nat (nthz g0 0) in
      match ops_of (firstn n (skipn 1 a)) with
      | None => [[-999]]
      | Some ops => answer (run_ops ops (matrix_of (skipn (S n) a)))
      end
  | 1713 =>                                                         (* [frame pattern] | [signal pattern] | matrix *)
      let m := matrix_of (skipn 2 a) in
      [map bf_id (glob_frames g0 m); flat_map (fun f => map bs_id (glob_signals g1 f)) (bm_frames m)]
  | 1714 =>                                                         (* as 1712, but the SPECIFIED effect (spec_op) *)
      let n := Z.to_nat (nthz g0 0) in
      match ops_of (firstn n (skipn 1 a)) with
      | None => [[-999]]
      | Some ops => answer (Some (fold_left (fun m o => spec_op o m) ops (matrix_of (skipn (S n) a))))
      end
  | 1718 => answer (rename_frame_unfixed g0 g1 (matrix_of (skipn 2 a)))   (* rename_frame as in /repo before the proposed fix *)
  | 1719 =>                                                         (* as 1712 with rename_frame_unfixed *)
      let n := Z.to_nat (nthz g0 0) in
      match ops_of (firstn n (skipn 1 a)) with
      | None => [[-999]]
      | Some ops => answer (run_ops_unfixed ops (matrix_of (skipn (S n) a)))
      end
  | 1721 => answer (Some (delete_zero_signals_unfixed (matrix_of a)))    (* before 780371c *)
  | 1722 => answer (Some (delete_obsolete_defines_unfixed (matrix_of a)))(* before 9a3e727 *)
  | _ => [[-999]]
  end.
