(* Executable entry point shared by the extracted OCaml driver and the in-Coq vm_compute shard.
   A case is a command number and groups of integers; the answer is groups of integers.
   Encoding conventions: booleans 0/1, option Z as -1 where stated, errors as a leading status group.
   Per-property command sets live in model/Run_Cxx.v (run_cxx : Z -> io -> option io). *)
From CM Require Import lib.Prelude model.RunBase model.Startbit model.Codec model.ArbId.
From CM Require model.Run_C03 model.Run_C11 model.Run_C17 model.Run_C12 model.Run_C06 model.Run_C07 model.Run_C19 model.Run_C13 model.Run_C16 model.Run_C04 model.Run_C05 model.Run_C10 model.Run_C14 model.Run_C15 model.Run_C20 model.Run_C18.
Import Run_C03 Run_C11 Run_C17 Run_C12 Run_C06 Run_C07 Run_C19 Run_C13 Run_C16 Run_C04 Run_C05 Run_C10 Run_C14 Run_C15 Run_C20 Run_C18.

(* all six (bit_numbering, start_little) notations, in the order the harness uses *)
Definition notations : list (option Z * bool) :=
  [(None, false); (None, true); (Some 0, false); (Some 0, true); (Some 1, false); (Some 1, true)].

(* 801: [le; size; sb; bn; sl] -> [[0]] on StartbitLowerZero, else [[1; internal]; gets in all six notations] *)
Definition run_801 (a : list Z) : io :=
  let le := zb (nthz a 0) in let size := nthz a 1 in let sb := nthz a 2 in
  match set_startbit le size sb (optz (nthz a 3)) (zb (nthz a 4)) with
  | None => [[0]]
  | Some i => [[1; i]; map (fun n => get_startbit le size i (fst n) (snd n)) notations]
  end.

(* ---- codec ---- *)
(* a signal group: [name; start; size; le; signed; float] *)
Definition sig_of (g : list Z) : signal :=
  mkSignal (nthz g 0) (nthz g 1) (nthz g 2) (zb (nthz g 3)) (zb (nthz g 4)) (zb (nthz g 5)).
Definition raw_out (r : option raw) : list Z :=
  match r with None => [0] | Some (RInt v) => [1; v] | Some (RFloat p) => [2; p] end.
Definition named_raw_out (nv : Z * raw) : list Z :=
  match snd nv with RInt v => [fst nv; 1; v] | RFloat p => [fst nv; 2; p] end.
(* data group: flat triples name kind value *)
Fixpoint data_of (g : list Z) (fuel : nat) : list (Z * raw) :=
  match fuel with
  | O => []
  | S f => match g with
           | n :: k :: v :: r => (n, if k =? 2 then RFloat v else RInt v) :: data_of r f
           | _ => []
           end
  end.

(* 101: [sig] | data -> decode_signal ; 103: same args -> the convention's value (specification) *)
Definition run_101 (sg d : list Z) : io := [raw_out (decode_signal d (8 * zlen d) (sig_of sg))].
Definition run_103 (sg d : list Z) : io := [raw_out (Some (convention_value d (sig_of sg)))].
(* 102: [fsize; at; ae] | data | sig ... -> frame_unpack *)
Definition run_102 (h d : list Z) (sgs : io) : io :=
  match frame_unpack (nthz h 0) (map sig_of sgs) (zb (nthz h 1)) (zb (nthz h 2)) d with
  | ULengthError => [[0]]
  | UConvError => [[1]]
  | UOk vs => [2] :: map named_raw_out vs
  end.
(* 104: [fsize; at; ae] | data -> the gate alone *)
Definition run_104 (h d : list Z) : io :=
  match unpack_gate (nthz h 0) (zb (nthz h 1)) (zb (nthz h 2)) d with
  | None => [[0]]
  | Some d' => [[1]; d']
  end.
(* 201: [fsize] | data triples | sig ... -> signals_to_bytes *)
Definition run_201 (h dg : list Z) (sgs : io) : io :=
  match signals_to_bytes (nthz h 0) (map sig_of sgs) (data_of dg (length dg)) with
  | None => [[0]]
  | Some bytes => [[1]; bytes]
  end.

(* ---- identifiers ---- *)
Definition arb_of (g : list Z) : arbid := (nthz g 0, zb (nthz g 1)).
Definition arb_out (o : option arbid) : list Z :=
  match o with None => [0] | Some a => [1; fst a; bz (snd a)] end.
(* 901: [id; ext] -> constructor *)
Definition run_901 (g : list Z) : io := [arb_out (mk_arbid (nthz g 0) (zb (nthz g 1)))].
(* 902: [id; ext] -> all getters, -1 = raises; destination: -1 raises, -2 None *)
Definition run_902 (g : list Z) : io :=
  let a := arb_of g in
  [[oz (j1939_source a); oz (j1939_ps a); oz (j1939_pf a); oz (j1939_dp a); oz (j1939_edp a);
    oz (j1939_priority a); oz (pgn a);
    match j1939_destination a with None => -1 | Some None => -2 | Some (Some v) => v end;
    to_compound_integer a]].
(* 903: [id; ext; which; value] -> setter result, which: 0 pgn, 1 source, 2 priority *)
Definition run_903 (g : list Z) : io :=
  let a := arb_of g in
  let b := match nthz g 2 with 0 => set_pgn a (nthz g 3) | 1 => set_source a (nthz g 3) | _ => set_priority a (nthz g 3) end in
  [[fst b; bz (snd b)]].
(* 904: [i] -> from_compound_integer ; 905: [pgn] -> from_pgn and its .pgn *)
Definition run_904 (g : list Z) : io := [arb_out (from_compound_integer (nthz g 0))].
Definition run_905 (g : list Z) : io :=
  match from_pgn (nthz g 0) with None => [[0]] | Some a => [[1; fst a; oz (pgn a)]] end.
(* 906: [id; ext] | frames [uid; id; ext; j1939] ... -> decode_select ; 907: [pgn] | frames -> frame_by_pgn *)
Definition fr_of (g : list Z) : fr := (nthz g 0, (nthz g 1, zb (nthz g 2)), zb (nthz g 3)).
Definition run_906 (g : list Z) (fs : io) : io :=
  match decode_select (arb_of g) (map fr_of fs) with
  | SelFrame f => [[0; fr_uid f]] | SelEmpty => [[1]] | SelCrash => [[2]]
  end.
Definition run_907 (g : list Z) (fs : io) : io :=
  match frame_by_pgn (nthz g 0) (map fr_of fs) with
  | PFound f => [[0; fr_uid f]] | PNone => [[1]] | PErr => [[2]]
  end.

Definition run_core (cmd : Z) (a : io) : io :=
  match cmd, a with
  | 801, [g] => run_801 g
  | 101, [sg; d] => run_101 sg d
  | 103, [sg; d] => run_103 sg d
  | 102, h :: d :: sgs => run_102 h d sgs
  | 104, [h; d] => run_104 h d
  | 201, h :: dg :: sgs => run_201 h dg sgs
  | 901, [g] => run_901 g
  | 902, [g] => run_902 g
  | 903, [g] => run_903 g
  | 904, [g] => run_904 g
  | 905, [g] => run_905 g
  | 906, g :: fs => run_906 g fs
  | 907, g :: fs => run_907 g fs
  | _, _ => [[-999]]
  end.

(* per-property command sets (model/Run_Cxx.v), selected by the hundreds of the command number *)
Definition run (cmd : Z) (a : io) : io :=
  let h := cmd / 100 in
  if h =? 3 then run_c03 cmd a
  else if h =? 11 then run_c11 cmd a
  else if h =? 17 then run_c17 cmd a
  else if h =? 12 then run_c12 cmd a
  else if h =? 6 then run_c06 cmd a
  else if h =? 7 then run_c07 cmd a
  else if h =? 19 then run_c19 cmd a
  else if h =? 13 then run_c13 cmd a
  else if h =? 16 then run_c16 cmd a
  else if h =? 4 then run_c04 cmd a
  else if h =? 5 then run_c05 cmd a
  else if h =? 10 then run_c10 cmd a
  else if h =? 14 then run_c14 cmd a
  else if h =? 15 then run_c15 cmd a
  else if h =? 20 then run_c20 cmd a
  else if h =? 18 then run_c18 cmd a
  else run_core cmd a.
Definition mismatches := mismatches_with run.
