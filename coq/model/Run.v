(* Executable entry point shared by the extracted OCaml driver and the in-Coq vm_compute shard.
   A case is a command number and groups of integers; the answer is groups of integers.
   Encoding conventions (harness/cmds.py mirrors them): booleans 0/1, option Z as [] / [v] inside
   a group or -1 where stated, errors as a leading status group. *)
From CM Require Import lib.Prelude model.Startbit.

Definition io := list (list Z).

Definition zb (z : Z) : bool := negb (Z.eqb z 0).
Definition bz (b : bool) : Z := if b then 1 else 0.
Definition nthz (l : list Z) (i : nat) : Z := nth i l 0.
Definition optz (z : Z) : option Z := if z <? 0 then None else Some z.   (* -1 encodes None *)

(* all six (bit_numbering, start_little) notations, in the order the harness uses *)
Definition notations : list (option Z * bool) :=
  [(None, false); (None, true); (Some 0, false); (Some 0, true); (Some 1, false); (Some 1, true)].

(* 801: [le; size; sb; bn; sl] -> [[0]] on StartbitLowerZero, else [[1; internal]; gets in all six notations] *)
Definition run_801 (a : list Z) : io :=
  let le := zb (nthz a 0) in let size := nthz a 1 in let sb := nthz a 2 in
  match set_startbit le size sb (optz (nthz a 3)) (zb (nthz a 4)) with
  | None => [[0]]
  | Some i => [[1; i]; map (fun n => get_startbit le size i (fst n) (snd n)) notations]
  end.

Definition run (cmd : Z) (a : io) : io :=
  match cmd, a with
  | 801, [g] => run_801 g
  | _, _ => [[-999]]
  end.

(* for the in-Coq shard: indices of cases whose model answer differs from the implementation's *)
Fixpoint leqb (a b : list Z) : bool :=
  match a, b with
  | [], [] => true
  | x :: a', y :: b' => Z.eqb x y && leqb a' b'
  | _, _ => false
  end.
Fixpoint lleqb (a b : io) : bool :=
  match a, b with
  | [], [] => true
  | x :: a', y :: b' => leqb x y && lleqb a' b'
  | _, _ => false
  end.
Fixpoint mismatches_from (n : Z) (cases : list (Z * io * io)) : list Z :=
  match cases with
  | [] => []
  | (c, a, e) :: rest =>
      (if lleqb (run c a) e then [] else [n]) ++ mismatches_from (n + 1) rest
  end.
Definition mismatches := mismatches_from 0.
