(* C14.  What each writer does TO ITS ARGUMENT (a function matrix -> matrix) and what it writes FROM (the working
   matrix after the writer's own normalisation), read off src/canmatrix/formats/*.py and cancluster.py; plus the SYM
   writer's emission of multiplexer groups as a function of the order in which the set of multiplexer values is iterated.
   Definitions only.

   Matrix type: only the fields a writer was seen to touch - frame name, transmitters, receivers, and per signal its name
   and receivers.  ECU and signal names are interned integers; FRAME names are strings (list of character codes) because
   fibex.dump builds new ones (<name>_<n>).

   The parameter `copies : bool` says whether arxml/fibex/kcd work on copy.deepcopy of their argument:
     copies = true   the code with fixes/C14_{arxml,fibex,kcd}_copy.patch applied (what the theorems of props/C14.v are about)
     copies = false  the tree before those fixes (kept so that the findings stay visible as `_refuted` theorems)
   dbc.dump (dbc.py ~112) and dbf.dump (dbf.py ~316) deep-copy in both.
   kcd.dump leaves its argument alone in both since /repo b679340 (CanCluster keeps its merged view in objects of its own, see
   `cluster_view`); only arxml and fibex still normalise the object they work on.

   Not modelled: `rec.strip()` in arxml.dump (ECU names are taken to carry no surrounding white space), everything a writer
   only READS, the bytes themselves, and CPython's set iteration order (an arbitrary list here). *)
From CM Require Import lib.Prelude.

Record signal := mkSignal { s_name : Z; s_receivers : list Z }.
Record frame := mkFrame { f_name : list Z; f_transmitters : list Z; f_receivers : list Z; f_signals : list signal }.
Definition matrix := list frame.

(* ---- helpers ---- *)
Definition memz (x : Z) (l : list Z) : bool := existsb (Z.eqb x) l.
(* Frame.add_receiver / add_transmitter / Signal.add_receiver (canmatrix.py ~278, ~1147, ~1165): append if absent *)
Definition add_unique (l : list Z) (x : Z) : list Z := if memz x l then l else l ++ [x].
Definition add_all (l xs : list Z) : list Z := fold_left add_unique xs l.

Fixpoint str_eqb (a b : list Z) : bool :=
  match a, b with
  | [], [] => true
  | x :: a', y :: b' => Z.eqb x y && str_eqb a' b'
  | _, _ => false
  end.
Definition mems (x : list Z) (l : list (list Z)) : bool := existsb (str_eqb x) l.

Definition set_receivers (f : frame) (r : list Z) : frame := mkFrame (f_name f) (f_transmitters f) r (f_signals f).
Definition set_name (f : frame) (n : list Z) : frame := mkFrame n (f_transmitters f) (f_receivers f) (f_signals f).

(* ---- arxml.dump (~357-364):  for frame: for signal: for rec in signal.receivers: frame.add_receiver(rec.strip()) ---- *)
Definition arxml_frame (f : frame) : frame :=
  set_receivers f (fold_left (fun acc s => add_all acc (s_receivers s)) (f_signals f) (f_receivers f)).
Definition arxml_propagate (m : matrix) : matrix := map arxml_frame m.

(* ---- fibex.dump (~430-443): later frames with a name already seen are renamed <name>_<tmp>, tmp = 2, 3, ... ---- *)
(* str(tmp) for tmp >= 0 *)
Fixpoint digits_fuel (fuel : nat) (n : Z) (acc : list Z) : list Z :=
  match fuel with
  | O => acc
  | S k => let acc' := (48 + n mod 10) :: acc in
           if n <? 10 then acc' else digits_fuel k (n / 10) acc'
  end.
Definition str_of_Z (n : Z) : list Z := digits_fuel (S (Z.to_nat n)) n [].
Definition suffixed (name : list Z) (tmp : Z) : list Z := name ++ [95] ++ str_of_Z tmp.
(* while f"{name}_{tmp}" in frame_names: tmp += 1  - at most |seen| names can collide *)
Fixpoint fresh_tmp (fuel : nat) (name : list Z) (seen : list (list Z)) (tmp : Z) : Z :=
  match fuel with
  | O => tmp
  | S k => if mems (suffixed name tmp) seen then fresh_tmp k name seen (tmp + 1) else tmp
  end.
Fixpoint fibex_rename_aux (seen : list (list Z)) (fs : list frame) : list frame :=
  match fs with
  | [] => []
  | f :: rest =>
      let n := if mems (f_name f) seen
               then suffixed (f_name f) (fresh_tmp (S (length seen)) (f_name f) seen 2)
               else f_name f in
      set_name f n :: fibex_rename_aux (n :: seen) rest      (* frame_names[frame.name] = frame *)
  end.
Definition fibex_rename (m : matrix) : matrix := fibex_rename_aux [] m.

(* ---- CanCluster(dbs) (cancluster.py ~11-18 -> update()) as used by kcd.dump (~122), one bus ---- *)
Fixpoint index_of (x : list Z) (l : list (list Z)) : nat :=
  match l with
  | [] => O
  | y :: r => if str_eqb x y then O else S (index_of x r)
  end.
Fixpoint update_nth {A} (n : nat) (g : A -> A) (l : list A) : list A :=
  match n, l with
  | _, [] => []
  | O, x :: r => g x :: r
  | S k, x :: r => x :: update_nth k g r
  end.
Definition empty_frame : frame := mkFrame [] [] [] [].
(* update_frames (~20-34): `names`/`firsts` = frame_names and the position (in the matrix) of the frame object kept in
   `frames`; a frame whose name was seen hands its transmitters and receivers to that first object, in place *)
Definition merge_frame_step (st : matrix * (list (list Z) * list nat)) (k : nat) : matrix * (list (list Z) * list nat) :=
  let '(cur, (names, firsts)) := st in
  let f := nth k cur empty_frame in
  if mems (f_name f) names then
    let tgt := nth (index_of (f_name f) names) firsts O in
    (update_nth tgt (fun g => mkFrame (f_name g) (add_all (f_transmitters g) (f_transmitters f))
                                     (add_all (f_receivers g) (f_receivers f)) (f_signals g)) cur,
     (names, firsts))
  else (cur, (names ++ [f_name f], firsts ++ [k])).
Definition merge_frames (m : matrix) : matrix :=
  fst (fold_left merge_frame_step (seq 0 (length m)) (m, ([], []))).

(* update_signals (~36-50): the same over all signals of all frames, keyed by signal name; positions are (frame, signal) *)
Fixpoint index_ofz (x : Z) (l : list Z) : nat :=
  match l with
  | [] => O
  | y :: r => if Z.eqb x y then O else S (index_ofz x r)
  end.
Definition empty_signal : signal := mkSignal 0 [].
Definition signal_at (m : matrix) (p : nat * nat) : signal :=
  nth (snd p) (f_signals (nth (fst p) m empty_frame)) empty_signal.
Definition update_signal_at (m : matrix) (p : nat * nat) (g : signal -> signal) : matrix :=
  update_nth (fst p) (fun f => mkFrame (f_name f) (f_transmitters f) (f_receivers f) (update_nth (snd p) g (f_signals f))) m.
Definition positions (m : matrix) : list (nat * nat) :=
  flat_map (fun fi => map (fun si => (fi, si)) (seq 0 (length (f_signals (nth fi m empty_frame))))) (seq 0 (length m)).
Definition merge_signal_step (st : matrix * (list Z * list (nat * nat))) (p : nat * nat) : matrix * (list Z * list (nat * nat)) :=
  let '(cur, (names, firsts)) := st in
  let s := signal_at cur p in
  if memz (s_name s) names then
    let tgt := nth (index_ofz (s_name s) names) firsts (O, O) in
    (update_signal_at cur tgt (fun g => mkSignal (s_name g) (add_all (s_receivers g) (s_receivers s))), (names, firsts))
  else (cur, (names ++ [s_name s], firsts ++ [p])).
Definition merge_signals (m : matrix) : matrix :=
  fst (fold_left merge_signal_step (positions m) (m, ([], []))).
Definition cluster_update (m : matrix) : matrix := merge_signals (merge_frames m).
(* Since /repo b679340 update_frames / update_signals collect the merged senders and receivers in SHALLOW COPIES of the first frame /
   signal of a name (lists of their own): cluster.frames / cluster.signals are a view in objects of the cluster's own, and the
   member matrices - which kcd.dump iterates and writes from (kcd.py ~158-171: `for frame in db.frames`) - keep what they had.
   `cluster_view m` is that view, laid out as the matrix in which the first frame / signal of every name carries the merged lists
   (the entries cluster.frames / cluster.signals hold) and all later ones are as in the member matrix. *)
Definition cluster_view (m : matrix) : matrix := cluster_update m.

(* ---- the writers ---- *)
Inductive writer := Arxml | Csv | Dbc | Dbf | Fibex | Json | JsonAll | JsonNative | Kcd | Scapy | Sym | Wireshark | Xls.

(* the in-place normalisation a writer performs on the object it works on (for the modelled fields).
   dbc/dbf normalise other fields (names, attributes, defines) of their private copy: nothing modelled here is touched. *)
Definition normalise (w : writer) (m : matrix) : matrix :=
  match w with
  | Arxml => arxml_propagate m
  | Fibex => fibex_rename m
  | _ => m      (* incl. Kcd: the CanCluster it builds no longer touches, and is not what is written from, the member matrices *)
  end.
(* does the writer work on copy.deepcopy of its argument? *)
Definition works_on_copy (copies : bool) (w : writer) : bool :=
  match w with
  | Dbc | Dbf => true
  | Arxml | Fibex | Kcd => copies
  | _ => false
  end.
(* the caller's object after the export *)
Definition effect (copies : bool) (w : writer) (m : matrix) : matrix :=
  if works_on_copy copies w then m else normalise w m.
(* the matrix the bytes are produced from *)
Definition view (w : writer) (m : matrix) : matrix := normalise w m.
(* a history of exports on the same object *)
Definition after_exports (copies : bool) (ws : list writer) (m : matrix) : matrix :=
  fold_left (fun acc w => effect copies w acc) ws m.

(* a history of exports AND in-place edits of the same object (an edit is any function on the matrix: the caller's code) *)
Inductive step := SExport (w : writer) | SEdit (e : matrix -> matrix).
Definition run_step (copies : bool) (m : matrix) (s : step) : matrix :=
  match s with SExport w => effect copies w m | SEdit e => e m end.
Definition run_steps (copies : bool) (steps : list step) (m : matrix) : matrix := fold_left (run_step copies) steps m.
(* the same history on an object that is never exported *)
Fixpoint edits_only (steps : list step) : list step :=
  match steps with
  | [] => []
  | SExport _ :: r => edits_only r
  | SEdit e :: r => SEdit e :: edits_only r
  end.

(* envelopes that exclude the findings on the unfixed tree *)
Definition frame_names (m : matrix) : list (list Z) := map f_name m.
Definition signal_names (m : matrix) : list Z := flat_map (fun f => map s_name (f_signals f)) m.
Definition frame_propagated (f : frame) : Prop :=
  forall s r, In s (f_signals f) -> In r (s_receivers s) -> In r (f_receivers f).
Definition receivers_propagated (m : matrix) : Prop := forall f, In f m -> frame_propagated f.

(* ---- SYM: emission of the Mux groups of one frame (sym.py ~246-300) ----
   A signal's `multiplex` is None, the string 'Multiplexor', or an int.  The writer builds
   set([a.multiplex for a in frame.signals]) and walks it; `order` below is that walk. *)
Inductive mux := MNone | MMultiplexor | MInt (v : Z).
Definition mux_eqb (a b : mux) : bool :=
  match a, b with
  | MNone, MNone => true
  | MMultiplexor, MMultiplexor => true
  | MInt x, MInt y => Z.eqb x y
  | _, _ => false
  end.
Definition ssig := (Z * mux)%type.        (* (signal name, multiplex) *)
(* one emitted block: (selector value, carries the ID=/Type= lines, names of the Var= lines in order) *)
Definition block := (Z * bool * list Z)%type.

Definition in_group (i : Z) (s : ssig) : bool := mux_eqb (snd s) (MInt i).
Definition listed (i : Z) (s : ssig) : bool := in_group i s || mux_eqb (snd s) MNone.
(* the loop body for one int i: `found` iff some signal has multiplex == i; `first` = no block emitted yet *)
Fixpoint emit_ints (sigs : list ssig) (ints : list Z) (first : bool) : list block :=
  match ints with
  | [] => []
  | i :: rest =>
      if existsb (in_group i) sigs
      then (i, first, map fst (filter (listed i) sigs)) :: emit_ints sigs rest false
      else emit_ints sigs rest first
  end.
(* `if type(i) != int: continue` *)
Fixpoint ints_of (order : list mux) : list Z :=
  match order with
  | [] => []
  | MInt v :: r => v :: ints_of r
  | _ :: r => ints_of r
  end.
(* before fixes/C14_sym_sorted.patch: groups in iteration order *)
Definition sym_emit_in_order (order : list mux) (sigs : list ssig) : list block := emit_ints sigs (ints_of order) true.
(* sorted(...) on ints: the ascending rearrangement (insertion sort; proofs/C14_proofs.v shows it is THE sorted permutation) *)
Fixpoint insert (x : Z) (l : list Z) : list Z :=
  match l with
  | [] => [x]
  | y :: r => if x <=? y then x :: l else y :: insert x r
  end.
Fixpoint isort (l : list Z) : list Z :=
  match l with
  | [] => []
  | x :: r => insert x (isort r)
  end.
(* after the fix: for i in sorted(a for a in multiplexer_list if type(a) == int) *)
Definition sym_emit (order : list mux) (sigs : list ssig) : list block := emit_ints sigs (isort (ints_of order)) true.
(* `order` is a possible iteration of set([a.multiplex for a in frame.signals]): no repeats, same elements *)
Definition iteration_of (sigs : list ssig) (order : list mux) : Prop :=
  NoDup order /\ forall x, In x order <-> In x (map snd sigs).
