(* C17: bulk clean-up, delete and rename operations of CanMatrix (src/canmatrix/canmatrix.py).
   Definitions only.  Part 1 mirrors the Python code statement by statement (with the Python list/dict/str semantics
   it relies on made explicit); Part 2 is the vocabulary in which props/C17.v states what the operations must do
   (filter / map over names, written without any loop of the code).

   Representation
   * strings (frame names, signal names, patterns) = lists of character codes; attribute names, ECU names and all
     values are interned integers (only equality is ever used on them by the modelled code);
   * a Python dict with insertion order = association list, keys unique by construction (`dict`);
   * Signal and Frame are attrs classes with eq=False: `==`, `in` and `list.remove` compare object identity.  The
     identity id(obj) is the field bs_id / bf_id; `payload` stands for every field the operations never read;
   * a matrix is a tree: one Frame object is listed once in CanMatrix.frames and one Signal object belongs to one
     frame (what every loader produces).  Predicate `objects_distinct` states the part of it the code relies on. *)
From CM Require Import lib.Prelude model.Glob_c17.

Definition str := list Z.
Definition dict := list (Z * Z).

Record bsignal := mkBSignal {
  bs_id : Z;            (* id(signal) *)
  bs_name : str;
  bs_size : Z;
  bs_attrs : dict;      (* Signal.attributes *)
  bs_payload : Z        (* start bit, byte order, factor, ... : untouched, opaque *)
}.
Record bframe := mkBFrame {
  bf_id : Z;            (* id(frame) *)
  bf_name : str;
  bf_attrs : dict;      (* Frame.attributes *)
  bf_payload : Z;       (* arbitration id, size, transmitters, ... *)
  bf_signals : list bsignal
}.
Record becu := mkBEcu { be_name : Z; be_attrs : dict }.
Record bmatrix := mkBMatrix {
  bm_frames : list bframe;
  bm_ecus : list becu;
  bm_free : list bsignal;      (* CanMatrix.signals: signals that belong to no frame *)
  bm_fdefs : dict;             (* frame_defines : name -> Define (opaque) *)
  bm_edefs : dict;             (* ecu_defines *)
  bm_sdefs : dict              (* signal_defines *)
}.

Definition set_frames (m : bmatrix) (fs : list bframe) : bmatrix :=
  mkBMatrix fs (bm_ecus m) (bm_free m) (bm_fdefs m) (bm_edefs m) (bm_sdefs m).
Definition set_defines (m : bmatrix) (fd ed sd : dict) : bmatrix :=
  mkBMatrix (bm_frames m) (bm_ecus m) (bm_free m) fd ed sd.
Definition set_signals (f : bframe) (ss : list bsignal) : bframe :=
  mkBFrame (bf_id f) (bf_name f) (bf_attrs f) (bf_payload f) ss.
Definition set_fname (f : bframe) (n : str) : bframe :=
  mkBFrame (bf_id f) n (bf_attrs f) (bf_payload f) (bf_signals f).
Definition set_fattrs (f : bframe) (a : dict) : bframe :=
  mkBFrame (bf_id f) (bf_name f) a (bf_payload f) (bf_signals f).
Definition set_sname (s : bsignal) (n : str) : bsignal :=
  mkBSignal (bs_id s) n (bs_size s) (bs_attrs s) (bs_payload s).
Definition set_sattrs (s : bsignal) (a : dict) : bsignal :=
  mkBSignal (bs_id s) (bs_name s) (bs_size s) a (bs_payload s).

(* ------------------------------------------------------------------------------------------------------------ *)
(* Part 1a. Python primitives                                                                                    *)

Fixpoint str_eqb (a b : str) : bool :=                   (* a == b on str *)
  match a, b with
  | [], [] => true
  | x :: a', y :: b' => (x =? y) && str_eqb a' b'
  | _, _ => false
  end.

Definition dict_has (k : Z) (d : dict) : bool := existsb (fun kv => fst kv =? k) d.        (* k in d *)
Definition dict_del (k : Z) (d : dict) : dict := filter (fun kv => negb (fst kv =? k)) d.  (* del d[k], k present *)

(* slices with a non-negative count k *)
Definition slice_to (k : nat) (s : str) : str := firstn k s.          (* s[:k] *)
Definition slice_from (k : nat) (s : str) : str := skipn k s.         (* s[k:] *)
(* s[-k:]  - for k = 0 this is s[0:], the whole string; for k > len(s) also the whole string *)
Definition slice_last (k : nat) (s : str) : str :=
  match k with O => s | _ => skipn (length s - k) s end.
(* s[:-k]  - for k = 0 this is s[:0], the empty string; for k > len(s) also empty *)
Definition slice_but_last (k : nat) (s : str) : str :=
  match k with O => [] | _ => firstn (length s - k) s end.

(* list.remove(obj) for eq=False objects: the first occurrence of that object; absent -> ValueError, which the
   callers below that use the total version cannot reach (they remove elements they have just taken from the list) *)
Fixpoint remove_sig (i : Z) (l : list bsignal) : list bsignal :=
  match l with
  | [] => []
  | s :: r => if bs_id s =? i then r else s :: remove_sig i r
  end.
Fixpoint remove_frame (i : Z) (l : list bframe) : list bframe :=
  match l with
  | [] => []
  | f :: r => if bf_id f =? i then r else f :: remove_frame i r
  end.

(* ------------------------------------------------------------------------------------------------------------ *)
(* Part 1b. The operations                                                                                       *)

(* CanMatrix.delete_zero_signals (repaired by 780371c):
     for frame in self.frames:
         for signal in list(frame.signals):          # snapshot
             if 0 == signal.size: frame.signals.remove(signal) *)
Definition delete_zero_in_frame (f : bframe) : bframe :=
  set_signals f
    (fold_left (fun live s => if 0 =? bs_size s then remove_sig (bs_id s) live else live)
               (bf_signals f) (bf_signals f)).
Definition delete_zero_signals (m : bmatrix) : bmatrix :=
  set_frames m (map delete_zero_in_frame (bm_frames m)).

(* the loop as it was before 780371c: `for signal in frame.signals` walks the live list by index *)
Fixpoint dz_live_loop (fuel i : nat) (live : list bsignal) : list bsignal :=
  match fuel with
  | O => live
  | S fuel' =>
      match nth_error live i with
      | None => live                                        (* StopIteration *)
      | Some s => dz_live_loop fuel' (S i) (if 0 =? bs_size s then remove_sig (bs_id s) live else live)
      end
  end.
Definition delete_zero_signals_unfixed (m : bmatrix) : bmatrix :=
  set_frames m (map (fun f => set_signals f (dz_live_loop (S (length (bf_signals f))) 0 (bf_signals f))) (bm_frames m)).

(* CanMatrix.delete_obsolete_defines (signal part repaired by 9a3e727):
     defines_to_delete = set()
     for d in self.X_defines:
         for obj in OBJECTS:
             if d in obj.attributes: break
         else: defines_to_delete.add(d)
     for element in defines_to_delete: del self.X_defines[element]
   OBJECTS = self.frames / self.ecus / [signals of all frames] + self.signals *)
Fixpoint for_else_unused {A} (has : A -> bool) (objs : list A) : bool :=   (* true: the else branch ran *)
  match objs with
  | [] => true
  | o :: r => if has o then false else for_else_unused has r
  end.
Definition defines_to_delete {A} (defs : dict) (objs : list A) (attrs_of : A -> dict) : list Z :=
  filter (fun d => for_else_unused (fun o => dict_has d (attrs_of o)) objs) (map fst defs).
(* the set is iterated in an order Python does not specify; deletions of distinct keys commute *)
Definition del_keys (ks : list Z) (d : dict) : dict := fold_left (fun acc k => dict_del k acc) ks d.
Definition all_signals (m : bmatrix) : list bsignal := flat_map bf_signals (bm_frames m) ++ bm_free m.
Definition delete_obsolete_defines (m : bmatrix) : bmatrix :=
  set_defines m
    (del_keys (defines_to_delete (bm_fdefs m) (bm_frames m) bf_attrs) (bm_fdefs m))
    (del_keys (defines_to_delete (bm_edefs m) (bm_ecus m) be_attrs) (bm_edefs m))
    (del_keys (defines_to_delete (bm_sdefs m) (all_signals m) bs_attrs) (bm_sdefs m)).

(* the signal part before 9a3e727: the else belonged to the loop over ONE frame's signals
     for frame in self.frames:
         for signal in frame.signals:
             if d in signal.attributes: break
         else: defines_to_delete.add(d) *)
Definition signal_defines_to_delete_unfixed (m : bmatrix) : list Z :=
  filter (fun d => existsb (fun f => for_else_unused (fun s => dict_has d (bs_attrs s)) (bf_signals f)) (bm_frames m))
         (map fst (bm_sdefs m)).
Definition delete_obsolete_defines_unfixed (m : bmatrix) : bmatrix :=
  set_defines m
    (del_keys (defines_to_delete (bm_fdefs m) (bm_frames m) bf_attrs) (bm_fdefs m))
    (del_keys (defines_to_delete (bm_edefs m) (bm_ecus m) be_attrs) (bm_edefs m))
    (del_keys (signal_defines_to_delete_unfixed m) (bm_sdefs m)).

(* Frame.glob_signals / CanMatrix.glob_frames: fnmatch.fnmatchcase(obj.name, pattern), in list order *)
Definition glob_signals (pat : str) (f : bframe) : list bsignal :=
  filter (fun s => glob_match pat (bs_name s)) (bf_signals f).
Definition glob_frames (pat : str) (m : bmatrix) : list bframe :=
  filter (fun f => glob_match pat (bf_name f)) (bm_frames m).

(* CanMatrix.del_signal(str):   for frame in self.frames:
                                    for sig in frame.glob_signals(signal): frame.signals.remove(sig) *)
Definition del_signal_glob (pat : str) (m : bmatrix) : bmatrix :=
  set_frames m
    (map (fun f => set_signals f (fold_left (fun live s => remove_sig (bs_id s) live) (glob_signals pat f) (bf_signals f)))
         (bm_frames m)).
(* CanMatrix.del_signal(Signal):  for frame in self.frames:
                                      if signal in frame.signals: frame.signals.remove(signal) *)
Definition del_signal_obj (i : Z) (m : bmatrix) : bmatrix :=
  set_frames m
    (map (fun f => if existsb (fun s => bs_id s =? i) (bf_signals f)
                   then set_signals f (remove_sig i (bf_signals f)) else f)
         (bm_frames m)).

(* Frame.signal_by_name: first signal with that name; rename_first renames it *)
Fixpoint rename_first (old new : str) (l : list bsignal) : list bsignal :=
  match l with
  | [] => []
  | s :: r => if str_eqb (bs_name s) old then set_sname s new :: r else s :: rename_first old new r
  end.

(* CanMatrix.rename_signal(str, str):
     for frame in self.frames:
         if old_name[-1] == '*':                       # IndexError on '' (only when there is a frame)
             k = len(old_name) - 1
             for signal in frame.signals:
                 if signal.name[:k] == old_name[:-1]: signal.name = new_name + signal.name[k:]
         elif old_name[0] == '*':
             k = len(old_name) - 1
             for signal in frame.signals:
                 if signal.name[-k:] == old_name[1:]: signal.name = signal.name[:-k] + new_name
         else:
             s = frame.signal_by_name(old_name)
             if s: s.name = new_name
   (called with a Signal instance, old_name is the instance's name and the same code runs) *)
Definition rename_prefix_name (old new name : str) : str :=
  let k := (length old - 1)%nat in
  if str_eqb (slice_to k name) (removelast old) then new ++ slice_from k name else name.
Definition rename_suffix_name (old new name : str) : str :=
  let k := (length old - 1)%nat in
  if str_eqb (slice_last k name) (tl old) then slice_but_last k name ++ new else name.

Definition rename_signal_in_frame (old new : str) (f : bframe) : bframe :=
  if last old 0 =? ch_star then
    set_signals f (map (fun s => set_sname s (rename_prefix_name old new (bs_name s))) (bf_signals f))
  else if hd 0 old =? ch_star then
    set_signals f (map (fun s => set_sname s (rename_suffix_name old new (bs_name s))) (bf_signals f))
  else set_signals f (rename_first old new (bf_signals f)).
Definition rename_signal (old new : str) (m : bmatrix) : option bmatrix :=
  match bm_frames m, old with
  | [], _ => Some m                   (* the loop body never runs *)
  | _ :: _, [] => None                (* ''[-1] : IndexError *)
  | _ :: _, _ :: _ => Some (set_frames m (map (rename_signal_in_frame old new) (bm_frames m)))
  end.

(* CanMatrix.rename_frame(str, str) AS PROPOSED in fixes/C17_rename_frame_elif.patch (second `if` -> `elif`,
   the structure rename_signal already has):
     for frame in self.frames:
         if old_name[-1] == '*':
             k = len(old_name)-1
             if frame.name[:k] == old_name[:-1]: frame.name = new_name + frame.name[k:]
         elif old_name[0] == '*':
             k = len(old_name)-1
             if frame.name[-k:] == old_name[1:]: frame.name = frame.name[:-k] + new_name
         elif frame.name == old_name: frame.name = new_name *)
Definition rename_frame_name (old new name : str) : str :=
  if last old 0 =? ch_star then rename_prefix_name old new name
  else if hd 0 old =? ch_star then rename_suffix_name old new name
  else if str_eqb name old then new else name.
Definition rename_frame (old new : str) (m : bmatrix) : option bmatrix :=
  match bm_frames m, old with
  | [], _ => Some m
  | _ :: _, [] => None
  | _ :: _, _ :: _ => Some (set_frames m (map (fun f => set_fname f (rename_frame_name old new (bf_name f))) (bm_frames m)))
  end.

(* CanMatrix.rename_frame as it is in /repo at cc0f6c0 (if / if / elif): after the prefix step the SECOND test is
   still evaluated on the already renamed frame - the suffix step when the pattern also starts with '*', otherwise
   the exact comparison `frame.name == old_name`. *)
Definition rename_frame_name_unfixed (old new name : str) : str :=
  let name1 := if last old 0 =? ch_star then rename_prefix_name old new name else name in
  if hd 0 old =? ch_star then rename_suffix_name old new name1
  else if str_eqb name1 old then new else name1.
Definition rename_frame_unfixed (old new : str) (m : bmatrix) : option bmatrix :=
  match bm_frames m, old with
  | [], _ => Some m
  | _ :: _, [] => None
  | _ :: _, _ :: _ => Some (set_frames m (map (fun f => set_fname f (rename_frame_name_unfixed old new (bf_name f))) (bm_frames m)))
  end.

(* CanMatrix.frame_by_name: first frame with that name *)
Fixpoint frame_by_name (n : str) (l : list bframe) : option bframe :=
  match l with
  | [] => None
  | f :: r => if str_eqb (bf_name f) n then Some f else frame_by_name n r
  end.
(* CanMatrix.del_frame(str):  frame = self.frame_by_name(name);  if frame: self.frames.remove(frame) *)
Definition del_frame_name (n : str) (m : bmatrix) : bmatrix :=
  match frame_by_name n (bm_frames m) with
  | None => m
  | Some f => set_frames m (remove_frame (bf_id f) (bm_frames m))
  end.
(* CanMatrix.del_frame(Frame): self.frames.remove(frame) - ValueError when the object is not in the matrix *)
Definition del_frame_obj (i : Z) (m : bmatrix) : option bmatrix :=
  if existsb (fun f => bf_id f =? i) (bm_frames m) then Some (set_frames m (remove_frame i (bm_frames m))) else None.

(* Signal.del_attribute / Frame.del_attribute: if attribute in self.attributes: del self.attributes[attribute] *)
Definition del_attribute (k : Z) (d : dict) : dict := if dict_has k d then dict_del k d else d.
Definition del_attributes (ks : list Z) (d : dict) : dict := fold_left (fun acc k => del_attribute k acc) ks d.
(* CanMatrix.del_signal_attributes: for frame: for signal in frame.signals: for a in unwanted: signal.del_attribute(a)
   (free signals in CanMatrix.signals are not visited) *)
Definition del_signal_attributes (ks : list Z) (m : bmatrix) : bmatrix :=
  set_frames m
    (map (fun f => set_signals f (map (fun s => set_sattrs s (del_attributes ks (bs_attrs s))) (bf_signals f)))
         (bm_frames m)).
(* CanMatrix.del_frame_attributes: for frame: for a in unwanted: frame.del_attribute(a) *)
Definition del_frame_attributes (ks : list Z) (m : bmatrix) : bmatrix :=
  set_frames m (map (fun f => set_fattrs f (del_attributes ks (bf_attrs f))) (bm_frames m)).

(* histories: the canconvert options / API calls in any order and number *)
Inductive bulk_op :=
| OpDeleteZero
| OpDeleteObsoleteDefines
| OpDelSignal (pat : str)
| OpRenameSignal (old new : str)
| OpDelFrame (name : str)
| OpRenameFrame (old new : str)
| OpDelSignalAttributes (ks : list Z)
| OpDelFrameAttributes (ks : list Z).

Definition apply_op (o : bulk_op) (m : bmatrix) : option bmatrix :=
  match o with
  | OpDeleteZero => Some (delete_zero_signals m)
  | OpDeleteObsoleteDefines => Some (delete_obsolete_defines m)
  | OpDelSignal pat => Some (del_signal_glob pat m)
  | OpRenameSignal old new => rename_signal old new m
  | OpDelFrame n => Some (del_frame_name n m)
  | OpRenameFrame old new => rename_frame old new m
  | OpDelSignalAttributes ks => Some (del_signal_attributes ks m)
  | OpDelFrameAttributes ks => Some (del_frame_attributes ks m)
  end.
Fixpoint run_ops (ops : list bulk_op) (m : bmatrix) : option bmatrix :=
  match ops with
  | [] => Some m
  | o :: r => match apply_op o m with None => None | Some m' => run_ops r m' end
  end.

(* the same histories on the code without fixes/C17_rename_frame_elif.patch (used by the harness only to explain
   correspondence differences while that finding is recorded as known instead of repaired) *)
Definition apply_op_unfixed (o : bulk_op) (m : bmatrix) : option bmatrix :=
  match o with
  | OpRenameFrame old new => rename_frame_unfixed old new m
  | _ => apply_op o m
  end.
Fixpoint run_ops_unfixed (ops : list bulk_op) (m : bmatrix) : option bmatrix :=
  match ops with
  | [] => Some m
  | o :: r => match apply_op_unfixed o m with None => None | Some m' => run_ops_unfixed r m' end
  end.

(* ------------------------------------------------------------------------------------------------------------ *)
(* Part 2. Vocabulary of the statements                                                                          *)

(* the property's envelope *)
Definition frame_names_unique (m : bmatrix) : Prop := NoDup (map bf_name (bm_frames m)).
Definition signal_names_unique (m : bmatrix) : Prop :=
  Forall (fun f => NoDup (map bs_name (bf_signals f))) (bm_frames m).
Definition names_unique (m : bmatrix) : Prop := frame_names_unique m /\ signal_names_unique m.
(* each Frame object is listed once, each Signal object once per frame (follows from unique names for real Python
   objects, because one object has one name; the model's ids are free integers, so it is said explicitly) *)
Definition objects_distinct (m : bmatrix) : Prop :=
  NoDup (map bf_id (bm_frames m)) /\ Forall (fun f => NoDup (map bs_id (bf_signals f))) (bm_frames m).

(* "change the signals of every frame by g, leave everything else" *)
Definition on_signals (g : list bsignal -> list bsignal) (m : bmatrix) : bmatrix :=
  set_frames m (map (fun f => set_signals f (g (bf_signals f))) (bm_frames m)).

(* what the three kinds of old_name mean, by concatenation only *)
Definition is_prefix_pattern (old p : str) : Prop := old = p ++ [ch_star].
Definition is_suffix_pattern (old s : str) : Prop := old = ch_star :: s /\ last old 0 <> ch_star.
Definition is_exact_name (old : str) : Prop := last old 0 <> ch_star /\ hd 0 old <> ch_star.
(* `renamed old new name name'`: name' is what a rename old -> new makes of an object called name *)
Definition renamed (old new name name' : str) : Prop :=
  (forall p, is_prefix_pattern old p ->
     (forall rest, name = p ++ rest -> name' = new ++ rest) /\ ((forall rest, name <> p ++ rest) -> name' = name)) /\
  (forall s, is_suffix_pattern old s ->
     (forall rest, name = rest ++ s -> name' = rest ++ new) /\ ((forall rest, name <> rest ++ s) -> name' = name)) /\
  (is_exact_name old -> (name = old -> name' = new) /\ (name <> old -> name' = name)).

(* the computable form of `renamed`, written with prefix/suffix stripping instead of Python slices *)
Fixpoint strip_prefix (p name : str) : option str :=
  match p, name with
  | [], _ => Some name
  | c :: p', d :: name' => if c =? d then strip_prefix p' name' else None
  | _ :: _, [] => None
  end.
Definition strip_suffix (s name : str) : option str :=
  match strip_prefix (rev s) (rev name) with Some r => Some (rev r) | None => None end.
Definition spec_rename (old new name : str) : str :=
  if last old 0 =? ch_star then
    match strip_prefix (removelast old) name with Some rest => new ++ rest | None => name end
  else if hd 0 old =? ch_star then
    match strip_suffix (tl old) name with Some rest => rest ++ new | None => name end
  else if str_eqb name old then new else name.

Definition keeps (ks : list Z) (kv : Z * Z) : bool := negb (existsb (fun k => k =? fst kv) ks).
Definition used_by {A} (objs : list A) (attrs_of : A -> dict) (kv : Z * Z) : bool :=
  existsb (fun o => dict_has (fst kv) (attrs_of o)) objs.

(* the specified effect of one operation of a history *)
Definition spec_op (o : bulk_op) (m : bmatrix) : bmatrix :=
  match o with
  | OpDeleteZero => on_signals (filter (fun s => negb (bs_size s =? 0))) m
  | OpDeleteObsoleteDefines =>
      set_defines m (filter (used_by (bm_frames m) bf_attrs) (bm_fdefs m))
                    (filter (used_by (bm_ecus m) be_attrs) (bm_edefs m))
                    (filter (used_by (all_signals m) bs_attrs) (bm_sdefs m))
  | OpDelSignal pat => on_signals (filter (fun s => negb (glob_match pat (bs_name s)))) m
  | OpRenameSignal old new => on_signals (map (fun s => set_sname s (spec_rename old new (bs_name s)))) m
  | OpDelFrame n => set_frames m (filter (fun f => negb (str_eqb (bf_name f) n)) (bm_frames m))
  | OpRenameFrame old new => set_frames m (map (fun f => set_fname f (spec_rename old new (bf_name f))) (bm_frames m))
  | OpDelSignalAttributes ks => on_signals (map (fun s => set_sattrs s (filter (keeps ks) (bs_attrs s)))) m
  | OpDelFrameAttributes ks => set_frames m (map (fun f => set_fattrs f (filter (keeps ks) (bf_attrs f))) (bm_frames m))
  end.
Definition op_wellformed (o : bulk_op) : Prop :=
  match o with
  | OpRenameSignal old _ | OpRenameFrame old _ => old <> []
  | _ => True
  end.
(* a history during which the names stay unique (a rename may create a clash; the property does not speak of those) *)
Fixpoint history_ok (ops : list bulk_op) (m : bmatrix) : Prop :=
  match ops with
  | [] => True
  | o :: r => names_unique m /\ op_wellformed o /\ history_ok r (spec_op o m)
  end.

Definition no_star_in_frame_names (m : bmatrix) : Prop :=
  Forall (fun f => ~ In ch_star (bf_name f)) (bm_frames m).
