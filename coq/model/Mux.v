(* Hand model of multiplexed decoding/encoding in src/canmatrix/canmatrix.py:
     Signal.multiplex_setter (~228), Signal.multiplexer_value_in_range (~241), Frame.is_multiplexed (~943),
     Frame.get_multiplexer (~951), Frame._get_sub_multiplexer (~1548), Frame._filter_signals_for_multiplexer (~1561),
     Frame.decode (~1579-1625), Frame.encode (~1372-1406), Frame.multiplex_signals (~1674).
   The payload codec (Frame.unpack, Frame.signals_to_bytes) is model/Codec.v.  Signal names are interned integers.
   Python dicts are insertion-ordered association lists with the assignment semantics of `d[k] = v`.
   PDU containers are outside this model (no pdus).  Definitions only. *)
From CM Require Import lib.Prelude model.Codec.

(* ---------- signals with their multiplex role ---------- *)

Record msignal := mkM {
  m_sig : signal;               (* name, start, size, byte order, sign, float: model/Codec.v *)
  m_is_mux : bool;              (* Signal.is_multiplexer *)
  m_mux_val : option Z;         (* Signal.mux_val (None or int) *)
  m_grp : list (Z * Z);         (* Signal.mux_val_grp: [[min, max], ...] *)
  m_parent : option Z           (* Signal.muxer_for_signal: name of the parent multiplexer or None *)
}.
Definition m_name (s : msignal) : Z := s_name (m_sig s).

Record frame := mkFrame {
  f_size : Z;                   (* Frame.size in bytes *)
  f_complex : bool;             (* Frame.is_complex_multiplexed *)
  f_sigs : list msignal         (* Frame.signals, in order *)
}.

(* Python `a == b` for values that are None or int *)
Definition opt_eqb (a b : option Z) : bool :=
  match a, b with
  | None, None => true
  | Some x, Some y => x =? y
  | _, _ => false
  end.
Definition is_none (a : option Z) : bool := match a with None => true | Some _ => false end.

(* ---------- Python dict ---------- *)

(* d[k] = v : replaces the value in place when the key exists, appends otherwise *)
Fixpoint dict_set (d : list (Z * raw)) (k : Z) (v : raw) : list (Z * raw) :=
  match d with
  | [] => [(k, v)]
  | (k', v') :: r => if k' =? k then (k, v) :: r else (k', v') :: dict_set r k v
  end.
(* successive assignments, as Frame.unpack builds its result from zip(signals, unpacked) *)
Definition dict_of_list (l : list (Z * raw)) : list (Z * raw) :=
  fold_left (fun d kv => dict_set d (fst kv) (snd kv)) l [].

(* ---------- Signal.multiplexer_value_in_range ---------- *)

(* for mux_min, mux_max in self.mux_val_grp: if mux_value >= mux_min and mux_value <= mux_max: return True *)
Fixpoint any_range (g : list (Z * Z)) (v : Z) : bool :=
  match g with
  | [] => false
  | (lo, hi) :: r => if (lo <=? v) && (v <=? hi) then true else any_range r v
  end.

(* mux_value : None or int.  With ranges and a value: the range scan; otherwise `mux_value == self.mux_val`. *)
Definition value_in_range (s : msignal) (mux_value : option Z) : bool :=
  match m_grp s, mux_value with
  | _ :: _, Some v => any_range (m_grp s) v
  | _, _ => opt_eqb mux_value (m_mux_val s)
  end.

(* ---------- frame predicates ---------- *)

Definition is_multiplexed (sigs : list msignal) : bool := existsb m_is_mux sigs.
(* Frame.get_multiplexer: the first multiplexer *)
Definition get_multiplexer (sigs : list msignal) : option msignal := find m_is_mux sigs.

(* Frame._get_sub_multiplexer(parent_name, parent_value): first signal that is a multiplexer, has that parent
   and accepts the value; None when the loop falls through *)
Definition sub_pred (pn pv : option Z) (s : msignal) : bool :=
  m_is_mux s && opt_eqb (m_parent s) pn && value_in_range s pv.
Definition get_sub_multiplexer (sigs : list msignal) (pn pv : option Z) : option msignal :=
  find (sub_pred pn pv) sigs.

(* Frame._filter_signals_for_multiplexer(name, value): non-multiplexers of that parent accepting the value, plus
   the signal whose name is `name` (a str never equals None) *)
Definition filter_pred (pn pv : option Z) (s : msignal) : bool :=
  (value_in_range s pv && opt_eqb (m_parent s) pn && negb (m_is_mux s))
  || opt_eqb (Some (m_name s)) pn.
Definition filter_signals (sigs : list msignal) (pn pv : option Z) : list msignal :=
  filter (filter_pred pn pv) sigs.

(* ---------- Frame.decode ---------- *)

Inductive decode_result :=
| DLengthError                 (* DecodingFrameLength from Frame.unpack *)
| DConvError                   (* the conversion of some signal raises (see Codec.frame_unpack) *)
| DKeyError                    (* decoded[name] missing / muxVal unbound: not reachable, kept as an error *)
| DFloatSelector               (* a multiplexer decoded as float: int == float comparison, outside the model *)
| DOutOfFuel                   (* the while loop did not finish within len(signals) rounds *)
| DOk (vals : list (Z * raw)). (* decoded_values: name -> raw value, in insertion order *)

(* for signal in self.signals: if signal.is_multiplexer: muxVal = decoded[signal.name].raw_value
   (the LAST multiplexer wins); None = KeyError *)
Fixpoint last_mux_value (sigs : list msignal) (decoded : list (Z * raw)) (acc : option raw)
  : option (option raw) :=
  match sigs with
  | [] => Some acc
  | s :: r =>
      if m_is_mux s then
        match lookup (m_name s) decoded with
        | None => None
        | Some v => last_mux_value r decoded (Some v)
        end
      else last_mux_value r decoded acc
  end.

(* signal.mux_val == muxVal or signal.mux_val is None *)
Definition selected (mux_val_sel : option Z) (s : msignal) : bool :=
  opt_eqb (m_mux_val s) mux_val_sel || is_none (m_mux_val s).

(* for signal in <list>: decoded_values[signal.name] = decoded[signal.name] *)
Fixpoint copy_values (sigs : list msignal) (decoded dv : list (Z * raw)) : option (list (Z * raw)) :=
  match sigs with
  | [] => Some dv
  | s :: r =>
      match lookup (m_name s) decoded with
      | None => None
      | Some v => copy_values r decoded (dict_set dv (m_name s) v)
      end
  end.

Definition decode_simple (sigs : list msignal) (decoded : list (Z * raw)) : decode_result :=
  match last_mux_value sigs decoded None with
  | None | Some None => DKeyError
  | Some (Some (RFloat _)) => DFloatSelector
  | Some (Some (RInt v)) =>
      match copy_values (filter (selected (Some v)) sigs) decoded [] with
      | None => DKeyError
      | Some dv => DOk dv
      end
  end.

(* the while loop of the complex branch; state = (sub_multiplexer, decoded_values, filtered_signals) *)
Inductive walk_result :=
| WKeyError | WFloat | WOutOfFuel
| WDone (dv : list (Z * raw)) (filtered : list msignal).

Fixpoint walk (fuel : nat) (sigs : list msignal) (decoded : list (Z * raw)) (sub : option msignal)
         (dv : list (Z * raw)) (filtered : list msignal) : walk_result :=
  match sub with
  | None => WDone dv filtered
  | Some m =>
      match fuel with
      | O => WOutOfFuel
      | S f =>
          match lookup (m_name m) decoded with
          | None => WKeyError
          | Some (RFloat _) => WFloat
          | Some (RInt v) =>
              walk f sigs decoded
                   (get_sub_multiplexer sigs (Some (m_name m)) (Some v))
                   (dict_set dv (m_name m) (RInt v))
                   (filtered ++ filter_signals sigs (Some (m_name m)) (Some v))
          end
      end
  end.

Definition decode_complex (sigs : list msignal) (decoded : list (Z * raw)) : decode_result :=
  match walk (length sigs) sigs decoded (get_sub_multiplexer sigs None None) []
             (filter_signals sigs None None) with
  | WKeyError => DKeyError
  | WFloat => DFloatSelector
  | WOutOfFuel => DOutOfFuel
  | WDone dv filtered =>
      match copy_values filtered decoded dv with
      | None => DKeyError
      | Some dv' => DOk dv'
      end
  end.

Definition frame_decode (f : frame) (d : list Z) : decode_result :=
  match frame_unpack (f_size f) (map m_sig (f_sigs f)) false false d with
  | ULengthError => DLengthError
  | UConvError => DConvError
  | UOk vs =>
      let decoded := dict_of_list vs in
      if f_complex f then decode_complex (f_sigs f) decoded
      else if is_multiplexed (f_sigs f) then decode_simple (f_sigs f) decoded
      else DOk decoded
  end.

(* ---------- Frame.encode ---------- *)

Inductive encode_result :=
| EComplex                     (* raise EncodingComplexMultiplexed *)
| EFloatSelector               (* the supplied selector is a float: outside the model *)
| EOutside                     (* signals_to_bytes leaves the modelled envelope (see Codec.signals_to_bytes) *)
| EOk (bytes : list Z).

Definition name_in (names : list Z) (n : Z) : bool := existsb (Z.eqb n) names.

Definition stb_result (o : option (list Z)) : encode_result :=
  match o with None => EOutside | Some b => EOk b end.

(* `data` is the caller's dict (unique keys, in order); muxVal = data.get(multiplexer name) *)
Definition frame_encode (f : frame) (data : list (Z * raw)) : encode_result :=
  if f_complex f then EComplex
  else
    match get_multiplexer (f_sigs f) with
    | None => stb_result (signals_to_bytes (f_size f) (map m_sig (f_sigs f)) data)
    | Some m =>
        match lookup (m_name m) data with
        | Some (RFloat _) => EFloatSelector
        | sel =>
            let mux_val_sel := match sel with Some (RInt v) => Some v | _ => None end in
            let encode_signals := m_name m :: map m_name (filter (selected mux_val_sel) (f_sigs f)) in
            let new_data := filter (fun kv => name_in encode_signals (fst kv)) data in
            stb_result (signals_to_bytes (f_size f) (map m_sig (f_sigs f)) new_data)
        end
    end.

(* ---------- role bookkeeping: Signal.multiplex_setter, Frame.multiplex_signals ---------- *)

(* the `multiplex` attribute: None, 'Multiplexor', or a number *)
Inductive mplex := MxNone | MxMux | MxVal (v : Z).

(* multiplex_setter(value): (is_multiplexer, mux_val) *)
Definition multiplex_setter (x : mplex) : bool * option Z :=
  match x with
  | MxNone => (false, None)
  | MxMux => (true, None)
  | MxVal v => (false, Some v)
  end.

(* Signal(..., multiplex=x): roles right after construction *)
Definition new_msignal (sg : signal) (x : mplex) : msignal :=
  mkM sg (fst (multiplex_setter x)) (snd (multiplex_setter x)) [] None.

(* Frame.multiplex_signals over (signal, its current `multiplex` attribute); None = a non-multiplexer without
   parent carries multiplex='Multiplexor' (mux_val would become a string): outside the model *)
Fixpoint assign_roles (mux_name : Z) (l : list (msignal * mplex)) : option (list msignal) :=
  match l with
  | [] => Some []
  | (s, x) :: r =>
      match assign_roles mux_name r with
      | None => None
      | Some r' =>
          if m_is_mux s || negb (is_none (m_parent s)) then Some (s :: r')
          else
            match x with
            | MxNone => Some (mkM (m_sig s) (m_is_mux s) None (m_grp s) (m_parent s) :: r')
            | MxVal v => Some (mkM (m_sig s) (m_is_mux s) (Some v) (m_grp s) (Some mux_name) :: r')
            | MxMux => None
            end
      end
  end.
Definition multiplex_signals (l : list (msignal * mplex)) : option (list msignal) :=
  match get_multiplexer (map fst l) with
  | None => Some (map fst l)
  | Some m => assign_roles (m_name m) l
  end.

(* ---------- role re-assignment on a live signal ---------- *)

(* The state the role API acts on: the role fields of the signal and its `multiplex` attribute.
   Signal.multiplex_setter(value) as a state transformer: it first resets mux_val and is_multiplexer, then applies the
   new role; for 'Multiplexor' it also writes self.multiplex.  It never touches mux_val_grp / muxer_for_signal.
   Its return value is `value` itself (None, int(value), 'Multiplexor'). *)
Definition set_role (st : msignal * mplex) (x : mplex) : msignal * mplex :=
  let s := fst st in
  (mkM (m_sig s) (fst (multiplex_setter x)) (snd (multiplex_setter x)) (m_grp s) (m_parent s),
   match x with MxMux => MxMux | _ => snd st end).

(* the two ways callers use it: `s.multiplex_setter(x)` and `s.multiplex = s.multiplex_setter(x)` (as the constructor) *)
Inductive role_op := OpSet (x : mplex) | OpAssign (x : mplex).
Definition op_arg (op : role_op) : mplex := match op with OpSet x => x | OpAssign x => x end.
Definition apply_op (st : msignal * mplex) (op : role_op) : msignal * mplex :=
  match op with
  | OpSet x => set_role st x
  | OpAssign x => (fst (set_role st x), x)
  end.

(* histories on a frame: an operation on the i-th signal, or Frame.multiplex_signals() (which leaves the `multiplex`
   attributes alone); None = multiplex_signals would store a string in mux_val (outside the model) *)
Inductive frame_op := FSig (i : nat) (op : role_op) | FMuxSignals.
Fixpoint update_nth {A} (i : nat) (f : A -> A) (l : list A) : list A :=
  match l, i with
  | [], _ => []
  | x :: r, O => f x :: r
  | x :: r, S j => x :: update_nth j f r
  end.
Definition apply_frame_op (st : option (list (msignal * mplex))) (op : frame_op) : option (list (msignal * mplex)) :=
  match st with
  | None => None
  | Some l =>
      match op with
      | FSig i o => Some (update_nth i (fun s => apply_op s o) l)
      | FMuxSignals =>
          match multiplex_signals l with
          | None => None
          | Some sigs => Some (combine sigs (map snd l))
          end
      end
  end.
Definition run_history (ctor : list (signal * mplex)) (ops : list frame_op) : option (list (msignal * mplex)) :=
  fold_left apply_frame_op ops (Some (map (fun p => (new_msignal (fst p) (snd p), snd p)) ctor)).

(* ---------- specification vocabulary ---------- *)

(* the raw integer a signal carries in payload d (None for float fields) *)
Definition int_value (d : list Z) (s : msignal) : option Z :=
  match convention_value d (m_sig s) with RInt v => Some v | RFloat _ => None end.

(* extended multiplexing: a signal is active in payload d iff it is bound to nothing, or its parent multiplexer
   is active and the parent's value in d lies in one of the signal's ranges (without ranges: equals its mux_val) *)
Inductive Active (sigs : list msignal) (d : list Z) : msignal -> Prop :=
| Active_unbound : forall s,
    In s sigs -> m_parent s = None -> m_mux_val s = None -> Active sigs d s
| Active_child : forall s m v,
    In s sigs -> In m sigs -> m_is_mux m = true -> m_parent s = Some (m_name m) ->
    Active sigs d m -> int_value d m = Some v -> value_in_range s (Some v) = true ->
    Active sigs d s.

(* the multiplexer that comes last in signal order (acc: the last one seen so far) *)
Fixpoint last_multiplexer (sigs : list msignal) (acc : option msignal) : option msignal :=
  match sigs with
  | [] => acc
  | s :: r => last_multiplexer r (if m_is_mux s then Some s else acc)
  end.

Definition unique_names (sigs : list msignal) : Prop := NoDup (map m_name sigs).

(* every signal lies inside the frame; float fields are 32/64 bits wide; multiplexers are integer fields *)
Definition placed (fsize : Z) (sigs : list msignal) : Prop :=
  Forall (fun s => inside (8 * fsize) (m_sig s) = true /\ float_ok (m_sig s) /\
                   (m_is_mux s = true -> s_float (m_sig s) = false)) sigs.

(* extended frames as SG_MUL_VAL_ describes them: unique names; one top-level multiplexer; for every parent and
   every selector value at most one nested multiplexer accepts it *)
Definition wf_ext (sigs : list msignal) : Prop :=
  unique_names sigs /\
  (forall m1 m2, In m1 sigs -> In m2 sigs -> sub_pred None None m1 = true -> sub_pred None None m2 = true -> m1 = m2) /\
  (forall p v m1 m2, In m1 sigs -> In m2 sigs ->
     sub_pred (Some p) (Some v) m1 = true -> sub_pred (Some p) (Some v) m2 = true -> m1 = m2).

(* executable sufficient test for wf_ext (used by the harness on frames loaded from DBC text) *)
Definition accepted (s : msignal) : list (Z * Z) :=
  match m_grp s with
  | _ :: _ => m_grp s
  | [] => match m_mux_val s with Some x => [(x, x)] | None => [] end
  end.
Definition ranges_apart (a b : list (Z * Z)) : bool :=
  forallb (fun r1 => forallb (fun r2 => (snd r1 <? fst r2) || (snd r2 <? fst r1)) b) a.
Fixpoint nodupb (l : list Z) : bool :=
  match l with [] => true | x :: r => negb (existsb (Z.eqb x) r) && nodupb r end.
Fixpoint pairs_ok (P : msignal -> msignal -> bool) (l : list msignal) : bool :=
  match l with [] => true | x :: r => forallb (P x) r && pairs_ok P r end.
Definition wf_extb (sigs : list msignal) : bool :=
  nodupb (map m_name sigs) &&
  pairs_ok (fun a b => negb (sub_pred None None a && sub_pred None None b)) sigs &&
  pairs_ok (fun a b => negb (m_is_mux a && m_is_mux b && opt_eqb (m_parent a) (m_parent b)
                              && negb (is_none (m_parent a)))
                       || ranges_apart (accepted a) (accepted b)) sigs.

(* simply multiplexed frames: two signals may share payload bits only when they are bound to different
   selector values (so groups may overlap each other, but not static signals or the multiplexer) *)
Definition may_coexist (s t : msignal) : Prop :=
  m_mux_val s = None \/ m_mux_val t = None \/ m_mux_val s = m_mux_val t.
Definition mux_layout_ok (fsize : Z) (sigs : list msignal) : Prop :=
  0 <= fsize /\ unique_names sigs /\
  ForallOrdPairs (fun s t => may_coexist s t -> forall p, ~ (occupies (m_sig s) p /\ occupies (m_sig t) p)) sigs /\
  Forall (fun s => inside (8 * fsize) (m_sig s) = true /\ float_ok (m_sig s)) sigs.

(* what Frame.encode takes as selector from the caller's dict: Some None = no value supplied for the multiplexer,
   Some (Some v) = the integer v, None = a float (outside the model) *)
Definition selector (data : list (Z * raw)) (m : msignal) : option (option Z) :=
  match lookup (m_name m) data with
  | None => Some None
  | Some (RInt v) => Some (Some v)
  | Some (RFloat _) => None
  end.
(* the signals Frame.encode keeps for selector sel: the multiplexer m, signals bound to nothing, signals bound to sel *)
Definition in_group (m : msignal) (sel : option Z) (s : msignal) : bool :=
  (m_name s =? m_name m) || selected sel s.

(* exactly one multiplexer m: an integer field bound to nothing *)
Definition sole_multiplexer (sigs : list msignal) (m : msignal) : Prop :=
  In m sigs /\ m_is_mux m = true /\ m_mux_val m = None /\ s_float (m_sig m) = false /\
  forall s, In s sigs -> m_is_mux s = true -> s = m.
