(* Glob.v - names as character-code lists and Python's fnmatch.fnmatchcase for patterns built from
   literal characters, `*` and `?` (no `[`...`]` classes).  Shared by C11 (glob_ecus, glob_frames,
   glob_signals) and C17.  Self-contained: definitions only, no proofs (proofs/Glob_proofs.v).

   Mirrors  fnmatch.fnmatchcase(name, pat)  =  re.compile(translate(pat)).match(name) is not None
   where translate maps `*` -> `.*`, `?` -> `.`, any other character c -> re.escape(c), wrapped as
   `(?s:...)\Z` (DOTALL: `.` matches every character, newline included; whole-string match).
   /repo/src/canmatrix/canmatrix.py: glob_ecus (~2084), glob_frames (~2060), Frame.glob_signals (~1187). *)
From CM Require Import lib.Prelude.

(* a name / a pattern: Unicode code points *)
Definition name := list Z.

Fixpoint name_eqb (a b : name) : bool :=
  match a, b with
  | [], [] => true
  | x :: a', y :: b' => (x =? y) && name_eqb a' b'
  | _, _ => false
  end.

Definition STAR : Z := 42.     (* '*' *)
Definition QMARK : Z := 63.    (* '?' *)
Definition LBRACK : Z := 91.   (* '[' : outside the modelled pattern language *)

(* glob_match pat s  <->  fnmatch.fnmatchcase(s, pat)   (argument order: pattern first) *)
Fixpoint glob_match (p s : list Z) {struct p} : bool :=
  match p with
  | [] => match s with [] => true | _ :: _ => false end
  | c :: p' =>
      if c =? STAR then
        (fix star (s : list Z) : bool :=
           glob_match p' s || match s with [] => false | _ :: s' => star s' end) s
      else
        match s with
        | [] => false
        | d :: s' => ((c =? QMARK) || (c =? d)) && glob_match p' s'
        end
  end.

(* ---- specification vocabulary ---- *)

(* the matching relation, declaratively: `*` stands for any string, `?` for any one character *)
Inductive glob_rel : list Z -> list Z -> Prop :=
| G_nil : glob_rel [] []
| G_star : forall p s1 s2, glob_rel p s2 -> glob_rel (STAR :: p) (s1 ++ s2)
| G_qmark : forall p d s, glob_rel p s -> glob_rel (QMARK :: p) (d :: s)
| G_lit : forall c p s, c <> STAR -> c <> QMARK -> glob_rel p s -> glob_rel (c :: p) (c :: s).

(* a string without glob metacharacters (used as a pattern it matches exactly itself) *)
Definition literal_char (c : Z) : bool := negb (c =? STAR) && negb (c =? QMARK) && negb (c =? LBRACK).
Definition literal (p : list Z) : bool := forallb literal_char p.
(* inside the modelled pattern language *)
Definition no_bracket (p : list Z) : bool := forallb (fun c => negb (c =? LBRACK)) p.

(* ================= character classes  [seq]  [!seq]  (appended; nothing above changes) =================
   fnmatch.translate, the `[` branch: after `[` an optional `!`, then an optional `]` that counts as a member, then
   everything up to the next `]` is the class body; no closing `]` -> the `[` is a literal character.  In the body
   `x-y` (read left to right, the `-` neither first nor last) is the range x..y (empty when x > y), every other
   character - `*`, `?`, `[`, `^`, `\` included - stands for itself.  An empty class matches nothing, its negation
   any one character.  glob_match_cls agrees with glob_match on patterns without `[` (proofs/Glob_proofs.v). *)
Definition RBRACK : Z := 93.   (* ']' *)
Definition BANG : Z := 33.     (* '!' *)
Definition DASH : Z := 45.     (* '-' *)

(* body up to the next `]`, and what follows it *)
Fixpoint cls_split (l : list Z) : option (list Z * list Z) :=
  match l with
  | [] => None
  | c :: r => if c =? RBRACK then Some ([], r)
              else match cls_split r with Some (b, t) => Some (c :: b, t) | None => None end
  end.
(* p = the pattern after `[`  ->  (negated, body, rest of the pattern) *)
Definition cls_parse (p : list Z) : option (bool * list Z * list Z) :=
  let nq := match p with
            | c :: r => if c =? BANG then (true, r) else (false, p)
            | [] => (false, p)
            end in
  match snd nq with
  | [] => None
  | c :: r =>
      if c =? RBRACK
      then match cls_split r with Some (b, t) => Some (fst nq, c :: b, t) | None => None end
      else match cls_split (c :: r) with Some (b, t) => Some (fst nq, b, t) | None => None end
  end.
Fixpoint cls_mem (body : list Z) (d : Z) : bool :=
  match body with
  | [] => false
  | c1 :: r1 =>
      match r1 with
      | dash :: c2 :: r2 =>
          if dash =? DASH then ((c1 <=? d) && (d <=? c2)) || cls_mem r2 d
          else (c1 =? d) || cls_mem r1 d
      | _ => (c1 =? d) || cls_mem r1 d
      end
  end.

Inductive gtoken := GStar | GAny | GLit (c : Z) | GClass (neg : bool) (body : list Z).

Fixpoint gtokenize_f (fuel : nat) (p : list Z) : list gtoken :=
  match fuel with
  | O => []
  | S k =>
      match p with
      | [] => []
      | c :: r =>
          if c =? STAR then GStar :: gtokenize_f k r
          else if c =? QMARK then GAny :: gtokenize_f k r
          else if c =? LBRACK then
            match cls_parse r with
            | Some (neg, body, rest) => GClass neg body :: gtokenize_f k rest
            | None => GLit c :: gtokenize_f k r
            end
          else GLit c :: gtokenize_f k r
      end
  end.
Definition gtokenize (p : list Z) : list gtoken := gtokenize_f (length p) p.

(* does the one-character token accept d *)
Definition gtok_ok (t : gtoken) (d : Z) : bool :=
  match t with
  | GStar => false
  | GAny => true
  | GLit c => c =? d
  | GClass neg body => xorb neg (cls_mem body d)
  end.
Fixpoint gtok_match (ts : list gtoken) (s : list Z) {struct ts} : bool :=
  match ts with
  | [] => match s with [] => true | _ :: _ => false end
  | GStar :: ts' =>
      (fix star (s : list Z) : bool :=
         gtok_match ts' s || match s with [] => false | _ :: s' => star s' end) s
  | t :: ts' =>
      match s with
      | [] => false
      | d :: s' => gtok_ok t d && gtok_match ts' s'
      end
  end.
(* glob_match_cls pat s  <->  fnmatch.fnmatchcase(s, pat), classes included *)
Definition glob_match_cls (p s : list Z) : bool := gtok_match (gtokenize p) s.

Inductive gtok_rel : list gtoken -> list Z -> Prop :=
| GR_nil : gtok_rel [] []
| GR_star : forall ts s1 s2, gtok_rel ts s2 -> gtok_rel (GStar :: ts) (s1 ++ s2)
| GR_one : forall t ts d s, t <> GStar -> gtok_ok t d = true -> gtok_rel ts s -> gtok_rel (t :: ts) (d :: s).
