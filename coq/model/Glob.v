(* Glob.v - names as character-code lists and Python's fnmatch.fnmatchcase for patterns built from
   literal characters, `*` and `?` (no `[`...`]` classes).  Shared by C11 (glob_ecus, glob_frames,
   glob_signals) and C17.  Self-contained: definitions only, no proofs (proofs/Glob_proofs.v).

   Mirrors  fnmatch.fnmatchcase(name, pat)  =  re.compile(translate(pat)).match(name) is not None
   where translate maps `*` -> `.*`, `?` -> `.`, any other character c -> re.escape(c), wrapped as
   `(?s:...)\Z` (DOTALL: `.` matches every character, newline included; whole-string match).
   /repo/src/canmatrix/canmatrix.py: glob_ecus (~2084), glob_frames (~2060), Frame.glob_signals (~1187). *)
From CM Require Import lib.Prelude.

(* a name / a pattern: Unicode code points *)
Definition name := list Z.

Fixpoint name_eqb (a b : name) : bool :=
  match a, b with
  | [], [] => true
  | x :: a', y :: b' => (x =? y) && name_eqb a' b'
  | _, _ => false
  end.

Definition STAR : Z := 42.     (* '*' *)
Definition QMARK : Z := 63.    (* '?' *)
Definition LBRACK : Z := 91.   (* '[' : outside the modelled pattern language *)

(* glob_match pat s  <->  fnmatch.fnmatchcase(s, pat)   (argument order: pattern first) *)
Fixpoint glob_match (p s : list Z) {struct p} : bool :=
  match p with
  | [] => match s with [] => true | _ :: _ => false end
  | c :: p' =>
      if c =? STAR then
        (fix star (s : list Z) : bool :=
           glob_match p' s || match s with [] => false | _ :: s' => star s' end) s
      else
        match s with
        | [] => false
        | d :: s' => ((c =? QMARK) || (c =? d)) && glob_match p' s'
        end
  end.

(* ---- specification vocabulary ---- *)

(* the matching relation, declaratively: `*` stands for any string, `?` for any one character *)
Inductive glob_rel : list Z -> list Z -> Prop :=
| G_nil : glob_rel [] []
| G_star : forall p s1 s2, glob_rel p s2 -> glob_rel (STAR :: p) (s1 ++ s2)
| G_qmark : forall p d s, glob_rel p s -> glob_rel (QMARK :: p) (d :: s)
| G_lit : forall c p s, c <> STAR -> c <> QMARK -> glob_rel p s -> glob_rel (c :: p) (c :: s).

(* a string without glob metacharacters (used as a pattern it matches exactly itself) *)
Definition literal_char (c : Z) : bool := negb (c =? STAR) && negb (c =? QMARK) && negb (c =? LBRACK).
Definition literal (p : list Z) : bool := forallb literal_char p.
(* inside the modelled pattern language *)
Definition no_bracket (p : list Z) : bool := forallb (fun c => negb (c =? LBRACK)) p.
