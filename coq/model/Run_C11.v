(* Executable entry point for property C11 (commands 1101-1199).
   Groups are tagged by their first integer; names are character-code lists; a list of names inside one
   group is length-prefixed ([n1; c..; n2; c..]).
     matrix:  [1; payload; name..]           one ECU
              [2; payload; name..]           a frame; the groups up to the next [2..] / [7] belong to it
              [3; lp names]                  its transmitters
              [4; lp names]                  its receivers
              [5; payload; name..]           a signal of the current frame (after [7]: a free signal)
              [6; lp names]                  the receivers of the signal just given
              [7]                            start of the free signals
     ops:     [10; lp old new] rename by name      [11; i; lp new] rename db.ecus[i]
              [12; payload; name..] del_ecu(Ecu)  [13; pattern..] del_ecu(str)
              [14] update_ecu_list                 [15] delete_obsolete_ecus
              [16; lp gf gs ecu] add_signal_receiver   [17; lp gf gs ecu] del_signal_receiver
   1101: matrix groups, op groups -> for every op, in order: [99] followed by the matrix after that op
         (step_cls: patterns are read with character classes; equal to step on patterns without `[`)
   1102: [pattern] | [name] -> [[glob_match]]          1103: [name] -> [strip name]
   1104: [pattern] | [name] -> [[glob_match_cls]]  (fnmatch with character classes) *)
From CM Require Import lib.Prelude model.RunBase model.Glob model.EcuOps.

Fixpoint lp_names (fuel : nat) (g : list Z) : list name :=
  match fuel with
  | O => []
  | S k => match g with
           | [] => []
           | n :: r => firstn (Z.to_nat n) r :: lp_names k (skipn (Z.to_nat n) r)
           end
  end.
Definition lp (g : list Z) : list name := lp_names (length g) g.
Definition lp_out (l : list name) : list Z := flat_map (fun n => Z.of_nat (length n) :: n) l.
Definition nth_name (l : list name) (i : nat) : name := nth i l [].

Record pstate := mkP {
  p_ecus : list ecu; p_frames : list frame; p_free : list signal; p_ops : list op;
  p_sigs : list signal; p_tx : list name; p_rx : list name; p_srecv : list name }.

(* groups are consumed from the last to the first, so every object finds its parts already collected *)
Definition parse_group (g : list Z) (st : pstate) : pstate :=
  match g with
  | 1 :: pay :: n => mkP (mkEcu n pay :: p_ecus st) (p_frames st) (p_free st) (p_ops st) (p_sigs st) (p_tx st) (p_rx st) (p_srecv st)
  | 2 :: pay :: n => mkP (p_ecus st) (mkFrame n (p_tx st) (p_rx st) (p_sigs st) pay :: p_frames st) (p_free st) (p_ops st) [] [] [] []
  | 3 :: r => mkP (p_ecus st) (p_frames st) (p_free st) (p_ops st) (p_sigs st) (lp r) (p_rx st) (p_srecv st)
  | 4 :: r => mkP (p_ecus st) (p_frames st) (p_free st) (p_ops st) (p_sigs st) (p_tx st) (lp r) (p_srecv st)
  | 5 :: pay :: n => mkP (p_ecus st) (p_frames st) (p_free st) (p_ops st) (mkSig n (p_srecv st) pay :: p_sigs st) (p_tx st) (p_rx st) []
  | 6 :: r => mkP (p_ecus st) (p_frames st) (p_free st) (p_ops st) (p_sigs st) (p_tx st) (p_rx st) (lp r)
  | [7] => mkP (p_ecus st) (p_frames st) (p_sigs st) (p_ops st) [] [] [] []
  | 10 :: r => let l := lp r in
      mkP (p_ecus st) (p_frames st) (p_free st) (RenameName (nth_name l 0) (nth_name l 1) :: p_ops st) (p_sigs st) (p_tx st) (p_rx st) (p_srecv st)
  | 11 :: i :: r => let l := lp r in
      mkP (p_ecus st) (p_frames st) (p_free st) (RenameInst (Z.to_nat i) (nth_name l 0) :: p_ops st) (p_sigs st) (p_tx st) (p_rx st) (p_srecv st)
  | 12 :: pay :: n =>
      mkP (p_ecus st) (p_frames st) (p_free st) (DelInst (mkEcu n pay) :: p_ops st) (p_sigs st) (p_tx st) (p_rx st) (p_srecv st)
  | 13 :: pat =>
      mkP (p_ecus st) (p_frames st) (p_free st) (DelGlob pat :: p_ops st) (p_sigs st) (p_tx st) (p_rx st) (p_srecv st)
  | [14] => mkP (p_ecus st) (p_frames st) (p_free st) (UpdateEcuList :: p_ops st) (p_sigs st) (p_tx st) (p_rx st) (p_srecv st)
  | [15] => mkP (p_ecus st) (p_frames st) (p_free st) (DeleteObsolete :: p_ops st) (p_sigs st) (p_tx st) (p_rx st) (p_srecv st)
  | 16 :: r => let l := lp r in
      mkP (p_ecus st) (p_frames st) (p_free st) (AddSigRecv (nth_name l 0) (nth_name l 1) (nth_name l 2) :: p_ops st) (p_sigs st) (p_tx st) (p_rx st) (p_srecv st)
  | 17 :: r => let l := lp r in
      mkP (p_ecus st) (p_frames st) (p_free st) (DelSigRecv (nth_name l 0) (nth_name l 1) (nth_name l 2) :: p_ops st) (p_sigs st) (p_tx st) (p_rx st) (p_srecv st)
  | _ => st
  end.
Definition parse (a : io) : matrix * list op :=
  let st := fold_right parse_group (mkP [] [] [] [] [] [] [] []) a in
  (mkMatrix (p_ecus st) (p_frames st) (p_free st), p_ops st).

Definition sig_out (s : signal) : io := [5 :: spay s :: sname s; 6 :: lp_out (sreceivers s)].
Definition frame_out (f : frame) : io :=
  [2 :: fpay f :: fname f; 3 :: lp_out (transmitters f); 4 :: lp_out (receivers f)] ++ flat_map sig_out (signals f).
Definition matrix_out (m : matrix) : io :=
  map (fun e => 1 :: epay e :: ename e) (ecus m) ++ flat_map frame_out (frames m) ++ [[7]] ++ flat_map sig_out (free m).

Fixpoint trace (m : matrix) (ops : list op) : io :=
  match ops with
  | [] => []
  | o :: r => let m' := step_cls m o in [[99]] ++ matrix_out m' ++ trace m' r
  end.

Definition run_1101 (a : io) : io := let (m, ops) := parse a in trace m ops.
Definition run_1102 (p s : list Z) : io := [[bz (glob_match p s)]].
Definition run_1103 (n : list Z) : io := [strip n].

Definition run_c11 (cmd : Z) (a : io) : io :=
  match cmd, a with
  | 1101, _ => run_1101 a
  | 1102, [p; s] => run_1102 p s
  | 1103, [n] => run_1103 n
  | 1104, [p; s] => [[bz (glob_match_cls p s)]]
  | _, _ => [[-999]]
  end.
