(* C15  Reader decode layer (partial by design - see props/C15.v): executable models of
     - decimal.Decimal(text) for finite decimal literals and utils.decode_number        (src/canmatrix/utils.py ~116, with the
       exponent fix of fixes/C15_decode_number_exponent.patch)
     - attribute records as association lists with documented defaults (kcd.py parse_signal ~252)
     - arxml.py decode_compu_method (~1014): text-table scales and rational coefficients (n0 + n1*x)/d0
     - arxml.py eval_type_of_signal (~1075)
     - a DBC-like statement fold (dbc.py load: CM_/BA_/VAL_ statements address one object each)
   Strings are lists of character codes (Z).  Python exceptions become None / an error constructor. *)
From CM Require Import lib.Prelude.

(* ---------------------------------------------------------------------------------------------------- *)
(* characters *)
Definition c_plus := 43.  Definition c_minus := 45.  Definition c_dot := 46.
Definition c_0 := 48.     Definition c_E := 69.      Definition c_e := 101.
Definition c_b := 98.     Definition c_x := 120.

Definition is_digit (c : Z) : bool := (48 <=? c) && (c <=? 57).
Definition is_space (c : Z) : bool := (c =? 32) || ((9 <=? c) && (c <=? 13)).
Definition lower_c (c : Z) : Z := if (65 <=? c) && (c <=? 90) then c + 32 else c.
Definition lower (s : list Z) : list Z := map lower_c s.

Fixpoint drop_ws (s : list Z) : list Z :=
  match s with
  | c :: r => if is_space c then drop_ws r else s
  | [] => []
  end.
Definition strip (s : list Z) : list Z := rev (drop_ws (rev (drop_ws s))).

(* leading decimal digits (as digit VALUES) and the rest *)
Fixpoint take_digits (s : list Z) : list Z * list Z :=
  match s with
  | c :: r => if is_digit c then (let (ds, r') := take_digits r in ((c - 48) :: ds, r')) else ([], s)
  | [] => ([], [])
  end.
Fixpoint digits_val (acc : Z) (ds : list Z) : Z :=
  match ds with
  | [] => acc
  | d :: r => digits_val (10 * acc + d) r
  end.
Definition parse_sign (s : list Z) : bool * list Z :=
  match s with
  | c :: r => if c =? c_plus then (false, r) else if c =? c_minus then (true, r) else (false, s)
  | [] => (false, [])
  end.

(* Decimal(text) for a finite literal:  sign? (digits ('.' digits?)? | '.' digits) ([eE] sign? digits)?
   result (negative, coefficient >= 0, exponent): value = +-coefficient * 10^exponent, as Decimal.as_tuple() reports it
   (leading zeros of the coefficient do not count).  None = InvalidOperation. *)
Definition dec := (bool * Z * Z)%type.
Definition parse_dec (s : list Z) : option dec :=
  let (neg, s1) := parse_sign s in
  let (ip, s2) := take_digits s1 in
  let (fp, s3) := match s2 with
                  | c :: r => if c =? c_dot then take_digits r else ([], s2)
                  | [] => ([], s2)
                  end in
  match ip ++ fp with
  | [] => None
  | _ =>
    let m := digits_val 0 (ip ++ fp) in
    let fl := Z.of_nat (length fp) in
    match s3 with
    | [] => Some (neg, m, - fl)
    | c :: r =>
      if (c =? c_E) || (c =? c_e) then
        let (eneg, r1) := parse_sign r in
        let (ed, r2) := take_digits r1 in
        match ed, r2 with
        | _ :: _, [] => let e := digits_val 0 ed in Some (neg, m, (if eneg then - e else e) - fl)
        | _, _ => None
        end
      else None
    end
  end.

Definition dec_signed (d : dec) : Z := let '(neg, m, _) := d in if neg then - m else m.
Definition dec_exp (d : dec) : Z := let '(_, _, e) := d in e.
(* equality of the VALUES m*10^e, by cross-multiplication in Z *)
Definition dec_value_eq (a b : dec) : Prop :=
  let e := Z.min (dec_exp a) (dec_exp b) in
  dec_signed a * 10 ^ (dec_exp a - e) = dec_signed b * 10 ^ (dec_exp b - e).
Definition dec_value_eqb (a b : dec) : bool :=
  let e := Z.min (dec_exp a) (dec_exp b) in
  dec_signed a * 10 ^ (dec_exp a - e) =? dec_signed b * 10 ^ (dec_exp b - e).

(* ---- renderings of one number, as abstract syntax, and their printing ---- *)
Inductive sign_form := SNone | SPlus | SMinus.
Inductive exp_form := ENone | EExp (upper : bool) (es : sign_form) (ed : list Z).   (* ed: digits of the magnitude, leading zeros allowed *)
Record rend := mkRend { r_sign : sign_form; r_ip : list Z; r_dot : bool; r_fp : list Z; r_exp : exp_form }.
(* digits are digit values 0..9; r_dot = false requires r_fp = [] *)

Definition digit_ok (d : Z) : Prop := 0 <= d <= 9.
Definition rend_ok (r : rend) : Prop :=
  Forall digit_ok (r_ip r) /\ Forall digit_ok (r_fp r) /\ (r_dot r = false -> r_fp r = []) /\ r_ip r ++ r_fp r <> [] /\
  match r_exp r with ENone => True | EExp _ _ ed => Forall digit_ok ed /\ ed <> [] end.

Definition print_sign (s : sign_form) : list Z := match s with SNone => [] | SPlus => [c_plus] | SMinus => [c_minus] end.
Definition print_digits (ds : list Z) : list Z := map (fun d => d + 48) ds.
Definition print_exp (x : exp_form) : list Z :=
  match x with
  | ENone => []
  | EExp up es ed => (if up then c_E else c_e) :: print_sign es ++ print_digits ed
  end.
Definition print (r : rend) : list Z :=
  print_sign (r_sign r) ++ print_digits (r_ip r) ++ (if r_dot r then [c_dot] else []) ++ print_digits (r_fp r) ++ print_exp (r_exp r).

(* the value a rendering denotes: (negative, coefficient, exponent) *)
Definition is_minus (s : sign_form) : bool := match s with SMinus => true | _ => false end.
Definition rend_dec (r : rend) : dec :=
  (is_minus (r_sign r), digits_val 0 (r_ip r ++ r_fp r),
   match r_exp r with
   | ENone => 0
   | EExp _ es ed => if is_minus es then - digits_val 0 ed else digits_val 0 ed
   end - Z.of_nat (length (r_fp r))).

(* The renderings the formats permit for one value.  Each rule changes the spelling, not the value; both sides are
   well-formed renderings (rend_ok). *)
Inductive respell : rend -> rend -> Prop :=
| rs_plus : forall ip dot fp x,                     (* leading + on a non-negative number *)
    respell (mkRend SNone ip dot fp x) (mkRend SPlus ip dot fp x)
| rs_lead_zero : forall s ip dot fp x,              (* 5 ~ 05 *)
    respell (mkRend s ip dot fp x) (mkRend s (0 :: ip) dot fp x)
| rs_dot : forall s ip x,                           (* 5 ~ 5.   (no fraction digits) *)
    respell (mkRend s ip false [] x) (mkRend s ip true [] x)
| rs_trail_zero : forall s ip fp x,                 (* 0.5 ~ 0.50 ; 5. ~ 5.0 *)
    respell (mkRend s ip true fp x) (mkRend s ip true (fp ++ [0]) x)
| rs_exp_zero : forall s ip dot fp up es ed,        (* 5 ~ 5E0 ~ 5e+00 ~ 5E-0 *)
    digits_val 0 ed = 0 ->
    respell (mkRend s ip dot fp ENone) (mkRend s ip dot fp (EExp up es ed))
| rs_exp_case : forall s ip dot fp up up' es ed ed',   (* E ~ e, leading zeros of the exponent: E5 ~ e05 *)
    digits_val 0 ed = digits_val 0 ed' ->
    respell (mkRend s ip dot fp (EExp up es ed)) (mkRend s ip dot fp (EExp up' es ed'))
| rs_exp_plus : forall s ip dot fp up ed,           (* E5 ~ E+5 *)
    respell (mkRend s ip dot fp (EExp up SNone ed)) (mkRend s ip dot fp (EExp up SPlus ed))
| rs_shift_pos : forall s ip d fp up es ed ed',     (* move the point one place to the left, exponent >= 0:  12.5E1 ~ 1.25E2 *)
    is_minus es = false -> digits_val 0 ed' = digits_val 0 ed + 1 ->
    respell (mkRend s (ip ++ [d]) true fp (EExp up es ed)) (mkRend s ip true (d :: fp) (EExp up es ed'))
| rs_shift_neg : forall s ip d fp up ed ed',        (* ... exponent < 0:  12.5E-2 ~ 1.25E-1 *)
    digits_val 0 ed = digits_val 0 ed' + 1 ->
    respell (mkRend s (ip ++ [d]) true fp (EExp up SMinus ed)) (mkRend s ip true (d :: fp) (EExp up SMinus ed'))
| rs_shift_sign : forall s ip dot fp up ed,         (* E-0 ~ E+0 *)
    digits_val 0 ed = 0 ->
    respell (mkRend s ip dot fp (EExp up SMinus ed)) (mkRend s ip dot fp (EExp up SPlus ed)).

Inductive same_number : rend -> rend -> Prop :=
| sn_refl : forall r, rend_ok r -> same_number r r
| sn_step : forall a b, rend_ok a -> rend_ok b -> respell a b -> same_number a b
| sn_sym : forall a b, same_number a b -> same_number b a
| sn_trans : forall a b c, same_number a b -> same_number b c -> same_number a c.

(* ---- utils.decode_number ---- *)
Inductive num := NInt (v : Z) | NDec (d : dec) | NInf (neg : bool).

Definition hex_val (c : Z) : option Z :=
  if is_digit c then Some (c - 48)
  else if (97 <=? c) && (c <=? 102) then Some (c - 87)
  else if (65 <=? c) && (c <=? 70) then Some (c - 55)
  else None.
Definition digit_in_base (base c : Z) : option Z :=
  match hex_val c with
  | Some v => if v <? base then Some v else None
  | None => None
  end.
Fixpoint int_digits (base : Z) (acc : Z) (s : list Z) : option Z :=
  match s with
  | [] => Some acc
  | c :: r => match digit_in_base base c with
              | Some v => int_digits base (base * acc + v) r
              | None => None
              end
  end.
(* int(text, base) on stripped text: sign? (0x|0X for base 16, 0b|0B for base 2)? digit+ ; None = ValueError
   (underscores between digits, which int() also accepts, are not modelled) *)
Definition drop_radix (base : Z) (s : list Z) : list Z :=
  match s with
  | a :: b :: r => if (a =? 48) && (((base =? 16) && (lower_c b =? c_x)) || ((base =? 2) && (lower_c b =? c_b))) then r else s
  | _ => s
  end.
Definition py_int (base : Z) (s : list Z) : option Z :=
  let (neg, r0) := parse_sign s in
  let r := drop_radix base r0 in
  match r with
  | [] => None
  | _ => match int_digits base 0 r with
         | Some v => Some (if neg then - v else v)
         | None => None
         end
  end.

Definition mem_c (c : Z) (s : list Z) : bool := existsb (Z.eqb c) s.
Fixpoint leqb_c (a b : list Z) : bool :=
  match a, b with
  | [], [] => true
  | x :: a', y :: b' => (x =? y) && leqb_c a' b'
  | _, _ => false
  end.
Definition s_inf := [105; 110; 102].
Definition second (s : list Z) : option Z := match s with _ :: c :: _ => Some c | _ => None end.
Definition oeqb (o : option Z) (c : Z) : bool := match o with Some v => v =? c | None => false end.
(* str.lstrip('+-') *)
Fixpoint drop_signs (s : list Z) : list Z :=
  match s with
  | c :: r => if (c =? c_plus) || (c =? c_minus) then drop_signs r else s
  | [] => []
  end.
Definition has_radix_prefix (s : list Z) : bool :=
  match drop_signs (lower s) with
  | a :: b :: _ => (a =? 48) && ((b =? c_x) || (b =? c_b))
  | _ => false
  end.

Definition decode_number (text : list Z) : option num :=
  let v := strip text in
  let lv := lower v in
  if leqb_c lv s_inf || leqb_c lv (c_plus :: s_inf) then Some (NInf false)
  else if leqb_c lv (c_minus :: s_inf) then Some (NInf true)
  else if mem_c c_dot v then option_map NDec (parse_dec v)
  else if mem_c c_e lv && negb (has_radix_prefix v) then option_map NDec (parse_dec v)
  else
    let '(base, v1) := if oeqb (second v) c_b then (2, skipn 2 v) else (10, v) in
    let '(base, v2) := if oeqb (second v1) c_x then (16, skipn 2 v1) else (base, v1) in
    option_map NInt (py_int base v2).

(* ---------------------------------------------------------------------------------------------------- *)
(* association lists: XML attributes of one element, keys interned as Z *)
Fixpoint lookup {V : Type} (k : Z) (l : list (Z * V)) : option V :=
  match l with
  | [] => None
  | (k', v) :: r => if k =? k' then Some v else lookup k r
  end.
Definition get_default {V : Type} (d : V) (o : option V) : V := match o with Some v => v | None => d end.

(* KCD Signal element (kcd.py parse_signal): attributes of <Signal> and of its optional <Value> child.
   Attribute values are already-decoded numbers; endianess: 1 = "big", anything else little; type: 0 unsigned, 1 signed, 2 single, 3 double *)
Definition A_offset := 1.   Definition A_length := 2.   Definition A_endianess := 3.
Definition V_type := 11.    Definition V_slope := 12.   Definition V_intercept := 13.  Definition V_unit := 14.
Definition V_min := 15.     Definition V_max := 16.
Definition BIG := 1.
Definition T_unsigned := 0. Definition T_signed := 1.   Definition T_single := 2.     Definition T_double := 3.

Record ksig := mkKsig { k_start : Z; k_size : Z; k_little : bool; k_signed : bool; k_float : bool;
                        k_factor : dec; k_offset : dec; k_unit : Z; k_min : option dec; k_max : option dec }.
Definition dec_one : dec := (false, 1, 0).
Definition dec_zero : dec := (false, 0, 0).
Definition no_unit := 0.

(* sattrs: integer-valued attributes of <Signal>; vnum: decimal-valued attributes of <Value>; vint: its integer-coded ones (type, unit id).
   value = None: no <Value> child. *)
Definition kcd_signal (sattrs : list (Z * Z)) (value : option (list (Z * Z) * list (Z * dec))) : ksig :=
  let start := get_default 0 (lookup A_offset sattrs) in
  let size := get_default 1 (lookup A_length sattrs) in
  let little := match lookup A_endianess sattrs with Some v => negb (v =? BIG) | None => true end in
  let '(vint, vnum) := match value with Some p => p | None => ([], []) end in
  let ty := lookup V_type vint in
  let is_float := match ty with Some t => (t =? T_single) || (t =? T_double) | None => false end in
  let is_signed := match ty with Some t => negb ((t =? T_single) || (t =? T_double)) && negb (t =? T_unsigned) | None => false end in
  mkKsig start size little is_signed is_float
         (get_default dec_one (lookup V_slope vnum)) (get_default dec_zero (lookup V_intercept vnum))
         (get_default no_unit (lookup V_unit vint)) (lookup V_min vnum) (lookup V_max vnum).

(* ---------------------------------------------------------------------------------------------------- *)
(* ARXML COMPU-METHOD (arxml.py decode_compu_method).  One COMPU-SCALE: texts of LOWER-/UPPER-LIMIT, the label found
   (SHORT-LABEL | DESC | VT; Some 0 is the empty string, None is Python's None), rational coefficients (texts of the V elements), COMPU-CONST present *)
Record scale := mkScale { sc_ll : option (list Z); sc_ul : option (list Z); sc_desc : option Z;
                          sc_rat : option (list (list Z) * list (list Z)); sc_const : bool }.
(* exact rational p/q as a pair of decimals numerator/denominator: value = num/den *)
Definition ratio := (dec * dec)%type.
Definition ratio_one : ratio := (dec_one, dec_one).
Definition ratio_zero : ratio := (dec_zero, dec_one).
(* equality of two ratios a/b = c/d  <=>  a*d = c*b, on decimal values: compare a*d and c*b *)
Definition dec_mul (a b : dec) : dec :=
  let '(na, ma, ea) := a in let '(nb, mb, eb) := b in (xorb na nb, ma * mb, ea + eb).
Definition ratio_eq (r s : ratio) : Prop := dec_value_eq (dec_mul (fst r) (snd s)) (dec_mul (fst s) (snd r)).
Definition ratio_eqb (r s : ratio) : bool := dec_value_eqb (dec_mul (fst r) (snd s)) (dec_mul (fst s) (snd r)).

Definition num_eqb (a b : num) : bool :=
  match a, b with
  | NInt x, NInt y => x =? y
  | NInt x, NDec d => dec_value_eqb (x <? 0, Z.abs x, 0) d
  | NDec d, NInt x => dec_value_eqb d (x <? 0, Z.abs x, 0)
  | NDec d, NDec d' => dec_value_eqb d d'
  | NInf s, NInf s' => Bool.eqb s s'
  | _, _ => false
  end.

Record compu := mkCompu { cm_values : list (list Z * Z); cm_factor : ratio; cm_offset : ratio; cm_const : bool }.
Inductive compu_result := COk (c : compu) | CErr.

(* dict assignment values[key] = v : overwrite in place, else append *)
Fixpoint dict_set (key : list Z) (v : Z) (l : list (list Z * Z)) : list (list Z * Z) :=
  match l with
  | [] => [(key, v)]
  | (k, w) :: r => if leqb_c k key then (k, v) :: r else (k, w) :: dict_set key v r
  end.
Definition dec_is_zero (d : dec) : bool := let '(_, m, _) := d in m =? 0.

Definition step_scale (acc : compu_result) (s : scale) : compu_result :=
  match acc with
  | CErr => CErr
  | COk c =>
    match sc_rat s with
    | None =>
      (* text table entry: needs lower limit, label, and equal limits; a missing UPPER-LIMIT raises AttributeError *)
      match sc_ll s, sc_desc s with
      | Some ll, Some d =>
        match sc_ul s with
        | None => CErr
        | Some ul =>
          match decode_number ul, decode_number ll with
          | Some a, Some b => if num_eqb a b then COk (mkCompu (dict_set ll d (cm_values c)) (cm_factor c) (cm_offset c) (sc_const s))
                              else COk (mkCompu (cm_values c) (cm_factor c) (cm_offset c) (sc_const s))
          | _, _ => CErr
          end
        end
      | _, _ => COk (mkCompu (cm_values c) (cm_factor c) (cm_offset c) (sc_const s))
      end
    | Some (nums, dens) =>
      match nums, dens with
      | n0 :: n1 :: _, d0 :: _ =>
        match parse_dec (strip n1), parse_dec (strip d0) with
        | Some v1, Some vd =>
          if dec_is_zero vd then
            (* Decimal division: 0/0 raises InvalidOperation (not caught), x/0 raises DivisionByZero (caught: factor 1, offset 0) *)
            if dec_is_zero v1 then CErr
            else
              (* the handler compares numerator[0].text with denominator[0].text and, if they are equal, touches denominator[1] *)
              if leqb_c n0 d0 then
                match dens with
                | _ :: _ :: _ => COk (mkCompu (cm_values c) ratio_one ratio_zero (cm_const c))
                | _ => CErr
                end
              else COk (mkCompu (cm_values c) ratio_one ratio_zero (cm_const c))
          else
            match parse_dec (strip n0) with
            | Some v0 => COk (mkCompu (cm_values c) (v1, vd) (v0, vd) (cm_const c))
            | None => CErr
            end
        | _, _ => CErr
        end
      | _, _ => CErr      (* IndexError: fewer than two numerator values or no denominator value *)
      end
    end
  end.
Definition decode_compu_method (scales : list scale) : compu_result :=
  fold_left step_scale scales (COk (mkCompu [] ratio_one ratio_zero false)).

(* ---------------------------------------------------------------------------------------------------- *)
(* arxml.py eval_type_of_signal: encoding text interned; base type: None | Some (first character of its SHORT-NAME is 'u') *)
Inductive encoding := EncNONE | Enc2C | EncIEEE754 | EncSINGLE | EncDOUBLE | EncBOOLEAN | EncOther.
Definition eval_type_of_signal (enc : encoding) (base_type : option bool) : bool * bool :=   (* (is_signed, is_float) *)
  match enc with
  | EncNONE => (false, false)
  | Enc2C => (true, false)
  | EncIEEE754 | EncSINGLE | EncDOUBLE => (true, true)
  | EncBOOLEAN => (false, false)
  | EncOther => match base_type with
                | Some starts_with_u => (negb starts_with_u, false)
                | None => (false, false)
                end
  end.

(* ---------------------------------------------------------------------------------------------------- *)
(* a DBC-like statement fold: every CM_/BA_/VAL_ statement addresses one slot of one object.
   slot key = (object id, slot id); the matrix is the association from keys to values, later statements overwrite. *)
Definition skey := (Z * Z)%type.
Record stmt := mkStmt { st_obj : Z; st_slot : Z; st_val : Z }.
Definition st_key (s : stmt) : skey := (st_obj s, st_slot s).
Definition skey_eqb (a b : skey) : bool := (fst a =? fst b) && (snd a =? snd b).
Definition state := list (skey * Z).
Fixpoint slookup (k : skey) (m : state) : option Z :=
  match m with
  | [] => None
  | (k', v) :: r => if skey_eqb k k' then Some v else slookup k r
  end.
Definition apply_stmt (m : state) (s : stmt) : state := (st_key s, st_val s) :: m.
Definition read_section (stmts : list stmt) (m : state) : state := fold_left apply_stmt stmts m.
