(* Hand model of the physical scaling of an integer Signal (src/canmatrix/canmatrix.py):
   attrs converters of factor/offset (~162-170), calculate_raw_range (~368), set_min/calc_min (~389-405),
   set_max/calc_max (~407-424), phys2raw (~426-461), raw2phys (~463-482), DecodedSignal.phys_value/named_value (~540-566).
   float_factory = decimal.Decimal.  Outside the model: is_float signals, str inputs that are not labels,
   phys2raw(None) (initial value), factors whose float() underflows to 0.0 (|factor| < 5e-324).  Definitions only. *)
From CM Require Import lib.Prelude model.Decimal model.ValueTable.

(* factor converter: float_factory(value) if float(value) != 0 else float_factory(1.0) *)
Definition mk_factor (f : dec) : dec := if dm f =? 0 then mkDec 1 0 else f.

(* the scaling part of a Signal; sc_factor is what the converter stored *)
Record scaling := mkScaling { sc_size : Z; sc_signed : bool; sc_factor : dec; sc_offset : dec; sc_values : vtable }.
Definition mk_signal (size : Z) (signed : bool) (factor offset : dec) (items : list (Z * Z)) : scaling :=
  mkScaling size signed (mk_factor factor) offset (normalize_value_table items).

(* calculate_raw_range for a non-float signal: 2 ** (size_to_calc - signed) is a Python float for a negative
   exponent (size 0 and signed, negative sizes) and int() truncates -0.5 resp. 0.5 - 1 to 0 *)
Definition calculate_raw_range (size : Z) (signed : bool) : Z * Z :=
  let size_to_calc := if size <=? 128 then size else 128 in
  let e := size_to_calc - (if signed then 1 else 0) in
  if e <? 0 then (0, 0)
  else let raw_range := 2 ^ e in ((if signed then - raw_range else 0), raw_range - 1).

(* raw2phys without decode_to_str: value * self.factor + self.offset  (int * Decimal converts the int exactly) *)
Definition raw2phys (f o : dec) (raw : Z) : dec := dadd (dmul (of_Z raw) f) o.

(* phys2raw for a Decimal argument: int(round((value - offset) / factor)); None = division by zero *)
Definition phys2raw (f o v : dec) : option Z :=
  match ddiv (dsub v o) f with
  | Some q => Some (dround_int q)
  | None => None
  end.

(* calc_min / calc_max: self.offset + (float_factory(rawMin) * self.factor) - note the operand order *)
Definition calc_min (s : scaling) : dec :=
  dadd (sc_offset s) (dmul (of_Z (fst (calculate_raw_range (sc_size s) (sc_signed s)))) (sc_factor s)).
Definition calc_max (s : scaling) : dec :=
  dadd (sc_offset s) (dmul (of_Z (snd (calculate_raw_range (sc_size s) (sc_signed s)))) (sc_factor s)).

(* what decoding shows: a label or a number *)
Inductive shown := Label (l : Z) | Number (d : dec).

(* DecodedSignal.phys_value = signal.raw2phys(raw) *)
Definition phys_value (s : scaling) (raw : Z) : dec := raw2phys (sc_factor s) (sc_offset s) raw.
(* DecodedSignal.named_value = signal.raw2phys(raw, decode_to_str=True) *)
Definition named_value (s : scaling) (raw : Z) : shown :=
  match raw_to_label (sc_values s) raw with
  | Some l => Label l
  | None => Number (phys_value s raw)
  end.

(* phys2raw's label scan for a str argument: the key; None = not a label of the table *)
Definition phys2raw_label (s : scaling) (label : Z) : option Z := label_to_raw (sc_values s) label.
(* phys2raw for a Decimal argument on a signal *)
Definition phys2raw_num (s : scaling) (v : dec) : option Z := phys2raw (sc_factor s) (sc_offset s) v.

(* The argument of phys2raw as a whole.  A Python str is its interned text together with what decimal.Decimal(text)
   makes of it (None = InvalidOperation: the text is not a number; Decimal(str) itself is trusted, and texts that parse to
   NaN/Infinity are outside the model unless they are labels).  The code (~439-448) scans the value table FIRST for a str
   argument and a non-empty table, and only then parses: a text that is a label converts to its key even when it reads
   as a number ("1", "2.5e1", " 7 ").  None = the call raises. *)
Inductive parg := PStr (text : Z) (parsed : option dec) | PNum (d : dec).
Definition phys2raw_arg (s : scaling) (a : parg) : option Z :=
  match a with
  | PNum v => phys2raw_num s v
  | PStr text parsed =>
      match (match sc_values s with [] => None | _ :: _ => phys2raw_label s text end) with
      | Some k => Some k
      | None => match parsed with Some v => phys2raw_num s v | None => None end
      end
  end.
