(* Hand model of ArbitrationId (src/canmatrix/canmatrix.py ~630-785) and of the identifier based frame
   selection CanMatrix.frame_by_pgn (~2022) / CanMatrix.decode (~2416).  Definitions only.
   Python ints are unbounded: Z, with `&`, `|`, `<<`, `>>` = Z.land, Z.lor, Z.shiftl, Z.shiftr
   (two's complement on negatives in both worlds). *)
From CM Require Import lib.Prelude.

Definition standard_id_mask : Z := 2 ^ 11 - 1.
Definition extended_id_mask : Z := 2 ^ 29 - 1.
Definition compound_extended_mask : Z := 2 ^ 31.

(* an ArbitrationId object: (id, extended) *)
Definition arbid := (Z * bool)%type.

(* __attrs_post_init__: None = ArbitrationIdOutOfRange *)
Definition mk_arbid (id : Z) (ext : bool) : option arbid :=
  let mask := if ext then extended_id_mask else standard_id_mask in
  if id =? Z.land id mask then Some (id, ext) else None.

(* getters: None = J1939NeedsExtendedIdentifier *)
Definition guard_ext {A} (a : arbid) (v : A) : option A := if snd a then Some v else None.
Definition j1939_source (a : arbid) := guard_ext a (Z.land (fst a) 255).
Definition j1939_ps (a : arbid) := guard_ext a (Z.land (Z.shiftr (fst a) 8) 255).
Definition j1939_pf (a : arbid) := guard_ext a (Z.land (Z.shiftr (fst a) 16) 255).
Definition j1939_dp (a : arbid) := guard_ext a (Z.land (Z.shiftr (fst a) 24) 1).
Definition j1939_edp (a : arbid) := guard_ext a (Z.land (Z.shiftr (fst a) 25) 1).
Definition j1939_priority (a : arbid) := guard_ext a (Z.land (Z.shiftr (fst a) 26) 7).

Definition j1939_pdu_format (a : arbid) : option Z :=
  match j1939_pf a with Some pf => Some (if pf <? 240 then 1 else 2) | None => None end.

Definition pgn (a : arbid) : option Z :=
  if snd a then
    let id := fst a in
    let pf := Z.land (Z.shiftr id 16) 255 in
    let ps := Z.land (Z.shiftr id 8) 255 in
    let dp := Z.land (Z.shiftr id 24) 1 in
    let edp := Z.land (Z.shiftr id 25) 1 in
    Some ((if pf <? 240 then 0 else ps) + Z.shiftl pf 8 + Z.shiftl dp 16 + Z.shiftl edp 17)
  else None.

Definition j1939_destination (a : arbid) : option (option Z) :=
  if snd a then
    let pf := Z.land (Z.shiftr (fst a) 16) 255 in
    Some (if pf <? 240 then Some (Z.land (Z.shiftr (fst a) 8) 255) else None)
  else None.

(* setters (they force extended = True and do not re-run the range check) *)
Definition set_pgn (a : arbid) (value : Z) : arbid :=
  let p := Z.land value 262143 (* 0x3FFFF *) in
  let id1 := Z.land (fst a) 4227858687 (* 0xfc0000ff *) in
  (Z.lor id1 (Z.land (Z.shiftl p 8) 67108608 (* 0x3FFFF00 *)), true).
Definition set_source (a : arbid) (value : Z) : arbid :=
  (Z.lor (Z.land (fst a) 4294967040 (* 0xffffff00 *)) (Z.land value 255), true).
Definition set_priority (a : arbid) (value : Z) : arbid :=
  (Z.lor (Z.land (fst a) 67108863 (* 0x3ffffff *)) (Z.shiftl (Z.land value 7) 26), true).

Definition from_compound_integer (i : Z) : option arbid :=
  mk_arbid (Z.land i extended_id_mask) (negb (Z.land i compound_extended_mask =? 0)).
Definition to_compound_integer (a : arbid) : Z :=
  if snd a then Z.lor (fst a) compound_extended_mask else fst a.
Definition from_pgn (p : Z) : option arbid := mk_arbid (Z.shiftl p 8) true.

(* __eq__ between two constructed ids (extended is a bool on both sides) *)
Definition arbid_eqb (a b : arbid) : bool := (fst a =? fst b) && Bool.eqb (snd a) (snd b).

(* ---- frame selection by identifier (frames = list of (uid, arbitration id, is_j1939)) ---- *)
Definition fr := (Z * arbid * bool)%type.
Definition fr_uid (f : fr) : Z := fst (fst f).
Definition fr_id (f : fr) : arbid := snd (fst f).
Definition fr_j1939 (f : fr) : bool := snd f.

Fixpoint scan_by_id (a : arbid) (frames : list fr) : option fr :=
  match frames with
  | [] => None
  | f :: r => if arbid_eqb (fr_id f) a then Some f else scan_by_id a r
  end.

Definition opt_eqb (a b : option Z) : bool :=
  match a, b with Some x, Some y => x =? y | _, _ => false end.

(* frame_by_pgn (after the repair that skips 11-bit frames).  from_pgn(pgn) is evaluated at the first
   extended frame; an argument >= 2^21 makes it raise ArbitrationIdOutOfRange there (PErr). *)
Inductive pgn_result := PErr | PNone | PFound (f : fr).
Fixpoint frame_by_pgn (p : Z) (frames : list fr) : pgn_result :=
  match frames with
  | [] => PNone
  | f :: r =>
      if snd (fr_id f) then
        match from_pgn p with
        | None => PErr
        | Some fp => if opt_eqb (pgn (fr_id f)) (pgn fp) then PFound f else frame_by_pgn p r
        end
      else frame_by_pgn p r
  end.

(* CanMatrix.decode's choice of the frame that decodes a received identifier.
   SelCrash: Python raises (AttributeError on None in a matrix without J1939 frames). *)
Inductive select_result := SelFrame (f : fr) | SelEmpty | SelCrash.
Definition decode_select (a : arbid) (frames : list fr) : select_result :=
  if negb (existsb fr_j1939 frames) then
    match scan_by_id a frames with Some f => SelFrame f | None => SelCrash end
  else if snd a then
    match scan_by_id a frames with
    | Some f => SelFrame f
    | None =>
        match pgn a with
        | None => SelCrash
        | Some p => match frame_by_pgn p frames with
                    | PFound f => SelFrame f
                    | PNone => SelEmpty
                    | PErr => SelCrash
                    end
        end
    end
  else SelEmpty.

(* ---- specification vocabulary ---- *)
Definition valid_ext (a : arbid) : Prop := snd a = true /\ 0 <= fst a < 2 ^ 29.
Definition valid_std (a : arbid) : Prop := snd a = false /\ 0 <= fst a < 2 ^ 11.
(* the J1939 fields of a 29-bit identifier, arithmetically *)
Definition f_sa (id : Z) := id mod 256.
Definition f_ps (id : Z) := (id / 2 ^ 8) mod 256.
Definition f_pf (id : Z) := (id / 2 ^ 16) mod 256.
Definition f_dp (id : Z) := (id / 2 ^ 24) mod 2.
Definition f_edp (id : Z) := (id / 2 ^ 25) mod 2.
Definition f_prio (id : Z) := (id / 2 ^ 26) mod 8.
(* J1939-21: PGN = EDP.DP.PF.PS with PS counted only for PDU2 (PF >= 240) *)
Definition spec_pgn (id : Z) : Z :=
  f_edp id * 2 ^ 17 + f_dp id * 2 ^ 16 + f_pf id * 2 ^ 8 + (if f_pf id <? 240 then 0 else f_ps id).
(* first extended frame carrying PGN g *)
Fixpoint first_with_pgn (g : Z) (frames : list fr) : option fr :=
  match frames with
  | [] => None
  | f :: r => if snd (fr_id f) && (spec_pgn (fst (fr_id f)) =? g) then Some f else first_with_pgn g r
  end.
