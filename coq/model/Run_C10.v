(* Executable entry point for C10 (commands 1001-1099): histories of matrix operations on model/Lookup.v. *)
From CM Require Import lib.Prelude model.RunBase model.ArbId model.Lookup.

Definition natz (z : Z) : nat := Z.to_nat z.

(* one operation = one group [code; args...]; None = unknown code *)
Definition op_of (g : list Z) : option op :=
  let a := nthz g in
  match a 0%nat with
  | 1 => Some NewMatrix
  | 2 => Some (AddFrame (natz (a 1%nat)) (a 2%nat) (zb (a 3%nat)) (a 4%nat) (optz (a 5%nat)) (zb (a 6%nat)))
  | 3 => Some (FramesAppend (natz (a 1%nat)) (a 2%nat) (zb (a 3%nat)) (a 4%nat) (optz (a 5%nat)) (zb (a 6%nat)))
  | 4 => Some (RemoveFrame (natz (a 1%nat)) (a 2%nat))
  | 5 => Some (DelFrameUid (natz (a 1%nat)) (a 2%nat))
  | 6 => Some (DelFrameName (natz (a 1%nat)) (a 2%nat))
  | 7 => Some (RenameFrame (natz (a 1%nat)) (a 2%nat) (a 3%nat))
  | 8 => Some (SetFrameId (natz (a 1%nat)) (a 2%nat) (a 3%nat) (zb (a 4%nat)))
  | 9 => Some (AddEcu (natz (a 1%nat)) (a 2%nat))
  | 10 => Some (CopyFrame (natz (a 1%nat)) (natz (a 2%nat)) (a 3%nat) (zb (a 4%nat)))
  | 11 => Some (Merge (natz (a 1%nat)) (natz (a 2%nat)))
  | 12 => Some (FrameById (natz (a 1%nat)) (a 2%nat) (zb (a 3%nat)))
  | 13 => Some (FrameByName (natz (a 1%nat)) (a 2%nat))
  | 14 => Some (FrameByPgn (natz (a 1%nat)) (a 2%nat))
  | 15 => Some (FrameByHeaderId (natz (a 1%nat)) (a 2%nat))
  | 16 => Some (SetIdInplace (natz (a 1%nat)) (a 2%nat) (a 3%nat))
  | 17 => Some (ChangeFrameId (natz (a 1%nat)) (a 2%nat) (zb (a 3%nat)) (a 4%nat))
  | 18 => Some (SetHeaderId (natz (a 1%nat)) (a 2%nat) (optz (a 3%nat)))
  | _ => None
  end.
Fixpoint ops_of (gs : io) : option (list op) :=
  match gs with
  | [] => Some []
  | g :: r => match op_of g, ops_of r with Some o, Some l => Some (o :: l) | _, _ => None end
  end.

Definition result_out (r : result) : list Z :=
  match r with
  | RUnit => [0]
  | RFound o => [1; oz o]
  | RBool b => [2; bz b]
  | RErr => [3]
  end.
(* final state of a matrix: frames as [uid; id; ext; name; hdr; j1939]*, then the memo as [id; ext; uid]* *)
Definition frame_out (f : frame) : list Z :=
  [f_uid f; f_id f; bz (f_ext f); f_name f; oz (f_hdr f); bz (f_j1939 f)].
Definition memo_out (e : key * Z) : list Z := [fst (fst e); bz (snd (fst e)); snd e].
Definition matrix_out (m : matrix) : io :=
  [flat_map frame_out (m_frames m); flat_map memo_out (m_memo m)].

(* 1001: op ... -> one group per operation (its result), then [-7; number of matrices; next uid], then two
         groups per matrix (frames, memo in dict-insertion order newest first, shadowed entries included) *)
Definition run_1001 (gs : io) : io :=
  match ops_of gs with
  | None => [[-999]]
  | Some ops =>
      let (w, log) := run_log init_world ops in
      map result_out log ++ [[-7; Z.of_nat (length (w_mats w)); w_next w]] ++ flat_map matrix_out (w_mats w)
  end.
(* 1002: the same history, results only *)
Definition run_1002 (gs : io) : io :=
  match ops_of gs with
  | None => [[-999]]
  | Some ops => map result_out (snd (run_log init_world ops))
  end.

Definition run_c10 (cmd : Z) (a : io) : io :=
  match cmd with
  | 1001 => run_1001 a
  | 1002 => run_1002 a
  | _ => [[-999]]
  end.
