(* Specification vocabulary for C12 (definitions only, used by props/C12.v): what "keeps", "carries", "brought along"
   and "the requested frames" mean.  Nothing here is executable model code. *)
From CM Require Import lib.Prelude model.CopyOps.

Definition keys {A} (l : list (Z * A)) : list Z := map fst l.

(* ---- the envelope ---- *)
(* attribute names are not shared across define categories: one namespace, as in DBC (ns = the category a name belongs to) *)
Definition ns_ok (ns : Z -> cat) (m : matrix) : Prop :=
  forall c a, mem a (get_defs c m) = true -> ns a = c.
(* the define dicts of a matrix have unique keys (they are Python dicts) *)
Definition dicts_ok (m : matrix) : Prop :=
  NoDup (keys (m_sdefs m)) /\ NoDup (keys (m_fdefs m)) /\ NoDup (keys (m_edefs m)).

(* ---- what a matrix says about an attribute definition: (definition, type, default); ENUM value lists may grow ---- *)
Definition dview (d : define) : Z * Z * option Z := (d_def d, d_ty d, d_default d).
Definition dinfo (c : cat) (a : Z) (m : matrix) : option (Z * Z * option Z) :=
  option_map dview (lookup a (get_defs c m)).

(* "an attribute the target already defined" for an object with explicit attributes `attrs`: it has an explicit value or the
   target has a definition of that category *)
Definition defined_for (attrs : list (Z * Z)) (ds : defs) (a : Z) : Prop := mem a attrs = true \/ mem a ds = true.

(* ---- bystanders ---- *)
(* every definition the target had keeps its definition string, type and default *)
Definition keeps_definitions (t t' : matrix) : Prop :=
  forall c a x, dinfo c a t = Some x -> dinfo c a t' = Some x.
(* every object the target had is still there, unchanged, in front of whatever was added *)
Definition keeps_objects (t t' : matrix) : Prop :=
  (exists l, m_ecus t' = m_ecus t ++ l) /\ (exists l, m_frames t' = m_frames t ++ l) /\
  (exists l, m_sigs t' = m_sigs t ++ l) /\ m_gattrs t' = m_gattrs t.
Definition keeps (t t' : matrix) : Prop := keeps_objects t t' /\ keeps_definitions t t'.

(* the property's sentence: objects already in the target keep the effective value of every attribute the target already defined *)
Definition bystanders_keep_values (t t' : matrix) : Prop :=
  (forall e a, In e (m_ecus t) -> defined_for (e_attrs e) (m_edefs t) a ->
      In e (m_ecus t') /\ eff_ecu t' e a = eff_ecu t e a) /\
  (forall f a, In f (m_frames t) -> defined_for (f_attrs f) (m_fdefs t) a ->
      In f (m_frames t') /\ eff_frame t' f a = eff_frame t f a) /\
  (forall f s a, In f (m_frames t) -> In s (f_sigs f) -> defined_for (s_attrs s) (m_sdefs t) a ->
      In f (m_frames t') /\ eff_sig t' s a = eff_sig t s a) /\
  (forall s a, In s (m_sigs t) -> defined_for (s_attrs s) (m_sdefs t) a ->
      In s (m_sigs t') /\ eff_sig t' s a = eff_sig t s a) /\
  (forall a, defined_for (m_gattrs t) (m_gdefs t) a -> eff_glob t' a = eff_glob t a).

(* the weaker form that survives direct_ecu_only: ECUs may be deleted (never altered), ECU names may be struck from the
   transmitter / receiver lists of frames; nothing else of an existing object changes *)
Inductive sublist {A} : list A -> list A -> Prop :=
| sub_nil : sublist [] []
| sub_skip : forall x l1 l2, sublist l1 l2 -> sublist l1 (x :: l2)
| sub_keep : forall x l1 l2, sublist l1 l2 -> sublist (x :: l1) (x :: l2).
Definition sig_same_but_receivers (s s' : signal) : Prop :=
  s_name s' = s_name s /\ s_payload s' = s_payload s /\ s_values s' = s_values s /\ s_attrs s' = s_attrs s /\
  sublist (s_receivers s') (s_receivers s).
Definition frame_same_but_ecu_refs (f f' : frame) : Prop :=
  fid f' = fid f /\ f_name f' = f_name f /\ f_size f' = f_size f /\ f_comment f' = f_comment f /\ f_rest f' = f_rest f /\
  f_attrs f' = f_attrs f /\ sublist (f_tx f') (f_tx f) /\ Forall2 sig_same_but_receivers (f_sigs f) (f_sigs f').
Definition keeps_weakly (t t' : matrix) : Prop :=
  (exists l0 l, sublist l0 (m_ecus t) /\ m_ecus t' = l0 ++ l) /\
  (exists fs l, Forall2 frame_same_but_ecu_refs (m_frames t) fs /\ m_frames t' = fs ++ l) /\
  (exists l, m_sigs t' = m_sigs t ++ l) /\ m_gattrs t' = m_gattrs t /\
  keeps_definitions t t'.
Definition bystanders_keep_values_weakly (t t' : matrix) : Prop :=
  (exists l0 l, sublist l0 (m_ecus t) /\ m_ecus t' = l0 ++ l /\
     forall e a, In e l0 -> defined_for (e_attrs e) (m_edefs t) a -> eff_ecu t' e a = eff_ecu t e a) /\
  (exists fs l, m_frames t' = fs ++ l /\
     Forall2 (fun f f' => fid f' = fid f /\
                (forall a, defined_for (f_attrs f) (m_fdefs t) a -> eff_frame t' f' a = eff_frame t f a) /\
                Forall2 (fun s s' => s_name s' = s_name s /\
                           forall a, defined_for (s_attrs s) (m_sdefs t) a -> eff_sig t' s' a = eff_sig t s a)
                        (f_sigs f) (f_sigs f')) (m_frames t) fs) /\
  (forall s a, In s (m_sigs t) -> defined_for (s_attrs s) (m_sdefs t) a ->
      In s (m_sigs t') /\ eff_sig t' s a = eff_sig t s a) /\
  (forall a, defined_for (m_gattrs t) (m_gdefs t) a -> eff_glob t' a = eff_glob t a).

(* ---- the copied frame ---- *)
(* explicit attributes of the source object are all there (the copy may carry more: explicit values added for defaults that differ) *)
Definition attrs_carried (src_attrs tgt_attrs : list (Z * Z)) : Prop :=
  forall a v, lookup a src_attrs = Some v -> lookup a tgt_attrs = Some v.
(* name, layout/type/scaling, receivers, value table (attribute values are the subject of values_from below) *)
Definition signal_carried (s s' : signal) : Prop :=
  s_name s' = s_name s /\ s_payload s' = s_payload s /\ s_receivers s' = s_receivers s /\ s_values s' = s_values s.
Definition frame_carried (f f' : frame) : Prop :=
  f_id f' = f_id f /\ f_ext f' = f_ext f /\ f_name f' = f_name f /\ f_size f' = f_size f /\ f_tx f' = f_tx f /\
  f_comment f' = f_comment f /\ f_rest f' = f_rest f /\ attrs_carried (f_attrs f) (f_attrs f') /\
  Forall2 signal_carried (f_sigs f) (f_sigs f').
(* the ECU names a frame references *)
Definition frame_refs (f : frame) : list Z := f_tx f ++ flat_map s_receivers (f_sigs f).
(* the value of an attribute is the same in the copy as in the source, whenever the source gives it one *)
Definition values_from (eff_src eff_tgt : Z -> option Z) : Prop :=
  forall a v, eff_src a = Some v -> eff_tgt a = Some v.
(* a definition used by a copied object is in the target; if the target did not have it, it is the source's *)
Definition define_brought (c : cat) (a : Z) (src t t' : matrix) : Prop :=
  mem a (get_defs c t') = true /\ (mem a (get_defs c t) = false -> dinfo c a t' = dinfo c a src).

(* ---- the requested frames ---- *)
Definition mem_id (i : arbid) (l : list arbid) : bool := existsb (fun j => id_eqb j i) l.
(* the frame rule applied to a list of requested ids in order: an id the target has (or has by now) is refused *)
Definition add_new_ids (have : list arbid) (req : list arbid) : list arbid :=
  fold_left (fun acc i => if mem_id i acc then acc else acc ++ [i]) req have.
Definition ids_of (m : matrix) : list arbid := map fid (m_frames m).
Definition requested_ids (g : glob) (rx tx : bool) (src : matrix) : list arbid :=
  flat_map (fun e =>
              (if tx then map fid (filter (sends (e_name e)) (m_frames src)) else []) ++
              (if rx then map fid (filter (receives (e_name e)) (m_frames src)) else []))
           (glob_ecus g src).

(* ---- histories ---- *)
Definition op_deletes (o : op) : bool :=
  match o with OpCopyEcuFrames _ _ _ direct _ => direct | _ => false end.
