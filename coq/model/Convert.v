(* C18: the option pipeline of canconvert.  Definitions only.

   Mirrors /repo/src/canmatrix/convert.py: convert() (~64-347, the part up to the PDU-container handling) and
   convert_pdu_container_to_multiplexed (~37), with the option declarations of /repo/src/canmatrix/cli/convert.py.

   Part A  option strings as Python sees them: str.split(',') / str.split(':') / `a, b = s.split(':')` (ValueError unless
           exactly two parts -> None) / `":" in s` / int(s) (ValueError -> None) over lists of character codes.
   Part B  a small matrix type of its own (cmatrix) carrying what the options NOT covered by EcuOps / BulkOps / CopyOps
           need, and those options: skipLongDlc, cutLongFrames, setFrameFd, unsetFrameFd, frameIdIncrement, changeFrameId,
           addFrameReceiver, recalcDLC, ignorePduContainer / the default PDU-container rewrite.  Lengths come from
           Layout.max_byte (C16), receiver bookkeeping from EcuOps.add_name / EcuOps.dedup (C11), patterns from Glob.
   Part C  the pipeline, generic in the matrix type M: every operation is a field of `ops M` (so the operations proved in
           C10/C11/C12/C16/C17 about their own matrix types can stand behind the fields); what convert.py itself contributes
           - parsing the argument, looping over its items, the FIXED ORDER of the stages, which options are tested with
           `is not None` and which by truth value - is defined here.

   The code modelled is convert.py WITH /verif/fixes/C18_*.patch applied:
     C18_ecus_1_direction_reset   `direction` is reset for every item of --ecus (was carried over from the previous item);
     C18_ecus_2_prune_once        --ecus copies every requested ECU with direct_ecu_only=False and removes the ECUs that are
                                  neither requested nor sender of a copied frame ONCE at the end (was: after each item, which
                                  struck the ECUs requested later - or earlier - from receiver lists and from the ECU list);
     C18_frames_missing_name      --frames (and --merge file:frame=X) skips a name no frame has (was AttributeError on None);
     C18_merge_ecu_keeps_target   --merge file:ecu=X copies with direct_ecu_only=False (the clean-up of direct_ecu_only=True deleted
                                  the receive-only and unreferenced ECUs of the matrix that is merged into) - inside o_merge;
     C18_cli_rename_frame_help    (command line only: --frameIdIncrement declared, help text of --renameFrame)
     C18_dbc_free_signal_enum_attr (DBC writer only: ENUM attributes of free signals written as keys)
     C18_change_frame_id_any_type --changeFrameId finds the frame by its identifier number whatever its type (was
                                  ArbitrationId(int(old)) = an 11-bit identifier: ArbitrationIdOutOfRange above 0x7FF,
                                  29-bit frames never found);
   (fixes/C18_delete_cycle_time_attr.patch was NOT applied to /repo: --deleteFrameAttributes is del_frame_attributes and nothing
   else; that GenMsgCycleTime comes back through Frame.cycle_time is recorded as known finding opt-deleteFrameAttributes-effect.)
   The code before C18_ecus_1_direction_reset / C18_change_frame_id_any_type is kept as parse_ecus_unfixed / change_frame_id_unfixed (props/C18.v:
   ..._refuted / ..._partial).

   Outside the model: file I/O (loadp/dumpp, the file named by --merge), click, logging; int() accepting surrounding
   white space, '_' between digits and non-ASCII digits; str.strip() of signal names in add_signal_group; options after
   the PDU handling (signalNameFromAttrib ... convertToJ1939), which the property does not name.
   Object identity: cf_uid / cs_uid stand for id(obj) (Frame and Signal are attrs classes with eq=False, so
   list.remove and `in` compare identity); a matrix lists each object once (`frames_distinct`). *)
From CM Require Import lib.Prelude model.Glob.
From CM Require model.EcuOps model.Codec model.Layout.

Definition str := name.       (* list Z : code points *)

(* ============================================================================================================ *)
(* Part A. option strings                                                                                        *)

Definition COMMA : Z := 44.
Definition COLON : Z := 58.
Definition MINUS : Z := 45.
Definition PLUS : Z := 43.

Definition has_char (c : Z) (s : str) : bool := existsb (Z.eqb c) s.       (* "c" in s *)

(* s.split(c) for a one-character separator: never empty, ''.split(c) == [''] *)
Fixpoint split_on (c : Z) (s : str) : list str :=
  match s with
  | [] => [[]]
  | x :: r =>
      if x =? c then [] :: split_on c r
      else match split_on c r with
           | [] => [[x]]                       (* unreachable: split_on never returns [] *)
           | p :: ps => (x :: p) :: ps
           end
  end.
(* c.join(parts) *)
Fixpoint join_with (c : Z) (parts : list str) : str :=
  match parts with
  | [] => []
  | [p] => p
  | p :: ps => p ++ c :: join_with c ps
  end.

(* `old, new = s.split(':')` *)
Definition parse_pair (s : str) : option (str * str) :=
  match split_on COLON s with
  | [a; b] => Some (a, b)
  | _ => None                                  (* ValueError: not enough / too many values to unpack *)
  end.
(* for t in s.split(','): old, new = t.split(':') ...   (the first bad item aborts the conversion) *)
Fixpoint parse_items {A} (f : str -> option A) (items : list str) : option (list A) :=
  match items with
  | [] => Some []
  | it :: r => match f it, parse_items f r with
               | Some x, Some l => Some (x :: l)
               | _, _ => None
               end
  end.
Definition parse_pairs (s : str) : option (list (str * str)) := parse_items parse_pair (split_on COMMA s).
Definition parse_list (s : str) : list str := split_on COMMA s.

Definition render_pair (p : str * str) : str := fst p ++ COLON :: snd p.
Definition render_pairs (ps : list (str * str)) : str := join_with COMMA (map render_pair ps).
Definition render_list (l : list str) : str := join_with COMMA l.

(* --ecus: for ecu in s.split(','): if ":" in ecu: ecu, direction = ecu.split(":")
           copy_ecu_with_frames(ecu, ..., rx=(direction != "tx"), tx=(direction != "rx"))
   carry = false: `direction = None` at the top of the loop body (fixes/C18_ecus_direction_reset.patch);
   carry = true : `direction = None` once before the loop (the code in /repo) - a suffix also applies to every later
                  item that has none. *)
Definition s_rx : str := [114; 120].
Definition s_tx : str := [116; 120].
Definition dir_is (d : option str) (w : str) : bool := match d with Some x => name_eqb x w | None => false end.
Definition dir_rx (d : option str) : bool := negb (dir_is d s_tx).
Definition dir_tx (d : option str) : bool := negb (dir_is d s_rx).
Definition ecu_sel := (str * bool * bool)%type.            (* name / glob, rx, tx *)
Fixpoint parse_ecus_from (carry : bool) (dir : option str) (items : list str) : option (list ecu_sel) :=
  match items with
  | [] => Some []
  | it :: r =>
      let dir0 := if carry then dir else None in
      let res := if has_char COLON it
                 then match split_on COLON it with [a; b] => Some (a, Some b) | _ => None end
                 else Some (it, dir0) in
      match res with
      | None => None
      | Some (e, d) => match parse_ecus_from carry d r with
                       | None => None
                       | Some l => Some ((e, dir_rx d, dir_tx d) :: l)
                       end
      end
  end.
Definition parse_ecus (s : str) : option (list ecu_sel) := parse_ecus_from false None (split_on COMMA s).
Definition parse_ecus_unfixed (s : str) : option (list ecu_sel) := parse_ecus_from true None (split_on COMMA s).

Inductive direction := DBoth | DRx | DTx.
Definition render_ecu_item (it : str * direction) : str :=
  match snd it with
  | DBoth => fst it
  | DRx => fst it ++ COLON :: s_rx
  | DTx => fst it ++ COLON :: s_tx
  end.
Definition render_ecus (l : list (str * direction)) : str := join_with COMMA (map render_ecu_item l).
Definition sel_of (it : str * direction) : ecu_sel :=
  match snd it with
  | DBoth => (fst it, true, true)
  | DRx => (fst it, true, false)
  | DTx => (fst it, false, true)
  end.

(* int(s): optional sign, at least one ASCII digit, nothing else *)
Definition is_digit (c : Z) : bool := (48 <=? c) && (c <=? 57).
Fixpoint digits_val (acc : Z) (s : str) : option Z :=
  match s with
  | [] => Some acc
  | c :: r => if is_digit c then digits_val (10 * acc + (c - 48)) r else None
  end.
Definition parse_nat (s : str) : option Z := match s with [] => None | _ => digits_val 0 s end.
Definition parse_int (s : str) : option Z :=
  match s with
  | [] => None
  | c :: r => if c =? MINUS then option_map Z.opp (parse_nat r)
              else if c =? PLUS then parse_nat r
              else parse_nat s
  end.
(* str(n) *)
Fixpoint render_nat_fuel (fuel : nat) (n : Z) : str :=
  match fuel with
  | O => [48 + n mod 10]
  | S f => if n <? 10 then [48 + n] else render_nat_fuel f (n / 10) ++ [48 + n mod 10]
  end.
Definition render_nat (n : Z) : str := render_nat_fuel (Z.to_nat (Z.log2 n)) n.
Definition render_int (z : Z) : str := if z <? 0 then MINUS :: render_nat (- z) else render_nat z.

(* ============================================================================================================ *)
(* Part B. the directly modelled options                                                                         *)

Record csignal := mkCSig {
  cs_uid : Z;                      (* id(signal) *)
  cs_name : str;
  cs_start : Z;                    (* Signal.start_bit = get_startbit() without arguments *)
  cs_size : Z;
  cs_le : bool;                    (* is_little_endian: read by nothing here; kept so that C16's statements about the length apply *)
  cs_receivers : list str;
  cs_is_mux : bool;                (* is_multiplexer *)
  cs_mux_val : option Z;           (* mux_val *)
  cs_pay : Z                       (* byte order, scaling, ... : never read or written here *)
}.
Record cgroup := mkCGroup { g_name : str; g_id : Z; g_members : list Z (* uids of the member signals *) }.
Record cpdu := mkCPdu { p_name : str; p_id : Z; p_size : Z; p_signals : list csignal }.
Record cframe := mkCFrame {
  cf_uid : Z;                      (* id(frame) *)
  cf_name : str;
  cf_id : Z;                       (* arbitration_id.id *)
  cf_ext : bool;                   (* arbitration_id.extended *)
  cf_size : Z;
  cf_fd : bool;
  cf_attrs : list (Z * Z);         (* Frame.attributes: interned name -> interned value, insertion order *)
  cf_receivers : list str;
  cf_signals : list csignal;
  cf_groups : list cgroup;
  cf_pdus : list cpdu;
  cf_pay : Z                       (* transmitters, comment, cycle time, ... *)
}.
Record cmatrix := mkCMatrix { cm_frames : list cframe; cm_pay : Z (* ECUs, definitions, ... *) }.

Definition A_VFrameFormat : Z := 0.          (* the interned attribute name "VFrameFormat" *)

Definition set_cframes (m : cmatrix) (fs : list cframe) : cmatrix := mkCMatrix fs (cm_pay m).
Definition with_size (f : cframe) (v : Z) : cframe :=
  mkCFrame (cf_uid f) (cf_name f) (cf_id f) (cf_ext f) v (cf_fd f) (cf_attrs f) (cf_receivers f) (cf_signals f)
           (cf_groups f) (cf_pdus f) (cf_pay f).
Definition with_id (f : cframe) (v : Z) : cframe :=
  mkCFrame (cf_uid f) (cf_name f) v (cf_ext f) (cf_size f) (cf_fd f) (cf_attrs f) (cf_receivers f) (cf_signals f)
           (cf_groups f) (cf_pdus f) (cf_pay f).
Definition with_fd (f : cframe) (v : bool) (a : list (Z * Z)) : cframe :=
  mkCFrame (cf_uid f) (cf_name f) (cf_id f) (cf_ext f) (cf_size f) v a (cf_receivers f) (cf_signals f)
           (cf_groups f) (cf_pdus f) (cf_pay f).
Definition with_signals (f : cframe) (ss : list csignal) (sz : Z) : cframe :=
  mkCFrame (cf_uid f) (cf_name f) (cf_id f) (cf_ext f) sz (cf_fd f) (cf_attrs f) (cf_receivers f) ss
           (cf_groups f) (cf_pdus f) (cf_pay f).
Definition with_receivers (f : cframe) (ss : list csignal) (rs : list str) : cframe :=
  mkCFrame (cf_uid f) (cf_name f) (cf_id f) (cf_ext f) (cf_size f) (cf_fd f) (cf_attrs f) rs ss
           (cf_groups f) (cf_pdus f) (cf_pay f).
Definition sig_with_receivers (s : csignal) (rs : list str) : csignal :=
  mkCSig (cs_uid s) (cs_name s) (cs_start s) (cs_size s) (cs_le s) rs (cs_is_mux s) (cs_mux_val s) (cs_pay s).
Definition sig_with_mux (s : csignal) (is_mux : bool) (v : option Z) (start : Z) : csignal :=
  mkCSig (cs_uid s) (cs_name s) start (cs_size s) (cs_le s) (cs_receivers s) is_mux v (cs_pay s).

Definition is_container (f : cframe) : bool := match cf_pdus f with [] => false | _ => true end.   (* is_pdu_container *)

(* a mutation of the Frame object with identity u: every list entry that IS that object shows it *)
Definition upd_frame (u : Z) (g : cframe -> cframe) (fs : list cframe) : list cframe :=
  map (fun f => if cf_uid f =? u then g f else f) fs.
(* self.frames.remove(frame) / frame.signals.remove(sig): first entry that is the object *)
Fixpoint remove_frame_uid (u : Z) (l : list cframe) : list cframe :=
  match l with
  | [] => []
  | f :: r => if cf_uid f =? u then r else f :: remove_frame_uid u r
  end.
Fixpoint remove_sig_uid (u : Z) (l : list csignal) : list csignal :=
  match l with
  | [] => []
  | s :: r => if cs_uid s =? u then r else s :: remove_sig_uid u r
  end.
(* CanMatrix.frame_by_name / Frame.signal_by_name: the first with that name *)
Fixpoint frame_named (n : str) (l : list cframe) : option cframe :=
  match l with
  | [] => None
  | f :: r => if name_eqb (cf_name f) n then Some f else frame_named n r
  end.
Fixpoint signal_named (n : str) (l : list csignal) : option csignal :=
  match l with
  | [] => None
  | s :: r => if name_eqb (cs_name s) n then Some s else signal_named n r
  end.

(* ---- lengths: Frame.calc_dlc / CanMatrix.recalc_dlc through Layout.max_byte ---- *)
Definition to_codec (s : csignal) : Codec.signal := Codec.mkSignal 0 (cs_start s) (cs_size s) (cs_le s) false false.
Definition max_byte_c (ss : list csignal) : Z := Layout.max_byte (map to_codec ss).
Definition pdu_extra (f : cframe) (mb : Z) : Z :=                    (* `if self.is_pdu_container: ...` *)
  if is_container f then fold_left (fun a p => a + p_size p) (cf_pdus f) (mb * Z.of_nat (length (cf_pdus f))) else mb.
(* Frame.calc_dlc: self.size = max(self.size, max_byte) *)
Definition calc_dlc_c (f : cframe) : Z := Z.max (cf_size f) (pdu_extra f (max_byte_c (cf_signals f))).

(* ---- skipLongDlc ----
     delete_frame_list = [frame for frame in db.frames if frame.size > int(options['skipLongDlc'])]
     for frame in delete_frame_list: db.del_frame(frame)
   int() is evaluated once per frame: with no frame a malformed threshold goes unnoticed *)
Definition skip_long_dlc (arg : str) (m : cmatrix) : option cmatrix :=
  match cm_frames m with
  | [] => Some m
  | _ :: _ =>
      match parse_int arg with
      | None => None
      | Some t =>
          let del := filter (fun f => cf_size f >? t) (cm_frames m) in
          Some (set_cframes m (fold_left (fun live f => remove_frame_uid (cf_uid f) live) del (cm_frames m)))
      end
  end.

(* ---- cutLongFrames ----
     for frame in db.frames:
         if frame.size > int(t):
             delete_signal_list = [sig for sig in frame.signals if sig.get_startbit() + int(sig.size) > int(t)*8]
             for sig in delete_signal_list: frame.signals.remove(sig)
             frame.size = 0
             frame.calc_dlc() *)
Definition cut_frame (t : Z) (f : cframe) : cframe :=
  if cf_size f >? t then
    let del := filter (fun s => cs_start s + cs_size s >? t * 8) (cf_signals f) in
    let kept := fold_left (fun live s => remove_sig_uid (cs_uid s) live) del (cf_signals f) in
    let f0 := with_signals f kept 0 in
    with_size f0 (calc_dlc_c f0)
  else f.
Definition cut_long_frames (arg : str) (m : cmatrix) : option cmatrix :=
  match cm_frames m with
  | [] => Some m
  | _ :: _ =>
      match parse_int arg with
      | None => None
      | Some t => Some (set_cframes m (map (cut_frame t) (cm_frames m)))
      end
  end.

(* ---- setFrameFd / unsetFrameFd ----
     for frame_name in s.split(','):
         frame_ptr = db.frame_by_name(frame_name)
         if frame_ptr is not None: frame_ptr.is_fd = True   |   frame_ptr.is_fd = False; frame_ptr.del_attribute("VFrameFormat") *)
Definition del_attr (k : Z) (a : list (Z * Z)) : list (Z * Z) := filter (fun kv => negb (fst kv =? k)) a.
Definition on_named (g : cframe -> cframe) (fs : list cframe) (n : str) : list cframe :=
  match frame_named n fs with
  | None => fs
  | Some f => upd_frame (cf_uid f) g fs
  end.
Definition set_frame_fd (arg : str) (m : cmatrix) : cmatrix :=
  set_cframes m (fold_left (on_named (fun f => with_fd f true (cf_attrs f))) (parse_list arg) (cm_frames m)).
Definition unset_frame_fd (arg : str) (m : cmatrix) : cmatrix :=
  set_cframes m (fold_left (on_named (fun f => with_fd f false (del_attr A_VFrameFormat (cf_attrs f))))
                           (parse_list arg) (cm_frames m)).

(* ---- frameIdIncrement ----   id_increment = int(s);  for frame in db.frames: frame.arbitration_id.id += id_increment *)
Definition frame_id_increment (arg : str) (m : cmatrix) : option cmatrix :=
  match parse_int arg with
  | None => None
  | Some n => Some (set_cframes m (map (fun f => with_id f (cf_id f + n)) (cm_frames m)))
  end.

(* ---- changeFrameId ----  (with fixes/C18_change_frame_id_any_type.patch)
     for t in s.split(','):
         old, new = t.split(':')
         old_id = int(old)
         frame = next((f for f in db.frames if f.arbitration_id.id == old_id), None)
         if frame is not None: frame.arbitration_id.id = int(new)       # int(new) only evaluated when a frame was found *)
Fixpoint frame_with_id (i : Z) (l : list cframe) : option cframe :=
  match l with
  | [] => None
  | f :: r => if cf_id f =? i then Some f else frame_with_id i r
  end.
Definition change_one (find : Z -> list cframe -> option (option cframe)) (fs : option (list cframe)) (p : str * str)
  : option (list cframe) :=
  match fs with
  | None => None
  | Some l =>
      match parse_int (fst p) with
      | None => None
      | Some old =>
          match find old l with
          | None => None                                            (* the lookup itself raised *)
          | Some None => Some l                                     (* "frame with id ... not found" is logged *)
          | Some (Some f) =>
              match parse_int (snd p) with
              | None => None
              | Some new => Some (upd_frame (cf_uid f) (fun g => with_id g new) l)
              end
          end
      end
  end.
Definition change_with (find : Z -> list cframe -> option (option cframe)) (arg : str) (m : cmatrix) : option cmatrix :=
  match parse_pairs arg with
  | None => None                                   (* (items before the malformed one were applied, then the exception) *)
  | Some ps => option_map (set_cframes m) (fold_left (change_one find) ps (Some (cm_frames m)))
  end.
Definition change_frame_id : str -> cmatrix -> option cmatrix :=
  change_with (fun old l => Some (frame_with_id old l)).
(* the code in /repo: frame = db.frame_by_id(canmatrix.ArbitrationId(int(old)))  - extended defaults to False:
   ArbitrationIdOutOfRange unless old == old & 0x7FF; only frames with extended == False compare equal
   (frame_by_id is modelled as the scan it refines, C10_lookup_refines_scan) *)
Fixpoint std_frame_with_id (i : Z) (l : list cframe) : option cframe :=
  match l with
  | [] => None
  | f :: r => if (cf_id f =? i) && negb (cf_ext f) then Some f else std_frame_with_id i r
  end.
Definition change_frame_id_unfixed : str -> cmatrix -> option cmatrix :=
  change_with (fun old l => if old =? Z.land old 2047 then Some (std_frame_with_id old l) else None).

(* ---- addFrameReceiver ----
     for t in s.split(','):
         (frameName, ecu) = t.split(':')
         for frame in db.glob_frames(frameName):
             for signal in frame.signals: signal.add_receiver(ecu)
             frame.update_receiver() *)
Definition add_receiver_frame (ecu : str) (f : cframe) : cframe :=
  let ss := map (fun s => sig_with_receivers s (EcuOps.add_name ecu (cs_receivers s))) (cf_signals f) in
  with_receivers f ss (EcuOps.dedup (flat_map cs_receivers ss)).
Definition add_frame_receiver_one (fs : list cframe) (p : str * str) : list cframe :=
  fold_left (fun l f => upd_frame (cf_uid f) (add_receiver_frame (snd p)) l)
            (filter (fun f => glob_match (fst p) (cf_name f)) fs) fs.
Definition add_frame_receiver (arg : str) (m : cmatrix) : option cmatrix :=
  match parse_pairs arg with
  | None => None
  | Some ps => Some (set_cframes m (fold_left add_frame_receiver_one ps (cm_frames m)))
  end.

(* ---- recalcDLC ----   db.recalc_dlc(s): "max" -> frame.calc_dlc(); "force" -> the minimal length; anything else: nothing.
   "force" on a PDU container reads self.pdus of the CanMatrix: AttributeError *)
Definition s_max : str := [109; 97; 120].
Definition s_force : str := [102; 111; 114; 99; 101].
Definition recalc_dlc_c (arg : str) (m : cmatrix) : option cmatrix :=
  if name_eqb arg s_max then Some (set_cframes m (map (fun f => with_size f (calc_dlc_c f)) (cm_frames m)))
  else if name_eqb arg s_force then
    if existsb is_container (cm_frames m) then None
    else Some (set_cframes m (map (fun f => with_size f (max_byte_c (cf_signals f))) (cm_frames m)))
  else Some m.

(* ---- PDU containers ----
   convert_pdu_container_to_multiplexed(frame): a deep copy in which every PDU's signals become signals of the frame,
   multiplexed by the PDU id (behind Header_ID + Header_DLC when the frame has both), one signal group per PDU. *)
Definition s_header_id : str := [72; 101; 97; 100; 101; 114; 95; 73; 68].
Definition s_header_dlc : str := [72; 101; 97; 100; 101; 114; 95; 68; 76; 67].
Definition s_hearder_id_ : str := [72; 69; 65; 82; 68; 69; 82; 95; 73; 68; 95].      (* "HEARDER_ID_" (sic) *)
Fixpoint mark_first_named (n : str) (l : list csignal) : list csignal :=      (* header_id_signal.multiplex_setter("Multiplexor") *)
  match l with
  | [] => []
  | s :: r => if name_eqb (cs_name s) n then sig_with_mux s true None (cs_start s) :: r else s :: mark_first_named n r
  end.
Definition pdu_step (off : Z) (acc : list csignal * list cgroup * Z) (p : cpdu) : list csignal * list cgroup * Z :=
  let '(sigs, groups, sg_id) := acc in
  let moved := map (fun s => sig_with_mux s false (Some (p_id p)) (cs_start s + off)) (p_signals p) in
  let sigs' := sigs ++ moved in
  let gname := match p_name p with [] => s_hearder_id_ ++ render_int (p_id p) | _ => p_name p end in
  (* add_signal_group(name, sg_id + 1, names): each name resolved with signal_by_name on the frame as it is now *)
  let members := flat_map (fun s => match signal_named (cs_name s) sigs' with Some x => [cs_uid x] | None => [] end)
                          (filter (fun s => negb (match cs_name s with [] => true | _ => false end)) (p_signals p)) in
  (sigs', groups ++ [mkCGroup gname (sg_id + 1) members], sg_id + 1).
Definition pdu_to_multiplexed (f : cframe) : cframe :=
  if is_container f then
    let hid := signal_named s_header_id (cf_signals f) in
    let hdlc := signal_named s_header_dlc (cf_signals f) in
    let '(sigs0, off) := match hid, hdlc with
                         | Some a, Some b => (mark_first_named s_header_id (cf_signals f), cs_size a + cs_size b)
                         | _, _ => (cf_signals f, 0)
                         end in
    let '(sigs, groups, _) := fold_left (pdu_step off) (cf_pdus f) (sigs0, cf_groups f, 0) in
    mkCFrame (cf_uid f) (cf_name f) (cf_id f) (cf_ext f) (cf_size f) (cf_fd f) (cf_attrs f) (cf_receivers f) sigs groups []
             (cf_pay f)
  else f.
(* the tail of convert(): containers = [f for f in db.frames if f.is_pdu_container]
     ignorePduContainer: for f in containers: db.del_frame(f)
     else              : for f in containers: new = convert_pdu_container_to_multiplexed(f); db.del_frame(f); db.add_frame(new) *)
Definition pdu_stage (ignore : bool) (m : cmatrix) : cmatrix :=
  let cont := filter is_container (cm_frames m) in
  if ignore then set_cframes m (fold_left (fun live f => remove_frame_uid (cf_uid f) live) cont (cm_frames m))
  else set_cframes m (fold_left (fun live f => remove_frame_uid (cf_uid f) live ++ [pdu_to_multiplexed f]) cont (cm_frames m)).

(* ============================================================================================================ *)
(* Part C. the pipeline                                                                                          *)

Inductive okind :=
| KEcus | KFrames | KSignals                                                  (* selection: build a new matrix *)
| KMerge | KRenameEcu | KDeleteEcu | KRenameFrame | KDeleteFrame | KAddFrameReceiver | KFrameIdIncrement
| KChangeFrameId | KSetFrameFd | KUnsetFrameFd | KSkipLongDlc | KCutLongFrames | KRenameSignal | KDeleteSignal
| KDeleteZeroSignals | KDeleteSignalAttributes | KDeleteFrameAttributes | KDeleteObsoleteDefines
| KDeleteObsoleteEcus | KCompressFrame | KRecalcDLC
| KIgnorePduContainer.

Definition okind_code (k : okind) : Z :=
  match k with
  | KEcus => 0 | KFrames => 1 | KSignals => 2 | KMerge => 3 | KRenameEcu => 4 | KDeleteEcu => 5 | KRenameFrame => 6
  | KDeleteFrame => 7 | KAddFrameReceiver => 8 | KFrameIdIncrement => 9 | KChangeFrameId => 10 | KSetFrameFd => 11
  | KUnsetFrameFd => 12 | KSkipLongDlc => 13 | KCutLongFrames => 14 | KRenameSignal => 15 | KDeleteSignal => 16
  | KDeleteZeroSignals => 17 | KDeleteSignalAttributes => 18 | KDeleteFrameAttributes => 19
  | KDeleteObsoleteDefines => 20 | KDeleteObsoleteEcus => 21 | KCompressFrame => 22 | KRecalcDLC => 23
  | KIgnorePduContainer => 24
  end.
Definition okind_eqb (a b : okind) : bool := okind_code a =? okind_code b.

(* the stages after the selection block, in the order of the `if` statements of convert() *)
Definition post_order : list okind :=
  [KMerge; KRenameEcu; KDeleteEcu; KRenameFrame; KDeleteFrame; KAddFrameReceiver; KFrameIdIncrement; KChangeFrameId;
   KSetFrameFd; KUnsetFrameFd; KSkipLongDlc; KCutLongFrames; KRenameSignal; KDeleteSignal; KDeleteZeroSignals;
   KDeleteSignalAttributes; KDeleteFrameAttributes; KDeleteObsoleteDefines; KDeleteObsoleteEcus; KCompressFrame;
   KRecalcDLC].

(* how convert() decides that an option was given:
     by truth value  (`options.get(k, False)` / `k in options and options[k]`): '' counts as not given; the boolean
                     switches are in the command line exactly when they are True;
     otherwise       `k in options and options[k] is not None`: '' is an argument like any other *)
Definition by_truth (k : okind) : bool :=
  match k with
  | KEcus | KFrames | KSignals | KDeleteZeroSignals | KDeleteSignalAttributes | KDeleteFrameAttributes
  | KDeleteObsoleteDefines | KDeleteObsoleteEcus | KRecalcDLC | KIgnorePduContainer => true
  | _ => false
  end.
Definition is_switch (k : okind) : bool :=
  match k with
  | KDeleteZeroSignals | KDeleteObsoleteDefines | KDeleteObsoleteEcus | KIgnorePduContainer => true
  | _ => false
  end.

(* a command line / keyword dictionary: each option at most once (click keeps the last occurrence, a dict has one) *)
Definition cmdline := list (okind * str).
Fixpoint given (k : okind) (cl : cmdline) : option str :=
  match cl with
  | [] => None
  | (k', a) :: r => if okind_eqb k' k then Some a else given k r
  end.
(* the argument, if the option counts as given *)
Definition active (k : okind) (cl : cmdline) : option str :=
  match given k cl with
  | None => None
  | Some a => if by_truth k && negb (is_switch k) && match a with [] => true | _ => false end then None else Some a
  end.

(* every operation the stages call *)
Record ops (M : Type) := mkOps {
  o_empty : M;                                                    (* canmatrix.CanMatrix() *)
  o_copy_ecu_with_frames : str -> bool -> bool -> M -> M -> M;    (* glob, rx, tx, source, target; direct_ecu_only=False *)
  o_prune_ecus : list str -> M -> M -> M;                         (* requested globs, source, target: del_ecu of every ECU that is
                                                                     neither requested nor sender of a frame of the target *)
  o_copy_frame_named : str -> M -> M -> option M;                 (* None: the source has no frame of that name *)
  o_copy_signal : str -> M -> M -> M;
  o_merge : str -> M -> option M;                                 (* the whole --merge argument (reads files) *)
  o_rename_ecu : str -> str -> M -> M;
  o_del_ecu : str -> M -> M;
  o_rename_frame : str -> str -> M -> option M;                   (* None: IndexError on an empty old name *)
  o_del_frame : str -> M -> M;
  o_add_frame_receiver : str -> M -> option M;                    (* whole argument *)
  o_frame_id_increment : str -> M -> option M;
  o_change_frame_id : str -> M -> option M;
  o_set_frame_fd : str -> M -> M;
  o_unset_frame_fd : str -> M -> M;
  o_skip_long_dlc : str -> M -> option M;
  o_cut_long_frames : str -> M -> option M;
  o_rename_signal : str -> str -> M -> option M;
  o_del_signal : str -> M -> M;
  o_delete_zero_signals : M -> M;
  o_del_signal_attributes : list str -> M -> M;
  o_del_frame_attributes : list str -> M -> M;
  o_delete_obsolete_defines : M -> M;
  o_delete_obsolete_ecus : M -> M;
  o_compress_frames : str -> M -> option M;                       (* one pattern; None: compress does not return *)
  o_recalc_dlc : str -> M -> option M;
  o_pdu : bool -> M -> M
}.
Arguments o_empty {M}. Arguments o_copy_ecu_with_frames {M}. Arguments o_prune_ecus {M}. Arguments o_copy_frame_named {M}.
Arguments o_copy_signal {M}. Arguments o_merge {M}. Arguments o_rename_ecu {M}. Arguments o_del_ecu {M}.
Arguments o_rename_frame {M}. Arguments o_del_frame {M}. Arguments o_add_frame_receiver {M}.
Arguments o_frame_id_increment {M}. Arguments o_change_frame_id {M}. Arguments o_set_frame_fd {M}.
Arguments o_unset_frame_fd {M}. Arguments o_skip_long_dlc {M}. Arguments o_cut_long_frames {M}.
Arguments o_rename_signal {M}. Arguments o_del_signal {M}. Arguments o_delete_zero_signals {M}.
Arguments o_del_signal_attributes {M}. Arguments o_del_frame_attributes {M}.
Arguments o_delete_obsolete_defines {M}. Arguments o_delete_obsolete_ecus {M}. Arguments o_compress_frames {M}.
Arguments o_recalc_dlc {M}. Arguments o_pdu {M}.

Definition obind {A B} (x : option A) (f : A -> option B) : option B := match x with None => None | Some a => f a end.
(* for item in items: m = f(item, m)   with exceptions *)
Definition fold_opt {A M} (f : A -> M -> option M) (items : list A) (m : M) : option M :=
  fold_left (fun acc it => obind acc (f it)) items (Some m).
Definition fold_tot {A M} (f : A -> M -> M) (items : list A) (m : M) : M := fold_left (fun acc it => f it acc) items m.

(* one `if` block of convert() after the selection: option k with raw argument a *)
Definition stage {M} (O : ops M) (k : okind) (a : str) (m : M) : option M :=
  match k with
  | KMerge => o_merge O a m
  | KRenameEcu => obind (parse_pairs a) (fun ps => Some (fold_tot (fun p => o_rename_ecu O (fst p) (snd p)) ps m))
  | KDeleteEcu => Some (fold_tot (o_del_ecu O) (parse_list a) m)
  | KRenameFrame => obind (parse_pairs a) (fun ps => fold_opt (fun p => o_rename_frame O (fst p) (snd p)) ps m)
  | KDeleteFrame => Some (fold_tot (o_del_frame O) (parse_list a) m)
  | KAddFrameReceiver => o_add_frame_receiver O a m
  | KFrameIdIncrement => o_frame_id_increment O a m
  | KChangeFrameId => o_change_frame_id O a m
  | KSetFrameFd => Some (o_set_frame_fd O a m)
  | KUnsetFrameFd => Some (o_unset_frame_fd O a m)
  | KSkipLongDlc => o_skip_long_dlc O a m
  | KCutLongFrames => o_cut_long_frames O a m
  | KRenameSignal => obind (parse_pairs a) (fun ps => fold_opt (fun p => o_rename_signal O (fst p) (snd p)) ps m)
  | KDeleteSignal => Some (fold_tot (o_del_signal O) (parse_list a) m)
  | KDeleteZeroSignals => Some (o_delete_zero_signals O m)
  | KDeleteSignalAttributes => Some (o_del_signal_attributes O (parse_list a) m)
  | KDeleteFrameAttributes => Some (o_del_frame_attributes O (parse_list a) m)
  | KDeleteObsoleteDefines => Some (o_delete_obsolete_defines O m)
  | KDeleteObsoleteEcus => Some (o_delete_obsolete_ecus O m)
  | KCompressFrame => fold_opt (o_compress_frames O) (parse_list a) m
  | KRecalcDLC => o_recalc_dlc O a m
  | KEcus | KFrames | KSignals | KIgnorePduContainer => Some m          (* not stages of this kind *)
  end.

Fixpoint run_stages {M} (O : ops M) (ks : list okind) (cl : cmdline) (m : M) : option M :=
  match ks with
  | [] => Some m
  | k :: r => match active k cl with
              | None => run_stages O r cl m
              | Some a => obind (stage O k a m) (run_stages O r cl)
              end
  end.

(* the selection block: ecus, then frames, then signals copy from the loaded matrix into ONE new matrix;
   `if db is None: db = dbs[name]` *)
Definition or_empty {M} (O : ops M) (t : option M) : M := match t with Some x => x | None => o_empty O end.
Definition select {M} (O : ops M) (cl : cmdline) (src : M) : option M :=
  let t0 : option (option M) :=
    match active KEcus cl with
    | None => Some None
    | Some a => obind (parse_ecus a) (fun sel =>
                  Some (Some (o_prune_ecus O (map (fun e => fst (fst e)) sel) src
                                (fold_tot (fun e t => o_copy_ecu_with_frames O (fst (fst e)) (snd (fst e)) (snd e) src t)
                                          sel (o_empty O)))))
    end in
  let t1 : option (option M) :=
    obind t0 (fun t =>
      match active KFrames cl with
      | None => Some t
      | Some a => Some (Some (fold_tot (fun n tg => match o_copy_frame_named O n src tg with Some x => x | None => tg end)
                                       (parse_list a) (or_empty O t)))
      end) in
  let t2 : option (option M) :=
    obind t1 (fun t =>
      match active KSignals cl with
      | None => Some t
      | Some a => Some (Some (fold_tot (fun n tg => o_copy_signal O n src tg) (parse_list a) (or_empty O t)))
      end) in
  obind t2 (fun t => Some (match t with Some x => x | None => src end)).

Definition pdu_flag (cl : cmdline) : bool := match active KIgnorePduContainer cl with Some _ => true | None => false end.

Definition pipeline {M} (O : ops M) (cl : cmdline) (m : M) : option M :=
  obind (select O cl m) (fun db =>
  obind (run_stages O post_order cl db) (fun db' =>
  Some (o_pdu O (pdu_flag cl) db'))).

(* position of a stage in the pipeline *)
Fixpoint index_of (k : okind) (l : list okind) : nat :=
  match l with
  | [] => O
  | x :: r => if okind_eqb x k then O else S (index_of k r)
  end.
Definition slot (k : okind) : nat := index_of k post_order.
Definition is_post (k : okind) : bool := existsb (okind_eqb k) post_order.

(* the operations on cmatrix: the directly modelled ones are those of Part B, the others are given *)
Record foreign (M : Type) := mkForeign {
  x_empty : M;
  x_copy_ecu_with_frames : str -> bool -> bool -> M -> M -> M;
  x_prune_ecus : list str -> M -> M -> M;
  x_copy_frame_named : str -> M -> M -> option M;
  x_copy_signal : str -> M -> M -> M;
  x_merge : str -> M -> option M;
  x_rename_ecu : str -> str -> M -> M;
  x_del_ecu : str -> M -> M;
  x_rename_frame : str -> str -> M -> option M;
  x_del_frame : str -> M -> M;
  x_rename_signal : str -> str -> M -> option M;
  x_del_signal : str -> M -> M;
  x_delete_zero_signals : M -> M;
  x_del_signal_attributes : list str -> M -> M;
  x_del_frame_attributes : list str -> M -> M;
  x_delete_obsolete_defines : M -> M;
  x_delete_obsolete_ecus : M -> M;
  x_compress_frames : str -> M -> option M
}.
Definition cops (X : foreign cmatrix) : ops cmatrix :=
  mkOps cmatrix
    (x_empty _ X) (x_copy_ecu_with_frames _ X) (x_prune_ecus _ X) (x_copy_frame_named _ X) (x_copy_signal _ X) (x_merge _ X)
    (x_rename_ecu _ X) (x_del_ecu _ X) (x_rename_frame _ X) (x_del_frame _ X)
    add_frame_receiver frame_id_increment change_frame_id set_frame_fd unset_frame_fd skip_long_dlc cut_long_frames
    (x_rename_signal _ X) (x_del_signal _ X) (x_delete_zero_signals _ X) (x_del_signal_attributes _ X)
    (x_del_frame_attributes _ X) (x_delete_obsolete_defines _ X) (x_delete_obsolete_ecus _ X)
    (x_compress_frames _ X) recalc_dlc_c pdu_stage.
(* foreign operations that do nothing: what the executable entry point (Run_C18.v) uses - the correspondence runs give
   only directly modelled options *)
Definition inert : foreign cmatrix :=
  mkForeign cmatrix (mkCMatrix [] 0) (fun _ _ _ _ t => t) (fun _ _ t => t) (fun _ _ t => Some t) (fun _ _ t => t) (fun _ m => Some m)
    (fun _ _ m => m) (fun _ m => m) (fun _ _ m => Some m) (fun _ m => m) (fun _ _ m => Some m) (fun _ m => m)
    (fun m => m) (fun _ m => m) (fun _ m => m) (fun m => m) (fun m => m) (fun _ m => Some m).

(* ============================================================================================================ *)
(* vocabulary of the statements                                                                                  *)

Definition frames_distinct (m : cmatrix) : Prop := NoDup (map cf_uid (cm_frames m)).
Definition signals_distinct (m : cmatrix) : Prop := Forall (fun f => NoDup (map cs_uid (cf_signals f))) (cm_frames m).
Definition frame_names_unique (m : cmatrix) : Prop := NoDup (map cf_name (cm_frames m)).
Definition frame_ids_unique (m : cmatrix) : Prop := NoDup (map cf_id (cm_frames m)).
Definition no_containers (m : cmatrix) : Prop := Forall (fun f => cf_pdus f = []) (cm_frames m).
Definition no_char (c : Z) (s : str) : Prop := ~ In c s.
Definition plain_name (s : str) : Prop := no_char COMMA s /\ no_char COLON s.
Definition mem_name (n : str) (l : list str) : bool := existsb (name_eqb n) l.
(* a command line names each option at most once *)
Definition once (cl : cmdline) : Prop := NoDup (map (fun p => okind_code (fst p)) cl).

(* one tuple of --changeFrameId acting on the frame list: the first frame carrying the old number gets the new one *)
Definition change_step (l : list cframe) (p : Z * Z) : list cframe :=
  match frame_with_id (fst p) l with
  | None => l
  | Some f => upd_frame (cf_uid f) (fun g => with_id g (snd p)) l
  end.
Definition render_id_pair (p : Z * Z) : str * str := (render_int (fst p), render_int (snd p)).

(* a 29-bit frame, for the witnesses *)
Definition ext_frame (i : Z) : cframe := mkCFrame 1 [70] i true 8 false [] [] [] [] [] 0.
(* the PDU rewrite: where the signals of one PDU end up, the offset behind the header signals, the frame's own signals *)
Definition pdu_moved (off : Z) (p : cpdu) : list csignal :=
  map (fun s => sig_with_mux s false (Some (p_id p)) (cs_start s + off)) (p_signals p).

Definition header_offset (f : cframe) : Z :=
  match signal_named s_header_id (cf_signals f), signal_named s_header_dlc (cf_signals f) with
  | Some a, Some b => cs_size a + cs_size b
  | _, _ => 0
  end.
Definition header_marked (f : cframe) : list csignal :=
  match signal_named s_header_id (cf_signals f), signal_named s_header_dlc (cf_signals f) with
  | Some _, Some _ => mark_first_named s_header_id (cf_signals f)
  | _, _ => cf_signals f
  end.

(* the stages a command line activates, in pipeline order, and their composition *)
Definition sorted_active (cl : cmdline) : list (okind * str) :=
  flat_map (fun k => match active k cl with Some a => [(k, a)] | None => [] end) post_order.
Definition run_list {M} (O : ops M) (l : list (okind * str)) (m : M) : option M :=
  fold_opt (fun ka => stage O (fst ka) (snd ka)) l m.

(* an argument counts: the option is not one that is tested by truth value, or the argument is not empty *)
Definition counts (k : okind) (a : str) : Prop := by_truth k = true -> is_switch k = false -> a <> [].

Definition is_selection (k : okind) : bool := match k with KEcus | KFrames | KSignals => true | _ => false end.

