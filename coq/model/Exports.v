(* C19: the numbers the one-way exporters write for one signal, and - as explicit definitions - how the target
   tool reads such numbers.  Definitions only.

   Writers mirrored (src/canmatrix/formats/):
     scapy.py      signal_field_line (~50), get_fmt (~35)
     wireshark.py  get_coorect_bits_for_signal (~30), create_dissect_signal (~41)
     fibex.py      create_signal_instance (~80), get_multiplexing_parts_infos (~113), get_base_data_type (~128),
                   MULTIPLEXER/SWITCH in dump (~606, with fix C19_fibex_switch_position: written like a signal instance)
     xls_common.py get_signal (~62) as used by csv.py dump (~85), option xlsMotorolaBitFormat
     json.py       dump, jsonExportCanard branch (~52-66)

   Tool conventions (TRUSTED TRANSCRIPTIONS, the tools are not run here; the harness prints the same text
   into the evidence):
     T-SCAPY  scapy.layers.can.SignalField.getfield: '<': value = (little-endian integer of the payload >> start)
              masked to `size` bits; '>': start is looked up in the table 7..0,15..8,... (= flip) and the value is
              the `size` bits of the big-endian integer beginning at that sequential position.  Generalised from
              Scapy's 8 payload bytes to any length.  fmt[-1]: 'f' float, lower case signed, upper case unsigned.
     T-WIRESHARK  Lua TvbRange:bitfield(off, len): the len bits beginning off bits after the start of the range,
              counted most-significant-bit first, as an unsigned big-endian number; reversed_pdu is the payload
              with its dlc bytes in reverse order (do_reverse_pdu in the generated file itself).
     T-FIBEX  = the convention canmatrix's own FIBEX importer implements (fibex.py get_signals_for_pdu ~269-324; the
              ASAM text is not available offline): BIT-POSITION (+ the start of the PDU the instance lives in) is
              handed to set_startbit(bitNumbering=1): Intel = LSB0 number of the least significant bit, Motorola
              (IS-HIGH-LOW-BYTE-ORDER true) = LSB0 number of the MOST significant bit (DBC start bit).  CODED-TYPE
              BASE-DATA-TYPE A_UINT*/A_INT*/A_FLOAT*, BIT-LENGTH = width.  Switched/static PDUs of a MULTIPLEXER
              (the importer does not read them): the PDU starts at its SEGMENT-POSITION, as a PDU-INSTANCE starts
              at its BIT-POSITION in the importer: frame position = segment BIT-POSITION + BIT-POSITION.
     T-CSV    start = 8*(byte column - 1) + bit column.  Intel: LSB0 number of the LSB.  Motorola, per
              xlsMotorolaBitFormat: msb = LSB0 number of the MSB; lsb = LSB0 number of the LSB; msbreverse =
              sequential MSB0 number of the MSB (bit 0 = a byte's most significant bit).
     T-CANARD CANard Message.parse_frame: value = (little-endian integer of the payload >> key) masked to
              bit_length bits; no byte order, no sign.

   All position lists are in sequential MSB0 numbering (index into Codec.big), most significant bit first. *)
From CM Require Import lib.Prelude model.Startbit model.Codec.

(* 0, 1, ..., n-1: index j counted from the most significant bit of a field *)
Definition msf (n : Z) : list Z := map Z.of_nat (seq 0 (Z.to_nat n)).

(* the signal's own payload bits (Codec.pos_of), most significant first *)
Definition spec_positions (s : signal) : list Z :=
  map (fun j => pos_of s (Z.to_nat (s_size s - 1 - j))) (msf (s_size s)).

(* ---------- Scapy ---------- *)
Record scapy_field := mkScapy {
  sf_start : Z; sf_size : Z;
  sf_big : bool;          (* fmt[0]: false '<', true '>' *)
  sf_type : Z             (* fmt[1]: 0 'B', 1 'b', 2 'f' *)
}.
Definition scapy_emit (s : signal) : scapy_field :=
  mkScapy (get_startbit (s_le s) (s_size s) (s_start s) (Some 1) false) (s_size s) (negb (s_le s))
          (if s_float s then 2 else if s_signed s then 1 else 0).
Definition scapy_positions (f : scapy_field) : list Z :=
  map (fun j => if sf_big f then flip (sf_start f) + j else flip (sf_start f + sf_size f - 1 - j)) (msf (sf_size f)).
(* what Scapy takes from fmt: (little endian, signed integer, float) *)
Definition scapy_reads_fmt (f : scapy_field) : bool * bool * bool :=
  (negb (sf_big f), sf_type f =? 1, sf_type f =? 2).

(* ---------- Wireshark ---------- *)
Record ws_field := mkWs {
  wf_rev : bool;                 (* true: reversed_pdu, false: pdu *)
  wf_off : Z; wf_len : Z;
  wf_fix : option (Z * Z)        (* sign fix-up: (offset of the probed bit, constant subtracted when it is 1) *)
}.
Definition ws_offset (fsize : Z) (s : signal) : Z :=
  if s_le s then fsize * 8 - s_start s - s_size s else s_start s.
Definition ws_emit (fsize : Z) (s : signal) : ws_field :=
  mkWs (s_le s) (ws_offset fsize s) (s_size s)
       (if s_signed s && negb (s_float s) then Some (ws_offset fsize s, Z.shiftl 1 (s_size s)) else None).
(* payload positions of bitfield(off,len) on a range of dlc bytes *)
Definition ws_positions (dlc : Z) (f : ws_field) : list Z :=
  map (fun j => let q := wf_off f + j in
                if wf_rev f then 8 * (dlc - 1 - q / 8) + q mod 8 else q) (msf (wf_len f)).
(* bitfield on a bit string; None where Lua raises (range exceeded) *)
Definition ws_bitfield (bits : list bool) (off len : Z) : option Z :=
  if (0 <=? off) && (1 <=? len) && (off + len <=? zlen bits) then Some (bin_value (py_slice bits off (off + len)))
  else None.
Definition ws_read (d : list Z) (f : ws_field) : option Z :=
  let range := if wf_rev f then little d else big d in
  match ws_bitfield range (wf_off f) (wf_len f) with
  | None => None
  | Some u =>
      match wf_fix f with
      | None => Some u
      | Some (p, k) =>
          match ws_bitfield range p 1 with
          | None => None
          | Some b => Some (if b =? 1 then u - k else u)
          end
      end
  end.

(* ---------- FIBEX ---------- *)
Record fx_field := mkFx {
  fx_pos : Z; fx_hilo : bool; fx_len : Z;
  fx_kind : Z;      (* BASE-DATA-TYPE: 0 A_UINTn, 1 A_INTn, 2 A_FLOATn, -1 attribute absent *)
  fx_width : Z
}.
Definition fibex_base_type (s : signal) : Z * Z :=
  let k := if s_signed s then 1 else 0 in
  let z := s_size s in
  if s_float s then (2, if z <=? 32 then 32 else 64)
  else if (0 <? z) && (z <=? 8) then (k, 8)
  else if (8 <? z) && (z <=? 16) then (k, 16)
  else if (16 <? z) && (z <=? 32) then (k, 32)
  else if (32 <? z) && (z <=? 64) then (k, 64)
  else (-1, 0).
Definition fibex_emit (s : signal) : fx_field :=
  mkFx (get_startbit (s_le s) (s_size s) (s_start s) (Some 1) false) (negb (s_le s)) (s_size s)
       (fst (fibex_base_type s)) (snd (fibex_base_type s)).
Definition fibex_positions (f : fx_field) : list Z :=
  map (fun j => if fx_hilo f then flip (fx_pos f) + j
                else flip (fx_pos f + fx_len f - 1 - j)) (msf (fx_len f)).
Definition fibex_reads_type (f : fx_field) : bool * bool := (fx_kind f =? 1, fx_kind f =? 2).   (* signed, float *)

(* multiplexed frames: the signals of the dynamic part / of the static part are written into PDUs of their own,
   with the SAME numbers as in a plain frame (create_signal_instance), and the part's PDU is placed at a
   SEGMENT-POSITION that get_multiplexing_parts_infos computes as [smallest internal start bit, largest
   start + size) over the part's signals.  KNOWN FINDING fibex-mux-segment: the two do not fit together
   unless the segment starts at bit 0. *)
Definition seg_step (acc : Z * Z) (s : signal) : Z * Z :=
  let end_pos := s_start s + s_size s in
  ((if (fst acc =? -1) || (s_start s <? fst acc) then s_start s else fst acc),
   (if (snd acc =? -1) || (snd acc <? end_pos) then end_pos else snd acc)).
Definition seg_range (init : Z * Z) (sigs : list signal) : Z * Z := fold_left seg_step sigs init.
(* T-FIBEX: a signal instance inside a PDU that is placed at segment_pos *)
Definition fibex_in_frame (segment_pos : Z) (f : fx_field) : fx_field :=
  mkFx (segment_pos + fx_pos f) (fx_hilo f) (fx_len f) (fx_kind f) (fx_width f).

(* ---------- CSV (xls_common.get_signal) ---------- *)
(* option: 0 "msb", 1 "msbreverse" (default), anything else "lsb" *)
Definition csv_start (opt : Z) (s : signal) : Z :=
  if opt =? 0 then get_startbit (s_le s) (s_size s) (s_start s) (Some 1) false
  else if opt =? 1 then get_startbit (s_le s) (s_size s) (s_start s) None false
  else get_startbit (s_le s) (s_size s) (s_start s) (Some 1) true.
Record csv_cells := mkCsv { cv_byte : Z; cv_bit : Z; cv_len : Z; cv_motorola : bool; cv_signed : bool }.
(* int(start_bit / 8) + 1 truncates towards zero; start_bit % 8 is the floor remainder *)
Definition csv_emit (opt : Z) (s : signal) : csv_cells :=
  let st := csv_start opt s in
  mkCsv (Z.quot st 8 + 1) (st mod 8) (s_size s) (negb (s_le s)) (s_signed s).
Definition csv_positions (opt : Z) (c : csv_cells) : list Z :=
  let n := 8 * (cv_byte c - 1) + cv_bit c in
  map (fun j => if negb (cv_motorola c) then flip (n + cv_len c - 1 - j)
                else if opt =? 0 then flip n + j
                else if opt =? 1 then n + j
                else flip n - (cv_len c - 1 - j)) (msf (cv_len c)).

(* ---------- Canard ---------- *)
Definition canard_key (s : signal) : Z := get_startbit (s_le s) (s_size s) (s_start s) (Some 1) true.
Definition canard_positions (key len : Z) : list Z := map (fun j => flip (key + len - 1 - j)) (msf len).
(* a Motorola signal that stays inside one byte occupies the same bits as the Intel signal with the same LSB *)
Definition one_byte (s : signal) : bool := s_start s / 8 =? (s_start s + s_size s - 1) / 8.
