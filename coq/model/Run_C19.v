(* Executable entry point for C19 (commands 1901-1999): integer groups -> model/Exports.v calls.
   A signal group is [start; size; le; signed; float] (internal start bit). *)
From CM Require Import lib.Prelude model.RunBase model.Startbit model.Codec model.Exports.

Definition sig19 (g : list Z) : signal :=
  mkSignal 0 (nthz g 0) (nthz g 1) (zb (nthz g 2)) (zb (nthz g 3)) (zb (nthz g 4)).

(* 1901: [sig] -> [start; size; big; type]  (Scapy SignalField arguments; type 0 'B' 1 'b' 2 'f') *)
Definition run_1901 (g : list Z) : io :=
  let f := scapy_emit (sig19 g) in [[sf_start f; sf_size f; bz (sf_big f); sf_type f]].
(* 1902: [fsize] | [sig] -> [reversed; off; len; probe offset or -1; constant or 0]  (Lua bitfield + fix-up) *)
Definition run_1902 (h g : list Z) : io :=
  let f := ws_emit (nthz h 0) (sig19 g) in
  [[bz (wf_rev f); wf_off f; wf_len f;
    match wf_fix f with Some (p, _) => p | None => -1 end;
    match wf_fix f with Some (_, k) => k | None => 0 end]].
(* 1903: [sig] -> [BIT-POSITION; high-low; BIT-LENGTH; kind; width] of a SIGNAL-INSTANCE (also inside switched/static PDUs)
   1907: [sig] -> [BIT-POSITION; high-low; BIT-LENGTH] of the MULTIPLEXER/SWITCH element (fix C19_fibex_switch_position)
   1909: sig ... -> [segment start; segment end] of a part holding these signals *)
Definition fx_out (f : fx_field) : io := [[fx_pos f; bz (fx_hilo f); fx_len f; fx_kind f; fx_width f]].
Definition run_1903 (g : list Z) : io := fx_out (fibex_emit (sig19 g)).
Definition run_1907 (g : list Z) : io :=
  let f := fibex_emit (sig19 g) in [[fx_pos f; bz (fx_hilo f); fx_len f]].
Definition run_1909 (sgs : io) : io := let r := seg_range (-1, -1) (map sig19 sgs) in [[fst r; snd r]].
(* 1904: [opt] | [sig] -> [byte; bit; length; motorola; signed] *)
Definition run_1904 (h g : list Z) : io :=
  let c := csv_emit (nthz h 0) (sig19 g) in
  [[cv_byte c; cv_bit c; cv_len c; bz (cv_motorola c); bz (cv_signed c)]].
(* 1905: [sig] -> [key; bit_length] *)
Definition run_1905 (g : list Z) : io := [[canard_key (sig19 g); s_size (sig19 g)]].

(* tool conventions applied to emitted numbers -> payload positions *)
(* 1911: [start; size; big] ; 1912: [dlc; reversed; off; len] ; 1913: [pos; hilo; len] ;
   1914: [opt; byte; bit; len; motorola] ; 1915: [key; len] ; 1920: [sig] -> the signal's own positions *)
Definition run_1911 (g : list Z) : io := [scapy_positions (mkScapy (nthz g 0) (nthz g 1) (zb (nthz g 2)) 0)].
Definition run_1912 (g : list Z) : io :=
  [ws_positions (nthz g 0) (mkWs (zb (nthz g 1)) (nthz g 2) (nthz g 3) None)].
Definition run_1913 (g : list Z) : io := [fibex_positions (mkFx (nthz g 0) (zb (nthz g 1)) (nthz g 2) 0 0)].
Definition run_1914 (g : list Z) : io :=
  [csv_positions (nthz g 0) (mkCsv (nthz g 1) (nthz g 2) (nthz g 3) (zb (nthz g 4)) false)].
Definition run_1915 (g : list Z) : io := [canard_positions (nthz g 0) (nthz g 1)].
Definition run_1920 (g : list Z) : io := [spec_positions (sig19 g)].

(* 1921: [reversed; off; len; probe or -1; constant] | payload -> [0] (Lua error) or [1; value] *)
Definition run_1921 (g d : list Z) : io :=
  let fix_ := if nthz g 3 <? 0 then None else Some (nthz g 3, nthz g 4) in
  match ws_read d (mkWs (zb (nthz g 0)) (nthz g 1) (nthz g 2) fix_) with
  | None => [[0]]
  | Some v => [[1; v]]
  end.

Definition run_c19 (cmd : Z) (a : io) : io :=
  match cmd, a with
  | 1901, [g] => run_1901 g
  | 1902, [h; g] => run_1902 h g
  | 1903, [g] => run_1903 g
  | 1907, [g] => run_1907 g
  | 1909, sgs => run_1909 sgs
  | 1904, [h; g] => run_1904 h g
  | 1905, [g] => run_1905 g
  | 1911, [g] => run_1911 g
  | 1912, [g] => run_1912 g
  | 1913, [g] => run_1913 g
  | 1914, [g] => run_1914 g
  | 1915, [g] => run_1915 g
  | 1920, [g] => run_1920 g
  | 1921, [g; d] => run_1921 g d
  | _, _ => [[-999]]
  end.
