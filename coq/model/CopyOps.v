(* Hand model of src/canmatrix/copy.py (copy_ecu ~31, copy_ecu_with_frames ~73, copy_signal ~126, copy_frame ~161)
   and of the parts of src/canmatrix/canmatrix.py they use: Ecu/Frame/Signal.attribute (~90, ~1042, ~251),
   add_attribute, Define (~1692: set_default, update), add_*_defines (~1877), add_define_default (~1927),
   frame_by_id (~1983, as a scan: the memo is C10's subject), ecu_by_name (~2072), glob_ecus, add_frame, add_signal,
   add_ecu (~2206), del_ecu (~2218), update_ecu_list (~2235), CanMatrix.merge (~2367).  Definitions only.

   The code modelled is the REPAIRED code: commit cc0f6c0 (signal define defaults guarded like frame/ECU ones) plus
   /verif/fixes/C12_copy_ecu_existing.patch (copy_ecu skips an ECU whose name the target already lists) and
   /verif/fixes/C12_direct_ecu_only_by_name.patch (the wanted-ECU test of direct_ecu_only compares names).

   Conventions.  Names, strings, value tables and the layout/type/scaling of a signal are interned as integers (Z);
   `None` comments / defaults are -1 resp. `option`.  Python dicts are association lists in insertion order with
   unique keys (`aset` = `d[k] = v`: keeps the position of an existing key, appends a new one).
   m_err = a Python exception was raised (AttributeError / TypeError / KeyError paths); it is sticky and the
   harness compares states only when it is clear on both sides.
   Outside the model (envelope of the harness generator): attribute names equal to attrs FIELD names of the classes
   ("name", "size", ...: Frame/Signal.attribute return the field then), names/values with surrounding blanks
   (add_ecu compares stripped names, add_attribute strips values), defaults wrapped in double quotes (set_default
   unquotes), frame.receivers (recomputed by update_receiver), source and target being the same object.
   An ENUM definition's string is `ENUM "v1","v2",...` rebuilt from d_values by Define.update(); the normal form keeps
   d_def = 0 for ENUM definitions and the harness checks string = render(values) on the implementation. *)
From CM Require Import lib.Prelude.

(* ---------- dicts and small list helpers ---------- *)
Fixpoint lookup {A} (k : Z) (l : list (Z * A)) : option A :=
  match l with
  | [] => None
  | kv :: r => if fst kv =? k then Some (snd kv) else lookup k r
  end.
Definition mem {A} (k : Z) (l : list (Z * A)) : bool :=
  match lookup k l with Some _ => true | None => false end.
Fixpoint aset {A} (k : Z) (v : A) (l : list (Z * A)) : list (Z * A) :=
  match l with
  | [] => [(k, v)]
  | kv :: r => if fst kv =? k then (fst kv, v) :: r else kv :: aset k v r
  end.
Fixpoint memz (x : Z) (l : list Z) : bool :=
  match l with [] => false | y :: r => (y =? x) || memz x r end.
(* modify the first element satisfying p (identity when there is none) / the last element *)
Fixpoint upd_first {A} (p : A -> bool) (g : A -> A) (l : list A) : list A :=
  match l with
  | [] => []
  | x :: r => if p x then g x :: r else x :: upd_first p g r
  end.
Fixpoint upd_last {A} (g : A -> A) (l : list A) : list A :=
  match l with
  | [] => []
  | [x] => [g x]
  | x :: r => x :: upd_last g r
  end.
(* list.remove(x) with == given by p: drops the first match *)
Fixpoint remove_first {A} (p : A -> bool) (l : list A) : list A :=
  match l with
  | [] => []
  | x :: r => if p x then r else x :: remove_first p r
  end.
Definition opt_eqb (a b : option Z) : bool :=
  match a, b with
  | Some x, Some y => x =? y
  | None, None => true
  | _, _ => false
  end.
Definition is_none {A} (o : option A) : bool := match o with None => true | Some _ => false end.

(* ---------- the matrix ---------- *)
(* define categories, in the order add_define_default visits them *)
Inductive cat := CSig | CFrame | CEcu | CGlob.

(* Define: d_ty 1 = 'ENUM', anything else = INT/HEX/FLOAT/STRING/None (no `.values`) *)
Record define := mkDef { d_def : Z; d_ty : Z; d_default : option Z; d_values : list Z }.
Definition is_enum (d : define) : bool := d_ty d =? 1.
Definition defs := list (Z * define).

Record ecu := mkEcu { e_name : Z; e_comment : Z; e_attrs : list (Z * Z) }.
Record signal := mkSig { s_name : Z; s_payload : Z; s_receivers : list Z; s_values : Z; s_attrs : list (Z * Z) }.
Record frame := mkFrame { f_id : Z; f_ext : bool; f_name : Z; f_size : Z; f_tx : list Z; f_comment : Z;
                          f_rest : Z; f_attrs : list (Z * Z); f_sigs : list signal }.
Record matrix := mkMatrix { m_ecus : list ecu; m_frames : list frame; m_sigs : list signal;
                            m_sdefs : defs; m_fdefs : defs; m_edefs : defs; m_gdefs : defs;
                            m_gattrs : list (Z * Z); m_env : list (Z * Z); m_err : bool }.

Definition empty_matrix : matrix := mkMatrix [] [] [] [] [] [] [] [] [] false.

Definition set_ecus (x : list ecu) (t : matrix) : matrix :=
  mkMatrix x (m_frames t) (m_sigs t) (m_sdefs t) (m_fdefs t) (m_edefs t) (m_gdefs t) (m_gattrs t) (m_env t) (m_err t).
Definition set_frames (x : list frame) (t : matrix) : matrix :=
  mkMatrix (m_ecus t) x (m_sigs t) (m_sdefs t) (m_fdefs t) (m_edefs t) (m_gdefs t) (m_gattrs t) (m_env t) (m_err t).
Definition set_sigs (x : list signal) (t : matrix) : matrix :=
  mkMatrix (m_ecus t) (m_frames t) x (m_sdefs t) (m_fdefs t) (m_edefs t) (m_gdefs t) (m_gattrs t) (m_env t) (m_err t).
Definition set_env (x : list (Z * Z)) (t : matrix) : matrix :=
  mkMatrix (m_ecus t) (m_frames t) (m_sigs t) (m_sdefs t) (m_fdefs t) (m_edefs t) (m_gdefs t) (m_gattrs t) x (m_err t).
Definition set_err (t : matrix) : matrix :=
  mkMatrix (m_ecus t) (m_frames t) (m_sigs t) (m_sdefs t) (m_fdefs t) (m_edefs t) (m_gdefs t) (m_gattrs t) (m_env t) true.
Definition get_defs (c : cat) (t : matrix) : defs :=
  match c with CSig => m_sdefs t | CFrame => m_fdefs t | CEcu => m_edefs t | CGlob => m_gdefs t end.
Definition set_defs (c : cat) (x : defs) (t : matrix) : matrix :=
  match c with
  | CSig => mkMatrix (m_ecus t) (m_frames t) (m_sigs t) x (m_fdefs t) (m_edefs t) (m_gdefs t) (m_gattrs t) (m_env t) (m_err t)
  | CFrame => mkMatrix (m_ecus t) (m_frames t) (m_sigs t) (m_sdefs t) x (m_edefs t) (m_gdefs t) (m_gattrs t) (m_env t) (m_err t)
  | CEcu => mkMatrix (m_ecus t) (m_frames t) (m_sigs t) (m_sdefs t) (m_fdefs t) x (m_gdefs t) (m_gattrs t) (m_env t) (m_err t)
  | CGlob => mkMatrix (m_ecus t) (m_frames t) (m_sigs t) (m_sdefs t) (m_fdefs t) (m_edefs t) x (m_gattrs t) (m_env t) (m_err t)
  end.

Definition set_e_attrs (x : list (Z * Z)) (e : ecu) : ecu := mkEcu (e_name e) (e_comment e) x.
Definition set_s_attrs (x : list (Z * Z)) (s : signal) : signal :=
  mkSig (s_name s) (s_payload s) (s_receivers s) (s_values s) x.
Definition set_s_receivers (x : list Z) (s : signal) : signal :=
  mkSig (s_name s) (s_payload s) x (s_values s) (s_attrs s).
Definition set_f_attrs (x : list (Z * Z)) (f : frame) : frame :=
  mkFrame (f_id f) (f_ext f) (f_name f) (f_size f) (f_tx f) (f_comment f) (f_rest f) x (f_sigs f).
Definition set_f_sigs (x : list signal) (f : frame) : frame :=
  mkFrame (f_id f) (f_ext f) (f_name f) (f_size f) (f_tx f) (f_comment f) (f_rest f) (f_attrs f) x.
Definition set_f_tx (x : list Z) (f : frame) : frame :=
  mkFrame (f_id f) (f_ext f) (f_name f) (f_size f) x (f_comment f) (f_rest f) (f_attrs f) (f_sigs f).

(* ---------- effective attribute value ---------- *)
(* Ecu.attribute / Frame.attribute / Signal.attribute (name, db): explicit value, else the default of the definition
   of that category in db, else None *)
Definition obj_attribute (oattrs : list (Z * Z)) (a : Z) (ds : defs) : option Z :=
  match lookup a oattrs with
  | Some v => Some v
  | None => match lookup a ds with Some d => d_default d | None => None end
  end.
Definition eff_ecu (m : matrix) (e : ecu) (a : Z) : option Z := obj_attribute (e_attrs e) a (m_edefs m).
Definition eff_frame (m : matrix) (f : frame) (a : Z) : option Z := obj_attribute (f_attrs f) a (m_fdefs m).
Definition eff_sig (m : matrix) (s : signal) (a : Z) : option Z := obj_attribute (s_attrs s) a (m_sdefs m).
(* CanMatrix.attribute *)
Definition eff_glob (m : matrix) (a : Z) : option Z := obj_attribute (m_gattrs m) a (m_gdefs m).

(* ---------- lookups ---------- *)
Definition arbid := (Z * bool)%type.
Definition id_eqb (a b : arbid) : bool := (fst a =? fst b) && Bool.eqb (snd a) (snd b).
Definition fid (f : frame) : arbid := (f_id f, f_ext f).
Fixpoint frame_by_id (id : arbid) (fs : list frame) : option frame :=
  match fs with
  | [] => None
  | f :: r => if id_eqb (fid f) id then Some f else frame_by_id id r
  end.
Fixpoint ecu_by_name (n : Z) (es : list ecu) : option ecu :=
  match es with
  | [] => None
  | e :: r => if e_name e =? n then Some e else ecu_by_name n r
  end.
(* a name pattern (fnmatch), given by what it selects: None = "*" (every name), Some l = exactly the names in l.  Names are
   interned, so the spelling of a pattern ('?', '[seq]', '[!seq]', 'prefix*') stays outside the model: the harness resolves it
   with its own matcher over the names of the source and hands the selected names over *)
Definition glob := option (list Z).
Definition glob_match (g : glob) (n : Z) : bool :=
  match g with None => true | Some l => memz n l end.
Definition glob_ecus (g : glob) (m : matrix) : list ecu := filter (fun e => glob_match g (e_name e)) (m_ecus m).

(* ---------- primitive edits ---------- *)
(* add_ecu: nothing if the name is already listed *)
Definition add_ecu (e : ecu) (t : matrix) : matrix :=
  if existsb (fun b => e_name b =? e_name e) (m_ecus t) then t else set_ecus (m_ecus t ++ [e]) t.
Definition add_frame (f : frame) (t : matrix) : matrix := set_frames (m_frames t ++ [f]) t.
Definition add_signal (s : signal) (t : matrix) : matrix := set_sigs (m_sigs t ++ [s]) t.

(* Define(definition): a fresh definition object has no default; for ENUM its values are parsed from the string *)
Definition new_define (sd : define) : define := mkDef (d_def sd) (d_ty sd) None (d_values sd).
Definition set_default (v : option Z) (d : define) : define := mkDef (d_def d) (d_ty d) v (d_values d).
Definition set_default_in (a : Z) (v : option Z) (ds : defs) : defs :=
  match lookup a ds with Some d => aset a (set_default v d) ds | None => ds end.
(* add_define_default: EVERY category that knows the name gets the default *)
Definition add_define_default (a : Z) (v : option Z) (t : matrix) : matrix :=
  let t1 := set_defs CSig (set_default_in a v (m_sdefs t)) t in
  let t2 := set_defs CFrame (set_default_in a v (m_fdefs t1)) t1 in
  let t3 := set_defs CEcu (set_default_in a v (m_edefs t2)) t2 in
  set_defs CGlob (set_default_in a v (m_gdefs t3)) t3.

(* the object of the target that receives an explicit value, located the way the code locates it *)
Inductive target_obj :=
| TEcu (name : Z)                      (* target_db.ecu_by_name(ecu.name) *)
| TFrame (id : arbid)                  (* target_db.frame_by_id(frame.arbitration_id) *)
| TSig (id : arbid) (sname : Z)        (* target_db.frame_by_id(...).signal_by_name(sig.name) *)
| TLastFree.                           (* the target_signal just appended to target_db.signals *)
Definition cat_of (o : target_obj) : cat :=
  match o with TEcu _ => CEcu | TFrame _ => CFrame | TSig _ _ => CSig | TLastFree => CSig end.

(* X.add_attribute(a, v) on the located object; None.add_attribute raises *)
Definition set_explicit (o : target_obj) (a v : Z) (t : matrix) : matrix :=
  match o with
  | TEcu n =>
      if existsb (fun e => e_name e =? n) (m_ecus t)
      then set_ecus (upd_first (fun e => e_name e =? n) (fun e => set_e_attrs (aset a v (e_attrs e)) e) (m_ecus t)) t
      else set_err t
  | TFrame id =>
      if existsb (fun f => id_eqb (fid f) id) (m_frames t)
      then set_frames (upd_first (fun f => id_eqb (fid f) id) (fun f => set_f_attrs (aset a v (f_attrs f)) f) (m_frames t)) t
      else set_err t
  | TSig id sn =>
      match frame_by_id id (m_frames t) with
      | None => set_err t
      | Some f0 =>
          if existsb (fun s => s_name s =? sn) (f_sigs f0)
          then set_frames (upd_first (fun f => id_eqb (fid f) id)
                             (fun f => set_f_sigs (upd_first (fun s => s_name s =? sn)
                                                     (fun s => set_s_attrs (aset a v (s_attrs s)) s) (f_sigs f)) f)
                             (m_frames t)) t
          else set_err t
      end
  | TLastFree => set_sigs (upd_last (fun s => set_s_attrs (aset a v (s_attrs s)) s) (m_sigs t)) t
  end.

(* ---------- one round of "for attribute in source_db.X_defines" ---------- *)
(* if attribute not in target_db.X_defines: add_X_defines(attribute, definition); add_define_default(attribute, default) *)
Definition ensure_define (c : cat) (a : Z) (sd : define) (t : matrix) : matrix :=
  if mem a (get_defs c t) then t
  else add_define_default a (d_default sd) (set_defs c (get_defs c t ++ [(a, new_define sd)]) t).

(* if source define is ENUM: temp = obj.attribute(a, source); if temp not in target define .values: append; update().
   A target definition that is not ENUM has no `.values` (AttributeError); temp = None makes update()'s join fail. *)
Definition enum_step (c : cat) (a : Z) (sd : define) (sv : option Z) (t : matrix) : matrix :=
  if is_enum sd then
    match lookup a (get_defs c t) with
    | None => set_err t
    | Some td =>
        if is_enum td then
          match sv with
          | None => set_err t
          | Some v =>
              if memz v (d_values td) then t
              else set_defs c (aset a (mkDef (d_def td) (d_ty td) (d_default td) (d_values td ++ [v])) (get_defs c t)) t
          end
        else set_err t
    end
  else t.

(* "only default value exists in source but is different to default value in target":
   if a not in obj.attributes and obj.attribute(a, source) is not None and obj.attribute(a, source) != obj.attribute(a, target):
       <located target object>.add_attribute(a, obj.attribute(a, source))
   (obj is the SOURCE object, so obj.attribute(a, target) is the target definition's default) *)
Definition explicit_step (o : target_obj) (a : Z) (oattrs : list (Z * Z)) (sv : option Z) (t : matrix) : matrix :=
  match lookup a oattrs with
  | Some _ => t
  | None =>
      match sv with
      | None => t
      | Some v => if opt_eqb (Some v) (obj_attribute oattrs a (get_defs (cat_of o) t)) then t else set_explicit o a v t
      end
  end.

(* oattrs = the source object's explicit attributes; ad = one item of source_db.X_defines.
   skip_none: the `if obj.attribute(a, source) is None: continue` of copy_ecu/copy_frame (absent in copy_signal);
   enum_first: the signal loops update the ENUM values before the explicit value, the ECU/frame loops after. *)
Definition attr_step (o : target_obj) (skip_none enum_first : bool) (oattrs : list (Z * Z)) (t : matrix)
           (ad : Z * define) : matrix :=
  let a := fst ad in
  let sd := snd ad in
  let sv := match lookup a oattrs with Some v => Some v | None => d_default sd end in   (* obj.attribute(a, source_db) *)
  if skip_none && is_none sv then t
  else
    let c := cat_of o in
    let t1 := ensure_define c a sd t in
    if enum_first then explicit_step o a oattrs sv (enum_step c a sd sv t1)
    else enum_step c a sd sv (explicit_step o a oattrs sv t1).

(* ---------- copy_ecu ---------- *)
(* body of `for ecu in ecu_list` (repaired: an ECU whose name the target already lists is left alone) *)
Definition copy_ecu_obj (e : ecu) (src t : matrix) : matrix :=
  match ecu_by_name (e_name e) (m_ecus t) with
  | Some _ => t
  | None => fold_left (attr_step (TEcu (e_name e)) true false (e_attrs e)) (m_edefs src) (add_ecu e t)
  end.
Definition copy_ecu (g : glob) (src t : matrix) : matrix :=
  fold_left (fun t e => copy_ecu_obj e src t) (glob_ecus g src) t.

(* ---------- copy_frame ---------- *)
(* if source_ecu is not None and target_ecu is None: copy_ecu(source_ecu, ...) *)
Definition bring_ecu (n : Z) (src t : matrix) : matrix :=
  match ecu_by_name n (m_ecus src), ecu_by_name n (m_ecus t) with
  | Some e, None => copy_ecu_obj e src t
  | _, _ => t
  end.
Definition copy_frame_body (f : frame) (src t : matrix) : matrix :=
  let t1 := add_frame f t in
  let t2 := fold_left (fun t n => bring_ecu n src t) (f_tx f) t1 in
  let t3 := fold_left (fun t s => fold_left (fun t n => bring_ecu n src t) (s_receivers s) t) (f_sigs f) t2 in
  let t4 := fold_left (attr_step (TFrame (fid f)) true false (f_attrs f)) (m_fdefs src) t3 in
  fold_left (fun t s => fold_left (attr_step (TSig (fid f) (s_name s)) true true (s_attrs s)) (m_sdefs src) t) (f_sigs f) t4.
(* result: the bool the function returns; an id the source does not have raises (None.name) *)
Definition copy_frame (id : arbid) (src t : matrix) : bool * matrix :=
  match frame_by_id id (m_frames src) with
  | None => (false, set_err t)
  | Some f =>
      match frame_by_id (fid f) (m_frames t) with
      | Some _ => (false, t)
      | None => (true, copy_frame_body f src t)
      end
  end.

(* ---------- copy_signal ---------- *)
Definition copy_one_signal (s : signal) (src t : matrix) : matrix :=
  fold_left (attr_step TLastFree false true (s_attrs s)) (m_sdefs src) (add_signal s t).
Definition copy_signal (g : glob) (src t : matrix) : matrix :=
  fold_left (fun t f => fold_left (fun t s => if glob_match g (s_name s) then copy_one_signal s src t else t) (f_sigs f) t)
            (m_frames src) t.

(* ---------- copy_ecu_with_frames ---------- *)
Definition blank_ecu (n : Z) : ecu := mkEcu n (-1) [].
Definition update_ecu_list (t : matrix) : matrix :=
  fold_left (fun t f =>
               let t1 := fold_left (fun t n => add_ecu (blank_ecu n) t) (f_tx f) t in
               fold_left (fun t s => fold_left (fun t n => add_ecu (blank_ecu n) t) (s_receivers s) t) (f_sigs f) t1)
            (m_frames t) t.
(* attrs-generated Ecu.__eq__: name, comment and the attribute dicts (as dicts) *)
Definition attrs_eqb (a b : list (Z * Z)) : bool :=
  Nat.eqb (length a) (length b) &&
  forallb (fun kv => match lookup (fst kv) b with Some v => v =? snd kv | None => false end) a.
Definition ecu_eqb (x y : ecu) : bool :=
  (e_name x =? e_name y) && (e_comment x =? e_comment y) && attrs_eqb (e_attrs x) (e_attrs y).
Definition del_from_frame (n : Z) (f : frame) : frame :=
  set_f_sigs (map (fun s => set_s_receivers (remove_first (fun r => r =? n) (s_receivers s)) s) (f_sigs f))
             (set_f_tx (remove_first (fun r => r =? n) (f_tx f)) f).
Definition del_ecu (e : ecu) (t : matrix) : matrix :=
  if existsb (ecu_eqb e) (m_ecus t)
  then set_frames (map (del_from_frame (e_name e)) (m_frames t)) (set_ecus (remove_first (ecu_eqb e) (m_ecus t)) t)
  else t.
Definition is_sender (n : Z) (t : matrix) : bool := existsb (fun f => memz n (f_tx f)) (m_frames t).
(* direct_ecu_only (repaired: wanted = one of the requested NAMES) *)
Definition direct_only (wanted : list Z) (t : matrix) : matrix :=
  fold_left (fun t e => del_ecu e t)
            (filter (fun e => negb (memz (e_name e) wanted) && negb (is_sender (e_name e) t)) (m_ecus t)) t.
Definition sends (n : Z) (f : frame) : bool := memz n (f_tx f).
Definition receives (n : Z) (f : frame) : bool := existsb (fun s => memz n (s_receivers s)) (f_sigs f).
Definition copy_frames_where (p : frame -> bool) (src t : matrix) : matrix :=
  fold_left (fun t f => if p f then snd (copy_frame (fid f) src t) else t) (m_frames src) t.
Definition copy_ecu_frames_one (rx tx : bool) (src t : matrix) (e : ecu) : matrix :=
  let ta := copy_ecu_obj e src t in
  let tb := if tx then copy_frames_where (sends (e_name e)) src ta else ta in
  if rx then copy_frames_where (receives (e_name e)) src tb else tb.
Definition copy_ecu_with_frames (g : glob) (rx tx direct : bool) (src t : matrix) : matrix :=
  let ecu_list := glob_ecus g src in
  let t1 := fold_left (copy_ecu_frames_one rx tx src) ecu_list t in
  let t2 := update_ecu_list t1 in
  if direct then direct_only (map e_name ecu_list) t2 else t2.

(* ---------- merge ---------- *)
Definition merge_env (src t : matrix) : matrix :=
  fold_left (fun t kv => if mem (fst kv) (m_env t) then t else set_env (m_env t ++ [kv]) t) (m_env src) t.
Definition merge_one (t src : matrix) : matrix :=
  merge_env src (fold_left (fun t f => snd (copy_frame (fid f) src t)) (m_frames src) t).
Definition merge (srcs : list matrix) (t : matrix) : matrix := fold_left merge_one srcs t.

(* ---------- histories ---------- *)
Inductive op :=
| OpCopyFrame (id : arbid) (src : matrix)
| OpCopyEcu (g : glob) (src : matrix)
| OpCopyEcuFrames (g : glob) (rx tx direct : bool) (src : matrix)
| OpCopySignal (g : glob) (src : matrix)
| OpMerge (srcs : list matrix).
Definition apply_op (t : matrix) (o : op) : matrix :=
  match o with
  | OpCopyFrame id src => snd (copy_frame id src t)
  | OpCopyEcu g src => copy_ecu g src t
  | OpCopyEcuFrames g rx tx direct src => copy_ecu_with_frames g rx tx direct src t
  | OpCopySignal g src => copy_signal g src t
  | OpMerge srcs => merge srcs t
  end.
Definition op_sources (o : op) : list matrix :=
  match o with
  | OpCopyFrame _ s | OpCopyEcu _ s | OpCopyEcuFrames _ _ _ _ s | OpCopySignal _ s => [s]
  | OpMerge srcs => srcs
  end.
Definition run_history (t : matrix) (ops : list op) : matrix := fold_left apply_op ops t.
