(* Executable entry point for C13 (commands 1301..1399): decodes integer groups into two matrices in the normal
   form of model/Compare.v, runs compare_db and prints the result tree in preorder.

   Stream of one matrix (groups, head = tag), in this order:
     [2; k; v; ...]                      global attributes
     [9; which; name; definition; default]*     defines, which: 0 global, 1 ecu, 2 frame, 3 signal
     [10; name; k; v; ...]*              global value tables
     ( [1; name; cpresent; comment]  [2; k; v; ...] )*                     ECUs
     ( [8; name; id; ext; size; cpresent; comment]  [5; tx...]  [2; k; v; ...]  [6; name; id; members...]*
        ( [7; name; start; size; le; signed; factor; offset; minp; min; maxp; max; muxkind; muxval; unit; cpresent; comment]
          [3; raw; stripped; ...]  [4; k; v; ...]  [2; k; v; ...] )* )*    frames with their signals
   muxkind: 0 None, 1 'Multiplexor', 2 int muxval.
   1301: [igc; iga; igd; igv] :: matrix A ++ [[99]] ++ matrix B
         -> [[0]] (TypeError) | [1] :: one group per node [depth; result; type; arg1; arg2; ref] in preorder
   1302: [check_comments; check_attributes; ignore_valuetables] -> [[igc; iga; igd; igv]] *)
From CM Require Import lib.Prelude model.RunBase model.Compare.

Definition hd0 (g : list Z) : Z := match g with x :: _ => x | [] => -1 end.

(* split at the groups whose head is `tag`: (groups before the first header, [(header, groups up to the next header)]) *)
Fixpoint chunks (tag : Z) (gs : io) : io * list (list Z * io) :=
  match gs with
  | [] => ([], [])
  | g :: r =>
      let pc := chunks tag r in
      if hd0 g =? tag then ([], (g, fst pc) :: snd pc) else (g :: fst pc, snd pc)
  end.

Fixpoint find_tag (tag : Z) (gs : io) : list Z :=
  match gs with
  | [] => []
  | g :: r => if hd0 g =? tag then tl g else find_tag tag r
  end.
Definition all_tag (tag : Z) (gs : io) : io := map (@tl Z) (filter (fun g => hd0 g =? tag) gs).

Fixpoint pairs_of (l : list Z) : list (Z * Z) :=
  match l with
  | a :: b :: r => (a, b) :: pairs_of r
  | _ => []
  end.

Definition optc (present v : Z) : option Z := if zb present then Some v else None.

Definition signal_of (c : list Z * io) : signal :=
  let h := tl (fst c) in let body := snd c in
  mkSignal (nthz h 0) (nthz h 1) (nthz h 2) (zb (nthz h 3)) (zb (nthz h 4)) (nthz h 5) (nthz h 6)
    (optc (nthz h 7) (nthz h 8)) (optc (nthz h 9) (nthz h 10))
    (match nthz h 11 with 0 => MuxNone | 1 => Multiplexor | _ => MuxVal (nthz h 12) end)
    (nthz h 13) (optc (nthz h 14) (nthz h 15))
    (pairs_of (find_tag 3 body)) (pairs_of (find_tag 4 body)) (pairs_of (find_tag 2 body)).

Definition group_of (g : list Z) : sgroup := mkGroup (nthz g 0) (nthz g 1) (tl (tl g)).

Definition frame_of (c : list Z * io) : frame :=
  let h := tl (fst c) in
  let pc := chunks 7 (snd c) in
  let own := fst pc in
  mkFrame (nthz h 0) (nthz h 1) (zb (nthz h 2)) (nthz h 3) (find_tag 5 own)
    (optc (nthz h 4) (nthz h 5)) (pairs_of (find_tag 2 own))
    (map signal_of (snd pc)) (map group_of (all_tag 6 own)).

Definition ecu_of (c : list Z * io) : ecu :=
  let h := tl (fst c) in
  mkEcu (nthz h 0) (optc (nthz h 1) (nthz h 2)) (pairs_of (find_tag 2 (snd c))).

Definition defines_of (which : Z) (gs : io) : defines :=
  map (fun g => (nthz g 1, (nthz g 2, nthz g 3))) (filter (fun g => nthz g 0 =? which) (all_tag 9 gs)).

Definition matrix_of (gs : io) : matrix :=
  let pf := chunks 8 gs in
  let pe := chunks 1 (fst pf) in
  let top := fst pe in
  mkMatrix (map frame_of (snd pf)) (map ecu_of (snd pe)) (pairs_of (find_tag 2 top))
    (defines_of 0 top) (defines_of 1 top) (defines_of 2 top) (defines_of 3 top)
    (map (fun g => (nthz g 0, pairs_of (tl g))) (all_tag 10 top)).

Definition ignore_of (g : list Z) : ignore :=
  mkIgnore (zb (nthz g 0)) (zb (nthz g 1)) (zb (nthz g 2)) (zb (nthz g 3)).
Definition ignore_out (i : ignore) : list Z := [bz (ig_comment i); bz (ig_attr i); bz (ig_def i); bz (ig_vt i)].

Definition rcode (r : cresult) : Z :=
  match r with REqual => 0 | RChanged => 1 | RAdded => 2 | RDeleted => 3 | RRemoved => 4 | RNone => 5 end.
Definition tcode (t : ctype) : list Z :=
  match t with
  | TNone => [0; 0; 0] | TFRAME => [1; 0; 0] | TSIGNAL => [2; 0; 0] | Tecu => [3; 0; 0] | TECU => [4; 0; 0]
  | TATTRIBUTES => [5; 0; 0] | TDefineList => [6; 0; 0] | TEcuDefines => [7; 0; 0] | TFrameDefines => [8; 0; 0]
  | TSignalDefines => [9; 0; 0] | Tvaluetable n => [10; n; 0] | TValuetable => [11; 0; 0] | TValue k => [12; k; 0]
  | TValueChanged k old => [13; k; old] | TSignalGroup => [14; 0; 0] | TSignalName => [15; 0; 0]
  | TMember n => [16; n; 0] | TDefine n => [17; n; 0] | TDefinition => [18; 0; 0] | TDefaultValue => [19; 0; 0]
  | TAttr n => [20; n; 0] | TName => [21; 0; 0] | Tdlc => [22; 0; 0] | TID => [23; 0; 0]
  | TFrameTransmitter => [24; 0; 0] | TSignalgroup => [25; 0; 0] | Tstartbit => [26; 0; 0]
  | Tsignalsize => [27; 0; 0] | Tfactor => [28; 0; 0] | Toffset => [29; 0; 0] | Tmin => [30; 0; 0]
  | Tmax => [31; 0; 0] | Tis_little_endian => [32; 0; 0] | Tsign => [33; 0; 0] | Tmultiplex => [34; 0; 0]
  | Tunit => [35; 0; 0] | Tcomment => [36; 0; 0] | Treceiver n => [37; n; 0]
  end.

Fixpoint flat (d : Z) (t : cres) : io :=
  match t with
  | Node r ty ref kids => ((d :: rcode r :: tcode ty) ++ [ref]) :: flat_map (flat (d + 1)) kids
  end.

Definition run_1301 (ig : list Z) (gs : io) : io :=
  let ab := chunks 99 gs in
  let a := matrix_of (fst ab) in
  let b := matrix_of (match snd ab with c :: _ => snd c | [] => [] end) in
  match compare_db (ignore_of ig) a b with
  | None => [[0]]
  | Some t => [1] :: flat 0 t
  end.

Definition run_1302 (g : list Z) : io :=
  [ignore_out (cli_ignore (zb (nthz g 0)) (zb (nthz g 1)) (zb (nthz g 2)))].

Definition run_c13 (cmd : Z) (a : io) : io :=
  match cmd, a with
  | 1301, ig :: gs => run_1301 ig gs
  | 1302, [g] => run_1302 g
  | _, _ => [[-999]]
  end.
