(* Executable entry points of model/FmtDbc.v for the correspondence runs of C05 (commands 501-599).
   Text = character codes.  Encodings of matrices and statements as integer groups are described at 520/521. *)
From CM Require Import lib.Prelude model.RunBase model.Startbit model.ArbId model.FmtDbc.

Definition ok_codes (o : option text) : io := match o with None => [[0]] | Some t => [1 :: t] end.

(* 501: [le; size; internal] -> [[dbc start]] ; 502: [le; size; dbc start] -> [[0]] | [[1; internal]] *)
Definition run_501 (g : list Z) : io := [[dbc_write_start (zb (nthz g 0)) (nthz g 1) (nthz g 2)]].
Definition run_502 (g : list Z) : io :=
  match dbc_read_start (zb (nthz g 0)) (nthz g 1) (nthz g 2) with None => [[0]] | Some i => [[1; i]] end.
(* 503: [id; ext] -> [[compound]] ; 504: [compound] -> [[0]] | [[1; id; ext]] *)
Definition run_503 (g : list Z) : io := [[dbc_write_id (nthz g 0, zb (nthz g 1))]].
Definition run_504 (g : list Z) : io :=
  match dbc_read_id (nthz g 0) with None => [[0]] | Some a => [[1; fst a; bz (snd a)]] end.
(* multiplex roles as [kind; n]: 0 none, 1 M, 2 m<n>, 3 m<n>M *)
Definition role_in (k n : Z) : mux_role :=
  if k =? 1 then MuxM else if k =? 2 then Muxm n else if k =? 3 then MuxmM n else MuxNone.
Definition role_out (r : mux_role) : list Z :=
  match r with MuxNone => [0; 0] | MuxM => [1; 0] | Muxm n => [2; n] | MuxmM n => [3; n] end.
(* 505: [mux_val or -1; is 'Multiplexor'] -> [[1; token codes]] ; 506: token codes -> [[0]] | [[1; kind; n]] *)
Definition run_505 (g : list Z) : io := [1 :: mux_token (role_of (optz (nthz g 0)) (zb (nthz g 1)))].
Definition run_506 (g : list Z) : io :=
  match parse_mux_token g with None => [[0]] | Some r => [1 :: role_out r] end.
(* 507: names (one group each) -> short names, [-1], (short, long) pairs as two groups each *)
Definition run_507 (a : io) : io :=
  w_short_names a ++ [[-1]] ++ flat_map (fun kv => [fst kv; snd kv]) (w_long_attrs a).
(* 517: names of the signals of one frame -> SG_ symbols (suffixed where shortened names collide), [-1], (symbol, long) pairs *)
Definition run_517 (a : io) : io :=
  w_out_names a ++ [[-1]] ++ flat_map (fun kv => [fst kv; snd kv]) (w_out_attrs a).
(* 508: short names, [-1], attribute pairs -> names after the reader's renaming *)
Fixpoint split_marker (a : io) (acc : io) : io * io :=
  match a with
  | [] => (rev acc, [])
  | g :: r => if leqb g [-1] then (rev acc, r) else split_marker r (g :: acc)
  end.
Fixpoint pairs_of (a : io) : list (text * text) :=
  match a with k :: v :: r => (k, v) :: pairs_of r | _ => [] end.
Definition run_508 (a : io) : io :=
  let sp := split_marker a [] in r_names (fst sp) (pairs_of (snd sp)).
(* 509: value | enum values -> [[0]] | [[1; key codes]] ; 510: key codes | enum values -> [[0]] | [[1; value codes]] *)
Definition run_509 (a : io) : io := match a with v :: vals => ok_codes (enum_to_key v vals) | [] => [[-999]] end.
Definition run_510 (a : io) : io := match a with k :: vals => ok_codes (enum_to_value k vals) | [] => [[-999]] end.
(* 511: [has attr; attr; I; O; F; MIN; MAX] -> [[0]] | [[1; raw]] ; 512: [has attr; attr; O; F; MIN; MAX] -> [[initial]] *)
Definition run_511 (g : list Z) : io :=
  match write_start_attr (if zb (nthz g 0) then Some (nthz g 1) else None) (nthz g 2) (nthz g 3) (nthz g 4) (nthz g 5) (nthz g 6) with
  | None => [[0]] | Some r => [[1; r]] end.
Definition run_512 (g : list Z) : io :=
  [[read_initial (if zb (nthz g 0) then Some (nthz g 1) else None) (nthz g 2) (nthz g 3) (nthz g 4) (nthz g 5)]].
(* 513: [z] -> [[1; codes]] ; 514: codes -> [[0]] | [[1; z]] *)
Definition run_513 (g : list Z) : io := [1 :: int_text (nthz g 0)].
Definition run_514 (g : list Z) : io := match text_int g with None => [[0]] | Some z => [[1; z]] end.

(* 515: [neg; exponent] | digit codes -> [[1; codes of format_float]] ; 516: codes -> [[0]] | [[1; neg; exponent]; digit codes] *)
Definition run_515 (h ds : list Z) : io := [1 :: format_float (zb (nthz h 0), ds, nthz h 1)].
Definition run_516 (g : list Z) : io :=
  match dec_parse g with None => [[0]] | Some (neg, ds, e) => [[1; bz neg; e]; ds] end.

(* 518: [neg; exponent] | digit codes | token codes -> [[1]] iff the token (the implementation's rendering of the number), read by the
   model of Decimal(text), denotes the same decimal VALUE as the number and as the model's own rendering; [[0]] otherwise.
   The exact text of a rendered number is not constrained by the property (only its value and the writer's fixed point), so the
   tie compares values: value-canonical form = digits without trailing zeros, exponent raised accordingly, zero as +0E0. *)
Fixpoint drop_zeros (r : list Z) (k : Z) : list Z * Z :=
  match r with
  | c :: r' => if c =? 48 then drop_zeros r' (k + 1) else (r, k)
  | [] => ([], k)
  end.
Definition dnorm (d : dec) : dec :=
  match d with
  | (neg, ds, e) =>
      match drop_zeros (rev (lstrip0 ds)) 0 with
      | ([], _) => (false, [48], 0)
      | (r, k) => (neg, rev r, e + k)
      end
  end.
Definition dec_eqb (a b : dec) : bool :=
  match a, b with (n1, d1, e1), (n2, d2, e2) => Bool.eqb n1 n2 && leqb d1 d2 && (e1 =? e2) end.
Definition run_518 (h ds tok : list Z) : io :=
  let d := (zb (nthz h 0), ds, nthz h 1) in
  match dec_parse tok, dec_parse (format_float d) with
  | Some a, Some b => [[bz (dec_eqb (dnorm a) (dnorm d) && dec_eqb (dnorm b) (dnorm d))]]
  | _, _ => [[0]]
  end.

(* ---- matrices and statements as groups ----
   matrix:     [10; name] ECU | [11; name] value table, [12; key; label] its rows |
               [20; id; ext; size] frame, [21; name], [22; transmitter]* |
               [30; start; size; le; signed; float; muxkind; muxn; f_m; f_e; o_m; o_e; min_m; min_e; max_m; max_e] signal,
               [31; name], [32; unit], [33; receiver]*, [34; key; label]*
   statements: [100] BU_, [101; name]* | [110; name] VAL_TABLE_, [111; key; label]* | [120; cid; size] BO_, [121; name], [122; tx] |
               [130; start; size; le; signed; muxkind; muxn; f_m; f_e; o_m; o_e; min_m; min_e; max_m; max_e] SG_, [131; name],
               [132; unit], [133; receiver]* | [140; cid] BO_TX_BU_, [141; tx]* | [150; cid] VAL_, [151; signal], [152; key; label]* |
               [160; cid; type] SIG_VALTYPE_, [161; signal] *)
Definition upd_last {A} (g : A -> A) (l : list A) : list A :=
  match rev l with [] => [] | x :: r => rev (g x :: r) end.
Definition sig0 : signal := mkSig [] 0 0 true false false (0, 0) (0, 0) (0, 0) (0, 0) [] [] MuxNone [].
Definition upd_last_sig (g : signal -> signal) (m : matrix) : matrix :=
  mkMatrix (m_ecus m) (m_vtabs m)
    (upd_last (fun f => mkFrame (f_id f) (f_name f) (f_size f) (f_tx f) (upd_last g (f_sigs f))) (m_frames m)).
Definition matrix_group (m : matrix) (g : list Z) : matrix :=
  match g with
  | 10 :: n => mkMatrix (m_ecus m ++ [n]) (m_vtabs m) (m_frames m)
  | 11 :: n => mkMatrix (m_ecus m) (m_vtabs m ++ [(n, [])]) (m_frames m)
  | 12 :: k :: l => mkMatrix (m_ecus m) (upd_last (fun t => (fst t, snd t ++ [(k, l)])) (m_vtabs m)) (m_frames m)
  | [20; id; ext; size] => mkMatrix (m_ecus m) (m_vtabs m) (m_frames m ++ [mkFrame (id, zb ext) [] size [] []])
  | 21 :: n => mkMatrix (m_ecus m) (m_vtabs m)
                 (upd_last (fun f => mkFrame (f_id f) n (f_size f) (f_tx f) (f_sigs f)) (m_frames m))
  | 22 :: n => mkMatrix (m_ecus m) (m_vtabs m)
                 (upd_last (fun f => mkFrame (f_id f) (f_name f) (f_size f) (f_tx f ++ [n]) (f_sigs f)) (m_frames m))
  | [30; start; size; le; sg; fl; mk; mn; fm; fe; om; oe; nm; ne; xm; xe] =>
      mkMatrix (m_ecus m) (m_vtabs m)
        (upd_last (fun f => mkFrame (f_id f) (f_name f) (f_size f) (f_tx f)
           (f_sigs f ++ [mkSig [] start size (zb le) (zb sg) (zb fl) (fm, fe) (om, oe) (nm, ne) (xm, xe) [] [] (role_in mk mn) []]))
           (m_frames m))
  | 31 :: n => upd_last_sig (fun s => mkSig n (s_start s) (s_size s) (s_le s) (s_signed s) (s_float s) (s_factor s) (s_offset s)
                                         (s_min s) (s_max s) (s_unit s) (s_receivers s) (s_mux s) (s_values s)) m
  | 32 :: u => upd_last_sig (fun s => mkSig (s_name s) (s_start s) (s_size s) (s_le s) (s_signed s) (s_float s) (s_factor s) (s_offset s)
                                         (s_min s) (s_max s) u (s_receivers s) (s_mux s) (s_values s)) m
  | 33 :: r => upd_last_sig (fun s => mkSig (s_name s) (s_start s) (s_size s) (s_le s) (s_signed s) (s_float s) (s_factor s) (s_offset s)
                                         (s_min s) (s_max s) (s_unit s) (s_receivers s ++ [r]) (s_mux s) (s_values s)) m
  | 34 :: k :: l => upd_last_sig (fun s => mkSig (s_name s) (s_start s) (s_size s) (s_le s) (s_signed s) (s_float s) (s_factor s)
                                         (s_offset s) (s_min s) (s_max s) (s_unit s) (s_receivers s) (s_mux s) (s_values s ++ [(k, l)])) m
  | _ => m
  end.
Definition matrix_in (a : io) : matrix := fold_left matrix_group a (mkMatrix [] [] []).

Definition sig_out (s : signal) : io :=
  [[30; s_start s; s_size s; bz (s_le s); bz (s_signed s); bz (s_float s)] ++ role_out (s_mux s) ++
    [fst (s_factor s); snd (s_factor s); fst (s_offset s); snd (s_offset s); fst (s_min s); snd (s_min s); fst (s_max s); snd (s_max s)]]
  ++ [31 :: s_name s] ++ [32 :: s_unit s] ++ map (fun r => 33 :: r) (s_receivers s)
  ++ map (fun kv => 34 :: fst kv :: snd kv) (s_values s).
Definition frame_out (f : frame) : io :=
  [[20; fst (f_id f); bz (snd (f_id f)); f_size f]] ++ [21 :: f_name f] ++ map (fun t => 22 :: t) (f_tx f)
  ++ flat_map sig_out (f_sigs f).
Definition matrix_out (m : matrix) : io :=
  map (fun n => 10 :: n) (m_ecus m)
  ++ flat_map (fun t => (11 :: fst t) :: map (fun kv => 12 :: fst kv :: snd kv) (snd t)) (m_vtabs m)
  ++ flat_map frame_out (m_frames m).

Definition stmt_out (s : stmt) : io :=
  match s with
  | St_BU names => [100] :: map (fun n => 101 :: n) names
  | St_VAL_TABLE n r => (110 :: n) :: map (fun kv => 111 :: fst kv :: snd kv) r
  | St_BO cid n size tx => [[120; cid; size]; 121 :: n; 122 :: tx]
  | St_SG n mux start size le sg f o mn mx unit recv =>
      [[130; start; size; bz le; bz sg] ++ role_out mux ++ [fst f; snd f; fst o; snd o; fst mn; snd mn; fst mx; snd mx]]
      ++ [131 :: n] ++ [132 :: unit] ++ map (fun r => 133 :: r) recv
  | St_BO_TX_BU cid txs => [140; cid] :: map (fun t => 141 :: t) txs
  | St_VAL cid sg r => [[150; cid]; 151 :: sg] ++ map (fun kv => 152 :: fst kv :: snd kv) r
  | St_SIG_VALTYPE cid sg ty => [[160; cid; ty]; 161 :: sg]
  end.

(* statements in: the last statement is kept in front of the reversed accumulator while its parts arrive *)
Definition stmt_group (acc : list stmt) (g : list Z) : list stmt :=
  match g, acc with
  | [100], _ => St_BU [] :: acc
  | 101 :: n, St_BU names :: r => St_BU (names ++ [n]) :: r
  | 110 :: n, _ => St_VAL_TABLE n [] :: acc
  | 111 :: k :: l, St_VAL_TABLE n rws :: r => St_VAL_TABLE n (rws ++ [(k, l)]) :: r
  | [120; cid; size], _ => St_BO cid [] size [] :: acc
  | 121 :: n, St_BO cid _ size tx :: r => St_BO cid n size tx :: r
  | 122 :: t, St_BO cid n size _ :: r => St_BO cid n size t :: r
  | [130; start; size; le; sg; mk; mn; fm; fe; om; oe; nm; ne; xm; xe], _ =>
      St_SG [] (role_in mk mn) start size (zb le) (zb sg) (fm, fe) (om, oe) (nm, ne) (xm, xe) [] [] :: acc
  | 131 :: n, St_SG _ mux start size le sg f o mn mx unit recv :: r => St_SG n mux start size le sg f o mn mx unit recv :: r
  | 132 :: u, St_SG n mux start size le sg f o mn mx _ recv :: r => St_SG n mux start size le sg f o mn mx u recv :: r
  | 133 :: x, St_SG n mux start size le sg f o mn mx unit recv :: r => St_SG n mux start size le sg f o mn mx unit (recv ++ [x]) :: r
  | [140; cid], _ => St_BO_TX_BU cid [] :: acc
  | 141 :: t, St_BO_TX_BU cid txs :: r => St_BO_TX_BU cid (txs ++ [t]) :: r
  | [150; cid], _ => St_VAL cid [] [] :: acc
  | 151 :: n, St_VAL cid _ rws :: r => St_VAL cid n rws :: r
  | 152 :: k :: l, St_VAL cid n rws :: r => St_VAL cid n (rws ++ [(k, l)]) :: r
  | [160; cid; ty], _ => St_SIG_VALTYPE cid [] ty :: acc
  | 161 :: n, St_SIG_VALTYPE cid _ ty :: r => St_SIG_VALTYPE cid n ty :: r
  | _, _ => acc
  end.
Definition stmts_in (a : io) : list stmt := rev (fold_left stmt_group a []).

(* 520: matrix -> statements of dbc_write ; 521: statements -> matrix of dbc_read, then [-2; line errors; logged errors] *)
Definition run_520 (a : io) : io := flat_map stmt_out (dbc_write (matrix_in a)).
Definition run_521 (a : io) : io :=
  match dbc_read (stmts_in a) with (m, e, l) => matrix_out m ++ [[-2; e; l]] end.

Definition run_c05 (cmd : Z) (a : io) : io :=
  match cmd, a with
  | 501, [g] => run_501 g
  | 502, [g] => run_502 g
  | 503, [g] => run_503 g
  | 504, [g] => run_504 g
  | 505, [g] => run_505 g
  | 506, [g] => run_506 g
  | 507, _ => run_507 a
  | 508, _ => run_508 a
  | 509, _ => run_509 a
  | 510, _ => run_510 a
  | 511, [g] => run_511 g
  | 512, [g] => run_512 g
  | 513, [g] => run_513 g
  | 514, [g] => run_514 g
  | 515, [h; ds] => run_515 h ds
  | 516, [g] => run_516 g
  | 517, _ => run_517 a
  | 518, [h; ds; tok] => run_518 h ds tok
  | 520, _ => run_520 a
  | 521, _ => run_521 a
  | _, _ => [[-999]]
  end.
