(* Hand model of src/canmatrix/compare.py (compare_db ~66, propagate_changes ~54, compare_value_table ~152,
   compare_signal_group ~179, compare_define_list ~204, compare_attributes ~240, compare_ecu ~271,
   compare_frame ~291, compare_signal ~374) and of the flag -> ignore mapping of
   src/canmatrix/cli/compare.py:cli_compare (~71-80).  Definitions only.

   The model follows the code function by function and returns the same tree: every CompareResult becomes
   `Node result type ref children` with the children in the order in which Python appends them (lists and
   dicts are iterated in insertion order, so the order is observable and is kept).

   Normal form (only what compare.py reads):
   * every text (names, units, comments, attribute values, definitions, value descriptions) is interned by the
     harness in ONE table as an integer, so equality of integers = equality of Python strings; the empty text is 0;
   * an absent comment (None) is `None`; define defaults use -1 for None;
   * dicts are association lists in insertion order (Python guarantees unique keys);
   * numbers which compare.py compares through `float(a) != float(b)` (factor, offset, min, max) are supplied as
     KEYS: the harness maps each Decimal to the integer bit pattern of float(x) with -0.0 normalised to 0.0,
     so equality of doubles = equality of keys (NaN is outside the normal form: nan != nan);
     a limit that is None (Signal(calc_min_for_none=False)) is `None`: float(None) raises TypeError and the
     whole comparison fails = `None` result of compare_signal / compare_frame / compare_db;
   * a signal receiver is the pair (interned raw name, interned name.strip()) - str.strip is applied by the harness;
   * `ref` of a node is the identity of the Python object it refers to, as far as it has one: the interned name
     for Frame/Signal/Ecu/SignalGroup objects, the interned text when ref is a str, the table name for a global
     value table (the dict object db1.value_tables[name]), -1 for every other dict/list;
   * `changes` (old/new payload for printing) is not part of the tree shape and is not modelled.
   Not read by compare.py and therefore absent: frame receivers, is_fd, is_j1939, cycle time, signal is_float,
   initial value, mux_val_grp / muxer_for_signal (extended multiplexing), define type/min/max.

   The ignore dict: compare.py tests  "comment" in ignore,  ignore["ATTRIBUTE"] == "*",  ignore["DEFINE"] == "*",
   truthiness of ignore["VALUETABLES"]; these are the four booleans of `ignore`.  (ignore["ATTRIBUTE"] == ele1,
   a string compared with an object, is never true and is not modelled.)

   compare_frame replaces a None frame comment by "" on its operands (f.add_comment("")) when comments are compared;
   the model is purely functional (it compares the texts with None read as ""), the mutation is not modelled.

   The model describes compare_signal AFTER the two repairs proposed in /verif/fixes/C13_*.patch:
   (1) signal comments: None is read as "" (before: comments were compared only when both were present, so an
       added or removed signal comment was never reported);
   (2) receivers: both sides stripped (before: `receiver.strip() not in s2.receivers`, so a receiver with
       surrounding white space was reported removed and added when a signal was compared with itself).
   and compare_db AFTER the repair proposed in /verif/fixes/C13_frame_pairing.patch:
   (3) a frame without partner by name is paired by identifier only with a frame that has no partner by name
       itself (before: any frame carrying the identifier, so one frame could be compared twice while another was
       neither compared nor reported as added: {Q(1)} vs {P(1), Q(2)} never mentioned P). *)
From CM Require Import lib.Prelude.

(* ------------------------------------------------------------------ normal form *)
Definition dict := list (Z * Z).

Inductive mux := MuxNone | Multiplexor | MuxVal (v : Z).   (* Signal.multiplex: None | 'Multiplexor' | int *)

Record signal := mkSignal {
  sg_name : Z; sg_start : Z; sg_size : Z; sg_le : bool; sg_signed : bool;
  sg_factor : Z; sg_offset : Z; sg_min : option Z; sg_max : option Z;
  sg_mux : mux; sg_unit : Z; sg_comment : option Z;
  sg_receivers : list (Z * Z);          (* (raw, stripped) *)
  sg_values : dict; sg_attrs : dict }.

Record sgroup := mkGroup { gr_name : Z; gr_id : Z; gr_members : list Z }.   (* members: signal names *)

Record frame := mkFrame {
  fr_name : Z; fr_id : Z; fr_ext : bool; fr_size : Z; fr_tx : list Z;
  fr_comment : option Z; fr_attrs : dict;
  fr_signals : list signal; fr_groups : list sgroup }.

Record ecu := mkEcu { ec_name : Z; ec_comment : option Z; ec_attrs : dict }.

Definition defines := list (Z * (Z * Z)).     (* name -> (definition, defaultValue) *)

Record matrix := mkMatrix {
  m_frames : list frame; m_ecus : list ecu; m_attrs : dict;
  m_gdefs : defines; m_edefs : defines; m_fdefs : defines; m_sdefs : defines;
  m_vtables : list (Z * dict) }.

Record ignore := mkIgnore { ig_comment : bool; ig_attr : bool; ig_def : bool; ig_vt : bool }.

(* ------------------------------------------------------------------ result tree *)
Inductive cresult := REqual | RChanged | RAdded | RDeleted | RRemoved | RNone.   (* RNone: result=None (root) *)

(* CompareResult.type; constructors with an argument are the types built by string concatenation *)
Inductive ctype :=
  | TNone                      (* root: type=None *)
  | TFRAME | TSIGNAL | Tecu | TECU | TATTRIBUTES
  | TDefineList | TEcuDefines | TFrameDefines | TSignalDefines
  | Tvaluetable (n : Z)        (* "valuetable " + name *)
  | TValuetable
  | TValue (k : Z)             (* "Value " + str(key) *)
  | TValueChanged (k old : Z)  (* "Value " + str(key) + " " + str(old.encode('ascii','ignore')) *)
  | TSignalGroup | TSignalName
  | TMember (n : Z)            (* str(signal.name) *)
  | TDefine (n : Z)            (* "Define" + str(name) *)
  | TDefinition | TDefaultValue
  | TAttr (n : Z)              (* str(attribute) *)
  | TName | Tdlc | TID | TFrameTransmitter | TSignalgroup
  | Tstartbit | Tsignalsize | Tfactor | Toffset | Tmin | Tmax | Tis_little_endian | Tsign
  | Tmultiplex | Tunit | Tcomment
  | Treceiver (n : Z).         (* "receiver " + raw name *)

Inductive cres := Node (r : cresult) (t : ctype) (ref : Z) (kids : list cres).

Definition leaf (r : cresult) (t : ctype) (ref : Z) : cres := Node r t ref [].
Definition result_of (t : cres) : cresult := match t with Node r _ _ _ => r end.
Definition type_of (t : cres) : ctype := match t with Node _ ty _ _ => ty end.
Definition ref_of (t : cres) : Z := match t with Node _ _ ref _ => ref end.
Definition kids_of (t : cres) : list cres := match t with Node _ _ _ kids => kids end.
Definition set_type (ty : ctype) (t : cres) : cres := match t with Node r _ ref kids => Node r ty ref kids end.

Definition is_equal (r : cresult) : bool := match r with REqual => true | _ => false end.

(* propagate_changes: a node one of whose children ends up different from "equal" becomes "changed" *)
Fixpoint propagate (t : cres) : cres :=
  match t with
  | Node r ty ref kids =>
      let kids' := map propagate kids in
      Node (if existsb (fun k => negb (is_equal (result_of k))) kids' then RChanged else r) ty ref kids'
  end.

(* ------------------------------------------------------------------ helpers: dict / list primitives *)
Fixpoint lookup {A} (k : Z) (d : list (Z * A)) : option A :=
  match d with
  | [] => None
  | (k', v) :: r => if k' =? k then Some v else lookup k r
  end.
Definition mem (x : Z) (l : list Z) : bool := existsb (Z.eqb x) l.
Definition opt_eqb (a b : option Z) : bool :=
  match a, b with
  | Some x, Some y => x =? y
  | None, None => true
  | _, _ => false
  end.
Definition mux_eqb (a b : mux) : bool :=
  match a, b with
  | MuxNone, MuxNone => true
  | Multiplexor, Multiplexor => true
  | MuxVal x, MuxVal y => x =? y
  | _, _ => false
  end.
Definition comment_text (c : option Z) : Z := match c with Some t => t | None => 0 end.   (* None read as "" *)
Fixpoint sequence {A} (l : list (option A)) : option (list A) :=
  match l with
  | [] => Some []
  | None :: _ => None
  | Some x :: r => match sequence r with Some xs => Some (x :: xs) | None => None end
  end.

(* ------------------------------------------------------------------ compare_value_table (~152) *)
Definition compare_value_table (ref : Z) (vt1 vt2 : dict) : cres :=
  Node REqual TValuetable ref
    (flat_map (fun kv =>
        match lookup (fst kv) vt2 with
        | None => [leaf RRemoved (TValue (fst kv)) (snd kv)]
        | Some v2 => if snd kv =? v2 then [] else [leaf RChanged (TValueChanged (fst kv) (snd kv)) (-1)]
        end) vt1
     ++ flat_map (fun kv =>
        match lookup (fst kv) vt1 with
        | None => [leaf RAdded (TValue (fst kv)) (snd kv)]
        | Some _ => []
        end) vt2).

(* ------------------------------------------------------------------ compare_signal_group (~179) *)
Definition compare_signal_group (sg1 sg2 : sgroup) : cres :=
  Node REqual TSignalGroup (gr_name sg1)
    ((if gr_name sg1 =? gr_name sg2 then [] else [leaf RChanged TSignalName (-1)])
     ++ (if gr_id sg1 =? gr_id sg2 then [] else [leaf RChanged TSignalName (-1)])
     ++ flat_map (fun n => if mem n (gr_members sg2) then [] else [leaf RDeleted (TMember n) n]) (gr_members sg1)
     ++ flat_map (fun n => if mem n (gr_members sg1) then [] else [leaf RAdded (TMember n) n]) (gr_members sg2)).

(* ------------------------------------------------------------------ compare_define_list (~204) *)
Definition compare_define_list (d1 d2 : defines) : cres :=
  Node REqual TDefineList (-1)
    (flat_map (fun e =>
        match lookup (fst e) d2 with
        | None => [leaf RDeleted (TDefine (fst e)) (-1)]
        | Some e2 =>
            (if fst (snd e) =? fst e2 then [] else [leaf RChanged TDefinition (fst (snd e))])
            ++ (if snd (snd e) =? snd e2 then [] else [leaf RChanged TDefaultValue (fst (snd e))])
        end) d1
     ++ flat_map (fun e =>
        match lookup (fst e) d1 with
        | None => [leaf RAdded (TDefine (fst e)) (-1)]
        | Some _ => []
        end) d2).

(* ------------------------------------------------------------------ compare_attributes (~240) *)
Definition compare_attributes (ign : ignore) (ref : Z) (a1 a2 : dict) : cres :=
  if ig_attr ign then Node REqual TATTRIBUTES ref []
  else
  Node REqual TATTRIBUTES ref
    (flat_map (fun kv =>
        match lookup (fst kv) a2 with
        | None => [leaf RDeleted (TAttr (fst kv)) (snd kv)]
        | Some v2 => if snd kv =? v2 then [] else [leaf RChanged (TAttr (fst kv)) (snd kv)]
        end) a1
     ++ flat_map (fun kv =>
        match lookup (fst kv) a1 with
        | None => [leaf RAdded (TAttr (fst kv)) (snd kv)]
        | Some _ => []
        end) a2).

(* ------------------------------------------------------------------ compare_ecu (~271) *)
Definition compare_ecu (ign : ignore) (e1 e2 : ecu) : cres :=
  Node REqual TECU (ec_name e1)
    ((if ig_comment ign then []
      else if opt_eqb (ec_comment e1) (ec_comment e2) then [] else [leaf RChanged TECU (ec_name e1)])
     ++ (if ig_attr ign then [] else [compare_attributes ign (ec_name e1) (ec_attrs e1) (ec_attrs e2)])).

(* ------------------------------------------------------------------ compare_signal (~374), repaired *)
Definition compare_signal (ign : ignore) (s1 s2 : signal) : option cres :=
  match sg_min s1, sg_min s2, sg_max s1, sg_max s2 with
  | Some min1, Some min2, Some max1, Some max2 =>
    let n := sg_name s1 in
    let chg (same : bool) (ty : ctype) := if same then [] else [leaf RChanged ty n] in
    Some (Node REqual TSIGNAL n
      (chg (sg_start s1 =? sg_start s2) Tstartbit
       ++ chg (sg_size s1 =? sg_size s2) Tsignalsize
       ++ chg (sg_factor s1 =? sg_factor s2) Tfactor
       ++ chg (sg_offset s1 =? sg_offset s2) Toffset
       ++ chg (min1 =? min2) Tmin
       ++ chg (max1 =? max2) Tmax
       ++ chg (Bool.eqb (sg_le s1) (sg_le s2)) Tis_little_endian
       ++ chg (Bool.eqb (sg_signed s1) (sg_signed s2)) Tsign
       ++ chg (mux_eqb (sg_mux s1) (sg_mux s2)) Tmultiplex
       ++ chg (sg_unit s1 =? sg_unit s2) Tunit
       ++ (if ig_comment ign then []
           else chg (comment_text (sg_comment s1) =? comment_text (sg_comment s2)) Tcomment)
       ++ flat_map (fun r => if mem (snd r) (map snd (sg_receivers s2)) then []
                             else [leaf RRemoved (Treceiver (fst r)) (-1)]) (sg_receivers s1)
       ++ flat_map (fun r => if mem (snd r) (map snd (sg_receivers s1)) then []
                             else [leaf RAdded (Treceiver (fst r)) (-1)]) (sg_receivers s2)
       ++ (if ig_attr ign then [] else [compare_attributes ign n (sg_attrs s1) (sg_attrs s2)])
       ++ (if ig_vt ign then [] else [compare_value_table (-1) (sg_values s1) (sg_values s2)])))
  | _, _, _, _ => None       (* float(None): TypeError *)
  end.

(* ------------------------------------------------------------------ compare_frame (~291) *)
Definition signal_by_name (n : Z) (f : frame) : option signal := find (fun s => sg_name s =? n) (fr_signals f).
Definition signal_group_by_name (n : Z) (f : frame) : option sgroup := find (fun g => gr_name g =? n) (fr_groups f).

Definition compare_frame (ign : ignore) (f1 f2 : frame) : option cres :=
  match sequence (map (fun s1 =>
          match signal_by_name (sg_name s1) f2 with
          | None => Some (leaf RDeleted TSIGNAL (sg_name s1))
          | Some s2 => compare_signal ign s1 s2
          end) (fr_signals f1)) with
  | None => None
  | Some sigkids =>
    let n := fr_name f1 in
    let chg (same : bool) (ty : ctype) := if same then [] else [leaf RChanged ty n] in
    Some (Node REqual TFRAME n
      (sigkids
       ++ chg (fr_name f1 =? fr_name f2) TName
       ++ chg (fr_size f1 =? fr_size f2) Tdlc
       ++ chg (fr_id f1 =? fr_id f2) TID
       ++ chg (Bool.eqb (fr_ext f1) (fr_ext f2)) TFRAME
       ++ (if ig_comment ign then []
           else chg (comment_text (fr_comment f1) =? comment_text (fr_comment f2)) TFRAME)
       ++ flat_map (fun s2 => match signal_by_name (sg_name s2) f1 with
                              | None => [leaf RAdded TSIGNAL (sg_name s2)]
                              | Some _ => []
                              end) (fr_signals f2)
       ++ (if ig_attr ign then [] else [compare_attributes ign n (fr_attrs f1) (fr_attrs f2)])
       ++ flat_map (fun t => if mem t (fr_tx f2) then [] else [leaf RRemoved TFrameTransmitter (fr_name f1)]) (fr_tx f1)
       ++ flat_map (fun t => if mem t (fr_tx f1) then [] else [leaf RAdded TFrameTransmitter (fr_name f2)]) (fr_tx f2)
       ++ map (fun g1 => match signal_group_by_name (gr_name g1) f2 with
                         | None => leaf RRemoved TSignalgroup (gr_name g1)
                         | Some g2 => compare_signal_group g1 g2
                         end) (fr_groups f1)
       ++ flat_map (fun g2 => match signal_group_by_name (gr_name g2) f1 with
                              | None => [leaf RAdded TSignalgroup (gr_name g2)]
                              | Some _ => []
                              end) (fr_groups f2)))
  end.

(* ------------------------------------------------------------------ compare_db (~66) *)
Definition frame_by_name (n : Z) (m : matrix) : option frame := find (fun f => fr_name f =? n) (m_frames m).
(* frame_by_id: ArbitrationId.__eq__ with both `extended` flags set = same id and same flag.  The memo of
   frame_by_id is validated on every hit; it is modelled as the scan it falls back to (the memo is C10's subject). *)
Definition arb_eqb (f g : frame) : bool := (fr_id f =? fr_id g) && Bool.eqb (fr_ext f) (fr_ext g).
Definition frame_by_id (f : frame) (m : matrix) : option frame := find (fun g => arb_eqb g f) (m_frames m).
Definition ecu_by_name (n : Z) (m : matrix) : option ecu := find (fun e => ec_name e =? n) (m_ecus m).

Definition compare_db_raw (ign : ignore) (db1 db2 : matrix) : option cres :=
  match sequence (map (fun f1 =>
          match frame_by_name (fr_name f1) db2 with
          | Some f2 => compare_frame ign f1 f2
          | None => match frame_by_id f1 db2 with
                    | None => Some (leaf RDeleted TFRAME (fr_name f1))
                    | Some f2id =>
                        (* paired by identifier only with a frame that has no partner by name itself *)
                        match frame_by_name (fr_name f2id) db1 with
                        | Some _ => Some (leaf RDeleted TFRAME (fr_name f1))
                        | None => compare_frame ign f1 f2id
                        end
                    end
          end) (m_frames db1)) with
  | None => None
  | Some framekids =>
    Some (Node RNone TNone (-1)
      (framekids
       ++ flat_map (fun f2 => match frame_by_name (fr_name f2) db1 with
                              | Some _ => []
                              | None => match frame_by_id f2 db1 with
                                        | None => [leaf RAdded TFRAME (fr_name f2)]
                                        | Some f1id => match frame_by_name (fr_name f1id) db2 with
                                                       | Some _ => [leaf RAdded TFRAME (fr_name f2)]
                                                       | None => []
                                                       end
                                        end
                              end) (m_frames db2)
       ++ (if ig_attr ign then [] else [compare_attributes ign (-1) (m_attrs db1) (m_attrs db2)])
       ++ map (fun e1 => match ecu_by_name (ec_name e1) db2 with
                         | None => leaf RDeleted Tecu (ec_name e1)
                         | Some e2 => compare_ecu ign e1 e2
                         end) (m_ecus db1)
       ++ flat_map (fun e2 => match ecu_by_name (ec_name e2) db1 with
                              | None => [leaf RAdded Tecu (ec_name e2)]
                              | Some _ => []
                              end) (m_ecus db2)
       ++ (if ig_def ign then []
           else [compare_define_list (m_gdefs db1) (m_gdefs db2);
                 set_type TEcuDefines (compare_define_list (m_edefs db1) (m_edefs db2));
                 set_type TFrameDefines (compare_define_list (m_fdefs db1) (m_fdefs db2));
                 set_type TSignalDefines (compare_define_list (m_sdefs db1) (m_sdefs db2))])
       ++ (if ig_vt ign then []
           else map (fun vt1 => match lookup (fst vt1) (m_vtables db2) with
                                | None => leaf RDeleted (Tvaluetable (fst vt1)) (-1)
                                | Some t2 => compare_value_table (fst vt1) (snd vt1) t2
                                end) (m_vtables db1)
                ++ flat_map (fun vt2 => match lookup (fst vt2) (m_vtables db1) with
                                        | None => [leaf RAdded (Tvaluetable (fst vt2)) (-1)]
                                        | Some _ => []
                                        end) (m_vtables db2))))
  end.

Definition compare_db (ign : ignore) (db1 db2 : matrix) : option cres :=
  match compare_db_raw ign db1 db2 with
  | Some t => Some (propagate t)
  | None => None
  end.

(* ------------------------------------------------------------------ cli_compare: flags -> ignore dict (~71-80)
   -c/--comments "look for changed comments", -a/--attributes "look for changed attributes",
   -t/--valueTable "ignore changed valuetables"; "DEFINE" is never put into the dict. *)
Definition cli_ignore (check_comments check_attributes ignore_valuetables : bool) : ignore :=
  mkIgnore (negb check_comments) (negb check_attributes) false ignore_valuetables.
