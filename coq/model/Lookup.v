(* Hand model of the frame lookups of CanMatrix and of every matrix operation that can change their
   answer (src/canmatrix/canmatrix.py, the code AFTER commit a855173 "frame_by_id memo is per matrix,
   validated on hit and cleared by del_frame"; src/canmatrix/copy.py copy_frame; convert.py changeFrameId).
   Definitions only.

   A world is the list of matrices alive plus the counter that hands out object identities (uid).
   A matrix is its `frames` list (records: the fields the lookups read), its ECU names (only because
   add_ecu clears the memo when the ECU is new), the memo `_frames_dict_id_extend` and `dead`.
     memo : Python dict  f"{id}_{extended}" -> Frame object.  Two keys are the same string iff id and
            extended agree (ints and bools print injectively), i.e. iff `arbid_eqb`; ArbitrationId.__eq__
            is the same test for boolean `extended` (the constructor turns extended=None into True, so
            the wildcard branch of __eq__ needs an attribute assignment `a.extended = None`; outside).
            The dict is an association list, newest first; `d[k] = v` conses (the older entry is shadowed).
            The value is an object reference, here the uid.
     dead : the Python heap as far as the memo can still see it: frames removed from `frames`.  A memo
            value may keep such an object alive; validation on hit reads ITS arbitration_id.  In the
            repaired code the memo is emptied by every removal, so nothing ever points into `dead`
            (that is the invariant of props/C10.v); the field makes the model say what the code would do
            if it were not so.
   Names and ECU names are interned integers.  Identifiers are not range checked here (C09). *)
From CM Require Import lib.Prelude model.ArbId.

Record frame := mkFrame {
  f_uid : Z; f_id : Z; f_ext : bool; f_name : Z; f_hdr : option Z; f_j1939 : bool }.
Definition key := arbid.                               (* (id, extended) *)
Definition f_key (f : frame) : key := (f_id f, f_ext f).
Record matrix := mkMatrix {
  m_frames : list frame; m_ecus : list Z; m_memo : list (key * Z); m_dead : list frame }.
Record world := mkWorld { w_mats : list matrix; w_next : Z }.

Definition empty_matrix : matrix := mkMatrix [] [] [] [].
Definition init_world : world := mkWorld [] 0.

(* ---- the scans (for-loops over self.frames returning the first hit) ---- *)
Fixpoint scan_id (k : key) (fs : list frame) : option frame :=        (* frame_by_id ~1995 *)
  match fs with
  | [] => None
  | f :: r => if arbid_eqb (f_key f) k then Some f else scan_id k r
  end.
Fixpoint scan_name (n : Z) (fs : list frame) : option frame :=        (* frame_by_name ~2046 *)
  match fs with
  | [] => None
  | f :: r => if f_name f =? n then Some f else scan_name n r
  end.
Fixpoint scan_hdr (h : Z) (fs : list frame) : option frame :=         (* frame_by_header_id ~2008 *)
  match fs with
  | [] => None
  | f :: r => if opt_eqb (f_hdr f) (Some h) then Some f else scan_hdr h r
  end.
(* frame_by_pgn ~2030 is ArbId.frame_by_pgn over this view of the frames *)
Definition to_fr (f : frame) : fr := (f_uid f, f_key f, f_j1939 f).

(* ---- objects ---- *)
Fixpoint find_uid (u : Z) (fs : list frame) : option frame :=
  match fs with
  | [] => None
  | f :: r => if f_uid f =? u then Some f else find_uid u r
  end.
(* the object behind a reference held by the memo of m *)
Definition find_obj (u : Z) (m : matrix) : option frame :=
  match find_uid u (m_frames m) with
  | Some f => Some f
  | None => find_uid u (m_dead m)
  end.
(* list.remove(frame): identity comparison (Frame is attr.s(eq=False)), first occurrence *)
Fixpoint remove_uid (u : Z) (fs : list frame) : list frame :=
  match fs with
  | [] => []
  | f :: r => if f_uid f =? u then r else f :: remove_uid u r
  end.

(* ---- memo ---- *)
Fixpoint memo_get (k : key) (memo : list (key * Z)) : option Z :=
  match memo with
  | [] => None
  | e :: r => if arbid_eqb (fst e) k then Some (snd e) else memo_get k r
  end.

Definition set_memo (m : matrix) (memo : list (key * Z)) : matrix :=
  mkMatrix (m_frames m) (m_ecus m) memo (m_dead m).
Definition clear_memo (m : matrix) : matrix := set_memo m [].

(* CanMatrix.frame_by_id ~1983-2000: returns the matrix (memo possibly extended) and the frame found *)
Definition frame_by_id_m (m : matrix) (k : key) : matrix * option Z :=
  let scan :=
    match scan_id k (m_frames m) with
    | Some f => (set_memo m ((k, f_uid f) :: m_memo m), Some (f_uid f))
    | None => (m, None)
    end in
  match memo_get k (m_memo m) with
  | Some u =>
      match find_obj u m with
      | Some f => if arbid_eqb (f_key f) k then (m, Some u) else scan   (* validation on hit *)
      | None => scan                                                      (* no such object: cannot arise *)
      end
  | None => scan
  end.

(* ---- edits of one matrix ---- *)
(* add_frame ~2097: append, memo = {} ; db.frames.append (dbc.py ~554): append only *)
Definition m_add_frame (m : matrix) (f : frame) : matrix :=
  mkMatrix (m_frames m ++ [f]) (m_ecus m) [] (m_dead m).
Definition m_append (m : matrix) (f : frame) : matrix :=
  mkMatrix (m_frames m ++ [f]) (m_ecus m) (m_memo m) (m_dead m).
(* remove_frame ~2113 / del_frame(Frame) ~2264: list.remove raises ValueError (None here) before the memo is touched *)
Definition m_remove (m : matrix) (u : Z) : option matrix :=
  match find_uid u (m_frames m) with
  | None => None
  | Some f => Some (mkMatrix (remove_uid u (m_frames m)) (m_ecus m) [] (f :: m_dead m))
  end.
(* del_frame(name): frame_by_name, nothing happens when there is none *)
Definition m_del_name (m : matrix) (n : Z) : matrix :=
  match scan_name n (m_frames m) with
  | None => m
  | Some f => match m_remove m (f_uid f) with Some m' => m' | None => m end
  end.
(* rename_frame ~2245, exact names only (no leading/trailing '*'): every frame called old is renamed *)
Definition rename1 (old new : Z) (f : frame) : frame :=
  if f_name f =? old then mkFrame (f_uid f) (f_id f) (f_ext f) new (f_hdr f) (f_j1939 f) else f.
Definition m_rename (m : matrix) (old new : Z) : matrix :=
  mkMatrix (map (rename1 old new) (m_frames m)) (m_ecus m) (m_memo m) (m_dead m).
(* identifier changes act on the object, wherever it is referenced from *)
Definition setid1 (u id : Z) (ext : option bool) (f : frame) : frame :=
  if f_uid f =? u
  then mkFrame (f_uid f) id (match ext with Some e => e | None => f_ext f end) (f_name f) (f_hdr f) (f_j1939 f)
  else f.
Definition m_set_id (m : matrix) (u id : Z) (ext : option bool) : matrix :=
  mkMatrix (map (setid1 u id ext) (m_frames m)) (m_ecus m) (m_memo m) (map (setid1 u id ext) (m_dead m)).
(* frame.header_id = h (a frame re-numbered during an edit history; h = None: the attribute is cleared) *)
Definition sethdr1 (u : Z) (h : option Z) (f : frame) : frame :=
  if f_uid f =? u then mkFrame (f_uid f) (f_id f) (f_ext f) (f_name f) h (f_j1939 f) else f.
Definition m_set_hdr (m : matrix) (u : Z) (h : option Z) : matrix :=
  mkMatrix (map (sethdr1 u h) (m_frames m)) (m_ecus m) (m_memo m) (map (sethdr1 u h) (m_dead m)).
(* add_ecu ~2206: nothing when an ECU of that name exists, else append and memo = {} *)
Definition m_add_ecu (m : matrix) (e : Z) : matrix :=
  if existsb (Z.eqb e) (m_ecus m) then m
  else mkMatrix (m_frames m) (m_ecus m ++ [e]) [] (m_dead m).
(* convert.py ~151-157 changeFrameId: frame = db.frame_by_id(old); if found: frame.arbitration_id.id = new *)
Definition m_change_id (m : matrix) (k : key) (newid : Z) : matrix * option Z :=
  let (m1, r) := frame_by_id_m m k in
  match r with
  | None => (m1, None)
  | Some u => (m_set_id m1 u newid None, Some u)
  end.

(* ---- worlds ---- *)
Fixpoint upd_nth {A} (l : list A) (i : nat) (x : A) : list A :=
  match l, i with
  | [], _ => []
  | _ :: r, O => x :: r
  | y :: r, S i' => y :: upd_nth r i' x
  end.
Definition set_mat (w : world) (i : nat) (m : matrix) : world :=
  mkWorld (upd_nth (w_mats w) i m) (w_next w).

Inductive result :=
| RUnit                      (* None returned / statement executed *)
| RFound (o : option Z)      (* a lookup: the frame's uid; a creation: the new object's uid *)
| RBool (b : bool)           (* copy_frame *)
| RErr.                      (* Python raises (ValueError from list.remove, AttributeError in copy_frame,
                                ArbitrationIdOutOfRange in frame_by_pgn) or the matrix does not exist *)

(* copy.copy_frame(frame_id, source_db, target_db) ~160-: source lookup (fills the source memo), refusal
   when the target has the id (fills the target memo), else add_frame(deepcopy(frame)).  The frames of
   this model have no transmitters, receivers or attribute definitions, so the rest of copy_frame
   (copy_ecu, defines: C12) does not run. *)
Definition with_uid (f : frame) (u : Z) : frame :=
  mkFrame u (f_id f) (f_ext f) (f_name f) (f_hdr f) (f_j1939 f).
Definition copy_frame_w (w : world) (src dst : nat) (k : key) : world * result :=
  match nth_error (w_mats w) src with
  | None => (w, RErr)
  | Some ms =>
      let (ms', r) := frame_by_id_m ms k in
      let w1 := set_mat w src ms' in
      match r with
      | None => (w1, RErr)                                   (* "Copying Frame " + None.name *)
      | Some u =>
          match find_obj u ms', nth_error (w_mats w1) dst with
          | Some f, Some md =>
              let (md', r2) := frame_by_id_m md (f_key f) in
              match r2 with
              | Some _ => (set_mat w1 dst md', RBool false)
              | None =>
                  (mkWorld (upd_nth (w_mats w1) dst (m_add_frame md' (with_uid f (w_next w)))) (w_next w + 1),
                   RBool true)
              end
          | _, _ => (w1, RErr)
          end
      end
  end.
(* CanMatrix.merge ~2367: copy_frame for the id of every source frame, then memo = {}.  (After a refused
   copy the log line looks the id up in self once more: the same key again, no further effect.) *)
Fixpoint merge_loop (w : world) (src dst : nat) (ks : list key) : world * result :=
  match ks with
  | [] => (w, RUnit)
  | k :: r =>
      let (w1, res) := copy_frame_w w src dst k in
      match res with
      | RErr => (w1, RErr)
      | _ => merge_loop w1 src dst r
      end
  end.
Definition merge_w (w : world) (dst src : nat) : world * result :=
  match nth_error (w_mats w) src, nth_error (w_mats w) dst with
  | Some ms, Some _ =>
      let (w1, res) := merge_loop w src dst (map f_key (m_frames ms)) in
      match res with
      | RErr => (w1, RErr)
      | _ => match nth_error (w_mats w1) dst with
             | Some md => (set_mat w1 dst (clear_memo md), RUnit)
             | None => (w1, RErr)
             end
      end
  | _, _ => (w, RErr)
  end.

Inductive op :=
| NewMatrix                                                              (* CanMatrix() *)
| AddFrame (i : nat) (id : Z) (ext : bool) (name : Z) (hdr : option Z) (j : bool)   (* db.add_frame(Frame(...)) *)
| FramesAppend (i : nat) (id : Z) (ext : bool) (name : Z) (hdr : option Z) (j : bool) (* db.frames.append(Frame(...)) *)
| RemoveFrame (i : nat) (u : Z)                                          (* db.remove_frame(obj) *)
| DelFrameUid (i : nat) (u : Z)                                          (* db.del_frame(obj) *)
| DelFrameName (i : nat) (n : Z)                                         (* db.del_frame(name) *)
| RenameFrame (i : nat) (old new : Z)                                    (* db.rename_frame(old, new) *)
| SetFrameId (i : nat) (u id : Z) (ext : bool)                           (* obj.arbitration_id = ArbitrationId(id, ext) *)
| SetIdInplace (i : nat) (u id : Z)                                      (* obj.arbitration_id.id = id *)
| ChangeFrameId (i : nat) (id : Z) (ext : bool) (newid : Z)              (* convert.py changeFrameId *)
| AddEcu (i : nat) (e : Z)                                               (* db.add_ecu(Ecu(e)) *)
| CopyFrame (src dst : nat) (id : Z) (ext : bool)                        (* copy.copy_frame(id, src, dst) *)
| Merge (dst src : nat)                                                  (* dst.merge([src]) *)
| FrameById (i : nat) (id : Z) (ext : bool)
| FrameByName (i : nat) (n : Z)
| FrameByPgn (i : nat) (p : Z)
| FrameByHeaderId (i : nat) (h : Z)
| SetHeaderId (i : nat) (u : Z) (h : option Z).                          (* obj.header_id = h *)

(* an operation on matrix i that needs nothing else *)
Definition on_mat (w : world) (i : nat) (f : matrix -> matrix * result) : world * result :=
  match nth_error (w_mats w) i with
  | None => (w, RErr)
  | Some m => let (m', r) := f m in (set_mat w i m', r)
  end.
(* the same for an operation that creates one object *)
Definition on_mat_new (w : world) (i : nat) (f : matrix -> matrix) : world * result :=
  match nth_error (w_mats w) i with
  | None => (w, RErr)
  | Some m => (mkWorld (upd_nth (w_mats w) i (f m)) (w_next w + 1), RFound (Some (w_next w)))
  end.

Definition pgn_out (r : pgn_result) : result :=
  match r with PErr => RErr | PNone => RFound None | PFound f => RFound (Some (fr_uid f)) end.

Definition step (w : world) (o : op) : world * result :=
  match o with
  | NewMatrix => (mkWorld (w_mats w ++ [empty_matrix]) (w_next w), RUnit)
  | AddFrame i id ext n h j => on_mat_new w i (fun m => m_add_frame m (mkFrame (w_next w) id ext n h j))
  | FramesAppend i id ext n h j => on_mat_new w i (fun m => m_append m (mkFrame (w_next w) id ext n h j))
  | RemoveFrame i u | DelFrameUid i u =>
      on_mat w i (fun m => match m_remove m u with Some m' => (m', RUnit) | None => (m, RErr) end)
  | DelFrameName i n => on_mat w i (fun m => (m_del_name m n, RUnit))
  | RenameFrame i old new => on_mat w i (fun m => (m_rename m old new, RUnit))
  | SetFrameId i u id ext => on_mat w i (fun m => (m_set_id m u id (Some ext), RUnit))
  | SetIdInplace i u id => on_mat w i (fun m => (m_set_id m u id None, RUnit))
  | ChangeFrameId i id ext newid =>
      on_mat w i (fun m => let (m', r) := m_change_id m (id, ext) newid in (m', RFound r))
  | AddEcu i e => on_mat w i (fun m => (m_add_ecu m e, RUnit))
  | CopyFrame src dst id ext => copy_frame_w w src dst (id, ext)
  | Merge dst src => merge_w w dst src
  | FrameById i id ext => on_mat w i (fun m => let (m', r) := frame_by_id_m m (id, ext) in (m', RFound r))
  | FrameByName i n => on_mat w i (fun m => (m, RFound (option_map f_uid (scan_name n (m_frames m)))))
  | FrameByPgn i p => on_mat w i (fun m => (m, pgn_out (frame_by_pgn p (map to_fr (m_frames m)))))
  | FrameByHeaderId i h => on_mat w i (fun m => (m, RFound (option_map f_uid (scan_hdr h (m_frames m)))))
  | SetHeaderId i u h => on_mat w i (fun m => (m_set_hdr m u h, RUnit))
  end.

(* histories *)
Definition run (w : world) (ops : list op) : world := fold_left (fun w o => fst (step w o)) ops w.
(* the same, keeping what every operation returned *)
Fixpoint run_log (w : world) (ops : list op) : world * list result :=
  match ops with
  | [] => (w, [])
  | o :: r => let (w1, res) := step w o in let (w2, l) := run_log w1 r in (w2, res :: l)
  end.

(* ---- specification vocabulary (independent of the memo and of the loops above) ---- *)
(* first frame satisfying a test *)
Fixpoint first_such (P : frame -> bool) (fs : list frame) : option frame :=
  match fs with
  | [] => None
  | f :: r => if P f then Some f else first_such P r
  end.
(* what the property asks of a lookup answer r over the frame list fs for the test P *)
Definition lookup_ok (P : frame -> bool) (fs : list frame) (r : option Z) : Prop :=
  match r with
  | Some u => exists f, In f fs /\ f_uid f = u /\ P f = true
  | None => forall f, In f fs -> P f = false
  end.
Definition has_id (k : key) (f : frame) : bool := (f_id f =? fst k) && Bool.eqb (f_ext f) (snd k).
Definition has_name (n : Z) (f : frame) : bool := f_name f =? n.
Definition has_hdr (h : Z) (f : frame) : bool := match f_hdr f with Some x => x =? h | None => false end.
(* 29-bit frame whose PGN (J1939-21, ArbId.spec_pgn) is the PGN that p denotes *)
Definition has_pgn (p : Z) (f : frame) : bool := f_ext f && (spec_pgn (f_id f) =? spec_pgn (p * 2 ^ 8)).

(* the invariant: every memo value is an object that is in the frame list now (it need not carry the
   key any more: that is what validation on hit is for); object identities are unique and older than
   the counter *)
Definition memo_inv_m (m : matrix) : Prop :=
  Forall (fun e => In (snd e) (map f_uid (m_frames m))) (m_memo m).
Definition uids_ok (next : Z) (m : matrix) : Prop :=
  NoDup (map f_uid (m_frames m)) /\ Forall (fun f => f_uid f < next) (m_frames m).
Definition memo_inv (w : world) : Prop :=
  Forall (fun m => memo_inv_m m /\ uids_ok (w_next w) m) (w_mats w).

(* which matrix an operation is addressed to / which one it additionally reads *)
Definition op_target (o : op) : option nat :=
  match o with
  | NewMatrix => None
  | AddFrame i _ _ _ _ _ | FramesAppend i _ _ _ _ _ | RemoveFrame i _ | DelFrameUid i _ | DelFrameName i _
  | RenameFrame i _ _ | SetFrameId i _ _ _ | SetIdInplace i _ _ | ChangeFrameId i _ _ _ | AddEcu i _
  | FrameById i _ _ | FrameByName i _ | FrameByPgn i _ | FrameByHeaderId i _ | SetHeaderId i _ _ => Some i
  | CopyFrame _ dst _ _ => Some dst
  | Merge dst _ => Some dst
  end.
Definition op_source (o : op) : option nat :=
  match o with
  | CopyFrame src _ _ _ => Some src
  | Merge _ src => Some src
  | _ => None
  end.
Definition is_lookup_on (j : nat) (l : op) : Prop :=
  match l with
  | FrameById i _ _ | FrameByName i _ | FrameByPgn i _ | FrameByHeaderId i _ => i = j
  | _ => False
  end.
