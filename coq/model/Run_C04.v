(* Executable entry point for C04 (commands 401-499).  Decimals travel as two integers (signed coefficient, exponent). *)
From CM Require Import lib.Prelude model.RunBase model.Decimal model.ValueTable model.Scaling.

Definition dec_at (g : list Z) (i : nat) : dec := mkDec (nthz g i) (nthz g (S i)).
Definition dec_out (d : dec) : list Z := [dm d; de d].

Fixpoint pairs_of (g : list Z) (fuel : nat) : list (Z * Z) :=
  match fuel with
  | O => []
  | S f => match g with k :: l :: r => (k, l) :: pairs_of r f | _ => [] end
  end.
Definition table_of (g : list Z) : list (Z * Z) := pairs_of g (length g).
Fixpoint flat (t : list (Z * Z)) : list Z :=
  match t with [] => [] | (k, l) :: r => k :: l :: flat r end.

(* 401: [op; am; ae; bm; be]  op 0 add, 1 sub, 2 mul, 3 div, 4 round(a) -> [[1; m; e]] | [[1; int]] | [[0]] = exception *)
Definition run_401 (g : list Z) : io :=
  let a := dec_at g 1 in let b := dec_at g 3 in
  match nthz g 0 with
  | 0 => [1 :: dec_out (dadd a b)]
  | 1 => [1 :: dec_out (dsub a b)]
  | 2 => [1 :: dec_out (dmul a b)]
  | 3 => match ddiv a b with Some q => [1 :: dec_out q] | None => [[0]] end
  | _ => [[1; dround_int a]]
  end.
(* a signal header: [size; signed; fm; fe; om; oe] | value table items (flat key label ...) *)
Definition sig_of (h t : list Z) : scaling :=
  mk_signal (nthz h 0) (zb (nthz h 1)) (dec_at h 2) (dec_at h 4) (table_of t).
(* 402: header | table -> stored factor, offset, raw range, default min, default max, normalised table *)
Definition run_402 (h t : list Z) : io :=
  let s := sig_of h t in
  let r := calculate_raw_range (sc_size s) (sc_signed s) in
  [dec_out (sc_factor s); dec_out (sc_offset s); [fst r; snd r]; dec_out (calc_min s); dec_out (calc_max s); flat (sc_values s)].
(* 403: header | table | raws -> per raw: phys (m e), named (0 label | 1 m e), back (1 raw' | 0) flattened in groups *)
Definition run_403 (h t raws : list Z) : io :=
  let s := sig_of h t in
  flat_map (fun raw =>
    let p := phys_value s raw in
    [ dec_out p;
      match named_value s raw with Label l => [0; l] | Number d => 1 :: dec_out d end;
      match phys2raw_num s p with Some r => [1; r] | None => [0] end ]) raws.
(* 404: header | table | [vm; ve] -> phys2raw of a Decimal *)
Definition run_404 (h t v : list Z) : io :=
  [match phys2raw_num (sig_of h t) (dec_at v 0) with Some r => [1; r] | None => [0] end].
(* 405: header | table | labels -> phys2raw of each label: 1 key | 0 (not a label) *)
Definition run_405 (h t ls : list Z) : io :=
  let s := sig_of h t in
  map (fun l => match phys2raw_label s l with Some k => [1; k] | None => [0] end) ls.

(* 406: header | table | flat triples/quads per str argument: text has_parse pm pe (has_parse 0 = not a number) -> phys2raw(str):
   1 raw | 0 (raises) *)
Fixpoint strargs_of (g : list Z) (fuel : nat) : list parg :=
  match fuel with
  | O => []
  | S f => match g with
           | t :: hp :: pm :: pe :: r => PStr t (if hp =? 0 then None else Some (mkDec pm pe)) :: strargs_of r f
           | _ => []
           end
  end.
Definition run_406 (h t g : list Z) : io :=
  let s := sig_of h t in
  map (fun a => match phys2raw_arg s a with Some k => [1; k] | None => [0] end) (strargs_of g (length g)).

Definition run_c04 (cmd : Z) (a : io) : io :=
  match cmd, a with
  | 401, [g] => run_401 g
  | 402, [h; t] => run_402 h t
  | 403, [h; t; raws] => run_403 h t raws
  | 404, [h; t; v] => run_404 h t v
  | 405, [h; t; ls] => run_405 h t ls
  | 406, [h; t; g] => run_406 h t g
  | _, _ => [[-999]]
  end.
