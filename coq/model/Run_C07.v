(* Executable entry points for C07 (commands 701-709): the field codecs of model/FmtNum.v.
   type fmt codes: 1 dbc 2 dbf 3 sym 4 kcd 5 json 7 arxml4 9 arxml3 10 sym before the repair. *)
From CM Require Import lib.Prelude model.RunBase model.FmtNum.

Definition tyout (o : option (bool * bool)) : list Z :=
  match o with None => [0] | Some (s, f) => [1; bz s; bz f] end.
Definition mux_of (g : list Z) (i : nat) : muxrole := mkMux (zb (nthz g i)) (optz (nthz g (S i))).
Definition muxout (o : option muxrole) : list Z :=
  match o with None => [0] | Some r => [1; bz (mx_is r); oz (mx_val r)] end.
Definition exp_out (o : option (bool * list Z)) : list Z :=
  match o with None => [-1] | Some (neg, ds) => bz neg :: ds end.
Definition num_out (t : numtext) : io := [[bz (t_neg t)]; t_int t; t_frac t; exp_out (t_exp t)].
Definition exp_in (g : list Z) : option (bool * list Z) :=
  match g with
  | [] => None
  | x :: r => if x <? 0 then None else Some (zb x, r)
  end.
Definition num_in (a : io) : numtext :=
  mkNum (zb (nthz (nth 0 a []) 0)) (nth 1 a []) (nth 2 a []) (exp_in (nth 3 a [])).
Definition dec_of (g : list Z) : dec := mkDec (zb (nthz g 0)) (nthz g 1) (nthz g 2).
Definition dec_out (o : option dec) : io :=
  match o with None => [[0]] | Some d => [[1; bz (d_neg d); d_coef d; d_exp d]] end.

(* 701: [fmt; size; signed; float] -> type word fields ; 702: [fmt] | fields -> [0] / [1; signed; float] *)
Definition run_701 (g : list Z) : io := [write_type (nthz g 0) (mkType (nthz g 1) (zb (nthz g 2)) (zb (nthz g 3)))].
Definition run_702 (g f : list Z) : io := [tyout (read_type (nthz g 0) f)].
(* 703: [kind; is_multiplexer; mux_val(-1 none)] -> token, kind 1 dbc, 2 simple ; 704: [kind] | token -> role ;
   kind 3 = JSON reader before the repair *)
Definition run_703 (g : list Z) : io :=
  [if nthz g 0 =? 1 then dbc_write_mux (mux_of g 1) else simple_write_mux (mux_of g 1)].
Definition run_704 (g f : list Z) : io :=
  [muxout (if nthz g 0 =? 1 then dbc_read_mux f else if nthz g 0 =? 3 then json_read_mux_before_fix f else simple_read_mux f)].
(* 705: [mux_size; v] -> SYM selector token [hex?] | digits ; 706: [hex?] | digits -> value *)
Definition run_705 (g : list Z) : io :=
  let t := sym_write_selector (nthz g 0) (nthz g 1) in [[bz (fst t)]; snd t].
Definition run_706 (g ds : list Z) : io := [[sym_read_selector (zb (nthz g 0), ds)]].
(* 707: [neg; coef; exp] -> str(Decimal) as [neg] | int digits | frac digits | exponent ([-1] none, else neg :: digits)
   708: same argument -> format_float(str(Decimal)) ; 709: a text in that form -> Decimal(text): [0] / [1; neg; coef; exp] *)
Definition run_707 (g : list Z) : io := num_out (str_dec (dec_of g)).
Definition run_708 (g : list Z) : io := num_out (format_float (str_dec (dec_of g))).
Definition run_709 (a : io) : io := dec_out (parse_num (num_in a)).

Definition run_c07 (cmd : Z) (a : io) : io :=
  match cmd, a with
  | 701, [g] => run_701 g
  | 702, [g; f] => run_702 g f
  | 703, [g] => run_703 g
  | 704, [g; f] => run_704 g f
  | 705, [g] => run_705 g
  | 706, [g; ds] => run_706 g ds
  | 707, [g] => run_707 g
  | 708, [g] => run_708 g
  | 709, [s; i; f; e] => run_709 [s; i; f; e]
  | _, _ => [[-999]]
  end.
