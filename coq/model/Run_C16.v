(* Executable entry point for C16 (commands 1601-1699): integer groups -> model/Layout.v calls. *)
From CM Require Import lib.Prelude model.RunBase model.Codec model.Layout.

(* a signal group: [name; start; size; le; signed; float] *)
Definition sig16 (g : list Z) : signal :=
  mkSignal (nthz g 0) (nthz g 1) (nthz g 2) (zb (nthz g 3)) (zb (nthz g 4)) (zb (nthz g 5)).
Definition sig_out (s : signal) : list Z :=
  [s_name s; s_start s; s_size s; bz (s_le s); bz (s_signed s); bz (s_float s)].

(* 1601: [fsize] | sig ... -> [nbits] | names using bit 0 | names using bit 1 | ... *)
Definition run_1601 (h : list Z) (sgs : io) : io :=
  let lay := get_frame_layout (nthz h 0) (map sig16 sgs) in
  [zlen lay] :: map (map s_name) lay.

(* 1602: [fsize; base] | sig ... -> [n] | every signal of the frame after create_dummy_signals
   (dummy k is named base + k) *)
Definition run_1602 (h : list Z) (sgs : io) : io :=
  let r := create_dummy_signals (fun k => nthz h 1 + k) (nthz h 0) (map sig16 sgs) in
  [zlen r] :: map sig_out r.

(* 1603: [declared size; mode] | sig ... -> [new size]
   mode 0 Frame.calc_dlc, 1 recalc_dlc("max"), 2 recalc_dlc("force"), 3 recalc_dlc(<another string>) *)
Definition run_1603 (h : list Z) (sgs : io) : io :=
  let sigs := map sig16 sgs in
  let fsize := nthz h 0 in
  let mode := nthz h 1 in
  if mode =? 0 then [[calc_dlc fsize sigs]]
  else [recalc_dlc (mode - 1) [(fsize, sigs)]].

(* 1604: [size] -> [size after fit_dlc] ; 1605: [size; is_fd] -> [is_fd after set_fd_type] *)
Definition run_1604 (h : list Z) : io := [[fit_dlc (nthz h 0)]].
Definition run_1605 (h : list Z) : io := [[bz (set_fd_type (nthz h 0) (zb (nthz h 1)))]].

(* 1606: [fsize] | sig ... -> [0] out of fuel, else [1] | start bits after compress, in signal order *)
Definition run_1606 (h : list Z) (sgs : io) : io :=
  let sigs := map sig16 sgs in
  match compress (compress_fuel sigs) (nthz h 0) sigs with
  | None => [[0]]
  | Some r => [[1]; map s_start r]
  end.

(* a matrix of frames: groups [fsize; n] followed by n signal groups, repeated *)
Fixpoint frames_of (fuel : nat) (gs : io) : list (Z * list signal) :=
  match fuel with
  | O => []
  | S fu =>
      match gs with
      | [] => []
      | h :: r =>
          let n := Z.to_nat (nthz h 1) in
          (nthz h 0, map sig16 (firstn n r)) :: frames_of fu (skipn n r)
      end
  end.

(* 1607: [strategy] | frame, signals, frame, signals ... -> the sizes of all frames after CanMatrix.recalc_dlc
   (strategy 0 "max", 1 "force", 2 another string) *)
Definition run_1607 (h : list Z) (gs : io) : io := [recalc_dlc (nthz h 0) (frames_of (length gs) gs)].

(* 1608: flat pairs size is_fd ... -> is_fd of every frame after CanMatrix.set_fd_type *)
Fixpoint fd_pairs (fuel : nat) (g : list Z) : list (Z * bool) :=
  match fuel with
  | O => []
  | S fu => match g with
            | sz :: fd :: r => (sz, zb fd) :: fd_pairs fu r
            | _ => []
            end
  end.
Definition run_1608 (g : list Z) : io := [map bz (set_fd_types (fd_pairs (length g) g))].

Definition run_c16 (cmd : Z) (a : io) : io :=
  match cmd, a with
  | 1601, h :: sgs => run_1601 h sgs
  | 1602, h :: sgs => run_1602 h sgs
  | 1603, h :: sgs => run_1603 h sgs
  | 1604, [h] => run_1604 h
  | 1605, [h] => run_1605 h
  | 1606, h :: sgs => run_1606 h sgs
  | 1607, h :: gs => run_1607 h gs
  | 1608, [g] => run_1608 g
  | _, _ => [[-999]]
  end.
