(* Shared I/O vocabulary of the executable entry points (extracted driver and in-Coq shard). *)
From CM Require Import lib.Prelude.

Definition io := list (list Z).

Definition zb (z : Z) : bool := negb (Z.eqb z 0).
Definition bz (b : bool) : Z := if b then 1 else 0.
Definition nthz (l : list Z) (i : nat) : Z := nth i l 0.
Definition optz (z : Z) : option Z := if z <? 0 then None else Some z.   (* -1 encodes None *)
Definition oz (o : option Z) : Z := match o with Some v => v | None => -1 end.

Fixpoint leqb (a b : list Z) : bool :=
  match a, b with
  | [], [] => true
  | x :: a', y :: b' => Z.eqb x y && leqb a' b'
  | _, _ => false
  end.
Fixpoint lleqb (a b : io) : bool :=
  match a, b with
  | [], [] => true
  | x :: a', y :: b' => leqb x y && lleqb a' b'
  | _, _ => false
  end.
(* indices of cases whose model answer differs from the implementation's *)
Fixpoint mismatches_from (run : Z -> io -> io) (n : Z) (cases : list (Z * io * io)) : list Z :=
  match cases with
  | [] => []
  | (c, a, e) :: rest =>
      (if lleqb (run c a) e then [] else [n]) ++ mismatches_from run (n + 1) rest
  end.
Definition mismatches_with (run : Z -> io -> io) := mismatches_from run 0.
