(* Executable entry point of property C15 (commands 1501..): integer groups -> model/Readers.v calls.
   Texts are groups of character codes. *)
From CM Require Import lib.Prelude model.RunBase model.Readers.

Definition dec_out (d : dec) : list Z := let '(n, m, e) := d in [bz n; m; e].

(* 1501: [chars] -> Decimal(text): [[0]] InvalidOperation | [[1; neg; coefficient; exponent]] *)
Definition run_1501 (s : list Z) : io :=
  match parse_dec (strip s) with
  | None => [[0]]
  | Some d => [1 :: dec_out d]
  end.

(* 1502: [chars] -> utils.decode_number: [[0]] ValueError | [[1; int]] | [[2; neg; coeff; exp]] | [[3; neg]] infinity *)
Definition num_out (n : option num) : io :=
  match n with
  | None => [[0]]
  | Some (NInt v) => [[1; v]]
  | Some (NDec d) => [2 :: dec_out d]
  | Some (NInf s) => [[3; bz s]]
  end.
Definition run_1502 (s : list Z) : io := num_out (decode_number s).

(* 1503: COMPU-METHOD.  [number of scales] | per scale a header [has_ll; has_ul; label (-1 = None); has_rational; n_numerator; n_denominator; has_const]
   followed by the groups it announces: ll chars, ul chars, numerator V texts, denominator V texts.
   answer: [[0]] exception | [[1; const]; factor num(3) ++ den(3); offset num(3) ++ den(3); [label; key chars...] ...] *)
Fixpoint take_groups (n : nat) (gs : io) : io * io :=
  match n with
  | O => ([], gs)
  | S k => match gs with
           | g :: r => let (a, b) := take_groups k r in (g :: a, b)
           | [] => ([], [])
           end
  end.
Fixpoint scales_of (fuel : nat) (gs : io) : list scale :=
  match fuel with
  | O => []
  | S f =>
    match gs with
    | [] => []
    | h :: r0 =>
      let '(ll, r1) := if zb (nthz h 0) then (match r0 with g :: r => (Some g, r) | [] => (None, []) end) else (None, r0) in
      let '(ul, r2) := if zb (nthz h 1) then (match r1 with g :: r => (Some g, r) | [] => (None, []) end) else (None, r1) in
      let lab := if nthz h 2 <? 0 then None else Some (nthz h 2) in
      let '(nums, r3) := take_groups (Z.to_nat (nthz h 4)) r2 in
      let '(dens, r4) := take_groups (Z.to_nat (nthz h 5)) r3 in
      mkScale ll ul lab (if zb (nthz h 3) then Some (nums, dens) else None) (zb (nthz h 6)) :: scales_of f r4
    end
  end.
Definition ratio_out (r : ratio) : list Z := dec_out (fst r) ++ dec_out (snd r).
Definition run_1503 (gs : io) : io :=      (* first group: [number of scales] *)
  match decode_compu_method (scales_of (Z.to_nat (nthz (hd [] gs) 0)) (tl gs)) with
  | CErr => [[0]]
  | COk c => [1; bz (cm_const c)] :: ratio_out (cm_factor c) :: ratio_out (cm_offset c) :: map (fun kv => snd kv :: fst kv) (cm_values c)
  end.

(* 1504: [encoding 0 NONE 1 2C 2 IEEE754 3 SINGLE 4 DOUBLE 5 BOOLEAN 6 other; base type -1 none 0 name not starting with u 1 starting with u] *)
Definition enc_of (z : Z) : encoding :=
  if z =? 0 then EncNONE else if z =? 1 then Enc2C else if z =? 2 then EncIEEE754 else if z =? 3 then EncSINGLE
  else if z =? 4 then EncDOUBLE else if z =? 5 then EncBOOLEAN else EncOther.
Definition run_1504 (g : list Z) : io :=
  let r := eval_type_of_signal (enc_of (nthz g 0)) (if nthz g 1 <? 0 then None else Some (zb (nthz g 1))) in
  [[bz (fst r); bz (snd r)]].

(* 1505: KCD signal.  [k; v; ...] attributes of <Signal> | [has Value child] | [k; v; ...] integer-coded Value attributes |
   [k; neg; m; e; ...] decimal Value attributes *)
Fixpoint pairs_zz (fuel : nat) (g : list Z) : list (Z * Z) :=
  match fuel with
  | O => []
  | S f => match g with k :: v :: r => (k, v) :: pairs_zz f r | _ => [] end
  end.
Fixpoint pairs_zd (fuel : nat) (g : list Z) : list (Z * dec) :=
  match fuel with
  | O => []
  | S f => match g with k :: n :: m :: e :: r => (k, (zb n, m, e)) :: pairs_zd f r | _ => [] end
  end.
Definition odec_out (o : option dec) : list Z := match o with None => [0] | Some d => 1 :: dec_out d end.
Definition run_1505 (sa hv vi vn : list Z) : io :=
  let s := kcd_signal (pairs_zz (length sa) sa)
                      (if zb (nthz hv 0) then Some (pairs_zz (length vi) vi, pairs_zd (length vn) vn) else None) in
  [[k_start s; k_size s; bz (k_little s); bz (k_signed s); bz (k_float s); k_unit s]; dec_out (k_factor s); dec_out (k_offset s);
   odec_out (k_min s); odec_out (k_max s)].

(* 1506: a rendering as abstract syntax: [sign 0 none 1 plus 2 minus; dot; exp kind 0 none 1 present; upper; exp sign] | ip digits |
   fp digits | exponent digits  ->  [printed chars]; [neg; coefficient; exponent] it denotes *)
Definition sign_of (z : Z) : sign_form := if z =? 1 then SPlus else if z =? 2 then SMinus else SNone.
Definition run_1506 (h ip fp ed : list Z) : io :=
  let r := mkRend (sign_of (nthz h 0)) ip (zb (nthz h 1)) fp
                  (if zb (nthz h 2) then EExp (zb (nthz h 3)) (sign_of (nthz h 4)) ed else ENone) in
  [print r; dec_out (rend_dec r)].

(* 1507: statements [obj; slot; value] ... then a last group of probe keys [obj; slot; ...] -> lookups after reading the section (-1 = absent) *)
Definition stmt_of (g : list Z) : stmt := mkStmt (nthz g 0) (nthz g 1) (nthz g 2).
Definition run_1507 (gs : io) : io :=
  match rev gs with
  | probes :: rstmts =>
    let m := read_section (map stmt_of (rev rstmts)) [] in
    [map (fun kv => oz (slookup kv m)) (pairs_zz (length probes) probes)]
  | [] => [[]]
  end.

Definition run_c15 (cmd : Z) (a : io) : io :=
  match cmd, a with
  | 1501, [s] => run_1501 s
  | 1502, [s] => run_1502 s
  | 1503, gs => run_1503 gs
  | 1504, [g] => run_1504 g
  | 1505, [sa; hv; vi; vn] => run_1505 sa hv vi vn
  | 1506, [h; ip; fp; ed] => run_1506 h ip fp ed
  | 1507, gs => run_1507 gs
  | _, _ => [[-999]]
  end.
