(* fnmatch.fnmatchcase for patterns made of literal characters, `*` (42) and `?` (63).
   Names and patterns are lists of character codes.  Mirrors Lib/fnmatch.py: translate() turns `*` into `.*`,
   `?` into `.`, everything else into the escaped literal, compiled as (?s:...)\Z and matched from the start
   (so `?` and `*` also cover newlines; runs of `*` are equivalent to one).  Character classes `[...]` are outside
   this model: the harness never puts `[` into a pattern.
   Definitions only.  The matcher is tied to fnmatch.fnmatchcase by harness/p_c17.py (cmd 1711) and proved equivalent
   to the declarative relation `glob_rel` below in proofs/C17_glob.v. *)
From CM Require Import lib.Prelude.

Definition ch_star : Z := 42.
Definition ch_qmark : Z := 63.

(* `star_any g n`: some suffix of n (including n itself and []) satisfies g - what `.*` followed by the rest does *)
Fixpoint star_any (g : list Z -> bool) (n : list Z) : bool :=
  g n || match n with [] => false | _ :: n' => star_any g n' end.

Fixpoint glob_match (p n : list Z) : bool :=
  match p with
  | [] => match n with [] => true | _ => false end
  | c :: p' =>
      if c =? ch_star then star_any (glob_match p') n
      else match n with
           | [] => false
           | d :: n' => ((c =? ch_qmark) || (c =? d)) && glob_match p' n'
           end
  end.

(* Declarative meaning of a pattern, independent of any matching strategy *)
Inductive glob_rel : list Z -> list Z -> Prop :=
| glob_nil : glob_rel [] []
| glob_star : forall p w n, glob_rel p n -> glob_rel (ch_star :: p) (w ++ n)
| glob_qmark : forall p d n, glob_rel p n -> glob_rel (ch_qmark :: p) (d :: n)
| glob_lit : forall c p n, c <> ch_star -> c <> ch_qmark -> glob_rel p n -> glob_rel (c :: p) (c :: n).
