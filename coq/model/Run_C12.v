(* Executable entry points for C12 (model/CopyOps.v).  Commands 1201..1299.
   A matrix is a run of groups closed by [0]:
     [1; name; comment; k; v; ...]                                   ECU (comment -1 = None)
     [2; id; ext; name; size; comment; rest; ntx; tx...; k; v; ...]  frame
     [3; name; payload; values; nrecv; r...; k; v; ...]              signal of the last frame
     [4; name; payload; values; nrecv; r...; k; v; ...]              free signal
     [5; cat; name; def; ty; default; v1; v2; ...]                   define (cat 0 signal, 1 frame, 2 ecu, 3 global; default -1 = None)
     [6; k; v]  global attribute     [7; k; v]  environment variable
   An operation is a header group followed by its source matrix/matrices:
     [10; id; ext] copy_frame   [11; g; names...] copy_ecu   [12; g; rx; tx; direct; names...] copy_ecu_with_frames
     [13; g; names...] copy_signal     (g = -1: the pattern "*"; otherwise the pattern selects exactly `names`)
     [14; n] merge of n sources.
   1201: target matrix, operations...  ->  [8; err; result of every copy_frame in order] then the target's groups
   1202: [attribute names] then a matrix -> one group of effective values (None = -1) per ECU, frame, frame signal,
         free signal (in matrix order, each group led by the object's tag 1/2/3/4) and a last group [6; ...] for the matrix *)
From CM Require Import lib.Prelude model.RunBase model.CopyOps.

Fixpoint pairs (l : list Z) : list (Z * Z) :=
  match l with
  | k :: v :: r => (k, v) :: pairs r
  | _ => []
  end.
Definition take (n : Z) (l : list Z) : list Z := firstn (Z.to_nat n) l.
Definition drop (n : Z) (l : list Z) : list Z := skipn (Z.to_nat n) l.

Definition cat_of_z (z : Z) : cat :=
  match z with 0 => CSig | 1 => CFrame | 2 => CEcu | _ => CGlob end.
Definition sig_of_group (g : list Z) : signal :=
  (* g = name; payload; values; nrecv; r...; k; v; ... *)
  let n := nthz g 3 in
  mkSig (nthz g 0) (nthz g 1) (take n (skipn 4 g)) (nthz g 2) (pairs (drop n (skipn 4 g))).
Definition frame_of_group (g : list Z) : frame :=
  (* g = id; ext; name; size; comment; rest; ntx; tx...; k; v; ... *)
  let n := nthz g 6 in
  mkFrame (nthz g 0) (zb (nthz g 1)) (nthz g 2) (nthz g 3) (take n (skipn 7 g)) (nthz g 4) (nthz g 5)
          (pairs (drop n (skipn 7 g))) [].

Definition add_group (m : matrix) (g : list Z) : matrix :=
  match g with
  | 1 :: name :: comment :: kv => set_ecus (m_ecus m ++ [mkEcu name comment (pairs kv)]) m
  | 2 :: r => set_frames (m_frames m ++ [frame_of_group r]) m
  | 3 :: r => set_frames (upd_last (fun f => set_f_sigs (f_sigs f ++ [sig_of_group r]) f) (m_frames m)) m
  | 4 :: r => set_sigs (m_sigs m ++ [sig_of_group r]) m
  | 5 :: c :: name :: def :: ty :: dflt :: vals =>
      let cc := cat_of_z c in
      set_defs cc (get_defs cc m ++ [(name, mkDef def ty (optz dflt) vals)]) m
  | 6 :: k :: v :: _ =>
      mkMatrix (m_ecus m) (m_frames m) (m_sigs m) (m_sdefs m) (m_fdefs m) (m_edefs m) (m_gdefs m)
               (m_gattrs m ++ [(k, v)]) (m_env m) (m_err m)
  | 7 :: k :: v :: _ => set_env (m_env m ++ [(k, v)]) m
  | _ => m
  end.
(* reads groups up to the closing [0]; returns the matrix and the remaining groups *)
Fixpoint parse_m (gs : io) (m : matrix) : matrix * io :=
  match gs with
  | [] => (m, [])
  | g :: r => match g with
              | 0 :: _ => (m, r)
              | _ => parse_m r (add_group m g)
              end
  end.
Fixpoint parse_n (n : nat) (gs : io) : list matrix * io :=
  match n with
  | O => ([], gs)
  | S k => let (m, r) := parse_m gs empty_matrix in
           let (ms, r') := parse_n k r in (m :: ms, r')
  end.
Definition glob_of (z : Z) (names : list Z) : glob := if z <? 0 then None else Some names.
Fixpoint parse_ops (fuel : nat) (gs : io) : list op :=
  match fuel with
  | O => []
  | S k =>
      match gs with
      | [] => []
      | h :: r =>
          match h with
          | 10 :: id :: ext :: _ => let (s, r') := parse_m r empty_matrix in OpCopyFrame (id, zb ext) s :: parse_ops k r'
          | 11 :: g :: ns => let (s, r') := parse_m r empty_matrix in OpCopyEcu (glob_of g ns) s :: parse_ops k r'
          | 12 :: g :: rx :: tx :: d :: ns =>
              let (s, r') := parse_m r empty_matrix in OpCopyEcuFrames (glob_of g ns) (zb rx) (zb tx) (zb d) s :: parse_ops k r'
          | 13 :: g :: ns => let (s, r') := parse_m r empty_matrix in OpCopySignal (glob_of g ns) s :: parse_ops k r'
          | 14 :: n :: _ => let (ss, r') := parse_n (Z.to_nat n) r in OpMerge ss :: parse_ops k r'
          | _ => []
          end
      end
  end.

Definition unpairs (l : list (Z * Z)) : list Z := flat_map (fun kv => [fst kv; snd kv]) l.
Definition render_sig (tag : Z) (s : signal) : list Z :=
  tag :: s_name s :: s_payload s :: s_values s :: Z.of_nat (length (s_receivers s)) :: s_receivers s ++ unpairs (s_attrs s).
Definition render_frame (f : frame) : io :=
  (2 :: f_id f :: bz (f_ext f) :: f_name f :: f_size f :: f_comment f :: f_rest f :: Z.of_nat (length (f_tx f)) ::
     f_tx f ++ unpairs (f_attrs f)) :: map (render_sig 3) (f_sigs f).
Definition render_defs (c : Z) (ds : defs) : io :=
  map (fun nd => 5 :: c :: fst nd :: d_def (snd nd) :: d_ty (snd nd) :: oz (d_default (snd nd)) :: d_values (snd nd)) ds.
Definition render_m (m : matrix) : io :=
  map (fun e => 1 :: e_name e :: e_comment e :: unpairs (e_attrs e)) (m_ecus m)
  ++ flat_map render_frame (m_frames m)
  ++ map (render_sig 4) (m_sigs m)
  ++ render_defs 0 (m_sdefs m) ++ render_defs 1 (m_fdefs m) ++ render_defs 2 (m_edefs m) ++ render_defs 3 (m_gdefs m)
  ++ map (fun kv => [6; fst kv; snd kv]) (m_gattrs m)
  ++ map (fun kv => [7; fst kv; snd kv]) (m_env m).

(* the history, step by step, collecting what every copy_frame returned *)
Fixpoint run_ops (t : matrix) (ops : list op) (res : list Z) : matrix * list Z :=
  match ops with
  | [] => (t, res)
  | o :: r =>
      match o with
      | OpCopyFrame id src => let (b, t') := copy_frame id src t in run_ops t' r (res ++ [bz b])
      | _ => run_ops (apply_op t o) r res
      end
  end.
Definition run_1201 (a : io) : io :=
  let (t, r) := parse_m a empty_matrix in
  let (t', res) := run_ops t (parse_ops (length r) r) [] in
  (8 :: bz (m_err t') :: res) :: render_m t'.

Definition effs (f : Z -> option Z) (names : list Z) : list Z := map (fun a => oz (f a)) names.
Definition run_1202 (names : list Z) (a : io) : io :=
  let (m, _) := parse_m a empty_matrix in
  map (fun e => 1 :: effs (eff_ecu m e) names) (m_ecus m)
  ++ flat_map (fun f => (2 :: effs (eff_frame m f) names) :: map (fun s => 3 :: effs (eff_sig m s) names) (f_sigs f)) (m_frames m)
  ++ map (fun s => 4 :: effs (eff_sig m s) names) (m_sigs m)
  ++ [6 :: effs (eff_glob m) names].

Definition run_c12 (cmd : Z) (a : io) : io :=
  match cmd, a with
  | 1201, _ => run_1201 a
  | 1202, names :: r => run_1202 names r
  | _, _ => [[-999]]
  end.
