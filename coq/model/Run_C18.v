(* Executable entry point for C18 (commands 1801-1899): integer groups -> model/Convert.v calls -> integer groups.
   Strings are groups of character codes.  A counted string inside a group is  n; c1..cn.
   Matrix encoding (groups in this order; a frame group is followed by what belongs to it):
     [1; uid; id; ext; size; fd; pay; <name>; nattrs; k1; v1; ...; nrecv; <r1>; ...]      a frame
     [2; uid; start; size; le; is_mux; mux_val (-1 = None); pay; <name>; nrecv; <r1>; ...] a signal of that frame
     [5; id; <name>; member uids ...]                                                      a signal group of that frame
     [3; id; size; <name>]                                                                 a PDU of that frame
     [4; ... as 2 ...]                                                                     a signal of that PDU
   Command line: [10; kind; argument characters ...] per option (kind = Convert.okind_code).
   Answers: [[0]] when the model says the call raises, else [1] followed by the result. *)
From CM Require Import lib.Prelude model.RunBase model.Glob model.Convert.

Definition take_str (l : list Z) : str * list Z :=
  match l with
  | [] => ([], [])
  | n :: r => (firstn (Z.to_nat n) r, skipn (Z.to_nat n) r)
  end.
Fixpoint take_strs (fuel : nat) (k : nat) (l : list Z) : list str * list Z :=
  match fuel, k with
  | _, O => ([], l)
  | O, _ => ([], l)
  | S f, S k' => let (s, r) := take_str l in let (ss, r') := take_strs f k' r in (s :: ss, r')
  end.
Fixpoint pairs_of (l : list Z) : list (Z * Z) :=
  match l with
  | k :: v :: r => (k, v) :: pairs_of r
  | _ => []
  end.
Fixpoint flat_pairs (d : list (Z * Z)) : list Z :=
  match d with
  | [] => []
  | (k, v) :: r => k :: v :: flat_pairs r
  end.
Definition put_str (s : str) : list Z := Z.of_nat (length s) :: s.
Definition put_strs (l : list str) : list Z := Z.of_nat (length l) :: flat_map put_str l.

Definition sig_of (g : list Z) : csignal :=      (* g without the tag *)
  let (nm, r) := take_str (skipn 7 g) in
  let nrecv := Z.to_nat (nthz r 0) in
  let (rs, _) := take_strs (length r) nrecv (skipn 1 r) in
  mkCSig (nthz g 0) nm (nthz g 1) (nthz g 2) (zb (nthz g 3)) rs (zb (nthz g 4)) (optz (nthz g 5)) (nthz g 6).
Definition group_of (g : list Z) : cgroup := let (nm, r) := take_str (skipn 1 g) in mkCGroup nm (nthz g 0) r.
Definition pdu_of (g : list Z) (ss : list csignal) : cpdu :=
  let (nm, _) := take_str (skipn 2 g) in mkCPdu nm (nthz g 0) (nthz g 1) ss.
Definition frame_of (g : list Z) (ss : list csignal) (gs : list cgroup) (ps : list cpdu) : cframe :=
  let (nm, r) := take_str (skipn 6 g) in
  let na := Z.to_nat (nthz r 0) in
  let at_ := pairs_of (firstn (2 * na) (skipn 1 r)) in
  let r2 := skipn (1 + 2 * na) r in
  let (rs, _) := take_strs (length r2) (Z.to_nat (nthz r2 0)) (skipn 1 r2) in
  mkCFrame (nthz g 0) nm (nthz g 1) (zb (nthz g 2)) (nthz g 3) (zb (nthz g 4)) at_ rs ss gs ps (nthz g 5).

Record dec := mkDec { d_frames : list cframe; d_sigs : list csignal; d_groups : list cgroup; d_pdus : list cpdu;
                      d_psigs : list csignal }.
Definition dec_step (g : list Z) (st : dec) : dec :=
  match g with
  | 1 :: r => mkDec (frame_of r (d_sigs st) (d_groups st) (d_pdus st) :: d_frames st) [] [] [] []
  | 2 :: r => mkDec (d_frames st) (sig_of r :: d_sigs st) (d_groups st) (d_pdus st) (d_psigs st)
  | 5 :: r => mkDec (d_frames st) (d_sigs st) (group_of r :: d_groups st) (d_pdus st) (d_psigs st)
  | 3 :: r => mkDec (d_frames st) (d_sigs st) (d_groups st) (pdu_of r (d_psigs st) :: d_pdus st) []
  | 4 :: r => mkDec (d_frames st) (d_sigs st) (d_groups st) (d_pdus st) (sig_of r :: d_psigs st)
  | _ => st
  end.
Definition matrix_of (gs : io) : cmatrix :=
  mkCMatrix (d_frames (fold_right dec_step (mkDec [] [] [] [] []) gs)) 0.

(* answers are written WITHOUT object identities (they are not comparable across Python's deep copies): the uid is left
   out of frame and signal groups, the members of a signal group are positions in the frame's signal list (-1: elsewhere) *)
Definition sig_ans (tag : Z) (s : csignal) : list Z :=
  tag :: cs_start s :: cs_size s :: bz (cs_le s) :: bz (cs_is_mux s) :: oz (cs_mux_val s) :: cs_pay s ::
  put_str (cs_name s) ++ put_strs (cs_receivers s).
Fixpoint pos_of_uid (u : Z) (l : list csignal) (i : Z) : Z :=
  match l with
  | [] => -1
  | s :: r => if cs_uid s =? u then i else pos_of_uid u r (i + 1)
  end.
Definition group_ans (ss : list csignal) (x : cgroup) : list Z :=
  5 :: g_id x :: put_str (g_name x) ++ map (fun u => pos_of_uid u ss 0) (g_members x).
Definition pdu_groups (p : cpdu) : io :=
  (3 :: p_id p :: p_size p :: put_str (p_name p)) :: map (sig_ans 4) (p_signals p).
Definition frame_groups (f : cframe) : io :=
  (1 :: cf_id f :: bz (cf_ext f) :: cf_size f :: bz (cf_fd f) :: cf_pay f ::
     put_str (cf_name f) ++ Z.of_nat (length (cf_attrs f)) :: flat_pairs (cf_attrs f) ++ put_strs (cf_receivers f))
  :: map (sig_ans 2) (cf_signals f) ++ map (group_ans (cf_signals f)) (cf_groups f) ++ flat_map pdu_groups (cf_pdus f).
Definition matrix_out (m : cmatrix) : io := flat_map frame_groups (cm_frames m).
Definition answer (o : option cmatrix) : io := match o with None => [[0]] | Some m => [1] :: matrix_out m end.

Definition kind_of_code (c : Z) : option okind :=
  find (fun k => okind_code k =? c)
       [KEcus; KFrames; KSignals; KMerge; KRenameEcu; KDeleteEcu; KRenameFrame; KDeleteFrame; KAddFrameReceiver;
        KFrameIdIncrement; KChangeFrameId; KSetFrameFd; KUnsetFrameFd; KSkipLongDlc; KCutLongFrames; KRenameSignal;
        KDeleteSignal; KDeleteZeroSignals; KDeleteSignalAttributes; KDeleteFrameAttributes; KDeleteObsoleteDefines;
        KDeleteObsoleteEcus; KCompressFrame; KRecalcDLC; KIgnorePduContainer].
Fixpoint cmdline_of (gs : io) : cmdline :=
  match gs with
  | (10 :: c :: a) :: r => match kind_of_code c with Some k => (k, a) :: cmdline_of r | None => cmdline_of r end
  | _ :: r => cmdline_of r
  | [] => []
  end.
Definition is_cl_group (g : list Z) : bool := match g with 10 :: _ => true | _ => false end.

(* the code in /repo without fixes/C18_change_frame_id_any_type.patch *)
Definition cops_unfixed : ops cmatrix :=
  let O := cops inert in
  mkOps cmatrix (o_empty O) (o_copy_ecu_with_frames O) (o_prune_ecus O) (o_copy_frame_named O) (o_copy_signal O) (o_merge O) (o_rename_ecu O)
        (o_del_ecu O) (o_rename_frame O) (o_del_frame O) (o_add_frame_receiver O) (o_frame_id_increment O)
        change_frame_id_unfixed (o_set_frame_fd O) (o_unset_frame_fd O) (o_skip_long_dlc O) (o_cut_long_frames O)
        (o_rename_signal O) (o_del_signal O) (o_delete_zero_signals O) (o_del_signal_attributes O)
        (o_del_frame_attributes O) (o_delete_obsolete_defines O) (o_delete_obsolete_ecus O)
        (o_compress_frames O) (o_recalc_dlc O) (o_pdu O).

Definition ecus_out (o : option (list ecu_sel)) : io :=
  match o with
  | None => [[0]]
  | Some l => [1] :: map (fun e => bz (snd (fst e)) :: bz (snd e) :: fst (fst e)) l
  end.

Definition run_c18 (cmd : Z) (a : io) : io :=
  let g0 := nth 0 a [] in let g1 := nth 1 a [] in
  match cmd with
  | 1801 => let parts := split_on (nthz g0 0) g1 in [Z.of_nat (length parts)] :: parts       (* [sep] | [s] *)
  | 1802 => match parse_pairs g0 with                                                         (* [s] *)
            | None => [[0]]
            | Some ps => [1; Z.of_nat (length ps)] :: flat_map (fun p => [fst p; snd p]) ps
            end
  | 1803 => ecus_out (parse_ecus g0)
  | 1813 => ecus_out (parse_ecus_unfixed g0)
  | 1804 => match parse_int g0 with None => [[0]] | Some v => [[1; v]] end
  | 1805 => [render_int (nthz g0 0)]
  | 1806 => [map okind_code post_order]
  | 1807 => answer (pipeline (cops inert) (cmdline_of (filter is_cl_group a)) (matrix_of (filter (fun g => negb (is_cl_group g)) a)))
  | 1808 => answer (pipeline cops_unfixed (cmdline_of (filter is_cl_group a)) (matrix_of (filter (fun g => negb (is_cl_group g)) a)))
  | 1809 => matrix_out (mkCMatrix (map pdu_to_multiplexed (cm_frames (matrix_of a))) 0)
  | 1810 => match kind_of_code (nthz g0 0) with                                                (* [kind] | [arg] *)
            | None => [[-999]]
            | Some k => [[bz (match active k [(k, g1)] with Some _ => true | None => false end)]]
            end
  | 1811 => [join_with (nthz g0 0) (skipn 1 a)]                                                (* [sep] | parts ... *)
  | _ => [[-999]]
  end.
