(* Field codecs of the write+read formats for a signal's position and a frame's identity: what the writer puts
   into the file (as integers; the text / XML / JSON / spreadsheet rendering of those integers is outside the model)
   and what the reader makes of these fields.  Built on model/Startbit.v and model/ArbId.v.  Definitions only.

   mirrors (src/canmatrix/formats):
     dbc.py    dump ~279 (BO_ compound id), ~304-312 (start|size@order) ; load ~571-591, ~626-643, BO_ ~545
     arxml.py  dump ~448-456 (CAN-ADDRESSING-MODE, IDENTIFIER), ~600-627 (PACKING-BYTE-ORDER, START-POSITION),
               ~653/~713 (LENGTH) ; get_signals ~1317-1350 ; get_frame ~1583, ~1686-1693
     dbf.py    dump ~361-399 ; load START_MSG ~214-238 (after the repair: the X column decides before the range
               check), START_SIGNALS ~246-292
     sym.py    create_signal ~117-122, dump ~241-247 (ID=, Type=), Mux= line ~283-289 (after the repair: -m follows the
               multiplexer) ; load ~470-500, ~552-597 (after the repair: switches of a Mux= line start after the value)
     kcd.py    create_signal ~48-56, dump ~175-181 (Message id/format), ~203-208 (Multiplex) ; parse_signal ~252-266,
               ~311 ; load ~361-376 (Multiplex: always little endian), ~352-355 (ids)
     json.py   dump ~68-80 / ~124-133 ; load ~233-234, ~270-311
     xls_common.py get_signal ~62-75, get_frame_info ~33-37 ; xls.py load ~441-444, ~463-520                          *)
From CM Require Import lib.Prelude model.Startbit model.ArbId.

(* a position as canmatrix stores it: byte order, width, internal start bit *)
Record pos := mkPos { p_le : bool; p_size : Z; p_start : Z }.

Definition bz' (b : bool) : Z := if b then 1 else 0.
Definition fnth (l : list Z) (i : nat) : Z := nth i l 0.

(* the three Motorola start-bit notations of the JSON and XLS writers *)
Inductive notation := NLsb | NMsb | NMsbReverse.

(* the number the writer computes for notation n:  msb: get_startbit(bit_numbering=1); msbreverse: get_startbit();
   lsb: get_startbit(bit_numbering=1, start_little=True) *)
Definition start_in (n : notation) (p : pos) : Z :=
  match n with
  | NMsb => get_startbit (p_le p) (p_size p) (p_start p) (Some 1) false
  | NMsbReverse => get_startbit (p_le p) (p_size p) (p_start p) None false
  | NLsb => get_startbit (p_le p) (p_size p) (p_start p) (Some 1) true
  end.
(* ... and what the XLS reader does with a Motorola number in notation n *)
Definition set_in (n : notation) (le : bool) (size s : Z) : option Z :=
  match n with
  | NMsb => set_startbit le size s (Some 1) false
  | NMsbReverse => set_startbit le size s None false
  | NLsb => set_startbit le size s (Some 1) true
  end.

Definition mk_opt (le : bool) (size : Z) (o : option Z) : option pos :=
  match o with Some s => Some (mkPos le size s) | None => None end.

(* ---------- DBC:  SG_ name : start|size@order  (order 1 = Intel, 0 = Motorola; Motorola start = MSB in LSB0 numbering) ---------- *)
Definition dbc_write_pos (p : pos) : list Z :=
  [get_startbit (p_le p) (p_size p) (p_start p) (Some 1) false; p_size p; bz' (p_le p)].
Definition dbc_read_pos (f : list Z) : option pos :=
  let s := fnth f 0 in let size := fnth f 1 in let le := fnth f 2 =? 1 in
  if le then Some (mkPos le size s)                                     (* Signal(start_bit=s) as is *)
  else mk_opt le size (set_startbit le size s (Some 1) false).          (* set_startbit(s, bitNumbering=1) *)
(* BO_ <compound id> *)
Definition dbc_write_id (a : arbid) : list Z := [to_compound_integer a].
Definition dbc_read_id (f : list Z) : option arbid := from_compound_integer (fnth f 0).

(* ---------- ARXML: START-POSITION, LENGTH, PACKING-BYTE-ORDER (1 = MOST-SIGNIFICANT-BYTE-LAST); both versions ---------- *)
Definition arxml_write_pos (p : pos) : list Z := dbc_write_pos p.
Definition arxml_read_pos (f : list Z) : option pos := dbc_read_pos f.
(* IDENTIFIER (decimal), CAN-ADDRESSING-MODE (1 = EXTENDED) *)
Definition arxml_write_id (a : arbid) : list Z := [fst a; bz' (snd a)].
Definition arxml_read_id (f : list Z) : option arbid := mk_arbid (fnth f 0) (fnth f 1 =? 1).

(* ---------- DBF: [START_SIGNALS] name,size,byte,bit,...,order,...   byte/bit columns locate the LSB ---------- *)
Definition dbf_write_pos (p : pos) : list Z :=
  let lsb := get_startbit (p_le p) (p_size p) (p_start p) (Some 1) true in
  [lsb / 8 + 1; lsb mod 8; p_size p; bz' (p_le p)].
Definition dbf_read_pos (f : list Z) : option pos :=
  let s := fnth f 1 + (fnth f 0 - 1) * 8 in
  let size := fnth f 2 in let le := fnth f 3 =? 1 in
  if fnth f 3 =? 0 then mk_opt le size (set_startbit le size s (Some 1) true)
  else Some (mkPos le size s).
(* [START_MSG] name,id,size,n,0,X|S,...  : plain id number and the frame format letter (1 = X) *)
Definition dbf_write_id (a : arbid) : list Z := [fst a; bz' (snd a)].
Definition dbf_read_id (f : list Z) : option arbid :=
  if fnth f 1 =? 1 then mk_arbid (Z.land (fnth f 0) extended_id_mask) true
  else from_compound_integer (fnth f 0).
(* the reader as it stood before the repair: range check as a compound integer first, X applied afterwards *)
Definition dbf_read_id_before_fix (f : list Z) : option arbid :=
  match from_compound_integer (fnth f 0) with
  | None => None
  | Some a => Some (fst a, if fnth f 1 =? 1 then true else snd a)
  end.

(* ---------- SYM: Var=name type start,size [-m]  : the internal number, -m marks Motorola (field 1 = -m present) ---------- *)
Definition sym_write_pos (p : pos) : list Z := [p_start p; p_size p; bz' (negb (p_le p))].
Definition sym_read_pos (f : list Z) : option pos :=
  let s := fnth f 0 in let size := fnth f 1 in let le := fnth f 2 =? 0 in
  if le then Some (mkPos le size s) else mk_opt le size (set_startbit le size s None false).
(* ID=<hex>h, Type=Standard|Extended : assigned to the attributes without a range check *)
Definition sym_write_id (a : arbid) : list Z := [fst a; bz' (snd a)].
Definition sym_read_id (f : list Z) : option arbid := Some (fnth f 0, fnth f 1 =? 1).

(* ---------- KCD: Signal offset/length/endianess; length is omitted for width <= 1 (-1 = absent), default 1 ---------- *)
Definition kcd_write_pos (p : pos) : list Z :=
  [p_start p; (if p_size p >? 1 then p_size p else -1); bz' (negb (p_le p))].
Definition kcd_read_pos (f : list Z) : option pos :=
  let s := fnth f 0 in let size := if fnth f 1 <? 0 then 1 else fnth f 1 in let le := fnth f 2 =? 0 in
  mk_opt le size (set_startbit le size s None false).                    (* new_sig.set_startbit(int(start_bit)) *)
(* Multiplex element: offset and length only - the reader takes it as little endian *)
Definition kcd_write_mux_pos (p : pos) : list Z := [p_start p; p_size p].
Definition kcd_read_mux_pos (f : list Z) : option pos := Some (mkPos true (fnth f 1) (fnth f 0)).
(* Message id="0x..", format="extended" *)
Definition kcd_write_id (a : arbid) : list Z := [fst a; bz' (snd a)].
Definition kcd_read_id (f : list Z) : option arbid := mk_arbid (fnth f 0) (fnth f 1 =? 1).

(* ---------- JSON: start_bit, bit_length, is_big_endian; Motorola start per jsonMotorolaBitFormat ---------- *)
Definition json_write_pos (n : notation) (p : pos) : list Z :=
  [ (if p_le p then start_in NLsb p else start_in n p); p_size p; bz' (negb (p_le p)) ].
(* the reader knows one notation: set_startbit(start_bit, bitNumbering=1, startLittle=True) for big endian *)
Definition json_read_pos (f : list Z) : option pos :=
  let s := fnth f 0 in let size := fnth f 1 in let le := fnth f 2 =? 0 in
  if le then Some (mkPos le size s) else mk_opt le size (set_startbit le size s (Some 1) true).
Definition json_write_id (a : arbid) : list Z := [fst a; bz' (snd a)].
Definition json_read_id (f : list Z) : option arbid := mk_arbid (fnth f 0) (fnth f 1 =? 1).

(* ---------- XLS: byte column int(start/8)+1, bit column start%8 of the number in notation n (for every signal),
   byte order letter (1 = 'i') ---------- *)
Definition xls_write_pos (n : notation) (p : pos) : list Z :=
  let s := start_in n p in
  [Z.quot s 8 + 1; s mod 8; p_size p; bz' (p_le p)].          (* int(x / 8) truncates toward zero *)
Definition xls_read_pos (n : notation) (f : list Z) : option pos :=
  let s := (fnth f 0 - 1) * 8 + fnth f 1 in
  let size := fnth f 2 in let le := fnth f 3 =? 1 in
  if le then Some (mkPos le size s) else mk_opt le size (set_in n le size s).
(* ID column "%3Xh" / "%3Xxh" : number and the x marker *)
Definition xls_write_id (a : arbid) : list Z := [fst a; bz' (snd a)].
Definition xls_read_id (f : list Z) : option arbid := mk_arbid (fnth f 0) (fnth f 1 =? 1).

(* ---------- dispatch by format code (harness numbering): 1 dbc 2 dbf 3 sym 4 kcd 5 json 6 xls 7 arxml ---------- *)
Definition notation_of (z : Z) : notation := match z with 1 => NMsb | 2 => NMsbReverse | _ => NLsb end.

Definition write_pos (fmt : Z) (n : notation) (p : pos) : list Z :=
  match fmt with
  | 1 => dbc_write_pos p | 2 => dbf_write_pos p | 3 => sym_write_pos p | 4 => kcd_write_pos p
  | 5 => json_write_pos n p | 6 => xls_write_pos n p | 7 => arxml_write_pos p
  | 8 => kcd_write_mux_pos p
  | _ => []
  end.
Definition read_pos (fmt : Z) (n : notation) (f : list Z) : option pos :=
  match fmt with
  | 1 => dbc_read_pos f | 2 => dbf_read_pos f | 3 => sym_read_pos f | 4 => kcd_read_pos f
  | 5 => json_read_pos f | 6 => xls_read_pos n f | 7 => arxml_read_pos f
  | 8 => kcd_read_mux_pos f
  | _ => None
  end.
Definition write_id (fmt : Z) (a : arbid) : list Z :=
  match fmt with
  | 1 => dbc_write_id a | 2 => dbf_write_id a | 3 => sym_write_id a | 4 => kcd_write_id a
  | 5 => json_write_id a | 6 => xls_write_id a | 7 => arxml_write_id a
  | _ => []
  end.
Definition read_id (fmt : Z) (f : list Z) : option arbid :=
  match fmt with
  | 1 => dbc_read_id f | 2 => dbf_read_id f | 3 => sym_read_id f | 4 => kcd_read_id f
  | 5 => json_read_id f | 6 => xls_read_id f | 7 => arxml_read_id f
  | _ => None
  end.

(* ---------- multi-bus files (KCD, ARXML): bus name -> frames.  Names are interned integers, 0 = the empty name.
   ARXML writes the empty name as "CAN" (code given by the caller); the reader builds a dict, a later bus of the
   same name replaces an earlier one. ---------- *)
Definition bus := (Z * list arbid)%type.
Definition bus_key (can_code : Z) (name : Z) : Z := if name =? 0 then can_code else name.
Definition write_cluster (can_code : Z) (bs : list bus) : list bus :=
  map (fun b => (bus_key can_code (fst b), snd b)) bs.
Fixpoint dict_set (k : Z) (v : list arbid) (d : list bus) : list bus :=
  match d with
  | [] => [(k, v)]
  | (k', v') :: r => if k' =? k then (k, v) :: r else (k', v') :: dict_set k v r
  end.
Definition read_cluster (file : list bus) : list bus :=
  fold_left (fun d b => dict_set (fst b) (snd b) d) file [].
Fixpoint dict_get (k : Z) (d : list bus) : option (list arbid) :=
  match d with
  | [] => None
  | (k', v) :: r => if k' =? k then Some v else dict_get k r
  end.

(* ---------- specification vocabulary ---------- *)
(* inside the envelope: a position canmatrix can hold (non-negative start, width at least 1) *)
Definition pos_ok (p : pos) : Prop := 0 <= p_start p /\ 1 <= p_size p.
(* the physical payload bit (byte, bit from LSB) of significance k of a stored position (Startbit.bit_coord) *)
Definition pos_bit (p : pos) (k : Z) : coord := bit_coord (p_le p) (p_size p) (p_start p) k.
Definition id_ok (a : arbid) : Prop := valid_ext a \/ valid_std a.
