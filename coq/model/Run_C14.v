(* Executable entry points of the C14 model (commands 1401-1499).
   Matrix encoding (groups): per frame  [nsig; name chars ...] [transmitters ...] [receivers ...] then nsig groups
   [signal name; receivers ...].  Writer codes 0..12 in the order of ExportEffects.writer.
   1401: [wcode; copies] :: matrix -> effect copies w m          (the caller's object after the export)
   1402: [wcode] :: matrix         -> view w m                   (what the bytes are produced from)
   1403: [copies; wcode ...] :: matrix -> after_exports          (a history of exports)
   1404: [] :: matrix              -> cluster_view m             (what CanCluster's own frames / signals lists hold)
   1411: [order as (kind,val) pairs] [signals as (name,kind,val) triples] -> sym_emit (sorted, after the fix)
   1412: same -> sym_emit_in_order (iteration order as given, before the fix)
   1413: [ints ...] -> isort
   mux kinds: 0 None, 1 'Multiplexor', 2 int *)
From CM Require Import lib.Prelude model.RunBase model.ExportEffects.

Definition writer_of (c : Z) : option writer :=
  match c with
  | 0 => Some Arxml | 1 => Some Csv | 2 => Some Dbc | 3 => Some Dbf | 4 => Some Fibex | 5 => Some Json
  | 6 => Some JsonAll | 7 => Some JsonNative | 8 => Some Kcd | 9 => Some Scapy | 10 => Some Sym
  | 11 => Some Wireshark | 12 => Some Xls | _ => None
  end.

Definition sig_of_group (g : list Z) : signal :=
  match g with [] => mkSignal 0 [] | n :: r => mkSignal n r end.
Fixpoint frames_of (fuel : nat) (a : io) : option matrix :=
  match fuel with
  | O => match a with [] => Some [] | _ => None end
  | S k =>
      match a with
      | [] => Some []
      | (ns :: name) :: tx :: rx :: rest =>
          let n := Z.to_nat ns in
          if (length rest <? n)%nat then None else
          match frames_of k (skipn n rest) with
          | Some m => Some (mkFrame name tx rx (map sig_of_group (firstn n rest)) :: m)
          | None => None
          end
      | _ => None
      end
  end.
Definition matrix_of (a : io) : option matrix := frames_of (length a) a.
Definition frame_out (f : frame) : io :=
  [Z.of_nat (length (f_signals f)) :: f_name f; f_transmitters f; f_receivers f]
  ++ map (fun s => s_name s :: s_receivers s) (f_signals f).
Definition matrix_out (m : matrix) : io := flat_map frame_out m.

Definition run_1401 (h : list Z) (a : io) : io :=
  match writer_of (nthz h 0), matrix_of a with
  | Some w, Some m => matrix_out (effect (zb (nthz h 1)) w m)
  | _, _ => [[-998]]
  end.
Definition run_1402 (h : list Z) (a : io) : io :=
  match writer_of (nthz h 0), matrix_of a with
  | Some w, Some m => matrix_out (view w m)
  | _, _ => [[-998]]
  end.
Fixpoint writers_of (l : list Z) : option (list writer) :=
  match l with
  | [] => Some []
  | c :: r => match writer_of c, writers_of r with Some w, Some ws => Some (w :: ws) | _, _ => None end
  end.
Definition run_1403 (h : list Z) (a : io) : io :=
  match h with
  | c :: wl => match writers_of wl, matrix_of a with
               | Some ws, Some m => matrix_out (after_exports (zb c) ws m)
               | _, _ => [[-998]]
               end
  | [] => [[-998]]
  end.

Definition mux_of (k v : Z) : mux := match k with 0 => MNone | 1 => MMultiplexor | _ => MInt v end.
Fixpoint order_of (fuel : nat) (g : list Z) : list mux :=
  match fuel with
  | O => []
  | S f => match g with k :: v :: r => mux_of k v :: order_of f r | _ => [] end
  end.
Fixpoint ssigs_of (fuel : nat) (g : list Z) : list ssig :=
  match fuel with
  | O => []
  | S f => match g with n :: k :: v :: r => (n, mux_of k v) :: ssigs_of f r | _ => [] end
  end.
Definition block_out (b : block) : list Z := let '(i, first, names) := b in i :: bz first :: names.
Definition run_1411 (o s : list Z) : io := map block_out (sym_emit (order_of (length o) o) (ssigs_of (length s) s)).
Definition run_1412 (o s : list Z) : io := map block_out (sym_emit_in_order (order_of (length o) o) (ssigs_of (length s) s)).

Definition run_c14 (cmd : Z) (a : io) : io :=
  match cmd, a with
  | 1401, h :: m => run_1401 h m
  | 1402, h :: m => run_1402 h m
  | 1403, h :: m => run_1403 h m
  | 1404, _ :: m => match matrix_of m with Some mm => matrix_out (cluster_view mm) | None => [[-998]] end
  | 1411, [o; s] => run_1411 o s
  | 1412, [o; s] => run_1412 o s
  | 1413, [l] => [isort l]
  | _, _ => [[-999]]
  end.
