(* Specification vocabulary for the decimal model: exact values by cross-multiplication (everything stays in Z)
   and the precision envelope.  Definitions only. *)
From CM Require Import lib.Prelude model.Decimal.

(* numerator of d over the common denominator 10^(-e): value(d) = dnum d e * 10^e, exact whenever e <= de d *)
Definition dnum (d : dec) (e : Z) : Z := dm d * 10 ^ (de d - e).

(* the integer m has at most 28 significant digits (after dropping trailing zeros): the value m * 10^x is
   representable with a coefficient of at most `prec` = 28 digits *)
Definition fits28 (m : Z) : Prop := exists c j, 0 <= j /\ m = c * 10 ^ j /\ Z.abs c < 10 ^ 28.

(* two decimals denote the same number *)
Definition dval_eq (a b : dec) : Prop :=
  let e := Z.min (de a) (de b) in dnum a e = dnum b e.
