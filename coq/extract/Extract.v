(* Extraction of the executable model.  Only ExtrOcamlBasic: bool, option, list, prod, unit, sumbool
   map to OCaml natives; Z, N, positive, nat stay the extracted Coq inductives.  No Extract Constant. *)
From Coq Require Extraction.
From Coq Require Import ExtrOcamlBasic.
From CM Require Import model.Run.
Extraction "cm_model.ml" run.
