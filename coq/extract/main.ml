(* Driver: one case per line "cmd g1 | g2 | ..." with integers in hex (optional leading '-');
   prints the answer groups in the same syntax.  Z stays the extracted inductive. *)
open Cm_model

let rec pos_of_bits (bits : bool list) : positive =
  (* bits: most significant first, first is true *)
  match bits with
  | [] -> XH
  | _ ->
    let rec go acc = function
      | [] -> acc
      | b :: r -> go (if b then XI acc else XO acc) r in
    (match bits with _ :: r -> go XH r | [] -> XH)

let z_of_hex (s : string) : z =
  let neg = String.length s > 0 && s.[0] = '-' in
  let s = if neg then String.sub s 1 (String.length s - 1) else s in
  let bits = ref [] in
  String.iter (fun c ->
    let v = match c with
      | '0'..'9' -> Char.code c - 48
      | 'a'..'f' -> Char.code c - 87
      | 'A'..'F' -> Char.code c - 55
      | _ -> failwith ("bad hex digit in " ^ s) in
    bits := (v land 1 <> 0) :: (v land 2 <> 0) :: (v land 4 <> 0) :: (v land 8 <> 0) :: !bits) s;
  let msb_first = List.rev !bits in
  let rec strip = function false :: r -> strip r | l -> l in
  match strip msb_first with
  | [] -> Z0
  | l -> let p = pos_of_bits l in if neg then Zneg p else Zpos p

let hex_of_pos (p : positive) : string =
  (* collect bits lsb first *)
  let rec bits p acc = match p with
    | XH -> true :: acc
    | XO q -> bits q (false :: acc)
    | XI q -> bits q (true :: acc) in
  (* bits returns msb first because we cons lsb..msb in order: fix by building explicitly *)
  let rec lsb p = match p with XH -> [true] | XO q -> false :: lsb q | XI q -> true :: lsb q in
  ignore bits;
  let l = lsb p in
  let rec nibbles l acc = match l with
    | [] -> acc
    | _ ->
      let take l = match l with [] -> (false, []) | b :: r -> (b, r) in
      let (b0, l) = take l in let (b1, l) = take l in let (b2, l) = take l in let (b3, l) = take l in
      let v = (if b0 then 1 else 0) + (if b1 then 2 else 0) + (if b2 then 4 else 0) + (if b3 then 8 else 0) in
      nibbles l ("0123456789abcdef".[v] :: acc) in
  let cs = nibbles l [] in
  let b = Buffer.create 16 in
  List.iter (Buffer.add_char b) cs;
  (* strip leading zeros *)
  let s = Buffer.contents b in
  let n = String.length s in
  let i = ref 0 in
  while !i < n - 1 && s.[!i] = '0' do incr i done;
  String.sub s !i (n - !i)

let hex_of_z = function
  | Z0 -> "0"
  | Zpos p -> hex_of_pos p
  | Zneg p -> "-" ^ hex_of_pos p

let split_ws s = List.filter (fun x -> x <> "") (String.split_on_char ' ' s)

let () =
  let out = Buffer.create 65536 in
  (try
    while true do
      let line = input_line stdin in
      if String.length line > 0 then begin
        let groups = String.split_on_char '|' line in
        match groups with
        | [] -> ()
        | first :: rest ->
          (match split_ws first with
           | [] -> ()
           | cmd :: g0 ->
             let args = List.map z_of_hex g0 :: List.map (fun g -> List.map z_of_hex (split_ws g)) rest in
             let res = run (z_of_hex cmd) args in
             let strs = List.map (fun g -> String.concat " " (List.map hex_of_z g)) res in
             Buffer.add_string out (String.concat " | " strs);
             Buffer.add_char out '\n';
             if Buffer.length out > 60000 then (print_string (Buffer.contents out); Buffer.clear out))
      end
    done
  with End_of_file -> ());
  print_string (Buffer.contents out)
