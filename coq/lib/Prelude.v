(* Shared header: arithmetic automation for boolean models over Z. No axioms, no proofs of
   model facts here. *)
From Coq Require Export ZArith List Bool Lia.
From Coq Require Export ZifyBool ZifyNat.
Export ListNotations.
Ltac Zify.zify_post_hook ::= Z.to_euclidean_division_equations.
Global Open Scope Z_scope.

(* destruct the first boolean comparison that is the discriminee of an if/match in the goal *)
Ltac case_if :=
  match goal with
  | |- context [if ?b then _ else _] => destruct b eqn:?
  | H : context [if ?b then _ else _] |- _ => destruct b eqn:?
  end.
