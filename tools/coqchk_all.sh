#!/bin/bash
# Re-checks every compiled property file (and everything it depends on) with Coq's independent checker and records
# the axioms it reports.  Not part of the registered commands (minutes, gigabytes); the result is kept in
# /verif/audit/coqchk.txt for the trusted-base statement in DESIGN.md.
cd /verif/coq || exit 2
mods=""
for f in props/C*.v; do b=$(basename "$f" .v); mods="$mods CM.props.$b"; done
for f in gen/Tie_*.v; do b=$(basename "$f" .v); [ -f "gen/$b.vo" ] && mods="$mods CM.gen.$b"; done
( echo "# coqchk -silent -o over: $mods"; echo "# $(date -u +%FT%TZ)  coq $(coqc --version | head -1)";
  timeout 7200 coqchk -silent -o -Q . CM $mods 2>&1 | tail -40 ) > /verif/audit/coqchk.txt
tail -15 /verif/audit/coqchk.txt
