#!/bin/bash
# Validate MANIFEST.json and every evidence file against the published schemas (jsonschema lives in the tooling venv).
python3-vt - <<'PY'
import json, jsonschema, glob, sys
bad = 0
m = json.load(open('/verif/MANIFEST.json'))
try:
    jsonschema.validate(m, json.load(open('/root/.vp/MANIFEST.schema.json')))
except Exception as e:
    print("MANIFEST.json:", str(e)[:300]); bad += 1
es = json.load(open('/root/.vp/EVIDENCE.schema.json'))
for f in sorted(glob.glob('/verif/evidence/C*.json')):
    try:
        jsonschema.validate(json.load(open(f)), es)
    except Exception as e:
        print(f, str(e)[:300]); bad += 1
ps = json.load(open('/root/.vp/PROPERTIES.schema.json'))
print("checks claimed:", len(m['checks']), "not applicable:", len(m.get('not_applicable', [])), "invalid files:", bad)
sys.exit(1 if bad else 0)
PY
