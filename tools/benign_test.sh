#!/bin/bash
# tools/benign_test.sh <dir with patch.diff meta.json> <property id> [more property ids]
# Applies a behaviour-preserving refactoring to a scratch worktree, runs the suite and the check(s) against it and stores the
# result under /verif/benign/<name>/ . Expected outcome: no VIOLATION line (anything else is a false alarm to investigate).
set -u
SRC="$1"; PID="$2"; shift 2; EXTRA="$@"
NAME="$(basename "$SRC")"
WT="/tmp/benrun_$NAME"
git -C /repo worktree remove --force "$WT" >/dev/null 2>&1
rm -rf "$WT"
git -C /repo worktree add -q --detach "$WT" HEAD || exit 2
if ! git -C "$WT" apply "$SRC/patch.diff" 2>/dev/null && ! git -C "$WT" apply -3 "$SRC/patch.diff"; then echo "patch does not apply"; git -C /repo worktree remove --force "$WT"; exit 2; fi
(cd "$WT" && PYTHONPATH="$WT/src" /venv/bin/python -m pytest -q -p no:cacheprovider 2>&1 | tail -1) > /tmp/ben_suite_$NAME.txt
OUT="/tmp/benout_$NAME"; rm -rf "$OUT"; mkdir -p "$OUT"
HOLDS=""
if [ -f "$SRC/holds.py" ]; then
  # the author's demonstration that the property still holds: must pass on the unchanged and on the changed tree
  PYTHONPATH=/repo/src timeout 900 /venv/bin/python "$SRC/holds.py" >/dev/null 2>&1; H1=$?
  PYTHONPATH="$WT/src" timeout 900 /venv/bin/python "$SRC/holds.py" >/dev/null 2>&1; H2=$?
  HOLDS="unchanged_rc=$H1 changed_rc=$H2"
  mkdir -p "/verif/benign/$NAME"; [ "$(readlink -f "$SRC")" = "/verif/benign/$NAME" ] || cp "$SRC/holds.py" "/verif/benign/$NAME/"
fi
RES=""
for P in $PID $EXTRA; do
  (cd /verif && VERIF_REPO="$WT" VERIF_OUT="$OUT" ./check "$P" --tier quick) > "$OUT/check_$P.txt" 2>&1; RC=$?
  grep -E "VIOLATION|KNOWN-FINDING" "$OUT/check_$P.txt" | grep -v KNOWN-FINDING; tail -1 "$OUT/check_$P.txt"
  RES="$RES $P:rc=$RC"
done
git -C /repo worktree remove --force "$WT"
mkdir -p "/verif/benign/$NAME"
[ "$(readlink -f "$SRC")" = "/verif/benign/$NAME" ] || cp "$SRC/patch.diff" "/verif/benign/$NAME/"
/venv/bin/python - "$SRC" "$NAME" "$PID" "$RES" "$OUT" "$HOLDS" <<'PY'
import json, sys, os, glob
src, name, pid, res, out, holds = sys.argv[1:7]
meta = json.load(open(os.path.join(src, "meta.json")))
suite = open("/tmp/ben_suite_%s.txt" % name).read().strip()
viol, trans = [], {}
for f in glob.glob(os.path.join(out, "check_*.txt")):
    for l in open(f):
        if l.startswith("VIOLATION"):
            viol.append(l.strip().replace(out, "<scratch>"))
for f in glob.glob(os.path.join(out, "evidence", "*.json")):
    e = json.load(open(f))
    t = (e.get("coverage", {}).get("ties", {}) or {}).get("translator")
    if t:
        trans[os.path.basename(f)[:-5]] = {"status": t.get("status"), "untranslatable": sorted(t.get("untranslatable", {}))}
meta.update({"property": pid, "suite_with_change": suite, "checks_run": res.split(), "violation_lines": viol,
             "false_alarm": bool(viol), "translator_tie": trans})
if holds:
    meta["property_demo"] = holds
json.dump(meta, open("/verif/benign/%s/meta.json" % name, "w"), indent=1)
print("BENIGN", name, "FALSE-ALARM" if viol else "quiet", "|", suite, "| translator", trans)
PY
if [ -s "$OUT/replays" ] && ls "$OUT"/replays/* >/dev/null 2>&1; then mkdir -p /tmp/benkeep_$NAME; cp -r "$OUT"/replays /tmp/benkeep_$NAME/; fi
rm -rf "$OUT"
