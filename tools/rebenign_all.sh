#!/bin/bash
# Re-run every kept behaviour-preserving refactoring and every "change the property says nothing about" against the
# current /repo HEAD; each must stay quiet. Four at a time.
cd /verif
ls -d benign/*/ | xargs -n1 basename | xargs -P 4 -I{} sh -c 'n={}; tools/benign_test.sh /verif/benign/$n ${n%%_*} 2>&1 | grep "^BENIGN\|patch does not" | cut -c1-40 | sed "s/^/$n: /"'
