#!/bin/bash
# tools/seed_test.sh <dir with patch.diff demo.py meta.json> <property id> [more property ids to also run]
# Confirms a seeded change (suite passes, demo fails with it / passes without it), runs the check(s) against a scratch
# worktree carrying the change, and stores the result under /verif/seeded/<name>/.
set -u
SRC="$1"; PID="$2"; shift 2; EXTRA="$@"
NAME="$(basename "$SRC")"
WT="/tmp/seedrun_$NAME"
git -C /repo worktree remove --force "$WT" >/dev/null 2>&1
rm -rf "$WT"
git -C /repo worktree add -q --detach "$WT" HEAD || exit 2
if ! git -C "$WT" apply "$SRC/patch.diff" 2>/dev/null && ! git -C "$WT" apply -3 "$SRC/patch.diff"; then echo "patch does not apply"; git -C /repo worktree remove --force "$WT"; exit 2; fi
echo "== demo on unchanged tree"; PYTHONPATH=/repo/src /venv/bin/python "$SRC/demo.py" >/tmp/seed_demo_clean_$NAME.txt 2>&1; RC_CLEAN=$?; tail -2 /tmp/seed_demo_clean_$NAME.txt
echo "== demo on changed tree"; PYTHONPATH="$WT/src" /venv/bin/python "$SRC/demo.py" >/tmp/seed_demo_mut_$NAME.txt 2>&1; RC_MUT=$?; tail -2 /tmp/seed_demo_mut_$NAME.txt
echo "== test suite on changed tree"; (cd "$WT" && PYTHONPATH="$WT/src" /venv/bin/python -m pytest -q -p no:cacheprovider 2>&1 | tail -1) | tee /tmp/seed_suite_$NAME.txt
OUT="/tmp/seedout_$NAME"; rm -rf "$OUT"; mkdir -p "$OUT"
RES=""
for P in $PID $EXTRA; do
  echo "== ./check $P against the changed tree"
  (cd /verif && VERIF_REPO="$WT" VERIF_OUT="$OUT" ./check "$P" --tier quick) > "$OUT/check_$P.txt" 2>&1; RC=$?
  grep -E "VIOLATION|KNOWN-FINDING" "$OUT/check_$P.txt"; tail -1 "$OUT/check_$P.txt"
  RES="$RES $P:rc=$RC"
done
git -C /repo worktree remove --force "$WT"
mkdir -p "/verif/seeded/$NAME"
[ "$(readlink -f "$SRC")" = "/verif/seeded/$NAME" ] || cp "$SRC/patch.diff" "$SRC/demo.py" "/verif/seeded/$NAME/"
/venv/bin/python - "$SRC" "$NAME" "$PID" "$RC_CLEAN" "$RC_MUT" "$RES" "$OUT" <<'PY'
import json, sys, os, glob
src, name, pid, rc_clean, rc_mut, res, out = sys.argv[1:8]
meta = json.load(open(os.path.join(src, "meta.json")))
try:
    prev = json.load(open("/verif/seeded/%s/meta.json" % name))
    if "history" in prev and "history" not in meta:
        meta["history"] = prev["history"]          # notes added after an earlier run survive a re-run
except (OSError, ValueError):
    pass
suite = open("/tmp/seed_suite_%s.txt" % name).read().strip()
viol = []
for f in glob.glob(os.path.join(out, "check_*.txt")):
    for l in open(f):
        if l.startswith("VIOLATION"):
            viol.append(l.strip().replace(out, "<scratch>"))
meta.update({"property": pid, "confirmed": {"demo_unchanged_rc": int(rc_clean), "demo_changed_rc": int(rc_mut), "suite_with_change": suite},
             "checks_run": res.split(), "violation_lines": viol, "detected": bool(viol)})
json.dump(meta, open("/verif/seeded/%s/meta.json" % name, "w"), indent=1)
print("RESULT", name, "detected" if viol else "MISSED", "| demo clean rc", rc_clean, "changed rc", rc_mut, "|", suite)
PY
rm -rf "$OUT"
