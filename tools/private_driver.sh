#!/bin/bash
# tools/private_driver.sh <Module> <function>   e.g.  tools/private_driver.sh Run_C03 run_c03
# Builds a private copy of the OCaml driver around model/<Module>.v's `<function> : Z -> io -> io` in /tmp/drv_<Module>/cmrun
# (for developing a property's command set before it is wired into model/Run.v).  model/<Module>.vo must be compiled.
set -e
M="$1"; F="$2"; D="/tmp/drv_$M"
rm -rf "$D"; mkdir -p "$D"
cat > "$D/Extract.v" <<EOV
From Coq Require Extraction.
From Coq Require Import ExtrOcamlBasic.
From CM Require Import model.RunBase model.$M.
Definition run := $F.
Extraction "cm_model.ml" run.
EOV
cp /verif/coq/extract/main.ml "$D/"
cd "$D" && coqc -Q /verif/coq CM Extract.v && ocamlfind ocamlopt -w -a cm_model.mli cm_model.ml main.ml -o cmrun
echo "built $D/cmrun ; use: VERIF_CMRUN=$D/cmrun VERIF_RUNMOD=$M:$F ./check <id>"
