#!/bin/bash
# Re-confirm every kept seeded change against the current /repo HEAD and re-run the check(s) that should catch it.
# Sequential on purpose: runs against a scratch tree regenerate coq/gen from that tree.
cd /verif
for d in seeded/*/; do
  n=$(basename $d); p=${n%_*}
  [ -f "$d/patch.diff" ] || continue
  tools/seed_test.sh /verif/seeded/$n $p 2>&1 | grep "^RESULT\|patch does not"
done
