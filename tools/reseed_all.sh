#!/bin/bash
# Re-confirm every kept seeded change against the current /repo HEAD and re-run the check(s) that should catch it.
# Four at a time (each run has its own scratch worktree, output directory and private gen directory); seeds whose
# meta.json carries "retired" (premise removed by a later fix) are skipped.
cd /verif
for d in seeded/*/; do
  n=$(basename $d)
  [ -f "$d/patch.diff" ] || continue
  grep -q '"retired"' "$d/meta.json" && { echo "RETIRED $n"; continue; }
  echo $n
done | grep -v "^RETIRED" | xargs -P 4 -I{} sh -c 'n={}; tools/seed_test.sh /verif/seeded/$n ${n%_*} 2>&1 | grep "^RESULT\|patch does not" | cut -c1-60 | sed "s/^/$n: /"' 
