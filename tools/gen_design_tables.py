#!/usr/bin/env python3
"""Rewrites the generated block of DESIGN.md (between the AUTOGEN markers): repaired defects, known findings and the
catalogue of seeded changes with which checks caught them - from known_findings.json and seeded/*/meta.json."""
import glob, json, os, re
V = os.path.dirname(os.path.dirname(os.path.abspath(__file__)))
k = json.load(open(os.path.join(V, "known_findings.json")))
out = []
out.append("### 10.3 Defects found in ebroecker/canmatrix by the checks\n")
out.append("Every entry was reproduced against the real code by the check named in `property`; a *fixed* entry is one unguarded `fix:` commit in /repo "
           "(suite re-run unedited: 327 passed) and suppresses nothing; a *known finding* is a genuine defect whose repair is not small/safe - the check "
           "prints `KNOWN-FINDING:` for exactly that failure class (`key`) and exits 0.\n")
out.append("**Repaired (%d `fix:` commits)**\n" % len(k["fixed"]))
for f in k["fixed"]:
    m = re.match(r"fixed: property=(C\d+) (\w+) (.*)", f)
    out.append("* %s `%s` - %s" % (m.group(1), m.group(2), m.group(3)))
out.append("\n**Known findings (%d)**\n" % len(k["findings"]))
for f in k["findings"]:
    out.append("* %s `%s` - %s" % (f["property"], f["key"], f["what"]))
out.append("\n### 10.4 Seeded changes (written by fresh helper processes that saw only the property text) and which checks catch them\n")
out.append("Each change compiles, passes the unedited suite (327 passed, importing the changed tree) and comes with a demonstration that fails with it and "
           "passes without it; all of that was re-confirmed by `tools/seed_test.sh` before the change was kept under `seeded/<name>/`. "
           "\"missed first\" means the first version of the check did not report it and was strengthened.\n")
out.append("| change | property | what it does / what it needs | caught by (violation classes) | note |")
out.append("|---|---|---|---|---|")
for d in sorted(glob.glob(os.path.join(V, "seeded", "*"))):
    mp = os.path.join(d, "meta.json")
    if not os.path.exists(mp):
        continue
    m = json.load(open(mp))
    keys = sorted({re.sub(r".*replays/%s_(.*)\.json.*" % m.get("property", ""), r"\1", v) for v in m.get("violation_lines", [])})
    what = (str(m.get("summary", "")) + " NEEDS: " + str(m.get("needs", ""))).replace("|", "/").replace("\n", " ")
    if len(what) > 420:
        what = what[:417] + "..."
    out.append("| %s | %s | %s | %s | %s |" % (os.path.basename(d), m.get("property"), what,
               ("`./check %s`: " % m.get("property") + ", ".join(keys)) if m.get("detected") else ("(retired)" if m.get("retired") else "**not detected**"),
               (m.get("history", "") + (" RETIRED: " + m["retired"] if m.get("retired") else "")).replace("|", "/")))
out.append("\n### 10.4b Behaviour-preserving refactorings (false-alarm test; written by fresh helper processes that saw only the property text)\n")
out.append("Each refactoring passes the unedited suite and was compared by its author with the original on thousands of random and odd inputs "
           "(differential script, no difference). `tools/benign_test.sh` applies it to a scratch worktree and runs the check: the expected outcome is "
           "silence. The translator column shows what happened to the regenerated-model tie (`ok` = Tie theorems still prove against the refactored "
           "source; `unavailable` = the refactored function left the translated subset, the correspondence run alone carried the property).\n")
out.append("| refactoring | property | what was refactored | check outcome | translator tie |")
out.append("|---|---|---|---|---|")
for d in sorted(glob.glob(os.path.join(V, "benign", "*"))):
    mp = os.path.join(d, "meta.json")
    if not os.path.exists(mp):
        continue
    m = json.load(open(mp))
    what = str(m.get("summary", "")).replace("|", "/").replace("\n", " ")
    if len(what) > 380:
        what = what[:377] + "..."
    tt = "; ".join("%s %s%s" % (k, v.get("status"), (" (" + ", ".join(v.get("untranslatable", [])) + ")") if v.get("untranslatable") else "")
                   for k, v in sorted((m.get("translator_tie") or {}).items())) or "-"
    out.append("| %s | %s | %s | %s | %s |" % (os.path.basename(d), m.get("property"), what,
               "**false alarm**: " + "; ".join(m.get("violation_lines", [])) if m.get("false_alarm") else "quiet (" + " ".join(m.get("checks_run", [])) + ")",
               tt + ((" - " + m["note"]) if m.get("note") else "")))
out.append("\n### 10.5 What is proved, per property (generated from coq/props/*.v and MANIFEST.json)\n")
man = json.load(open(os.path.join(V, "MANIFEST.json")))
claimed = {c["property_id"]: c for c in man["checks"]}
out.append("| id | claim | model files | theorems (all `Closed under the global context`; `_refuted` = witness that a hypothesis/envelope is needed) |")
out.append("|---|---|---|---|")
for pid in sorted(claimed):
    pf = os.path.join(V, "coq", "props", pid + ".v")
    if not os.path.exists(pf):
        continue
    txt = open(pf).read()
    models = sorted(set(re.findall(r"model\.([A-Za-z0-9_]+)", txt)))
    thms = re.findall(r"(?m)^Theorem\s+([A-Za-z0-9_']+)", txt)
    short = [t[len(pid) + 1:] if t.startswith(pid + "_") else t for t in thms]
    partial = "partial" if claimed[pid]["level_claimed"]["text"].startswith("PARTIAL") else "full"
    out.append("| %s | %s | %s | %d: %s |" % (pid, partial, ", ".join(m + ".v" for m in models), len(thms), ", ".join(short)))
na = man.get("not_applicable", [])
if na:
    out.append("\nNot claimed at the moment: " + "; ".join("%s (%s)" % (n["property_id"], n["reason"]) for n in na))
block = "\n".join(out) + "\n"
p = os.path.join(V, "DESIGN.md")
s = open(p).read()
B, E = "<!-- AUTOGEN-BEGIN -->", "<!-- AUTOGEN-END -->"
if B in s:
    s = s[:s.index(B) + len(B)] + "\n" + block + s[s.index(E):]
else:
    s += "\n" + B + "\n" + block + E + "\n"
open(p, "w").write(s)
print("DESIGN.md tables regenerated: %d fixed, %d findings" % (len(k["fixed"]), len(k["findings"])))
