"""C10: frame lookups stay coherent with the matrix over every edit history.

Histories of matrix operations are executed on the real CanMatrix objects.  SEARCH: every lookup answer is checked
against a scan of db.frames written here (the property itself).  TIE: the same history, operation by operation,
is run through model/Lookup.v (cmd 1001: what every call returned, the final frame lists and memos).

A history is a list of operations (JSON-able lists), total on every state so that any sub-list is a history:
  ["new"]                              CanMatrix()
  ["newdbc", [[id, ext, n]...], [e..]] canmatrix.formats.loads_flat(generated DBC text)  (reader: db.frames.append)
  ["load", fmt, [[[id, ext, n]...]...]] canmatrix.formats.loads(dump({BusA: m1, BusB: m2, ..}, fmt), fmt): one matrix per bus for the
                                       cluster formats arxml/kcd (equally named frames on several buses), one for dbc/dbf/sym/json
  ["add", m, id, ext, n]               db.add_frame(Frame(NAMES[n], ArbitrationId(id, ext), header_id=HDRS[n]))
  ["app", m, id, ext, n]               db.frames.append(Frame(...))           (what dbc.py does)
  ["rem", m, p] / ["delp", m, p]       db.remove_frame(db.frames[p]) / db.del_frame(db.frames[p]); p past the end: a foreign Frame
  ["deln", m, n]                       db.del_frame(NAMES[n])
  ["ren", m, a, b]                     db.rename_frame(NAMES[a], NAMES[b])
  ["setid", m, p, id, ext]             db.frames[p].arbitration_id = ArbitrationId(id, ext)      (skipped when p is past the end)
  ["inpl", m, p, id]                   db.frames[p].arbitration_id.id = id                        (skipped when p is past the end)
  ["sethdr", m, p, h]                  db.frames[p].header_id = h   (h an integer or null)        (skipped when p is past the end)
  ["chg", m, id, ext, new]             convert.py changeFrameId: f = db.frame_by_id(..); if f: f.arbitration_id.id = new
  ["ecu", m, e]                        db.add_ecu(Ecu(ECUS[e]))
  ["copy", s, d, id, ext]              canmatrix.copy.copy_frame(ArbitrationId(id, ext), mats[s], mats[d])
  ["merge", d, s]                      mats[d].merge([mats[s]])
  ["lid", m, id, ext] ["lname", m, n] ["lpgn", m, p] ["lhdr", m, h]     the four lookups
  ["obs"]                              every lookup for every key of the universe on every matrix
Names (n, a, b) are indices into NAMES or literal strings.  Operations naming a matrix that does not exist are skipped."""
import glob
import io
import json
import multiprocessing
import os
import time

import core

LEVEL_NOTE = ("where several frames of a matrix carry the key a lookup is asked for, the property wants one of them, not a particular one: the "
              "model's answer (first / memoised) and the implementation's are tied modulo that choice, and a history is tied only up to the "
              "point where such a choice enters the state; theorems are about model/Lookup.v (the memo is part of the model state); the model is tied to the code by "
              "running every history of the search through both; outside: get_frame_by_id/get_frame_by_name (dict indexes), "
              "callers that mutate db.frames other than by the reader-style append, one Frame object placed in two matrices, "
              "ArbitrationId.extended set to None by assignment (wildcard), names with a leading/trailing '*' (C17)")

NAMES = ["FrA", "FrB", "FrC"]
HDRS = [0x51, 0x52, None]
ECUS = ["E1", "E2"]
IDS = [0x100, 0x200, 0x300]

def spec_pgn(i):
    pf = (i >> 16) & 0xFF
    return (((i >> 25) & 1) << 17) + (((i >> 24) & 1) << 16) + (pf << 8) + (((i >> 8) & 0xFF) if pf >= 240 else 0)


UNIVERSES = {
    # 3 ids x 2 formats x 3 names (all 29-bit ids of this universe have PGN 0)
    "full": dict(keys=[(i, e) for e in (False, True) for i in IDS], names=[0, 1, 2], pgns=[0, 0xFEF1], hdrs=[0x51, 0x52]),
    "small": dict(keys=[(i, e) for e in (False, True) for i in IDS[:2]], names=[0, 1], pgns=[0], hdrs=[0x51]),
    # random histories: PGNs that differ, PGNs shared by several ids, PDU1 and PDU2
    "rand": dict(keys=[(0x100, False), (0x200, False), (0x300, False), (0x100, True), (0x200, True), (0x18FEF100, True),
                       (0x0CFEF133, True), (0x18EF1200, True), (0x18EF3400, True)],
                 names=[0, 1, 2], pgns=[0, 0xFEF1, 0xEF00, 0xEF12, 0x1234], hdrs=[0x51, 0x52, 0x53]),
}
# matrices delivered by the file readers: the ARXML reader prefixes frame names
# keys at the edge of their range, several of them falsy in Python: identifier 0 in both formats, the largest 11-bit and 29-bit
# identifiers, header id 0, PGN 0 and the largest PGN; here the frame called NAMES[n] is created with header id hdr_of[n]
UNIVERSES["edge"] = dict(keys=[(0, False), (0, True), (0x7FF, False), (0x1FFFFFFF, True), (0x100, False)], names=[0, 1, 2],
                         pgns=[0, 0x3FFFF, 0xFEF1], hdrs=[0, 1, 0xFFFFFFFF], hdr_of=[0, 1, None])
UNIVERSES["rand"]["hdrs"] = [0, 0x51, 0x52, 0x53]
# near-miss twins: keys that differ from another key of the universe in exactly ONE bit - every single bit of a 29-bit PDU2
# identifier (priority, EDP, DP, PF, PS, SA), the PGN-relevant bits of a PDU1 identifier, 11-bit identifiers one bit apart, and
# the PGN of every one of them as a probe; names and header ids that differ in one character / bit.  A lookup that compares
# fewer bits than the key has answers with the twin.
TWIN_BASE, TWIN_BASE1 = 0x18FEF100, 0x18EF1200
UNIVERSES["twins"] = dict(
    keys=[(0x100, False), (0x101, False), (0x500, False), (TWIN_BASE, True)] + [(TWIN_BASE ^ (1 << b), True) for b in range(29)] +
         [(TWIN_BASE1, True)] + [(TWIN_BASE1 ^ (1 << b), True) for b in (8, 16, 24, 25)],
    names=[0, 1, 2, "Fra", "FrA_"], hdrs=[0x51, 0x50, 0x151, 0])
UNIVERSES["twins"]["pgns"] = sorted({spec_pgn(i) for i, e in UNIVERSES["twins"]["keys"] if e})
# one universe per field of the identifier for the exhaustive twin sweeps: the base and its twin in that field
TWIN_FIELDS = [("priority", 26), ("EDP", 25), ("DP", 24), ("PF", 16), ("PS", 8), ("SA", 0)]
for _f, _b in TWIN_FIELDS:
    UNIVERSES["twin-" + _f] = dict(keys=[(TWIN_BASE, True), (TWIN_BASE ^ (1 << _b), True)], names=[0, 1],
                                   pgns=sorted({spec_pgn(TWIN_BASE), spec_pgn(TWIN_BASE ^ (1 << _b))}), hdrs=[0x51])
UNIVERSES["readers"] = dict(UNIVERSES["rand"], names=[0, 1, 2, "FRAME_FrA", "FRAME_FrB", "FRAME_FrC", "Ren1", "Ren2"], hdrs=[0x51])


KEY_WHAT = {
    "lookup-returns-removed-frame": "a lookup returned a frame that is no longer in the matrix (stale memo after a removal)",
    "lookup-returns-frame-without-key": "a lookup returned a frame of the matrix that does not carry the requested key (stale memo after an identifier change)",
    "lookup-returns-frame-of-other-matrix": "a lookup returned a frame that belongs to another matrix (memo shared between matrices)",
    "lookup-returns-unknown-object": "a lookup returned an object that never was a frame of any matrix of the history",
    "lookup-misses-frame": "a lookup returned None although a frame of the matrix carries the key",
    "lookup-raises": "a lookup raised",
    "operation-raises": "copy_frame/merge raised although the source holds the frame (its own lookups of one id disagreed)",
    "bystander-matrix-modified": "an operation changed the frame list of a matrix it was not addressed to",
    "bystander-lookup-changed": "a lookup on a matrix answers differently than before although no operation was addressed to that matrix in between",
    "frame-object-shared-between-matrices": "one Frame object sits in the frame lists of two matrices (an edit through one matrix changes the lookups of the other)",
}


def dbc_text(frames, ecus):
    out = ['VERSION ""', "", "NS_ :", "", "BS_:", "", "BU_:" + "".join(" " + ECUS[e] for e in ecus), ""]
    for i, e, n in frames:
        out += ["BO_ %d %s: 8 Vector__XXX" % ((i | 0x80000000) if e else i, NAMES[n]), ""]
    return "\n".join(out) + "\n"


def obs_lookups(nmat, uni):
    """what ["obs"] stands for"""
    U = UNIVERSES[uni]
    out = []
    for mi in range(nmat):
        out += [["lid", mi, i, e] for i, e in U["keys"]]
        out += [["lname", mi, n] for n in U["names"]]
        out += [["lpgn", mi, p] for p in U["pgns"]]
        out += [["lhdr", mi, h] for h in U["hdrs"]]
    return out


class Failure(Exception):
    pass


class Runner:
    """Executes histories on the implementation; keeps the model transcript and the property verdict."""

    def __init__(self):
        cm = core.import_impl()
        import canmatrix.copy
        import canmatrix.formats
        self.cm = cm
        self.C = cm.canmatrix
        self.copy_frame = canmatrix.copy.copy_frame
        self.loads_flat = canmatrix.formats.loads_flat
        self.formats = canmatrix.formats
        self.dump_cache = {}
        self.load_failed = 0
        self.memo_after_load = 0
        self.memo_attr = "_frames_dict_id_extend"
        self.class_containers = [v for v in vars(self.C.CanMatrix).values() if isinstance(v, (dict, list, set))]

    def fresh_process_state(self):
        """Every history starts from what a fresh interpreter would see: mutable containers that live on the class
        (not on instances) are emptied.  Without this a failure would depend on the histories run before it and its
        minimal history would not replay on its own."""
        for v in self.class_containers:
            v.clear()

    # ---- matrices that come out of a file reader ----
    def file_bytes(self, fmt, buses):
        """dump({bus: matrix}, fmt) of freshly built matrices; buses: [[[id, ext, n], ...], ...]"""
        key = (fmt, json.dumps(buses))
        data = self.dump_cache.get(key)
        if data is None:
            C = self.C
            src = {}
            for b, frames in enumerate(buses):
                db = C.CanMatrix()
                for i, e, n in frames:
                    f = C.Frame(NAMES[n], arbitration_id=C.ArbitrationId(i, bool(e)), size=8)
                    f.add_signal(C.Signal("s" + NAMES[n], start_bit=0, size=8))
                    db.add_frame(f)
                src["Bus" + "ABCD"[b]] = db
            buf = io.BytesIO()
            if fmt in ("arxml", "kcd"):
                self.formats.dump(src, buf, fmt)
            else:
                self.formats.dump(src["BusA"], buf, fmt)
            data = self.dump_cache[key] = buf.getvalue()
        return data

    def load(self, op, mats, mops, exp, register, uid_of, nidx, step):
        """["load", fmt, buses]: every matrix the reader returns becomes a matrix of the world (cluster readers:
        in the order of the bus names).  In the model each is NewMatrix + one FramesAppend per frame the reader
        delivered, with the values it delivered: distinct objects, which is what independence presupposes."""
        fmt, buses = op[1], op[2]
        try:
            loaded = self.formats.loads(self.file_bytes(fmt, buses), fmt)
        except Exception:  # noqa  what the readers accept is the subject of C06/C15, not of this check
            loaded = None
        if not loaded:
            self.load_failed += 1
            return
        for bus in sorted(loaded):
            db = loaded[bus]
            mats.append(db)
            mi = len(mats) - 1
            mops.append([1])
            exp.append([0])
            first = len(exp)
            for f in db.frames:
                mops.append([3, mi, f.arbitration_id.id, int(bool(f.arbitration_id.extended)), nidx(f.name),
                             -1 if f.header_id is None else f.header_id, int(bool(f.is_j1939))])
                exp.append(None)
            register(mi, step, op)
            for t, f in enumerate(db.frames):
                exp[first + t] = [1, uid_of(f)]
            memo = getattr(db, self.memo_attr, None)
            if isinstance(memo, dict) and memo:
                self.memo_after_load += 1      # a reader that leaves lookups memoised (the model starts empty):
                self.opaque.add(id(db))        # the memo of this matrix is not compared

    # ---- one history ----
    def run(self, ops, uni, stop_at_failure=True, extend=None):
        """ops: the history.  extend: optional callable(mats) -> next operation or None; its operations are appended
        to ops while the history runs (random generation that looks at the current state)."""
        C = self.C
        self.fresh_process_state()
        self.opaque = set()
        names = list(NAMES)   # interned names: model integer = index + 1

        def nm(x):
            return NAMES[x] if isinstance(x, int) else x

        def nidx(x):
            if isinstance(x, int):
                return x + 1
            if x not in names:
                names.append(x)
            return names.index(x) + 1
        choice = {}           # index into exp -> (uids of ALL frames carrying the key, does the answer change the state)
        trunc = [None]        # index into exp after which the model is not compared any more (see compare_model)
        soft = [None]         # index into exp after which a difference from the model is legitimate (see compare_model)
        last_obs = {}         # matrix -> answers of the latest complete observation
        touched = set()       # matrices an operation was addressed to since then
        mats = []
        uid = {}      # id(Frame) -> uid
        home = {}     # uid -> index of the matrix it was created in
        keep = []     # keeps every Frame alive so that id() is never reused
        mops = []     # model operations
        exp = []      # what the implementation returned, in the model's result encoding
        failures = [] # (class, step, lookup op, expected, observed)
        nlook = 0
        skipped = 0

        def register(mi, step=None, op=None):
            """new objects of matrix mi get the next uids; an object that already sits in another matrix is a failure"""
            for f in mats[mi].frames:
                u = uid.get(id(f))
                if u is None:
                    u = len(keep)
                    uid[id(f)] = u
                    home[u] = mi
                    keep.append(f)
                elif home[u] != mi and any(f is g for g in mats[home[u]].frames):
                    failures.append(("frame-object-shared-between-matrices", step, list(op) if op else None,
                                     "every matrix owns its Frame objects",
                                     "matrices %d and %d hold the same Frame object %r" % (home[u], mi, f.name)))
                    if stop_at_failure:
                        raise Failure()

        hdr_of = UNIVERSES[uni].get("hdr_of", HDRS)

        def mk_frame(i, e, n):
            return C.Frame(nm(n), arbitration_id=C.ArbitrationId(i, e), size=8,
                           header_id=hdr_of[n] if isinstance(n, int) else None, is_j1939=bool(e))

        def uid_of(f):
            return -1 if f is None else uid.get(id(f), -2)

        def describe(f):
            if f is None:
                return None
            return dict(uid=uid_of(f), name=f.name, id=f.arbitration_id.id, extended=f.arbitration_id.extended,
                        created_in_matrix=home.get(uid_of(f)))

        def check(step, op, mi, r, carrying, raised=None):
            """the property: r is in db.frames and carries the key; None exactly when no frame carries it"""
            db = mats[mi]
            cls = None
            if raised is not None:
                cls = "lookup-raises"
            elif r is None:
                if carrying:
                    cls = "lookup-misses-frame"
            elif not any(r is f for f in db.frames):
                u = uid.get(id(r))
                if u is None:
                    cls = "lookup-returns-unknown-object"
                elif home[u] != mi or any(r is f for j, d in enumerate(mats) if j != mi for f in d.frames):
                    cls = "lookup-returns-frame-of-other-matrix"
                else:
                    cls = "lookup-returns-removed-frame"
            elif not any(r is f for f in carrying):
                cls = "lookup-returns-frame-without-key"
            if cls:
                failures.append((cls, step, list(op),
                                 "one of %s" % [describe(f) for f in carrying] if carrying else None,
                                 raised if raised is not None else describe(r)))
                if stop_at_failure:
                    raise Failure()

        def lookup(step, op):
            nonlocal nlook
            kind, mi = op[0], op[1]
            db = mats[mi]
            nlook += 1
            r, raised = None, None
            if kind == "lid":
                i, e = op[2], bool(op[3])
                carrying = [f for f in db.frames if f.arbitration_id.id == i and f.arbitration_id.extended == e]
                try:
                    r = db.frame_by_id(C.ArbitrationId(i, e))
                except Exception as ex:  # noqa
                    raised = type(ex).__name__
                mops.append([12, mi, i, int(e)])
            elif kind == "lname":
                carrying = [f for f in db.frames if f.name == nm(op[2])]
                try:
                    r = db.frame_by_name(nm(op[2]))
                except Exception as ex:  # noqa
                    raised = type(ex).__name__
                mops.append([13, mi, nidx(op[2])])
            elif kind == "lpgn":
                g = spec_pgn(op[2] << 8)
                carrying = [f for f in db.frames if f.arbitration_id.extended and spec_pgn(f.arbitration_id.id) == g]
                try:
                    r = db.frame_by_pgn(op[2])
                except Exception as ex:  # noqa
                    raised = type(ex).__name__
                mops.append([14, mi, op[2]])
            else:
                carrying = [f for f in db.frames if f.header_id is not None and f.header_id == op[2]]
                try:
                    r = db.frame_by_header_id(op[2])
                except Exception as ex:  # noqa
                    raised = type(ex).__name__
                mops.append([15, mi, op[2]])
            exp.append([3] if raised is not None else [1, uid_of(r)])
            if len(carrying) > 1:
                # the property asks for "a frame that carries the key": which one is not fixed
                choice[len(exp) - 1] = ([uid_of(f) for f in carrying], kind == "lid")
            check(step, op, mi, r, carrying, raised)
            return r

        def raised_in_edit(step, op, ex):
            """copy_frame / merge are built on the lookups; they raise when two lookups of one id disagree"""
            failures.append(("operation-raises", step, list(op), "no exception", "%s: %s" % (type(ex).__name__, ex)))
            if stop_at_failure:
                raise Failure()

        def snapshot():
            return [[(id(f), f.arbitration_id.id, f.arbitration_id.extended, f.name, f.header_id) for f in d.frames] for d in mats]

        def execute(step, op):
            nonlocal skipped, nlook
            kind = op[0]
            if kind == "new":
                mats.append(C.CanMatrix())
                mops.append([1])
                exp.append([0])
                return
            if kind == "newdbc":
                db = self.loads_flat(dbc_text(op[1], op[2]), "dbc")
                got = [(f.arbitration_id.id, bool(f.arbitration_id.extended), f.name) for f in db.frames]
                want = [(i, bool(e), NAMES[n]) for i, e, n in op[1]]
                assert got == want and [x.name for x in db.ecus] == [ECUS[e] for e in op[2]], (got, want)
                mats.append(db)
                mi = len(mats) - 1
                mops.append([1])
                exp.append([0])
                for e in op[2]:
                    mops.append([9, mi, e + 1])
                    exp.append([0])
                register(mi)
                for (i, e, n), f in zip(op[1], db.frames):
                    mops.append([3, mi, i, int(bool(e)), n + 1, -1, 0])
                    exp.append([1, uid_of(f)])
                return
            if kind == "obs":
                seq = obs_lookups(len(mats), uni)
                per = len(seq) // len(mats) if mats else 0
                for mi in range(len(mats)):
                    now = []
                    prev = last_obs.get(mi) if mi not in touched else None
                    for t, look in enumerate(seq[mi * per:(mi + 1) * per]):
                        r = lookup(step, look)
                        now.append(r)
                        if prev is not None and prev[t] is not r:
                            failures.append(("bystander-lookup-changed", step, list(look), describe(prev[t]), describe(r)))
                            if stop_at_failure:
                                raise Failure()
                    last_obs[mi] = now
                touched.clear()
                return
            if kind == "load":
                self.load(op, mats, mops, exp, register, uid_of, nidx, step)
                return
            involved = [op[1], op[2]] if kind in ("copy", "merge") else [op[1]]
            if any(m >= len(mats) for m in involved):
                skipped += 1
                return
            mi = op[1]
            db = mats[mi]
            before = snapshot() if len(mats) > 1 else None
            target = mi
            if kind not in ("lid", "lname", "lpgn", "lhdr"):
                touched.add(op[2] if kind == "copy" else mi)
            if kind in ("lid", "lname", "lpgn", "lhdr"):
                lookup(step, op)
                target = None      # a lookup must not change any frame list
            elif kind in ("add", "app"):
                f = mk_frame(op[2], bool(op[3]), op[4])
                if kind == "add":
                    db.add_frame(f)
                else:
                    db.frames.append(f)
                register(mi, step, op)
                mops.append([2 if kind == "add" else 3, mi, op[2], int(bool(op[3])), nidx(op[4]),
                             -1 if f.header_id is None else f.header_id, int(bool(op[3]))])
                exp.append([1, uid_of(f)])
            elif kind in ("rem", "delp"):
                foreign = op[2] >= len(db.frames)
                f = mk_frame(0x7FF, False, 0) if foreign else db.frames[op[2]]
                try:
                    if kind == "rem":
                        db.remove_frame(f)
                    else:
                        db.del_frame(f)
                    exp.append([0])
                except ValueError:
                    exp.append([3])
                if foreign:
                    # removing an object that is not in the matrix changes nothing; whether the call raises or returns is
                    # not the property's business: "nothing removed" on both sides (the model says RErr)
                    exp[-1] = [3]
                mops.append([4 if kind == "rem" else 5, mi, uid_of(f) if id(f) in uid else -1])
            elif kind == "deln":
                named = [f for f in db.frames if f.name == nm(op[2])]
                db.del_frame(nm(op[2]))
                mops.append([6, mi, nidx(op[2])])
                exp.append([0])
                if len(named) > 1 and any(named[0] is f for f in db.frames) and trunc[0] is None:
                    # del_frame(name) deletes the frame frame_by_name answers with; among several of that name the property
                    # fixes none, the model takes the first: from here on the two worlds differ legitimately
                    trunc[0] = len(exp)
            elif kind == "ren":
                db.rename_frame(nm(op[2]), nm(op[3]))
                mops.append([7, mi, nidx(op[2]), nidx(op[3])])
                exp.append([0])
            elif kind == "setid":
                if op[2] >= len(db.frames):
                    skipped += 1
                    return
                f = db.frames[op[2]]
                f.arbitration_id = C.ArbitrationId(op[3], bool(op[4]))
                mops.append([8, mi, uid_of(f), op[3], int(bool(op[4]))])
                exp.append([0])
            elif kind == "sethdr":
                if op[2] >= len(db.frames):
                    skipped += 1
                    return
                f = db.frames[op[2]]
                f.header_id = op[3]
                mops.append([18, mi, uid_of(f), -1 if op[3] is None else op[3]])
                exp.append([0])
            elif kind == "inpl":
                if op[2] >= len(db.frames):
                    skipped += 1
                    return
                f = db.frames[op[2]]
                f.arbitration_id.id = op[3]
                mops.append([16, mi, uid_of(f), op[3]])
                exp.append([0])
            elif kind == "chg":
                i, e = op[2], bool(op[3])
                carrying = [f for f in db.frames if f.arbitration_id.id == i and f.arbitration_id.extended == e]
                nlook += 1
                f = db.frame_by_id(C.ArbitrationId(i, e))
                mops.append([17, mi, i, int(e), op[4]])
                exp.append([1, uid_of(f)])
                if len(carrying) > 1:
                    choice[len(exp) - 1] = ([uid_of(g) for g in carrying], True)
                check(step, ["lid", mi, i, e], mi, f, carrying)
                if f is not None:
                    f.arbitration_id.id = op[4]
                    # the frame found may (wrongly) live elsewhere: then nothing may be said about `target`
                    if not any(f is g for g in db.frames):
                        before = None
            elif kind == "ecu":
                db.add_ecu(C.Ecu(ECUS[op[2]]))
                mops.append([9, mi, op[2] + 1])
                exp.append([0])
            elif kind == "copy":
                target = op[2]
                mops.append([10, op[1], op[2], op[3], int(bool(op[4]))])
                in_src = [f for f in mats[op[1]].frames
                          if f.arbitration_id.id == op[3] and f.arbitration_id.extended == bool(op[4])]
                in_dst = any(f.arbitration_id.id == op[3] and f.arbitration_id.extended == bool(op[4]) for f in mats[op[2]].frames)
                try:
                    r = self.copy_frame(C.ArbitrationId(op[3], bool(op[4])), mats[op[1]], mats[op[2]])
                    exp.append([2, int(bool(r))])
                except AttributeError as ex:
                    # "Copying Frame " + None.name when the source has no such frame
                    exp.append([3])
                    if in_src:
                        raised_in_edit(step, op, ex)
                except Exception as ex:  # noqa
                    exp.append([3])
                    raised_in_edit(step, op, ex)
                if not in_src and exp[-1] != [2, 1]:
                    # nothing to copy: the property does not say whether copy_frame then raises or returns False, only
                    # that nothing changes; "nothing copied" on both sides (the model says RErr)
                    exp[-1] = [3]
                elif len(in_src) > 1 and not in_dst and soft[0] is None and \
                        len({(f.name, f.header_id, f.is_j1939) for f in in_src}) > 1:
                    # several source frames carry the id: WHICH of them frame_by_id hands to copy_frame is open
                    soft[0] = len(exp) - 1
                register(op[2], step, op)
            elif kind == "merge":
                target = op[1]
                mops.append([11, op[1], op[2]])
                if soft[0] is None:
                    groups_ = {}
                    for f in mats[op[2]].frames:
                        groups_.setdefault((f.arbitration_id.id, bool(f.arbitration_id.extended)), set()).add((f.name, f.header_id, f.is_j1939))
                    have = {(f.arbitration_id.id, bool(f.arbitration_id.extended)) for f in mats[op[1]].frames}
                    if any(len(v) > 1 and k not in have for k, v in groups_.items()):
                        soft[0] = len(exp)
                try:
                    mats[op[1]].merge([mats[op[2]]])
                    exp.append([0])
                except Exception as ex:  # noqa
                    exp.append([3])
                    raised_in_edit(step, op, ex)
                register(op[1], step, op)
            else:
                raise ValueError("unknown operation %r" % (op,))
            if before is not None:
                after = snapshot()
                for j in range(len(before)):
                    if j != target and before[j] != after[j]:
                        failures.append(("bystander-matrix-modified", step, list(op), before[j], after[j]))
                        if stop_at_failure:
                            raise Failure()

        try:
            for step, op in enumerate(ops):
                execute(step, op)
            while extend is not None:
                op = extend(mats)
                if op is None:
                    break
                ops.append(op)
                execute(len(ops) - 1, op)
        except Failure:
            pass
        # final state in the model's encoding
        state = [[-7, len(mats), len(keep)]]
        memos = []
        for d in mats:
            fl = []
            for f in d.frames:
                fl += [uid_of(f), f.arbitration_id.id, int(bool(f.arbitration_id.extended)),
                       nidx(f.name),
                       -1 if f.header_id is None else f.header_id, int(bool(f.is_j1939))]
            state.append(fl)
            memo = getattr(d, self.memo_attr, None)
            if isinstance(memo, dict) and id(d) not in self.opaque:
                try:
                    memos.append(sorted((int(k.rsplit("_", 1)[0]), int(k.rsplit("_", 1)[1] == "True"), uid_of(v))
                                        for k, v in memo.items()))
                except Exception:  # noqa  (key format changed: memo not observable)
                    memos.append(None)
            else:
                memos.append(None)
        return dict(mops=mops, exp=exp, choice=choice, trunc=trunc[0], soft=soft[0], state=state, memos=memos, failures=failures, nlook=nlook, skipped=skipped,
                    nframes=[len(d.frames) for d in mats])


# ---- comparison with the model ----
_HEX = {}


def _hx(z):
    h = _HEX.get(z)
    if h is None:
        h = _HEX[z] = core.hx(z)
    return h


def model_line(res):
    """core.fmt_case(1001, mops), with the hexadecimal spellings cached"""
    return "3e9 " + " | ".join([" ".join([_hx(z) for z in g]) for g in res["mops"]])


def compare_model(res, out_line, info=None):
    """None when the model transcript agrees with the implementation's, else a description.
    Agreement is judged modulo what the property leaves open: where SEVERAL frames of the matrix carry the key a lookup was
    asked for, the property wants "a frame that ... carries the requested key", not a particular one; the model (like the code
    today) takes the first / the memoised one.  There the two answers only have to be carriers both (res["choice"]).  If the
    answers differ and the answer feeds the state (frame_by_id fills the memo, changeFrameId edits the frame found, del_frame by
    name removes the frame found) the rest of the history and the final state are not compared (truncated).
    The same holds after copy_frame / merge had to pick one of several source frames with the id that differ in name or header id
    (res["soft"]): a difference from the model after that point ends the comparison instead of counting as a disagreement.
    The content of the memo is internal state the property does not constrain (WHEN it is emptied is open as long as every answer
    is a frame of the matrix carrying the key): it is compared for information only (info["memo_differs"]).
    info (dict): exact = no such difference occurred; truncated = comparison stopped early."""
    groups = core.parse_out(out_line)
    exp = res["exp"]
    n = len(exp)
    if info is not None:
        info["exact"], info["truncated"], info["memo_differs"] = True, False, False
    soft = res["soft"]

    def open_end():
        if info is not None:
            info["exact"], info["truncated"] = False, True
        return None
    upto = n if res["trunc"] is None else res["trunc"]
    if groups[:n] != exp or upto < n:
        k = 0
        while k < upto:
            g = groups[k] if k < len(groups) else None
            if g != exp[k]:
                c = res["choice"].get(k)
                if c is None or g is None or len(g) != 2 or g[0] != 1 or g[1] not in c[0]:
                    if soft is not None and k > soft:
                        return open_end()
                    return dict(at_model_op=k, op=res["mops"][k] if k < len(res["mops"]) else None, model=g, impl=exp[k],
                                carriers=c[0] if c else None)
                if info is not None:
                    info["exact"] = False
                if c[1]:
                    upto = -1           # the answer feeds the state: stop here
                    break
            k += 1
        if upto < n:
            if info is not None:
                info["exact"], info["truncated"] = False, True
            return None
        if len(groups) < n:
            return dict(at_model_op=len(groups), model=None, impl=exp[len(groups)])
    rest = groups[n:]
    nm = res["state"][0][1]
    if len(rest) != 1 + 2 * nm:
        return dict(what="shape of the model answer", model=rest[:3], impl=res["state"][0])
    if rest[0] != res["state"][0]:
        return dict(what="matrix count / object count", model=rest[:1], impl=res["state"][0])
    for j in range(nm):
        if rest[1 + 2 * j] != res["state"][1 + j]:
            if soft is not None:
                return open_end()
            return dict(what="frame list of matrix %d" % j, model=rest[1 + 2 * j], impl=res["state"][1 + j])
        if res["memos"][j] is not None:
            flat = rest[2 + 2 * j]
            d = {}
            for t in range(len(flat) - 3, -1, -3):        # oldest first, so that the newest entry of a key wins
                d[(flat[t], flat[t + 1])] = flat[t + 2]
            mm = sorted((k[0], k[1], v) for k, v in d.items())
            if mm != res["memos"][j] and info is not None:
                info["memo_differs"] = True
    return None


# ---- exhaustive enumeration ----
def children(cfg, prefix, nframes):
    """all operations that may follow `prefix` (canonical under renaming of ids, names, ECUs)"""
    ids = cfg["ids"]
    fm = cfg["fmts"]
    names = cfg["names"]
    kinds = cfg["ops"]
    nm = cfg["nmat"]
    used_ids, used_names, used_ecus = [], [], []

    def see(lst, v):
        if v not in lst:
            lst.append(v)
    for op in prefix:
        k = op[0]
        if k in ("add", "app"):
            see(used_ids, op[2]); see(used_names, op[4])
        elif k == "setid":
            see(used_ids, op[3])
        elif k == "inpl":
            see(used_ids, op[3])
        elif k == "chg":
            see(used_ids, op[2]); see(used_ids, op[4])
        elif k in ("lid",):
            see(used_ids, op[2])
        elif k == "copy":
            see(used_ids, op[3])
        elif k == "deln":
            see(used_names, op[2])
        elif k == "ren":
            see(used_names, op[2]); see(used_names, op[3])
        elif k == "ecu":
            see(used_ecus, op[2])
    idc = ids[:len(used_ids) + 1]
    nmc = names[:len(used_names) + 1]
    first_real = all(op[0] == "new" for op in prefix)
    out = []
    for m in range(nm):
        if first_real and m != 0:
            break          # matrices are interchangeable until one of them is used
        nf = nframes[m]
        if "add" in kinds:
            out += [["add", m, i, e, n] for i in idc for e in fm for n in nmc]
        if "app" in kinds:
            out += [["app", m, i, e, n] for i in idc for e in fm for n in nmc]
        if "rem" in kinds:
            out += [["rem", m, p] for p in range(nf)]
        if "delp" in kinds:
            out += [["delp", m, p] for p in range(nf)]
        if "deln" in kinds:
            out += [["deln", m, n] for n in nmc]
        if "ren" in kinds:
            for a in nmc:
                nb = names[:max(len(used_names), names.index(a) + 1) + 1] if a in names else nmc
                out += [["ren", m, a, b] for b in nb if b != a]
        if "setid" in kinds:
            out += [["setid", m, p, i, e] for p in range(nf) for i in idc for e in fm]
        if "inpl" in kinds:
            out += [["inpl", m, p, i] for p in range(nf) for i in idc]
        if "sethdr" in kinds:
            out += [["sethdr", m, p, h] for p in range(nf) for h in cfg["hdr_vals"]]
        if "chg" in kinds:
            for i in idc:
                ni = ids[:max(len(used_ids), ids.index(i) + 1) + 1]
                out += [["chg", m, i, e, j] for e in fm for j in ni if j != i]
        if "ecu" in kinds:
            out += [["ecu", m, x] for x in range(min(len(used_ecus) + 1, cfg.get("necus", 1)))]
        if "lid" in kinds:
            out += [["lid", m, i, e] for i in idc for e in fm]
        if nm > 1:
            for s in range(nm):
                if s == m:
                    continue
                if "copy" in kinds:
                    out += [["copy", s, m, i, e] for i in idc for e in fm]
                if "merge" in kinds:
                    out.append(["merge", m, s])
    return out


def explore(runner, cfg, prefix, sink):
    """depth-first over all histories that extend `prefix` (prefix included): each one is executed from scratch,
    observed completely at its end, and handed to sink(history, result)."""
    res = runner.run(prefix + [["obs"]], cfg["uni"])
    sink(prefix, res)
    if res["failures"]:
        return              # every extension contains this failing history; it is reported once
    depth = sum(1 for op in prefix if op[0] != "new")
    if depth >= cfg["length"]:
        return
    for op in children(cfg, prefix, res["nframes"]):
        explore(runner, cfg, prefix + [op], sink)


def worker_explore(args):
    cfg, prefix, want_lines = args
    runner = Runner()
    stats = dict(n=0, nlook=0, nontrivial=0, fails=[], ties=[], hist={}, lines=[], tie_cases=0, skipped=0)
    batch = []

    def flush():
        if not batch or not cfg["tie"]:
            batch.clear()
            return
        outs = core.run_model([model_line(r) for _, r in batch])
        info = {}
        for (h, r), o in zip(batch, outs):
            d = compare_model(r, o, info)
            stats["tie_cases"] += 1
            if d is not None and len(stats["ties"]) < 20:
                stats["ties"].append((h, d))
            if not info["exact"]:
                stats["hist"]["tie-modulo-choice-among-carriers"] = stats["hist"].get("tie-modulo-choice-among-carriers", 0) + 1
            if info["truncated"]:
                stats["hist"]["tie-truncated-after-open-choice"] = stats["hist"].get("tie-truncated-after-open-choice", 0) + 1
            if info["memo_differs"]:
                stats["hist"]["memo-content-differs-from-model(informational)"] = stats["hist"].get("memo-content-differs-from-model(informational)", 0) + 1
            if d is None and info["exact"] and want_lines and len(stats["lines"]) < want_lines and len(h) >= 3:
                stats["lines"].append((r["mops"], r["exp"]))
        batch.clear()

    def sink(h, res):
        stats["n"] += 1
        stats["nlook"] += res["nlook"]
        stats["skipped"] += res["skipped"]
        edits = [op[0] for op in h if op[0] not in ("new", "lid")]
        if edits:
            stats["nontrivial"] += 1
        for k in {op[0] for op in h}:
            stats["hist"][k] = stats["hist"].get(k, 0) + 1
        lk = "len%d" % sum(1 for op in h if op[0] != "new")
        stats["hist"][lk] = stats["hist"].get(lk, 0) + 1
        if res["failures"]:
            if len(stats["fails"]) < 200:
                stats["fails"].append(h + [["obs"]])
        else:
            batch.append((h, res))
            if len(batch) >= 4000:
                flush()

    explore(runner, cfg, prefix, sink)
    flush()
    return stats


# ---- random histories ----
def random_history(runner, rng, every_step, readers=False):
    """generated while it executes (positions and names mostly hit).  readers=False: 1..3 matrices made by CanMatrix()
    or loads_flat(DBC text), every operation.  readers=True: the matrices come out of the file readers (2..4 buses of
    one ARXML/KCD file carrying equally named frames, or one DBC/DBF/SYM/JSON file); the operations edit ONE matrix
    at a time (rename, identifier changes, delete, add, append); copy/merge/add_ecu stay out because these frames have
    signals, transmitters and attribute definitions, whose copying is C12's subject.  Returns (ops, result)."""
    uni = readers if readers in ("edge", "twins") else "readers" if readers else "rand"
    readers = readers is True
    U = UNIVERSES[uni]
    keys = U["keys"]
    ops = []
    if readers:
        fmt = rng.choice(["arxml", "arxml", "arxml", "kcd", "kcd", "dbc", "dbf", "sym", "json"])
        key_of = rng.sample(keys, 3)                      # one identifier per frame name in this file
        nb = rng.choice([2, 3, 3, 4]) if fmt in ("arxml", "kcd") else 1
        buses = []
        for b in range(nb):
            ns = [0] + rng.sample([1, 2], rng.randrange(0, 3)) if nb > 1 and rng.random() < 0.8 else \
                rng.sample([0, 1, 2], rng.randrange(1, 4))
            buses.append([[key_of[n][0], key_of[n][1], n] for n in sorted(ns)])
        ops.append(["load", fmt, buses])
        if rng.random() < 0.3:
            ops.append(["new"])
    else:
        for _ in range(rng.choice([1, 2, 2, 3])):
            if rng.random() < 0.45:
                ops.append(["new"])
            else:
                fr = []
                for _ in range(rng.randrange(0, 4)):
                    i, e = rng.choice(keys)
                    fr.append([i, e, rng.randrange(3)])
                ops.append(["newdbc", fr, sorted(rng.sample([0, 1], rng.randrange(0, 3)))])
    if every_step:
        ops.append(["obs"])
    std_ids = [k[0] for k in keys if not k[1]]
    if uni == "twins":
        # most of this history's frames and probes come from one identifier and its twin in one bit
        pool = [(TWIN_BASE, True), (TWIN_BASE ^ (1 << rng.randrange(29)), True)]
    else:
        pool = keys[:2] if uni == "edge" else [k for k in keys if k[0] in (0x100, 0x200, 0x18FEF100, 0x0CFEF133)]
    state = dict(left=30, pending=[])

    def pick_name(db, present):
        have = [f.name for f in db.frames]
        if have and rng.random() < present:
            return rng.choice(have)
        return rng.choice(U["names"])

    def extend(mats):
        if state["pending"]:
            return state["pending"].pop(0)
        if state["left"] <= 0 or not mats:
            if state["left"] != -1:
                state["left"] = -1
                return ["obs"]
            return None
        state["left"] -= 1
        nm = len(mats)
        m = rng.randrange(nm)
        db = mats[m]
        nf = len(db.frames)
        pos = rng.randrange(nf) if nf and rng.random() < 0.95 else nf + rng.randrange(2)
        i, e = rng.choice(pool) if rng.random() < 0.6 else rng.choice(keys)
        if rng.random() < (0.15 if uni == "edge" else 0.05):
            if every_step or rng.random() < 0.2:
                state["pending"].append(["obs"])
            return ["sethdr", m, pos, rng.choice(U["hdrs"] + [None])]
        x = rng.random()
        if readers:
            # stretch the part of the scale that holds the operations used here
            x = x / 0.9 * 0.69 if x < 0.9 else 0.87 + (x - 0.9)
        if x < 0.14:
            op = ["add", m, i, e, rng.randrange(3)]
        elif x < 0.24:
            op = ["app", m, i, e, rng.randrange(3)]
        elif x < 0.30:
            op = ["rem", m, pos]
        elif x < 0.36:
            op = ["delp", m, pos]
        elif x < 0.41:
            op = ["deln", m, pick_name(db, 0.8) if readers else rng.randrange(3)]
        elif x < 0.46:
            if readers:
                a = pick_name(db, 0.9)
                op = ["ren", m, a, rng.choice([b for b in U["names"] if b != a and (not isinstance(a, int) or NAMES[a] != b)])]
            else:
                a = rng.randrange(3)
                op = ["ren", m, a, rng.choice([b for b in range(3) if b != a])]
        elif x < 0.55:
            op = ["setid", m, pos, i, e]
        elif x < 0.62:
            # in place: the format stays, so a standard frame only gets 11-bit ids (no range check happens)
            op = ["inpl", m, pos, rng.choice(std_ids) if rng.random() < 0.6 else i if e else rng.choice(std_ids)]
        elif x < 0.69:
            op = ["chg", m, i, e, rng.choice(std_ids) if not e else rng.choice([k[0] for k in keys])]
        elif x < 0.73:
            op = ["ecu", m, rng.randrange(2)]
        elif x < 0.82 and nm > 1:
            op = ["copy", rng.randrange(nm), m, i, e]
        elif x < 0.87 and nm > 1:
            op = ["merge", m, rng.choice([j for j in range(nm) if j != m] if rng.random() < 0.9 else list(range(nm)))]
        elif x < 0.93:
            op = ["lid", m, i, e]
        elif x < 0.95:
            op = ["lname", m, rng.choice(U["names"])]
        elif x < 0.97:
            op = ["lpgn", m, rng.choice(U["pgns"])]
        else:
            op = ["lhdr", m, rng.choice(U["hdrs"])]
        if every_step or rng.random() < 0.2:
            state["pending"].append(["obs"])
        return op

    res = runner.run(ops, uni, extend=extend)
    return ops, res


def worker_random(args):
    seeds, every_step, tie, readers = args
    import random
    runner = Runner()
    out = []
    for s in seeds:
        out.append(random_history(runner, random.Random(s), every_step, readers))
    lines = [model_line(r) for _, r in out if not r["failures"]]
    outs = core.run_model(lines) if lines and tie else []
    ties = []
    it = iter(outs)
    info = {}
    exact = set()
    nchoice = ntrunc = nmemo = 0
    for i, (ops, r) in enumerate(out):
        if r["failures"]:
            continue
        o = next(it, None)
        if o is None:
            break
        d = compare_model(r, o, info)
        if d is not None:
            ties.append((ops, d))
        elif info["exact"]:
            exact.add(i)
        nchoice += not info["exact"]
        ntrunc += info["truncated"]
        nmemo += info["memo_differs"]
    keep = set(sorted(exact)[:3])     # a few exactly agreeing histories go to the in-Coq shard
    slim = [(ops, dict(failures=r["failures"], nlook=r["nlook"], mops=r["mops"] if i in keep else None,
                       exp=r["exp"] if i in keep else None, nm=r["state"][0][1], nobj=r["state"][0][2]))
            for i, (ops, r) in enumerate(out)]
    return slim, ties, len(outs), dict(load_failed=runner.load_failed, memo_after_load=runner.memo_after_load,
                                       choice=nchoice, truncated=ntrunc, memo=nmemo)


# ---- shrinking ----
def shrink(runner, ops, uni, cls):
    """delete operations (and whole matrices, and frames of generated DBC files) while a failure of class cls persists;
    the result ends with the single failing lookup"""
    nmat_of = {}

    def fails(h):
        r = runner.run([list(o) for o in h], uni)
        nmat_of["n"] = r["state"][0][1]
        return r["failures"][0] if r["failures"] and r["failures"][0][0] == cls else None

    def cut(h):
        """truncate at the failing step; an observation becomes the one lookup that failed"""
        f = fails(h)
        if f is None:
            return None
        step, look = f[1], f[2]
        h2 = [list(o) for o in h[:step + 1]]
        if h2[-1][0] == "obs":
            h3 = h2[:-1] + [look]
            f3 = fails(h3)
            if f3 and f3[1] == len(h3) - 1:
                return h3
            # the observation's earlier lookups matter: spell them out (the deletions below thin them)
            seq = obs_lookups(nmat_of["n"], uni)
            if look in seq:
                h4 = h2[:-1] + seq[:seq.index(look) + 1]
                f4 = fails(h4)
                if f4 and f4[1] == len(h4) - 1:
                    return h4
        return h2

    cur = cut(ops)
    if cur is None:
        return ops
    changed = True
    while changed:
        changed = False
        i = 0
        while i < len(cur):
            cand = None
            last = i == len(cur) - 1       # the failing operation: it can only be thinned (a file), never dropped
            has_load = any(o[0] == "load" for o in cur)
            if cur[i][0] == "load" or last:
                pass        # a file is thinned below
            elif cur[i][0] in ("new", "newdbc") and has_load:
                pass        # matrix numbers are not shifted when a reader delivers several matrices
            elif cur[i][0] in ("new", "newdbc"):
                mi = sum(1 for o in cur[:i] if o[0] in ("new", "newdbc"))
                rest = []
                ok = True
                for pos in range(i + 1, len(cur)):
                    o = list(cur[pos])
                    if o[0] in ("new", "newdbc", "obs", "load"):
                        rest.append(o)
                        continue
                    refs = [1, 2] if o[0] in ("copy", "merge") else [1]
                    if any(o[r] == mi for r in refs):
                        if pos == len(cur) - 1:
                            ok = False      # the failing operation itself needs this matrix
                        continue
                    for r in refs:
                        if o[r] > mi:
                            o[r] -= 1
                    rest.append(o)
                if ok:
                    cand = cur[:i] + rest
            else:
                cand = cur[:i] + cur[i + 1:]
            c2 = cut(cand) if cand else None
            if c2 is not None and len(c2) < len(cur):
                cur = c2
                changed = True
                continue
            # an observation in the middle: one of its lookups may do
            if cur[i][0] == "obs" and not last:
                fails(cur[:i])
                nmat = nmat_of["n"]
                U = UNIVERSES[uni]
                singles = [["lid", m, k[0], k[1]] for m in range(nmat) for k in U["keys"]]
                hit = False
                for o in singles:
                    c2 = cut(cur[:i] + [o] + cur[i + 1:])
                    if c2 is not None and len(c2) <= len(cur):
                        cur = c2
                        changed = hit = True
                        break
                if hit:
                    i += 1
                    continue
            # a file: drop the last bus, then frames, one at a time
            if cur[i][0] == "load":
                done = False
                buses = cur[i][2]
                cands = []
                if len(buses) > 1:
                    cands.append(buses[:-1])
                for b in range(len(buses)):
                    for j in range(len(buses[b])):
                        cands.append([list(x) if k != b else x[:j] + x[j + 1:] for k, x in enumerate(buses)])
                for nb in cands:
                    c2 = cut(cur[:i] + [["load", cur[i][1], nb]] + cur[i + 1:])
                    if c2 is not None:
                        cur = c2
                        changed = done = True
                        break
                if done:
                    continue
            # a generated DBC file: drop frames / ECUs one at a time
            if cur[i][0] == "newdbc" and not last:
                done = False
                for part in (1, 2):
                    for j in range(len(cur[i][part])):
                        o = [cur[i][0], list(cur[i][1]), list(cur[i][2])]
                        del o[part][j]
                        c2 = cut(cur[:i] + [o] + cur[i + 1:])
                        if c2 is not None:
                            cur = c2
                            changed = done = True
                            break
                    if done:
                        break
                if done:
                    continue
                if not cur[i][1] and not cur[i][2]:
                    c2 = cut(cur[:i] + [["new"]] + cur[i + 1:])
                    if c2 is not None:
                        cur = c2
            i += 1
    return cur


# the three defects repaired by a855173 and the shapes they took (run first, like a corpus)
REGRESSIONS = [
    ("stale after del_frame", [["new"], ["add", 0, 0x100, False, 0], ["lid", 0, 0x100, False], ["delp", 0, 0], ["lid", 0, 0x100, False]]),
    ("stale after del_frame by name", [["new"], ["add", 0, 0x100, True, 1], ["lid", 0, 0x100, True], ["deln", 0, 1], ["lid", 0, 0x100, True]]),
    ("stale after identifier replaced", [["new"], ["add", 0, 0x100, False, 0], ["lid", 0, 0x100, False], ["setid", 0, 0, 0x200, False], ["lid", 0, 0x100, False], ["lid", 0, 0x200, False]]),
    ("stale after identifier changed in place", [["new"], ["add", 0, 0x100, False, 0], ["lid", 0, 0x100, False], ["inpl", 0, 0, 0x200], ["lid", 0, 0x100, False]]),
    ("changeFrameId twice", [["new"], ["add", 0, 0x100, False, 0], ["add", 0, 0x300, False, 1], ["chg", 0, 0x100, False, 0x200], ["chg", 0, 0x100, False, 0x300], ["obs"]]),
    ("an empty reader-made matrix, frames appended, and a fresh CanMatrix()", [["newdbc", [], []], ["new"], ["app", 0, 0x100, False, 0], ["lid", 0, 0x100, False], ["lid", 1, 0x100, False]]),
    ("reader-made matrix and a fresh CanMatrix()", [["newdbc", [[0x18FEF100, True, 0]], [0]], ["new"], ["lid", 0, 0x18FEF100, True], ["lid", 1, 0x18FEF100, True]]),
    ("appended frames, two plain matrices", [["new"], ["new"], ["app", 0, 0x100, False, 0], ["lid", 0, 0x100, False], ["lid", 1, 0x100, False]]),
    ("copy into a fresh matrix after a lookup elsewhere", [["new"], ["app", 0, 0x100, False, 0], ["lid", 0, 0x100, False], ["newdbc", [[0x100, False, 1]], []], ["new"],
                                                          ["copy", 1, 2, 0x100, False], ["obs"]]),
    ("copy out of a reader-made matrix into a fresh one", [["newdbc", [[0x100, False, 0], [0x200, False, 1]], []], ["new"], ["copy", 0, 1, 0x100, False], ["obs"]]),
    ("merge of a reader-made matrix", [["newdbc", [[0x100, False, 0], [0x100, True, 1]], [0, 1]], ["new"], ["lid", 0, 0x100, False], ["merge", 1, 0], ["obs"],
                                        ["delp", 0, 0], ["obs"]]),
    ("memoised frame shadowed by an earlier one", [["new"], ["app", 0, 0x100, False, 0], ["app", 0, 0x200, False, 1], ["lid", 0, 0x200, False],
                                                   ["setid", 0, 0, 0x200, False], ["lid", 0, 0x200, False], ["inpl", 0, 1, 0x300], ["obs"]]),
]


def edge_worlds():
    """fixed histories over keys at the edge of their range (run with the universe "edge"): frames with identifier 0 in both
    formats, the largest identifiers, header id 0; header ids cleared, set to 0 and moved between frames; everything looked up
    after each step"""
    return [
        ("identifier 0 and header id 0", [["new"], ["add", 0, 0, False, 0], ["add", 0, 0, True, 1], ["add", 0, 0x7FF, False, 2], ["obs"],
                                           ["sethdr", 0, 2, 0], ["obs"], ["sethdr", 0, 0, None], ["obs"], ["sethdr", 0, 0, 0xFFFFFFFF], ["obs"],
                                           ["inpl", 0, 1, 0x1FFFFFFF], ["obs"], ["chg", 0, 0, False, 0x7FF], ["obs"], ["delp", 0, 0], ["obs"]]),
        ("re-numbered to 0 during the history", [["new"], ["app", 0, 0x100, False, 2], ["app", 0, 0x100, True, 1], ["obs"], ["sethdr", 0, 0, 0],
                                                  ["obs"], ["setid", 0, 0, 0, False], ["obs"], ["setid", 0, 1, 0, True], ["obs"],
                                                  ["sethdr", 0, 1, 0], ["obs"], ["rem", 0, 0], ["obs"]]),
        ("edge keys in two matrices", [["new"], ["new"], ["add", 0, 0, True, 0], ["copy", 0, 1, 0, True], ["obs"], ["sethdr", 1, 0, 1], ["obs"],
                                       ["merge", 1, 0], ["obs"], ["setid", 0, 0, 0x1FFFFFFF, True], ["merge", 1, 0], ["obs"]]),
    ]


def twin_worlds():
    """fixed histories (universe "twins"): for every bit of the 29-bit identifier, a matrix that holds only the twin, then both,
    then only the base (twin deleted), then the base moved onto the twin's identifier; everything of the universe - the PGN of
    every twin included - is looked up after each step"""
    out = []
    for b in range(29):
        t = TWIN_BASE ^ (1 << b)
        out.append(("twin in bit %d" % b, [["new"], ["add", 0, t, True, 0], ["obs"], ["add", 0, TWIN_BASE, True, 1], ["obs"],
                                            ["delp", 0, 0], ["obs"], ["setid", 0, 0, t, True], ["obs"]]))
    out.append(("11-bit twins, names and header ids one step apart",
                [["new"], ["add", 0, 0x101, False, "Fra"], ["obs"], ["sethdr", 0, 0, 0x50], ["obs"], ["add", 0, 0x100, False, 0], ["obs"],
                 ["ren", 0, "Fra", "FrA_"], ["obs"], ["inpl", 0, 0, 0x500], ["obs"]]))
    return out


def reader_worlds():
    """fixed worlds out of every reader: the same frame on 2, 3 and 4 buses of one ARXML / KCD file, one matrix edited
    (rename, new identifier, identifier changed in place, delete, add), everything looked up everywhere after each step"""
    out = []
    A, B, C3 = [0x100, False, 0], [0x18FEF100, True, 1], [0x200, False, 2]
    for fmt in ("arxml", "kcd"):
        pre = "FRAME_" if fmt == "arxml" else ""
        for nb in (2, 3, 4):
            buses = [[A, B] if b % 2 == 0 else [A, C3] for b in range(nb)]
            for edited in range(nb):
                out.append(("%s, %d buses, bus %d edited" % (fmt, nb, edited),
                            [["load", fmt, buses], ["obs"],
                             ["ren", edited, pre + "FrA", "Ren1"], ["obs"],
                             ["setid", edited, 0, 0x300, False], ["obs"],
                             ["inpl", edited, 0, 0x200], ["obs"],
                             ["deln", edited, "Ren1"], ["obs"],
                             ["add", edited, 0x100, False, 0], ["obs"]]))
    for fmt in ("dbc", "dbf", "sym", "json"):
        out.append(("%s file and a fresh matrix" % fmt,
                    [["load", fmt, [[A, B, C3]]], ["new"], ["obs"], ["ren", 0, 0, 1], ["setid", 0, 1, 0x300, True], ["obs"],
                     ["add", 1, 0x100, False, 0], ["obs"], ["delp", 0, 0], ["obs"]]))
    return out


def run(chk):
    thorough = chk.tier == "thorough"
    chk.rule = ("EXHAUSTIVE (canonical under renaming of ids/names/ECUs and, until first use, of matrices; every history executed from "
                "scratch and completed by all lookups for all keys): see coverage.sweeps for op sets, universes and lengths. RANDOM: 30 "
                "operations on 1..3 matrices (CanMatrix() or loads_flat of generated DBC text, 9 keys with equal and different PGNs), "
                "all lookups after every step in half of them, after 20% of the steps in the others. READERS: the same on worlds whose "
                "matrices are what canmatrix.formats.loads returns for an ARXML/KCD file written from 2..4 buses carrying equally named frames, "
                "or for a DBC/DBF/SYM/JSON file; one matrix is edited at a time, no Frame object may sit in two matrices, bystanders keep "
                "their frame lists and their lookup answers. EDGE KEYS: fixed, exhaustive and random histories over identifier 0 in both "
                "formats, the largest 11/29-bit identifiers, header ids 0/1/2^32-1/none incl. re-numbering (sethdr), PGN 0 and 0x3FFFF. NEAR-MISS TWINS: fixed, exhaustive (per identifier field) and random histories over a 29-bit identifier and its "
                "twin in every single bit (and 11-bit ids, names, header ids one step apart), the PGN of every twin probed. non-trivial = at least one edit before a lookup; distinct by operation list")
    ok = chk.build_and_audit()
    runner = Runner()
    nproc = max(1, min(core.NPROC, int(os.environ.get("VERIF_C10_PROCS", "12"))))
    t0 = time.time()
    failing = []          # (universe, ops)
    tie_n = 0
    shard_pool = []

    def note(res, h, uni):
        for f in res["failures"][:1]:
            failing.append((uni, h))

    # ---- corpus / regressions ----
    corpus = list(REGRESSIONS) + reader_worlds()
    edge = edge_worlds()
    twins = twin_worlds()
    for p in sorted(glob.glob(os.path.join(core.VERIF, "corpus", "C10", "*.json"))):
        try:
            corpus.append((os.path.basename(p), json.load(open(p))["ops"]))
        except Exception as ex:  # noqa
            chk.notes.append("corpus file %s unreadable: %s" % (p, ex))
    reg_results = []
    for name, ops in corpus + edge + twins:
        uni = "edge" if (name, ops) in edge else "twins" if (name, ops) in twins else \
            "readers" if any(o[0] == "load" for o in ops) else "rand"
        res = runner.run(ops, uni)
        chk.case(("reg", json.dumps(ops)), True)
        chk.count(uni + "-fixed-world" if uni in ("edge", "twins") else "regression")
        note(res, ops, uni)
        if not res["failures"]:
            reg_results.append((ops, res))
    chk.sample(dict(history=dict(REGRESSIONS)["memoised frame shadowed by an earlier one"],
                    note="memoised frame is no longer the first with its id, then loses it in place"))

    # ---- exhaustive sweeps ----
    ALL1 = ["add", "app", "rem", "delp", "deln", "ren", "setid", "inpl", "chg", "ecu", "lid"]
    F2 = [False, True]
    LEAN = [k for k in ALL1 if k not in ("rem", "ren", "ecu")]
    sweeps = [
        dict(name="1 matrix, every operation, 3 ids x 2 formats x 3 names, 2 ECU names", nmat=1, uni="full", ids=IDS, fmts=F2, names=[0, 1, 2],
             ops=ALL1, necus=2, length=4 if thorough else 3),
    ]
    if not thorough:
        sweeps.append(
            dict(name="1 matrix, every operation but remove_frame/rename_frame/add_ecu, 3 ids x 2 formats x 3 names", nmat=1, uni="full", ids=IDS,
                 fmts=F2, names=[0, 1, 2], ops=LEAN, length=4))
    sweeps += [
        dict(name="2 matrices, add/append/delete/set id/in-place id/lookup/copy/merge, 2 ids x 2 formats x 1 name", nmat=2, uni="small",
             ids=IDS[:2], fmts=F2, names=[0], ops=["add", "app", "delp", "setid", "inpl", "lid", "copy", "merge"], length=4),
    ]
    sweeps.append(
        dict(name="1 matrix, keys at the edge of their range: identifiers 0 and 0x7FF x 2 formats, header ids 0/1/none (by name, and set "
                  "afterwards), every operation but remove_frame/rename_frame/add_ecu plus header re-numbering (the first identifier a "
                  "history uses is 0)", nmat=1, uni="edge", ids=[0, 0x7FF], fmts=F2, names=[0, 1, 2], ops=LEAN + ["sethdr"],
             hdr_vals=[0, 1, None], length=4 if thorough else 3))
    for fname, bit in TWIN_FIELDS:
        sweeps.append(
            dict(name="1 matrix, near-miss twins: 0x%X and its twin in the %s field (bit %d), 29-bit format, lean operations; the PGNs of "
                      "both are probed" % (TWIN_BASE, fname, bit), nmat=1, uni="twin-" + fname,
                 ids=[TWIN_BASE, TWIN_BASE ^ (1 << bit)], fmts=[True], names=[0, 1], ops=LEAN, length=4 if thorough else 3))
    if thorough:
        sweeps += [
            dict(name="1 matrix, every operation but remove_frame/rename_frame/add_ecu, 2 ids x 2 formats x 2 names", nmat=1, uni="small",
                 ids=IDS[:2], fmts=F2, names=[0, 1], ops=LEAN, length=5),
            dict(name="2 matrices, every operation + copy + merge, 2 ids x 2 formats x 1 name", nmat=2, uni="small", ids=IDS[:2], fmts=F2,
                 names=[0], ops=ALL1 + ["copy", "merge"], necus=1, length=4),
            dict(name="2 matrices, append/delete/set id/lookup/copy/merge, 1 id x 2 formats x 1 name", nmat=2, uni="small", ids=IDS[:1],
                 fmts=F2, names=[0], ops=["app", "delp", "setid", "lid", "copy", "merge"], length=5),
        ]
    sweep_report = []
    pool = multiprocessing.Pool(nproc) if nproc > 1 else None
    try:
        for cfg in sweeps:
            cfg["tie"] = ok
            base = [["new"] for _ in range(cfg["nmat"])]
            agg = dict(n=0, nlook=0, nontrivial=0, ties=[], fails=[], hist={}, tie_cases=0, skipped=0)

            def merge_stats(s):
                for k in ("n", "nlook", "nontrivial", "tie_cases", "skipped"):
                    agg[k] += s[k]
                agg["ties"] += s["ties"]
                agg["fails"] += s["fails"]
                for k, v in s["hist"].items():
                    agg["hist"][k] = agg["hist"].get(k, 0) + v
                shard_pool.extend(s["lines"])
            # the nodes of depth 0 and 1 are executed here, the subtree of every node of depth 2 is one task
            only_node = dict(cfg, length=0)
            merge_stats(worker_explore((only_node, base, 0)))
            tasks = []
            r0 = runner.run(base + [["obs"]], cfg["uni"])
            for op in ([] if r0["failures"] else children(cfg, base, r0["nframes"])):
                h1 = base + [op]
                merge_stats(worker_explore((only_node, h1, 0)))
                r1 = runner.run(h1 + [["obs"]], cfg["uni"])
                if r1["failures"]:
                    continue
                for op2 in children(cfg, h1, r1["nframes"]):
                    tasks.append((cfg, h1 + [op2], 30))
            results = pool.imap_unordered(worker_explore, tasks, chunksize=1) if pool else map(worker_explore, tasks)
            for s in results:
                merge_stats(s)
            chk.evaluations += agg["n"]
            chk.extra.setdefault("enumerated_nontrivial", 0)
            chk.extra["enumerated_nontrivial"] += agg["nontrivial"]
            tie_n += agg["tie_cases"]
            for k, v in agg["hist"].items():
                chk.count("enum-" + k, v)
            chk.count("lookups-checked", agg["nlook"])
            for h in agg["fails"]:
                failing.append((cfg["uni"], h))
            for h, d in agg["ties"]:
                chk.tie_break("history (cmd 1001)", dict(ops=h, universe=cfg["uni"]), d.get("model"), d)
            sweep_report.append(dict(sweep=cfg["name"], operations=cfg["ops"], max_length=cfg["length"], histories=agg["n"],
                                     lookups_checked=agg["nlook"], failing=len(agg["fails"]), skipped_ops=agg["skipped"]))
        # ---- random histories ----
        nrand = 1600 if not thorough else 24000
        nread = 500 if not thorough else 6000
        nedge = 400 if not thorough else 5000
        ntwin = 300 if not thorough else 4000
        seeds = [chk.rng.randrange(1 << 60) for _ in range(nrand + nread + nedge + ntwin)]
        chunks = [(seeds[i:i + 50], (i // 50) % 2 == 0, ok, False) for i in range(0, nrand, 50)]
        chunks += [(seeds[i:i + 25], (i // 25) % 2 == 0, ok, True) for i in range(nrand, nrand + nread, 25)]
        chunks += [(seeds[i:i + 50], (i // 50) % 2 == 0, ok, "edge") for i in range(nrand + nread, nrand + nread + nedge, 50)]
        chunks += [(seeds[i:i + 25], (i // 25) % 2 == 0, ok, "twins") for i in range(nrand + nread + nedge, nrand + nread + nedge + ntwin, 25)]
        results = pool.imap(worker_random, chunks, chunksize=1) if pool else map(worker_random, chunks)
        reader_stats = dict(load_failed=0, memo_after_load=0)
        for (_, _, _, readers), (slim, ties, ntie, rstat) in zip(chunks, results):
            tie_n += ntie
            uni = tag = readers if readers in ("edge", "twins") else "readers" if readers else "rand"
            for k in reader_stats:
                reader_stats[k] += rstat[k]
            chk.count("tie-modulo-choice-among-carriers", rstat["choice"])
            chk.count("tie-truncated-after-open-choice", rstat["truncated"])
            chk.count("memo-content-differs-from-model(informational)", rstat["memo"])
            for ops, r in slim:
                edits = sum(1 for o in ops if o[0] not in ("new", "newdbc", "load", "obs", "lid", "lname", "lpgn", "lhdr"))
                chk.case((tag, json.dumps(ops)), edits > 0)
                chk.count("%s-%d-matrices" % (tag, r["nm"]))
                chk.count("lookups-checked", r["nlook"])
                for o in ops:
                    chk.count("%s-%s" % (tag, o[0] + ("-" + o[1] if o[0] == "load" else "")))
                if r["failures"]:
                    failing.append((uni, ops))
                elif r["mops"] is not None and len(r["mops"]) < 400:
                    shard_pool.append((r["mops"], r["exp"]))
            for ops, d in ties:
                chk.tie_break("history (cmd 1001)", dict(ops=ops, universe=uni), d.get("model"), d)
        chk.extra["reader_worlds"] = dict(histories=nread, loads_that_failed=reader_stats["load_failed"] + runner.load_failed,
                                          matrices_with_a_memo_after_load=reader_stats["memo_after_load"] + runner.memo_after_load)
    finally:
        if pool:
            pool.close()
            pool.join()
    chk.extra["sweeps"] = sweep_report
    chk.exhaustive = ("all canonical histories of the operation sets, universes and lengths listed under coverage.sweeps "
                      "(operation arguments range over the whole universe; positions over the frames present)")

    class Counted(set):
        """enumerated histories are pairwise distinct by construction (canonical operation lists); they are counted,
        not stored"""
        extra = 0

        def __len__(self):
            return set.__len__(self) + self.extra
    nt = Counted(chk.nontrivial)
    nt.extra = chk.extra.pop("enumerated_nontrivial", 0)
    chk.nontrivial = nt

    # ---- failures: shrink, classify, report ----
    seen = {}
    for uni, h in failing:
        res = runner.run(h, uni)
        if not res["failures"]:
            chk.notes.append("a failing history did not fail again when re-run alone: %s" % json.dumps(h))
            continue
        cls = res["failures"][0][0]
        stream = "edge" if uni == "edge" else "twin" if uni.startswith("twin") else ""
        if seen.get((stream, cls), 0) >= 6:
            continue
        seen[(stream, cls)] = seen.get((stream, cls), 0) + 1
        small = shrink(runner, h, uni, cls)
        r2 = runner.run(small, uni)
        f = r2["failures"][0] if r2["failures"] else res["failures"][0]
        key, what = f[0], KEY_WHAT.get(f[0], f[0])
        if uni == "edge":
            # probes with keys at the edge of their range have their own failure classes
            key, what = "edge-key-" + key, "with keys at the edge of their range (identifier 0, header id 0, largest identifiers, PGN 0): " + what
        elif uni.startswith("twin"):
            # probes with near-miss twins (keys one bit apart) likewise
            key, what = "twin-key-" + key, "with a near-miss twin around (a key that differs from the requested one in a single bit): " + what
        chk.violation(key, what, dict(universe=uni, ops=small, failing_step=f[1], failing_lookup=f[2],
                                                          how_to_replay="harness/p_c10.py: Runner().run(ops, universe)"),
                      f[3] if f[3] else "None (no frame of the matrix carries the key)", f[4])
    chk.sample(dict(random_history=json.dumps(random_history(runner, __import__("random").Random(7), False)[:14]) + " ..."))

    # ---- ties ----
    if not ok:
        chk.ties["correspondence"] = "not run (build failed)"
        return
    lines = [model_line(r) for _, r in reg_results]
    for (ops, r), o in zip(reg_results, core.run_model(lines) if lines else []):
        tie_n += 1
        d = compare_model(r, o)
        if d is not None:
            chk.tie_break("history (cmd 1001)", dict(ops=ops, universe="rand"), d.get("model"), d)
    chk.ties["correspondence"] = {"suite": "histories (cmd 1001): every call's result modulo open choices, final frame lists", "cases": tie_n,
                                  "disagreements": len(chk.tie_breaks)}
    chk.rng.shuffle(shard_pool)
    shard = [(1002, mops, exp) for mops, exp in shard_pool[:250]]
    mm, log = core.coq_shard(shard, "c10")
    chk.ties["vm_compute_shard"] = {"cases": len(shard), "mismatches": mm}
    if mm is None:
        chk.obligation_failures.append("in-Coq shard failed to evaluate")
        chk.build_log = log[-3000:]
    else:
        for i in mm:
            chk.tie_break("history-shard (cmd 1002)", shard[i][1], "vm_compute differs", shard[i][2])
    chk.notes.append("reader worlds: in the model a matrix delivered by a reader is NewMatrix followed by one FramesAppend per delivered frame "
                     "(fresh uid each): distinct objects per matrix is what C10_matrices_independent presupposes, so the model needed no "
                     "change; the harness checks that presupposition on the implementation (frame-object-shared-between-matrices)")
    chk.notes.append("wall time of the search %.1fs on %d processes" % (time.time() - t0, nproc))
