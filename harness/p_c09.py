"""C09: CAN identifiers.  Tie: ArbitrationId constructor/getters/setters/compound/from_pgn and CanMatrix.decode's
frame selection vs model/ArbId.v (cmd 901-907).  Search oracle: arithmetic field decomposition (J1939-21) in Python."""
import core

LEVEL_NOTE = ("theorems are about model/ArbId.v; frame_by_id's memo is modelled as a scan here (the memo is C10's subject); "
              "decode_select observes which frame CanMatrix.decode hands the payload to")


def fields(i):
    return dict(sa=i & 0xFF, ps=(i >> 8) & 0xFF, pf=(i >> 16) & 0xFF, dp=(i >> 24) & 1, edp=(i >> 25) & 1, prio=(i >> 26) & 7)


def spec_pgn(i):
    f = fields(i)
    return (f["edp"] << 17) + (f["dp"] << 16) + (f["pf"] << 8) + (f["ps"] if f["pf"] >= 240 else 0)


def recompose(f):
    return (f["prio"] << 26) | (f["edp"] << 25) | (f["dp"] << 24) | (f["pf"] << 16) | (f["ps"] << 8) | f["sa"]


def run(chk):
    chk.rule = ("all 2^11 standard ids; each J1939 field exhaustively with the other fields at {0,max,random}; integers within +-3 of "
                "0, 2^11, 2^29, 2^31, 2^32; matrices of 1..6 frames mixing 11-bit, J1939 and plain 29-bit frames probed with ids derived from "
                "each frame by changing priority/SA/DA and with absent PGNs. non-trivial = extended id or rejected id or matrix probe; distinct by inputs")
    ok = chk.build_and_audit()
    tr_ok = ok and core.translator_tie(chk, ['gen/Tie_arbid.v'], ['gen/Gen_arbid.v'])
    cm = core.import_impl()
    C = cm.canmatrix
    rng = chk.rng
    thorough = chk.tier == "thorough"
    lines, expect, info = [], [], []

    def add(cmd, groups, exp, inf):
        lines.append(core.fmt_case(cmd, groups))
        expect.append(exp)
        info.append(inf)

    def construct(i, ext):
        try:
            a = C.ArbitrationId(i, ext)
            return a
        except C.ArbitrationIdOutOfRange:
            return None

    # ---- constructor / range ----
    cand = set(range(0, 2 ** 11))
    for c in (0, 2 ** 11, 2 ** 29, 2 ** 31, 2 ** 32):
        cand |= set(range(c - 3, c + 4))
    cand |= {rng.randrange(2 ** 29) for _ in range(300)}
    for i in sorted(cand):
        for ext in (False, True):
            a = construct(i, ext)
            lim = 2 ** 29 if ext else 2 ** 11
            inrange = 0 <= i < lim
            chk.case(("ctor", i, ext), ext or not inrange)
            chk.count("ctor-ok" if a is not None else "ctor-rejected")
            if (a is not None) != inrange:
                chk.violation("range-check", "identifier range check wrong", dict(id=i, extended=ext), inrange, a is not None)
            add(901, [[i, int(ext)]], [[0]] if a is None else [[1, a.id, int(a.extended)]], dict(ctor=(i, ext)))
            if a is not None:
                # compound round trip
                c = a.to_compound_integer()
                try:
                    b = C.ArbitrationId.from_compound_integer(c)
                    back = (b.id, b.extended)
                except C.ArbitrationIdOutOfRange:
                    back = None
                if back != (i, ext):
                    chk.violation("compound-roundtrip", "to/from compound integer is lossy", dict(id=i, extended=ext), (i, ext), back)
                if c != (i | (1 << 31) if ext else i):
                    chk.violation("compound-form", "compound integer is not id with top bit for extended", dict(id=i, extended=ext), None, c)
    # compound integers
    cints = set()
    for c in (0, 2 ** 11, 2 ** 29, 2 ** 31, 2 ** 31 + 2 ** 29, 2 ** 32):
        cints |= set(range(max(0, c - 3), min(c + 4, 2 ** 32)))     # "the 32-bit compound integer": 0 .. 2^32-1
    cints |= {rng.randrange(2 ** 32) for _ in range(500)}
    for c in sorted(cints):
        try:
            b = C.ArbitrationId.from_compound_integer(c)
            res = [[1, b.id, int(b.extended)]]
            back = b.to_compound_integer()
            lossless_dom = (0 <= c < 2 ** 11) or (2 ** 31 <= c < 2 ** 31 + 2 ** 29)
            if lossless_dom and back != c:
                chk.violation("compound-int-roundtrip", "from/to compound integer is lossy", dict(compound=c), c, back)
        except C.ArbitrationIdOutOfRange:
            res = [[0]]
            if (0 <= c < 2 ** 11) or (2 ** 31 <= c < 2 ** 31 + 2 ** 29):
                chk.violation("compound-rejects-valid", "valid compound integer rejected", dict(compound=c))
        if res != [[0]] and 2 ** 11 <= c < 2 ** 29:
            chk.violation("compound-accepts-wide-standard", "standard id wider than 11 bits accepted", dict(compound=c))
        chk.case(("cint", c), True)
        # tied where the property speaks: compound forms of identifiers (lossless) and standard forms wider than 11 bits (cannot be
        # constructed); what becomes of other 32-bit patterns (bits 29/30 set) is left open
        if (0 <= c < 2 ** 29) or (2 ** 31 <= c < 2 ** 31 + 2 ** 29):
            add(904, [[c]], res, dict(compound=c))
        else:
            chk.count("compound-pattern-of-no-identifier(not tied)")

    # ---- J1939 fields: each field exhaustively, others at boundary/random ----
    FIELDS = [("sa", 8), ("ps", 8), ("pf", 8), ("dp", 1), ("edp", 1), ("prio", 3)]
    contexts = []
    for mode in ("zero", "max", "r1", "r2") + (("r3", "r4", "r5", "r6") if thorough else ()):
        ctxv = {}
        for n, w in FIELDS:
            ctxv[n] = 0 if mode == "zero" else ((1 << w) - 1 if mode == "max" else rng.randrange(1 << w))
        contexts.append(ctxv)
    ids = set()
    for n, w in FIELDS:
        for v in range(1 << w):
            for ctxv in contexts:
                f = dict(ctxv)
                f[n] = v
                ids.add(recompose(f))
    # pf boundary 239/240 with every ps
    for pf in (238, 239, 240, 241):
        for ps in range(256):
            ids.add(recompose(dict(sa=rng.randrange(256), ps=ps, pf=pf, dp=rng.randrange(2), edp=0, prio=6)))
    for i in sorted(ids):
        a = C.ArbitrationId(i, True)
        f = fields(i)
        got = dict(sa=a.j1939_source, ps=a.j1939_ps, pf=a.j1939_pf, dp=a.j1939_dp, edp=a.j1939_edp, prio=a.j1939_priority)
        chk.case(("fields", i), True)
        chk.count("pdu1" if f["pf"] < 240 else "pdu2")
        if got != f or recompose(got) != i:
            chk.violation("fields-recompose", "J1939 fields do not recompose to the identifier", dict(id=i), f, got)
        if a.pgn != spec_pgn(i):
            chk.violation("pgn-rule", "PGN does not follow J1939-21", dict(id=i), spec_pgn(i), a.pgn)
        dest = a.j1939_destination
        if dest != (f["ps"] if f["pf"] < 240 else None):
            chk.violation("destination", "destination address wrong", dict(id=i), None, dest)
        add(902, [[i, 1]], [[f["sa"], f["ps"], f["pf"], f["dp"], f["edp"], f["prio"], a.pgn, -2 if dest is None else dest, a.to_compound_integer()]], dict(getters=i))
        # from_pgn(pgn).pgn normalises
        p = a.pgn
        fp = C.ArbitrationId.from_pgn(p)
        if fp.pgn != p:
            chk.violation("from-pgn", "from_pgn(p).pgn != p", dict(id=i, pgn=p), p, fp.pgn)
        if rng.random() < 0.1:
            # tied on the PGN only: which priority / source address the identifier built for a PGN carries is not fixed by the property
            add(905, [[p]], [[1, fp.pgn]], dict(from_pgn=p, project="pgn-only"))
        # every call hands out an identifier of its own: editing one result in place (directly or through a frame built
        # from it) must not change what a later from_pgn(p) returns
        if rng.random() < 0.25:
            id0 = fp.id
            holder = C.Frame("h", arbitration_id=fp, size=8)
            edit = rng.choice(["sa", "prio", "pgn", "frame"])
            if edit == "sa":
                fp.j1939_source = rng.randrange(1, 256)
            elif edit == "prio":
                fp.j1939_priority = rng.randrange(1, 8)
            elif edit == "pgn":
                fp.pgn = (p + 0x100) & 0x3FFFF
            else:
                holder.source = rng.randrange(1, 256)
                holder.priority = rng.randrange(1, 8)
                holder.pgn = (p ^ 0x1100) & 0x3FFFF
            again = C.ArbitrationId.from_pgn(p)
            chk.case(("from-pgn-after-edit", p, edit), True)
            chk.count("from_pgn-after-edit")
            if again.id != id0 or again.pgn != p or recompose(fields(again.id)) != again.id:
                chk.violation("from-pgn-after-edit", "from_pgn(p) no longer returns the identifier of PGN p after an earlier result was edited in place",
                              dict(pgn=p, edit=edit), (id0, p), (again.id, again.pgn))
    # standard ids: getters raise
    for i in (0, 1, 0x123, 0x7FF):
        a = C.ArbitrationId(i, False)
        for name in ("j1939_source", "j1939_ps", "j1939_pf", "j1939_dp", "j1939_edp", "j1939_priority", "pgn", "j1939_destination"):
            try:
                getattr(a, name)
                chk.violation("getter-on-standard", "J1939 getter on an 11-bit id did not raise", dict(id=i, getter=name))
            except C.J1939NeedsExtendedIdentifier:
                pass
        add(902, [[i, 0]], [[-1, -1, -1, -1, -1, -1, -1, -1, i]], dict(getters_std=i))
    # ---- setters ----
    sample_ids = rng.sample(sorted(ids), 300 if not thorough else 3000)
    for i in sample_ids:
        f0 = fields(i)
        # values of the field only ("each field exhaustively"): what a setter does with a number that does not fit is left open
        for which, name, vals in ((2, "prio", list(range(8))), (1, "sa", [0, 1, 127, 128, 254, 255, rng.randrange(256)]),
                                  (0, "pgn", [0, 0xFEF1, 0xEF12, 0x3FFFF, 0x20005, 0x1ABCD, rng.randrange(1 << 18)])):
            for v in vals:
                a = C.ArbitrationId(i, True)
                if which == 2:
                    a.j1939_priority = v
                elif which == 1:
                    a.j1939_source = v
                else:
                    a.pgn = v
                f1 = fields(a.id)
                exp = dict(f0)
                if which == 2:
                    exp["prio"] = v & 7
                elif which == 1:
                    exp["sa"] = v & 0xFF
                else:
                    exp.update(ps=v & 0xFF, pf=(v >> 8) & 0xFF, dp=(v >> 16) & 1, edp=(v >> 17) & 1)
                chk.case(("set", i, which, v), True)
                chk.count("set-" + name)
                if f1 != exp or not (0 <= a.id < 2 ** 29) or a.extended is not True:
                    chk.violation("setter-frame", "setting %s changed another field" % name, dict(id=i, value=v), exp, f1)
                add(903, [[i, 1, which, v]], [[a.id, 1]], dict(setter=(i, name, v)))

    # ---- frame selection in mixed matrices ----
    def probe(db, frames_desc, pid, pext):
        """returns ('frame', uid) | ('empty',) | ('crash', exc)"""
        marker = {}
        try:
            a = C.ArbitrationId(pid, pext)
            r = db.decode(a, bytes(8))
        except Exception as e:
            return ("crash", type(e).__name__)
        if r == {}:
            return ("empty",)
        # which frame decoded? every frame has a uniquely named signal
        k = next(iter(r.keys()))
        return ("frame", int(k[1:]))

    nmat = 120 if not thorough else 1500
    for _ in range(nmat):
        n = rng.randrange(1, 7)
        frames_desc = []
        used = set()
        have_j = False
        for uid in range(n):
            kind = rng.choice(["std", "j1939", "j1939", "ext"])
            if uid == n - 1 and not have_j:
                kind = "j1939"
            if kind == "std":
                fid, ext = rng.randrange(2 ** 11), False
            else:
                base = rng.choice([0x18FEF100, 0x0CEF1200, 0x18EA00FE, 0x1CECFF00, 0x000000FE, 0x0000030B, rng.randrange(2 ** 11), rng.randrange(2 ** 29)])
                if rng.random() < 0.5 and frames_desc:
                    # same PGN as an earlier extended frame, other SA/prio
                    prev = [d for d in frames_desc if d[2]]
                    if prev:
                        base = (prev[-1][1] & 0x03FFFF00) | (rng.randrange(8) << 26) | rng.randrange(256)
                fid, ext = base, True
            if (fid, ext) in used:
                continue
            used.add((fid, ext))
            isj = kind == "j1939"
            have_j = have_j or isj
            frames_desc.append((uid, fid, ext, isj))
        if not have_j:
            continue
        db = C.CanMatrix()
        # in some matrices the J1939 flag is set in place AFTER the matrix has been built and asked once (as the importers and
        # canconvert's convertToJ1939 do): what the matrix answered while no frame was flagged must not survive the flagging
        late_flag = rng.random() < 0.4
        built = []
        for uid, fid, ext, isj in frames_desc:
            fr = C.Frame("F%d" % uid, arbitration_id=C.ArbitrationId(fid, ext), size=8, is_j1939=(isj and not late_flag))
            fr.add_signal(C.Signal("s%d" % uid, start_bit=0, size=8))
            db.add_frame(fr)
            built.append((fr, isj))
        if late_flag:
            chk.count("matrix-flagged-after-first-use")
            for uid, fid, ext, isj in frames_desc[:2]:
                try:
                    db.decode(C.ArbitrationId(fid, ext), bytes(8))       # a frame's own identifier: decodes in either state
                except Exception as e:
                    chk.violation("decode-own-id-raises", "decoding a frame's own identifier raised before any frame was flagged J1939",
                                  dict(frames=frames_desc, probe=(fid, ext)), "decoded", type(e).__name__)
            _ = db.contains_j1939
            for fr, isj in built:
                if isj:
                    fr.is_j1939 = True
        probes = []
        for uid, fid, ext, isj in frames_desc:
            probes.append((fid, ext))
            if ext:
                probes.append(((fid & 0x03FFFFFF) | (rng.randrange(8) << 26), True))      # other priority
                probes.append(((fid & 0x1FFFFF00) | rng.randrange(256), True))             # other source
                probes.append(((fid & 0x1FFF00FF) | (rng.randrange(256) << 8), True))      # other DA / group extension
                probes.append((fid ^ (1 << 16), True))                                     # other PF
                probes.append(((fid & 0x00FFFFFF) & ~0xFF00 | (rng.randrange(8) << 8), True))        # priority 0, small DA/GE
                probes.append((fid & 0x7FF, False))
        probes.append((rng.randrange(2 ** 29), True))
        probes.append((rng.randrange(2 ** 11), False))
        for pid, pext in probes:
            if not pext:
                # the property speaks about received 29-bit identifiers only: what a matrix containing J1939 frames does with a
                # received 11-bit identifier is left open (neither judged nor tied)
                chk.count("probe-11bit-outside-property")
                continue
            got = probe(db, frames_desc, pid, pext)
            # the python-can entry point must select the same frame (a stand-in for can.Message: python-can is not installed)
            if 0 <= pid < (2 ** 29 if pext else 2 ** 11):
                class _Msg(object):
                    pass
                m = _Msg()
                m.arbitration_id, m.is_extended_id, m.data = pid, pext, bytes(8)
                try:
                    r2 = db.decode_pycan(m)
                    got2 = ("empty",) if r2 == {} else ("frame", int(next(iter(r2.keys()))[1:]))
                except Exception as e:
                    got2 = ("crash", type(e).__name__)
                chk.count("decode_pycan")
                if got2 != got:
                    chk.violation("decode-pycan-differs", "CanMatrix.decode_pycan selects another frame than CanMatrix.decode for the same identifier",
                                  dict(frames=frames_desc, probe=(pid, pext)), got, got2)
            # oracle: "decoded with the frame of the same PGN whatever its priority and source address": with several frames of
            # that PGN the property does not say which one - any carrier of the PGN is right (the decode_pycan comparison above
            # still demands that both entry points pick the same one)
            same = [d for d in frames_desc if d[2] and spec_pgn(d[1]) == spec_pgn(pid)]
            carriers = {d[0] for d in same}
            chk.case(("sel", tuple(frames_desc), pid, pext), True)
            chk.count("select-frame" if same else "select-empty")
            chk.count("carriers-of-the-pgn:%d" % min(len(carriers), 3))
            good = (got[0] == "frame" and got[1] in carriers) if same else (got == ("empty",))
            if not good:
                chk.violation("decode-select", "received identifier not decoded with a frame of the same PGN / not to nothing",
                              dict(frames=frames_desc, probe=(pid, pext)), sorted(carriers) if same else "empty", got)
            if len(carriers) <= 1:
                # the model picks the first carrier: tied only where the choice is not open
                enc = [[0, got[1]]] if got[0] == "frame" else ([[1]] if got[0] == "empty" else [[2]])
                add(906, [[pid, int(pext)]] + [[u, i, int(e), int(j)] for u, i, e, j in frames_desc], enc, dict(frames=frames_desc, probe=(pid, pext)))
        # a fresh matrix per probe set is not needed: frame_by_id's memo is per key
    chk.sample(dict(frames=[(0, 0x123, False, False), (1, 0x18FEF100, True, True)], probe=(0x0CFEF133, True), selected=1))
    chk.sample(dict(id=0x18EF1200, pgn=0xEF00, destination=0x12))

    if not ok:
        chk.ties["correspondence"] = "not run (build failed)"
        return
    out = core.run_model(lines)
    bad = 0
    def model_answer(inf, o):
        got = core.parse_out(o)
        if inf.get("project") == "pgn-only" and got and len(got[0]) == 3:
            got = [[got[0][0], got[0][2]]]
        return got
    for inf, exp, o in zip(info, expect, out):
        if model_answer(inf, o) != exp:
            bad += 1
            chk.tie_break("arbid", inf, model_answer(inf, o), exp)
    chk.ties["correspondence"] = {"suite": "arbid (cmd 901-906)", "cases": len(lines), "disagreements": bad}
    idx = rng.sample([i for i in range(len(lines)) if not info[i].get("project")], min(400, len(lines)))
    shard = []
    for i in idx:
        c, groups = lines[i].split(" ", 1)
        shard.append((int(c, 16), core.parse_out(groups), expect[i]))
    mm, log = core.coq_shard(shard, "c09")
    chk.ties["vm_compute_shard"] = {"cases": len(shard), "mismatches": mm}
    if mm is None:
        chk.obligation_failures.append("in-Coq shard failed to evaluate")
        chk.build_log = log[-3000:]
    else:
        for i in mm:
            chk.tie_break("arbid-shard", shard[i][1], "vm_compute differs", shard[i][2])
