"""C20: DBC and SYM readers tolerate bad lines and truncation without losing good content.

SEARCH (decides the property on the real readers): well-formed inputs = canmatrix's own DBC/SYM output for generated matrices plus
the sample files under tests/files; faults = single malformed lines of three kinds at every admissible position, multisets of up to 4,
every byte cut.  Oracles are written against the file text (independent line classifier below), never against the readers' own code.
TIE: generated DBC files are tokenised into the statement language of model/LineFold.v (cmd 2001..), the model fold is run on clean
and faulted line lists and its frame/signal skeleton is compared with what canmatrix.formats.loads returned.
"""
import base64
import io
import multiprocessing
import os
import re
import sys

import core
import matgen

LEVEL_NOTE = (
    "partial by design: the theorems (props/C20.v) are about the line fold of model/LineFold.v - generic fault isolation of "
    "`fold_left step'` with Fail carrying the partially mutated state, instantiated with a small DBC-like and a small SYM-like "
    "statement language that mirror the per-line try/except structure of dbc.py/sym.py load (BO_/SG_/BA_/CM_/VAL_/SG_MUL_VAL_/"
    "unknown; [frame]/ID/Type/DLC/Var/Mux/unknown).  The relation between bytes on disk and those statements (regexes, str.split, "
    "shlex-like splitting, Decimal/attrs converters, the other statement kinds, all of post-processing except the cycle-time "
    "conversion) is NOT proved; it is decided on the real code by the generative search of this harness (every admissible insertion "
    "position, every byte cut) and tied to the model by a differential run on frame/signal skeletons.  "
    "The model follows the readers as they are: a BA_/BA_DEF_DEF_ line whose value is present but neither a number nor a quoted "
    "string is stored, not skipped (recorded finding; C20_dbc_ba_value_not_skipped_refuted, the fault-isolation theorems for the "
    "current reader exclude that statement shape by the visible predicate dbc_malformed = dbc_malformed_gen false).")

# ------------------------------------------------------------------------------------------------------------------
# running the real readers
# ------------------------------------------------------------------------------------------------------------------
_F = None


class _Null(object):
    def write(self, s):
        return len(s)

    def flush(self):
        pass


_NULL = _Null()


def impl():
    global _F
    if _F is None:
        core.import_impl()
        import canmatrix.formats
        _F = canmatrix.formats
    return _F


def load(data, fmt, opts=None):
    """returns (db, None) or (None, 'ExcType: text'); opts: import options of the reader (encodings)"""
    F = impl()
    old = sys.stdout
    sys.stdout = _NULL
    try:
        return F.loads(data, fmt, **(opts or {}))[""], None
    except Exception as e:     # the property: nothing may escape
        import traceback
        tb = traceback.extract_tb(e.__traceback__)
        where = ""
        for fr in reversed(tb):
            if "canmatrix" in fr.filename:
                where = " at %s:%d" % (os.path.basename(fr.filename), fr.lineno)
                break
        return None, "%s: %s%s" % (type(e).__name__, str(e)[:120], where)
    finally:
        sys.stdout = old


def nf_of(db):
    n = matgen.normal_form(db)
    return n


def skel_sig(s):
    return (int(s.start_bit), int(s.size), bool(s.is_little_endian), bool(s.is_signed), matgen._dec_str(s.factor),
            matgen._dec_str(s.offset))


# ------------------------------------------------------------------------------------------------------------------
# line structure of a file (independent of the readers)
# ------------------------------------------------------------------------------------------------------------------
def split_lines(data):
    """list of (start, content_end, total_end, raw_line_bytes_incl_terminator); content_end excludes trailing \\r\\n and blanks"""
    out = []
    pos = 0
    n = len(data)
    while pos < n:
        j = data.find(b"\n", pos)
        end = n if j < 0 else j + 1
        raw = data[pos:end]
        ce = pos + len(raw.rstrip())
        out.append((pos, ce, end, raw))
        pos = end
    return out


_DBC_CM_END = re.compile(br'"\s*;\s*$')


def dbc_positions(lines):
    """indices p in 0..len(lines): a line may be inserted before line p (p = len: at the end).  Excluded: inside a multi-line
    CM_ statement, and directly before an SG_ line (i.e. between a BO_ line and its SG_ lines, or inside the signal list)."""
    ok = []
    in_cm = False
    for idx, (_, _, _, raw) in enumerate(lines):
        s = raw.strip()
        if not in_cm and not s.startswith(b"SG_ "):
            ok.append(idx)
        if in_cm:
            if _DBC_CM_END.search(s):
                in_cm = False
        elif s.startswith(b"CM_ ") and not _DBC_CM_END.search(s):
            in_cm = True
    if not in_cm:
        ok.append(len(lines))
    return ok


def sym_positions(lines):
    """insertion before line p is admissible unless p is a continuation line of a multi-line enum(...)"""
    ok = []
    in_enum = False
    section = "glob"
    secs = []          # section in force for a line inserted before p
    for idx, (_, _, _, raw) in enumerate(lines):
        s = raw.decode("latin1").strip()
        if not in_enum:
            ok.append(idx)
            secs.append(section)
        if s.startswith("{ENUMS}"):
            section = "enums"
        elif s.startswith("{SENDRECEIVE}") or s.startswith("{SEND}") or s.startswith("{RECEIVE}"):
            section = "frames"
        if section == "enums":
            t = s.split("//")[0].strip()
            if in_enum:
                if t.endswith(")"):
                    in_enum = False
            elif s.startswith("enum") and not t.endswith(")"):
                in_enum = True
    if not in_enum:
        ok.append(len(lines))
        secs.append(section)
    return ok, secs


def insert_lines(lines, inserts, eol=b"\n"):
    """inserts: list of (position, line_bytes) ; several lines at one position keep their list order"""
    by = {}
    for p, l in inserts:
        by.setdefault(p, []).append(l)
    out = []
    for idx in range(len(lines) + 1):
        for l in by.get(idx, ()):
            # the last line of a file may lack its terminator: complete it before appending
            if out and not out[-1].endswith(b"\n"):
                out[-1] = out[-1] + eol
            out.append(l + eol)
        if idx < len(lines):
            out.append(lines[idx][3])
    return b"".join(out)


# ------------------------------------------------------------------------------------------------------------------
# what a DBC / SYM file says, read off the text by an independent mini tokenizer (only the defining lines)
# ------------------------------------------------------------------------------------------------------------------
_BO = re.compile(r"^BO_ (\d+) (\S+?) *: *(\d+) (\S+)\s*$")
_SG = re.compile(r'^SG_ +(\S+) *(M|m\d+M?)? *: *(\d+)\|(\d+)@([01])([+-]) *\(([^,]+),([^)]+)\) *\[([^|]+)\|([^\]]+)\] +"(.*?)" *(.*)$')


def dbc_defs(lines):
    """[(frame_compound_id, bo_line_index, [(sg_line_index, short_name)])] in file order"""
    frames = []
    for idx, (_, _, _, raw) in enumerate(lines):
        s = raw.decode("latin1").strip()
        m = _BO.match(s)
        if m:
            frames.append((int(m.group(1)), idx, []))
            continue
        m = _SG.match(s)
        if m and frames:
            frames[-1][2].append((idx, m.group(1)))
        elif s and not s.startswith("SG_ ") and False:
            pass
    return frames


def sym_defs(lines):
    """sections in file order: dict(name, header, id_line, type_line, dlc_line, vars=[(line, name)], mux=(line) or None)"""
    secs = []
    mode = "glob"
    for idx, (_, _, _, raw) in enumerate(lines):
        s = raw.decode("latin1").strip()
        if s.startswith("{ENUMS}"):
            mode = "enums"
            continue
        if s.startswith("{SENDRECEIVE}") or s.startswith("{SEND}") or s.startswith("{RECEIVE}"):
            mode = "frames"
            continue
        if mode != "frames":
            continue
        if s.startswith("["):
            secs.append(dict(name=s.replace("[", "").replace("]", "").replace('"', "").strip(), header=idx, id=None, type=None,
                             dlc=None, vars=[], mux=None))
        elif secs:
            cur = secs[-1]
            if s.startswith("ID="):
                cur["id"] = idx
            elif s.startswith("Type="):
                cur["type"] = idx
            elif s.startswith("DLC="):
                cur["dlc"] = idx
            elif s.startswith("Mux="):
                cur["mux"] = idx
            elif s.startswith("Var="):
                body = s[4:]
                if body.startswith('"'):
                    name = body[1:].split('"', 1)[0]
                else:
                    name = body.split(" ", 1)[0]
                cur["vars"].append((idx, name))
    return secs


# ------------------------------------------------------------------------------------------------------------------
# malformed lines.  Each is malformed FOR SURE: it is rejected by the strict statement grammar below (Vector DBC file format
# document, resp. PEAK SYM 5 description), which is written here independently of the readers; `assert_malformed_*` re-checks
# every generated line against that grammar, so a truncation that happens to be a valid shorter statement can never be used.
# ------------------------------------------------------------------------------------------------------------------
_NUM = r"[+-]?(?:\d+\.?\d*|\.\d+)(?:[eE][+-]?\d+)?"
_STR = r'"(?:[^"\\]|\\.)*"'
_ID = r"[A-Za-z_][A-Za-z0-9_]*"
DBC_KEYWORDS = ["VERSION", "NS_", "BS_", "BU_", "VAL_TABLE_", "BO_", "SG_", "BO_TX_BU_", "EV_", "ENVVAR_DATA_", "SGTYPE_", "CM_",
                "BA_DEF_", "BA_DEF_DEF_", "BA_", "VAL_", "SIG_GROUP_", "SIG_VALTYPE_", "SG_MUL_VAL_", "BA_DEF_REL_", "BA_REL_",
                "BA_DEF_DEF_REL_", "BU_SG_REL_", "BU_EV_REL_", "BU_BO_REL_", "SIG_TYPE_REF_", "CAT_DEF_", "CAT_", "FILTER",
                "EV_DATA_", "SGTYPE_VAL_", "BA_DEF_SGTYPE_", "BA_SGTYPE_", "NS_DESC_", "SIGTYPE_VALTYPE_"]
DBC_STRICT = [re.compile(p) for p in [
    r"^VERSION +%s$" % _STR, r"^NS_ *:.*$", r"^BS_ *:.*$", r"^BU_ *:( +%s)* *$" % _ID,
    r"^VAL_TABLE_ +%s( +%s +%s)* *;$" % (_ID, _NUM, _STR),
    r"^BO_ +\d+ +%s *: *\d+ +%s$" % (_ID, _ID),
    r'^SG_ +%s( +(M|m\d+M?))? *: *\d+\|\d+@[01][+-] *\(%s,%s\) *\[%s\|%s\] +%s +%s( *, *%s)*$' % (_ID, _NUM, _NUM, _NUM, _NUM, _STR, _ID, _ID),
    r"^BO_TX_BU_ +\d+ *: *%s( *, *%s)* *;$" % (_ID, _ID),
    r"^EV_ +%s *: *[012] +\[%s\|%s\] +%s +%s +\d+ +%s +%s( *, *%s)* *;$" % (_ID, _NUM, _NUM, _STR, _NUM, _ID, _ID, _ID),
    r"^CM_ +((BU_|EV_) +%s +|BO_ +\d+ +|SG_ +\d+ +%s +)?\"" % (_ID, _ID),      # opener of a (possibly multi-line) comment
    r"^BA_DEF_ +((BU_|BO_|SG_|EV_) +)?%s +(INT +%s +%s|HEX +%s +%s|FLOAT +%s +%s|STRING|ENUM +%s( *, *%s)*) *;$" % (_STR, _NUM, _NUM, _NUM, _NUM, _NUM, _NUM, _STR, _STR),
    r"^BA_DEF_DEF_ +%s +(%s|%s) *;$" % (_STR, _NUM, _STR),
    r"^BA_ +%s +((BU_|EV_) +%s +|BO_ +\d+ +|SG_ +\d+ +%s +)?(%s|%s) *;$" % (_STR, _ID, _ID, _NUM, _STR),
    r"^VAL_ +(\d+ +)?%s( +%s +%s)* *;$" % (_ID, _NUM, _STR),
    r"^SIG_GROUP_ +\d+ +%s +\d+ *:( +%s)* *;$" % (_ID, _ID),
    r"^SIG_VALTYPE_ +\d+ +%s *: *[0123] *;$" % _ID,
    r"^SG_MUL_VAL_ +\d+ +%s +%s +\d+-\d+( *, *\d+-\d+)* *;$" % (_ID, _ID),
]]


def dbc_strictly_valid(line):
    s = line.strip()
    if not s:
        return True
    return any(p.match(s) for p in DBC_STRICT)


def dbc_first_token(line):
    return re.split(r"[ :]", line.strip(), 1)[0]


def dbc_bad_lines(ctx, rng):
    """ctx: dict(frame_ids=[compound ids in the file], sigs=[(id, short signal name)], ecus=[names], fresh_id).
    Returns list of (kind, line) with kind in unknown|truncated|wrongtype.  Lines that refer to objects use objects of the file
    (so that a reader which half-applies them is noticed) and fresh names otherwise."""
    fid = ctx["frame_ids"][rng.randrange(len(ctx["frame_ids"]))] if ctx["frame_ids"] else 291
    sid, sname = ctx["sigs"][rng.randrange(len(ctx["sigs"]))] if ctx["sigs"] else (fid, "NoSig")
    ecu = ctx["ecus"][rng.randrange(len(ctx["ecus"]))] if ctx["ecus"] else "NoEcu"
    new = ctx["fresh_id"]
    unknown = [
        'FOO_ 1 2 3;',
        'XX_UNKNOWN "text";',
        'Unknown statement without any structure',
        'bo_ %d lowercase_kw: 8 %s' % (new, ecu),
        'BO_%d NoSpaceAfterKw: 8 %s' % (new, ecu),
        'SG_X Sx : 0|8@1+ (1,0) [0|0] "" %s' % ecu,
        'BA_REL_ "GenSigTimeoutTime" BU_SG_REL_ %s SG_ %d %s 100;' % (ecu, sid, sname),
        'BA_DEF_REL_ BU_SG_REL_ "GenSigTimeoutTime" INT 0 65535;',
        'SGTYPE_ SomeType : 8@1+ (1,0) [0|0] "" 0 ,VtState ;',
        'SIG_TYPE_REF_ %d %s : SomeType;' % (sid, sname),
        'ENVVAR_DATA_ SomeVar: 4;',
        'CAT_DEF_ 1 Cat 2;',
        'FILTER 1 CAT_ 2 BU_ %s;' % ecu,
        '#pragma once',
        '%d %s' % (fid, sname),
    ]
    truncated = [
        'BO_ %d' % new,
        'BO_ %d TruncFrame' % new,
        'BO_ %d TruncFrame:' % new,
        'BO_ %d TruncFrame: 8' % new,
        'BO_ %d' % fid,                              # prefix of an existing frame's line
        ' SG_ TruncSig',
        ' SG_ TruncSig :',
        ' SG_ TruncSig : 8|',
        ' SG_ TruncSig : 8|8@1',
        ' SG_ TruncSig : 8|8@1+ (1,',
        ' SG_ TruncSig : 8|8@1+ (1,0) [0|',
        ' SG_ TruncSig : 8|8@1+ (1,0) [0|255] "un',
        ' SG_ %s : 8|8@1+ (1,0) [0|' % sname,
        ' SG_ TruncSig m1 : 8|8@1+ (1,0)',
        'BO_TX_BU_ %d : %s' % (fid, ecu),
        'BO_TX_BU_ %d' % fid,
        'CM_ SG_ %d' % sid,
        'CM_ SG_ %d %s' % (sid, sname),
        'CM_ BO_ %d' % fid,
        'CM_ BU_ %s' % ecu,
        'BA_ "GenMsgCyc',
        'BA_ "GenMsgCycleTime"',
        'BA_ "GenMsgCycleTime" BO_',
        'BA_ "GenMsgCycleTime" BO_ %d' % fid,
        'BA_ "GenMsgCycleTime" BO_ %d 55' % fid,
        'BA_ "GenSigStartValue" SG_ %d' % sid,
        'BA_ "GenSigStartValue" SG_ %d %s' % (sid, sname),
        'BA_ "GenSigStartValue" SG_ %d %s 3' % (sid, sname),
        'BA_ "EcuIntAttr" BU_ %s' % ecu,
        'BA_ "EcuIntAttr" BU_ %s 9' % ecu,
        'BA_ "NetIntAttr" 12',
        'BA_DEF_ BO_ "TruncDef" INT 0',
        'BA_DEF_ BO_ "TruncDef"',
        'BA_DEF_ SG_ "TruncDef" ENUM "a","b"',
        'BA_DEF_  "TruncDef" INT 0 1',
        'BA_DEF_DEF_ "FrHexAttr"',
        'BA_DEF_DEF_ "FrHexAttr" 33',
        'VAL_ %d' % sid,
        'VAL_ %d %s' % (sid, sname),
        'VAL_ %d %s 0 "TruncLabel" 1' % (sid, sname),
        'VAL_ %d %s 0 "TruncLabel" 1 "Tr' % (sid, sname),
        'VAL_ %d %s 7 "TruncLabel"' % (sid, sname),
        'VAL_ %d %s 7 "Trunc;Label' % (sid, sname),          # cut inside a string that contains the terminator character
        'BA_ "EcuStrAttr" BU_ %s "a;b' % ecu,
        'BA_ "SystemMessageLongSymbol" BO_ %d "Trunc;Name' % fid,
        'VAL_TABLE_ TruncTable 0 "a" 1 "b"',
        'VAL_TABLE_ VtState 0 "Trunc"',
        'SIG_GROUP_ %d TruncGroup 1' % fid,
        'SIG_GROUP_ %d TruncGroup 1 : %s' % (sid, sname),
        'SIG_VALTYPE_ %d %s' % (sid, sname),
        'SIG_VALTYPE_ %d %s : 1' % (sid, sname),
        'SG_MUL_VAL_ %d %s' % (sid, sname),
        'SG_MUL_VAL_ %d %s %s' % (sid, sname, sname),
        'SG_MUL_VAL_ %d %s %s 1-1' % (sid, sname, sname),
        'EV_ TruncEnv: 0 [0|',
        'EV_ TruncEnv: 0 [0|100] "" 0 3 DUMMY_NODE_VECTOR0',
    ]
    wrongtype = [
        'BO_ abc WrongFrame: 8 %s' % ecu,
        'BO_ 0x%x WrongFrame: 8 %s' % (new, ecu),
        'BO_ %d.5 WrongFrame: 8 %s' % (new, ecu),
        'BO_ %d WrongFrame: eight %s' % (new, ecu),
        'BO_ %d WrongFrame: 8.0 %s' % (new, ecu),
        ' SG_ WrongSig : x|8@1+ (1,0) [0|255] "" %s' % ecu,
        ' SG_ WrongSig : 8|y@1+ (1,0) [0|255] "" %s' % ecu,
        ' SG_ WrongSig : 8|8@z+ (1,0) [0|255] "" %s' % ecu,
        ' SG_ WrongSig : 8|8@1+ (abc,0) [0|255] "" %s' % ecu,
        ' SG_ WrongSig : 8|8@1+ (e,0) [0|255] "" %s' % ecu,
        ' SG_ WrongSig : 8|8@1+ (1,E) [0|255] "" %s' % ecu,
        ' SG_ WrongSig : 8|8@1+ (1,0) [e|255] "" %s' % ecu,
        ' SG_ WrongSig : 8|8@1+ (1,0) [0|E-] "" %s' % ecu,
        ' SG_ WrongSig : 8|8@1+ (1,0) [lo|hi] "" %s' % ecu,
        ' SG_ WrongSig mX : 8|8@1+ (1,0) [0|255] "" %s' % ecu,
        ' SG_ WrongSig m1x : 8|8@1+ (1,0) [0|255] "" %s' % ecu,
        ' SG_ %s : x|8@1+ (1,0) [0|255] "" %s' % (sname, ecu),
        'BO_TX_BU_ abc : %s;' % ecu,
        'CM_ BO_ abc "comment for a frame id that is not a number";',
        'CM_ SG_ abc %s "comment for a frame id that is not a number";' % sname,
        'BA_ "GenMsgCycleTime" BO_ abc 5;',
        'BA_ "GenSigStartValue" SG_ abc %s 5;' % sname,
        'BA_ "GenMsgCycleTime" BO_ %d abc;' % fid,
        'BA_ "GenSigStartValue" SG_ %d %s abc;' % (sid, sname),
        'BA_ "GenSigCycleTime" SG_ %d %s abc;' % (sid, sname),
        'BA_ "VFrameFormat" BO_ %d abc;' % fid,
        'BA_ "NetIntAttr" abc;',
        'VAL_ abc %s 0 "WrongLabel";' % sname,
        'VAL_ %d %s x "WrongLabel";' % (sid, sname),
        'VAL_ %d %s 7 "WrongLabel" x "WrongLabel2";' % (sid, sname),
        'VAL_TABLE_ WrongTable x "a" 1 "b";',
        'VAL_TABLE_ VtState x "a";',
        'SIG_GROUP_ abc WrongGroup 1 : %s;' % sname,
        'SIG_VALTYPE_ abc %s : 1;' % sname,
        'SG_MUL_VAL_ abc %s %s 1-1;' % (sname, sname),
        'SG_MUL_VAL_ %d %s %s a-b;' % (sid, sname, sname),
        'SG_MUL_VAL_ %d %s %s 1-1, x-2;' % (sid, sname, sname),
        'SG_MUL_VAL_ %d %s %s 1;' % (sid, sname, sname),
        'EV_ WrongEnv: x [0|100] "" 0 3 DUMMY_NODE_VECTOR0 Vector__XXX;',
        'EV_ WrongEnv: 0 [0|100] "" 0 abc DUMMY_NODE_VECTOR0 Vector__XXX;',
        'BA_DEF_DEF_ "FrHexAttr" abc;',
        'BA_DEF_ BO_ "WrongDef" INT a b;',
    ]
    # `typed`: lines that ARE well-formed statements but give a string / a fraction where the reader itself interprets the value as a
    # number (the three Gen* attributes and enumeration indices).  They are not malformed by the line grammar, so they may take effect;
    # the only expectation is the property's first one: the file still loads.
    typed = [
        'BA_ "GenMsgCycleTime" BO_ %d "fast";' % fid,
        'BA_ "GenSigStartValue" SG_ %d %s "high";' % (sid, sname),
        'BA_ "GenSigCycleTime" SG_ %d %s "slow";' % (sid, sname),
        'BA_ "GenSigCycleTime" SG_ %d %s 12.5;' % (sid, sname),
        'BA_ "VFrameFormat" BO_ %d "NoSuchFormat";' % fid,
        'BA_ "FrEnumAttr" BO_ %d "cyclic";' % fid,
        'BA_ "SigEnumAttr" SG_ %d %s "b";' % (sid, sname),
        'BA_DEF_DEF_ "GenSigStartValue" "none";',
    ]
    for l in typed:
        assert dbc_strictly_valid(l), l
    out = [("unknown", l) for l in unknown] + [("truncated", l) for l in truncated] + [("wrongtype", l) for l in wrongtype]
    for kind, l in out:
        assert not dbc_strictly_valid(l), ("generated bad line is valid DBC", l)
        tok = dbc_first_token(l)
        if kind == "unknown":
            assert tok not in ("BO_", "SG_", "CM_", "BA_", "VAL_", "BA_DEF_", "BA_DEF_DEF_", "VAL_TABLE_", "BU_", "BO_TX_BU_", "EV_",
                               "SIG_GROUP_", "SIG_VALTYPE_", "SG_MUL_VAL_"), l
        else:
            assert tok in DBC_KEYWORDS, l
    return out + [("typed", l) for l in typed]


def undecodable_lines(fmt, profile, ctx):
    """fourth fault kind: lines containing bytes that are not text in the encoding the file is read with (a lone continuation byte,
    0xFF/0xFE, a multi-byte character cut short).  Lines are given as latin-1 strings (one character per byte).  Malformed for sure
    only where the reader decodes with an encoding that can fail: the whole line under the utf8 profiles, the comment text under the
    mixed DBC profile (dbcImportCommentEncoding)."""
    out = []
    if fmt == "dbc":
        fid = ctx["frame_ids"][0] if ctx["frame_ids"] else 291
        sid, sname = ctx["sigs"][0] if ctx["sigs"] else (fid, "NoSig")
        new = ctx["fresh_id"]
        if profile == "dbc-utf8":
            out = ["\x80\x80 stray continuation bytes", "\xc2", "BO_ \xff\xfe", "BO_ %d Fr\xff: 8 Vector__XXX" % new,
                   "BO_ %d\xc3 UndecFrame: 8 Vector__XXX" % new,
                   ' SG_ UndecSig\x80 : 0|8@1+ (1,0) [0|255] "" Vector__XXX', ' SG_ UndecSig : 0|8@1+ (1,0) [0|255] "\xe2\x82" Vector__XXX',
                   'BA_ "GenMsgCycleTime" BO_ %d 5\xc3;' % fid, 'VAL_ %d %s 7 "\xe2\x82";' % (sid, sname),
                   'CM_ BO_ %d "undecodable \xff comment";' % fid, 'CM_ SG_ %d %s "cut \xe6\xb8";' % (sid, sname),
                   'SG_MUL_VAL_ %d %s %s 1-1\xa0;' % (sid, sname, sname)]
        elif profile == "dbc-mixed":
            out = ['CM_ BO_ %d "undecodable \xff comment";' % fid, 'CM_ SG_ %d %s "cut \xe6\xb8";' % (sid, sname)]
    elif profile == "sym-utf8":
        out = ["\x80\x80 stray continuation bytes", "\xc2", "[Fr\xff]", "ID=12\xc3h", "DLC=\xff", "Var=UndecSig\x80 unsigned 0,8",
               "Var=UndecSig unsigned 0,8 /u:\xe2\x82", "Mux=UndecMux\xfe 0,4 9", "CycleTime=1\x80"]
    for l in out:
        try:
            l.encode("latin1").decode("utf8")
            raise AssertionError(("undecodable line is valid UTF-8", l))
        except UnicodeDecodeError:
            pass
    return [("undecodable", l) for l in out]


# ---- SYM (PEAK symbol file, format version 5 as written by canmatrix) ----
_SYM_CMT = r"(\s*//.*)?$"
_SYM_WORD = r'(?:"[^"]*"|[^"\s]+)'
_SYM_SW = r'(?: +(?:-m|-h|/(?:u|ln):%s|/(?:f|o|min|max|d):%s|/p:\d+|/e:%s))*' % (_SYM_WORD, _NUM, _ID)
SYM_KEYS = ["FormatVersion", "Title", "ID", "Type", "DLC", "Len", "CycleTime", "Var", "Mux", "Sig", "Timeout", "MinInterval", "Color",
            "BRS", "enum", "Enum", "UniqueVariables", "FloatDecimalPlaces"]
SYM_STRICT = [re.compile(p) for p in [
    r"^FormatVersion=\d+\.\d+" + _SYM_CMT, r'^Title="[^"]*"' + _SYM_CMT, r"^\{(ENUMS|SIGNALS|SEND|RECEIVE|SENDRECEIVE)\}" + _SYM_CMT,
    r"^//.*$",
    r'^\[(?:"[^"\]]+"|[^"\]\s]+)\]' + _SYM_CMT,
    r"^ID=[0-9A-Fa-f]+h(-[0-9A-Fa-f]+h)?" + _SYM_CMT,
    r"^Type=(Standard|Extended|FDStandard|FDExtended)" + _SYM_CMT,
    r"^(DLC|CycleTime)=\d+" + _SYM_CMT,
    r'^Var=(?:"[^"]+"|\S+) (?:unsigned|signed|bit|raw|float|double|char|string|%s) \d+,\d+' % _ID + _SYM_SW + _SYM_CMT,
    r'^Mux=(?:"[^"]+"|\S+) \d+,\d+ (?:\d+|[0-9A-Fa-f]+h)' + _SYM_SW + r" ?" + _SYM_CMT,
    r"^enum ",                                                   # opener of a (possibly multi-line) enum
]]


def sym_strictly_valid(line):
    s = line.strip()
    return (not s) or any(p.match(s) for p in SYM_STRICT)


def sym_bad_lines(ctx, rng):
    """kinds: unknown | truncated | wrongtype; `statement` (3rd component) tells whether the line is a statement of a kind the
    reader must TRY to parse inside a frame section (then its failure has to be recorded in load_errors)."""
    unknown = [
        "Len=8", "Timeout=250", "MinInterval=10", "Color=FF8000h", "BRS=1", "FooBar=1", "Unknown statement without any structure",
        "XVar=Sx unsigned 0,8", "Sig=SomeSig 8", "var=lowercase unsigned 0,8", "id=1FFh", "<Frame>",
        # keywords that merely share a prefix with a known one
        "IDENT=1Ah", "DLCx=3", "Typo=Extended", "Variant=2", "Muxer=1", "CycleTimeFast=7", "Titlepage=1",
    ]
    truncated = [
        # (ID=1F / ID=1 without the 'h' suffix are NOT in the pool: whether a plain number is legal after ID= in PEAK's format is
        #  not settled by the documentation at hand, so such a line is not malformed for sure.  The reader drops the last character.)
        "[TruncFrame", '["Trunc Frame', "ID=", "DLC=", "CycleTime=", "Type=", "Type=Ext",
        "Var=", "Var=TruncSig", "Var=TruncSig unsigned", "Var=TruncSig unsigned 8", "Var=TruncSig unsigned 8,",
        "Var=TruncSig unsigned 8,8 /f:", "Var=TruncSig unsigned 8,8 /f", "Var=TruncSig unsigned 8,8 -m /u:km/h /o:", 'Var="Trunc Sig',
        'Var=TruncSig unsigned 8,8 /u:"un', "Var=TruncSig sig",
        "Mux=", "Mux=TruncMux", "Mux=TruncMux 0,", "Mux=TruncMux 0,4", "Mux=TruncMux 0",
    ]
    wrongtype = [
        "ID=xyzh", "ID=12.5h", "DLC=x", "DLC=8.5", "CycleTime=fast", "CycleTime=1e1",
        "Var=WrongSig unsigned a,b", "Var=WrongSig unsigned 0,x", "Var=WrongSig unsigned x,8", "Var=WrongSig 17 0,8",
        "Var=WrongSig unsigned 0,8 /f:abc", "Var=WrongSig unsigned 0,8 /o:abc", "Var=WrongSig unsigned 0,8 /min:abc",
        "Var=WrongSig unsigned 0,8 /max:abc", "Var=WrongSig unsigned 0,8 /d:abc", "Var=WrongSig unsigned 0,8 /p:abc",
        "Var=WrongSig signed 0,8 -m /f:1..2",
        "Mux=WrongMux 0,4 zz", "Mux=WrongMux a,b 1", "Mux=WrongMux 0,x 1", "Mux=WrongMux 0,4 7 -m /f:abc", "Mux=WrongMux 0,4 7 /f:abc", "Mux=WrongMux 0,4 7 /max:abc",
        "Mux=WrongMux 0,4 7 -m /o:abc", "Mux=WrongMux 0,4 7 -h /min:abc", "Mux=WrongMux 0,4 7 -m /max:abc", "Mux=WrongMux 0,4 1.5",
    ]
    out = [("unknown", l) for l in unknown] + [("truncated", l) for l in truncated] + [("wrongtype", l) for l in wrongtype]
    for kind, l in out:
        assert not sym_strictly_valid(l), ("generated bad line is valid SYM", l)
        key = re.split(r"[= ]", l.strip(), 1)[0]
        if kind == "unknown":
            assert key not in ("ID", "Type", "DLC", "CycleTime", "Var", "Mux", "enum", "Title") and not l.startswith("["), l
        else:
            assert key in SYM_KEYS or l.startswith("["), l
    return out


# ------------------------------------------------------------------------------------------------------------------
# the files under test
# ------------------------------------------------------------------------------------------------------------------
DBC_FEATURES = dict(n_frames=(2, 4), mux="mixed", value_tables=True, comments=True, attributes=True, long_names=True,
                    multi_senders=True, signal_groups=True, cycle_times=True, initial_values=True, floats=True, fd=True, max_len=64,
                    env_vars=True, free_signals=True, j1939=True)
SYM_FEATURES = dict(n_frames=(2, 4), mux="mixed", value_tables=True, comments=True, cycle_times=True, unit_max=16, max_len=8,
                    initial_values=True, floats=True)
SYM_LOAD_ERROR_EXEMPT = ("Type=",)      # an unknown Type value is ignored silently (later format versions know more types)

FILES = []       # dicts: fmt, name, data, lines, positions, (sym) sections ; filled before the worker pool forks


def multiline_comments(db, rng):
    """canmatrix's DBC writer emits comments verbatim, so a comment with a line break gives a multi-line CM_ statement"""
    for fr in db.frames:
        objs = [fr] + list(fr.signals)
        for o in objs:
            if o.comment and " " in o.comment and rng.random() < 0.4:
                o.comment = o.comment.replace(" ", "\n", 1)
                if rng.random() < 0.5 and " " in o.comment:
                    o.comment = o.comment.replace(" ", "\n", 1)


# non-ASCII text: characters of 2 bytes (° µ ² Ö ß é Ω) and 3 bytes (€ ℃ 温 度 開) in UTF-8
NA_UNITS = {"latin1": [u"\u00b0C", u"\u00b5s", u"m\u00b2", u"\u00b0/s"],
            "utf8": [u"\u00b0C", u"\u00b5s", u"m\u00b2", u"\u03a9", u"\u20ac/h", u"\u2103", u"k\u03a9\u00b7m"]}
NA_WORDS = {"latin1": [u"Gr\u00f6\u00dfe", u"temp\u00e9rature", u"h\u00e4\u00dflich"],
            "utf8": [u"Gr\u00f6\u00dfe", u"temp\u00e9rature", u"\u6e29\u5ea6", u"\u0394\u20ac", u"\u958b\u3051\u308b"]}
PROFILES = {
    # name: (level of non-comment text, level of comments, dump options, load options)
    "dbc-utf8": ("utf8", "utf8", dict(dbcExportEncoding="utf8"), dict(dbcImportEncoding="utf8")),
    "dbc-mixed": ("latin1", "utf8", dict(dbcExportCommentEncoding="utf8"), dict(dbcImportCommentEncoding="utf8")),
    "sym-utf8": ("utf8", "utf8", dict(symExportEncoding="utf8"), dict(symImportEncoding="utf8")),
}


def non_ascii(db, rng, text_level, comment_level, unit_max=100):
    """put non-ASCII text into units, comments, value descriptions and string attributes"""
    for e in db.ecus:
        if "EcuStrAttr" in e.attributes or rng.random() < 0.5:
            if "EcuStrAttr" in db.ecu_defines:
                e.add_attribute("EcuStrAttr", rng.choice(NA_WORDS[text_level]) + " " + rng.choice(NA_WORDS[text_level]))
        if rng.random() < 0.5:
            e.add_comment(rng.choice(NA_WORDS[comment_level]) + " ecu")
    for vt in db.value_tables.values():
        for k in list(vt):
            vt[k] = rng.choice(NA_WORDS[text_level])
    for fr in db.frames:
        if rng.random() < 0.6:
            fr.add_comment(((fr.comment + " ") if fr.comment else "") + rng.choice(NA_WORDS[comment_level]) + " " + rng.choice(NA_WORDS[comment_level]))
        for s in fr.signals:
            if rng.random() < 0.6:
                s.unit = rng.choice(NA_UNITS[text_level])[:unit_max]
            if rng.random() < 0.5:
                s.add_comment(((s.comment + " ") if s.comment else "") + rng.choice(NA_WORDS[comment_level]))
            for k in list(s.values):
                if rng.random() < 0.7:
                    s.values[k] = rng.choice(NA_WORDS[text_level])


def move_multiplexer(db, rng):
    """canmatrix writes the signals of a frame in list order; a multiplexer that is not the first signal gives SG_ m<k> lines in
    front of the SG_ .. M line, so that a cut can fall between them"""
    for fr in db.frames:
        idx = [i for i, s in enumerate(fr.signals) if s.multiplex == "Multiplexor"]
        if idx and len(fr.signals) > 1 and rng.random() < 0.6:
            s = fr.signals.pop(idx[0])
            fr.signals.insert(rng.randrange(1, len(fr.signals) + 1), s)


def make_files(rng, n_dbc, n_sym, C, n_enc=(3, 2, 3)):
    F = impl()
    out = []
    for prof, n in zip(("dbc-utf8", "dbc-mixed", "sym-utf8"), n_enc):
        tl, cl, dopts, lopts = PROFILES[prof]
        fmt = prof[:3]
        for k in range(n):
            if fmt == "dbc":
                db = matgen.gen_matrix(rng, C, **dict(DBC_FEATURES, n_frames=(1, 3) if k == 0 else (2, 4)))
                non_ascii(db, rng, tl, cl)
                multiline_comments(db, rng)
                move_multiplexer(db, rng)
            else:
                db = matgen.gen_matrix(rng, C, **dict(SYM_FEATURES, n_frames=(1, 3) if k == 0 else (2, 4)))
                non_ascii(db, rng, tl, cl, unit_max=16)
            b = io.BytesIO()
            F.dump(db, b, fmt, **dopts)
            data = b.getvalue()
            try:
                data.decode("ascii")
                raise AssertionError("encoding profile file without non-ASCII text")
            except UnicodeDecodeError:
                pass
            out.append(dict(fmt=fmt, name="gen-%s-%d" % (prof, k), data=data, generated=True, opts=lopts, profile=prof,
                            ecus=[e.name[:32] for e in db.ecus] if fmt == "dbc" else []))
    for k in range(n_dbc):
        db = matgen.gen_matrix(rng, C, **DBC_FEATURES)
        multiline_comments(db, rng)
        if k % 2:
            move_multiplexer(db, rng)
        b = io.BytesIO()
        F.dump(db, b, "dbc")
        out.append(dict(fmt="dbc", name="gen-dbc-%d" % k, data=b.getvalue(), generated=True, ecus=[e.name[:32] for e in db.ecus]))
    for k in range(n_sym):
        db = matgen.gen_matrix(rng, C, **SYM_FEATURES)
        b = io.BytesIO()
        F.dump(db, b, "sym")
        out.append(dict(fmt="sym", name="gen-sym-%d" % k, data=b.getvalue(), generated=True, ecus=[]))
    import glob
    for fmt in ("dbc", "sym"):
        for p in sorted(glob.glob(os.path.join(core.REPO, "tests", "files", fmt, "*." + fmt))):
            out.append(dict(fmt=fmt, name="sample-" + os.path.basename(p), data=open(p, "rb").read(), generated=False, ecus=[]))
    for f in out:
        f.setdefault("opts", {})
        f.setdefault("profile", "default")
        f["lines"] = split_lines(f["data"])
        f["eol"] = b"\r\n" if b"\r\n" in f["data"] else b"\n"
        if f["fmt"] == "dbc":
            f["positions"] = dbc_positions(f["lines"])
            f["sections"] = None
            f["defs"] = dbc_defs(f["lines"])
        else:
            f["positions"], f["sections"] = sym_positions(f["lines"])
            f["defs"] = sym_defs(f["lines"])
    return out


# ------------------------------------------------------------------------------------------------------------------
# expectations for cut files, derived from the text (which lines define what) and the load of the complete file
# ------------------------------------------------------------------------------------------------------------------
def compound(cid):
    """ArbitrationId.from_compound_integer: 29 identifier bits, bit 31 = extended (bits 29 and 30 are dropped, which is why the
    reader never recognises its own free-signal frame 0xC0000000 as identifier 0x40000000: it stays a frame with identifier 0)"""
    return (cid & 0x1FFFFFFF, bool(cid & 0x80000000))


def find_frame(db, key):
    for f in db.frames:
        if (f.arbitration_id.id, bool(f.arbitration_id.extended)) == key:
            return f
    return None


def dbc_expect(f, full):
    """[(bo_line, key, is_free_signal_frame, [(sg_line, name, skeleton)])] ; None if the text and the complete load disagree on the
    number of frames/signals (then the file is outside what this oracle understands and is only checked for 'no exception')."""
    exp = []
    keys = [compound(d[0]) for d in f["defs"]]
    if len(set(keys)) != len(keys):
        return None
    for cid, bo, sgs in f["defs"]:
        key = compound(cid)
        free = cid == 0xC0000000
        fr = find_frame(full, key)
        sigs = full.signals if (free and fr is None) else (fr.signals if fr is not None else None)
        if sigs is None or len(sigs) != len(sgs):
            return None
        exp.append((bo, key, free and fr is None, [(ln, s.name, skel_sig(s)) for (ln, _), s in zip(sgs, sigs)]))
    n_real = len(full.frames) + (1 if any(e[2] for e in exp) else 0)
    if n_real != len(exp):
        return None
    return exp


def sym_groups(defs):
    groups = []
    for sec in defs:
        if groups and groups[-1]["name"] == sec["name"]:
            g = groups[-1]
        else:
            g = dict(name=sec["name"], need=[sec["header"]] + [x for x in (sec["id"], sec["type"]) if x is not None], siglines=[],
                     has_mux=False)
            groups.append(g)
        if sec["mux"] is not None and not g["has_mux"]:
            g["has_mux"] = True
            g["siglines"].append((sec["mux"], g["name"] + "_MUX"))
        lines = sorted([(ln, nm) for ln, nm in sec["vars"]])
        # the Mux line precedes the Var lines of its section in every file canmatrix writes; keep file order in general
        g["siglines"] += lines
        g["siglines"].sort()
    return groups


def sym_expect(f, full):
    groups = sym_groups(f["defs"])
    if len(groups) != len(full.frames):
        return None
    exp = []
    for g, fr in zip(groups, full.frames):
        if fr.name != g["name"]:
            return None
        # pair the text's Var=/Mux= lines with the reader's signals in order; a line the reader rejects even in the complete file
        # (the sample has string signals with a string default) carries no expectation
        sigs = []
        k = 0
        for ln, nm in g["siglines"]:
            if k < len(fr.signals) and fr.signals[k].name == nm:
                sigs.append((ln, nm, skel_sig(fr.signals[k]), k))
                k += 1
        if k != len(fr.signals):
            return None
        exp.append((g["need"], (fr.arbitration_id.id, bool(fr.arbitration_id.extended)), fr.name, sigs))
    return exp


def check_cut(f, exp, cut):
    """returns list of (key_suffix, what, expected, observed)"""
    fmt = f["fmt"]
    db, err = load(f["data"][:cut], fmt, f["opts"])
    if err:
        return [("cut-raises", "an exception escapes loads() of the file cut after %d bytes" % cut, "no exception", err)], 0
    if exp is None:
        return [], 0
    lines = f["lines"]
    done = lambda ln: lines[ln][1] <= cut          # the line's content (terminator and trailing blanks aside) lies before the cut
    bad = []
    nobj = 0
    if fmt == "dbc":
        for bo, key, free, sigs in exp:
            if not done(bo):
                continue
            nobj += 1
            fr = find_frame(db, key)
            got = db.signals if (free and fr is None) else (fr.signals if fr is not None else None)
            if got is None:
                bad.append(("cut-loses-frame", "frame %s whose BO_ line is complete is absent" % (key,), key, "absent"))
                continue
            for k, (ln, name, sk) in enumerate(sigs):
                if not done(ln):
                    break
                nobj += 1
                if k >= len(got):
                    bad.append(("cut-loses-signal", "signal %s of frame %s (complete SG_ line) is absent" % (name, key), sk, "absent"))
                elif skel_sig(got[k]) != sk or not name.startswith(got[k].name[:32]) and got[k].name != name:
                    bad.append(("cut-changes-signal", "signal %s of frame %s differs from the complete file" % (name, key),
                                (name, sk), (got[k].name, skel_sig(got[k]))))
    else:
        for j, (need, key, name, sigs) in enumerate(exp):
            if not all(done(ln) for ln in need):
                continue
            nobj += 1
            fr = db.frames[j] if j < len(db.frames) else None
            if fr is None or (fr.arbitration_id.id, bool(fr.arbitration_id.extended)) != key or fr.name != name:
                bad.append(("cut-loses-frame", "frame %s %s whose [name]/ID/Type lines are complete is absent or has another identifier"
                            % (name, key), (name, key),
                            None if fr is None else (fr.name, fr.arbitration_id.id, bool(fr.arbitration_id.extended))))
                continue
            for ln, sname, sk, k in sigs:
                if not done(ln):
                    break
                nobj += 1
                if k >= len(fr.signals):
                    bad.append(("cut-loses-signal", "signal %s of frame %s (complete Var=/Mux= line) is absent" % (sname, name), sk, "absent"))
                elif skel_sig(fr.signals[k]) != sk or fr.signals[k].name != sname:
                    bad.append(("cut-changes-signal", "signal %s of frame %s differs from the complete file" % (sname, name),
                                (sname, sk), (fr.signals[k].name, skel_sig(fr.signals[k]))))
    return bad, nobj


# ------------------------------------------------------------------------------------------------------------------
# failure classes:  <reader>-<class>:<statement kind>-<fault kind>
# ------------------------------------------------------------------------------------------------------------------
SYM_PREFIX_KEYWORDS = ("IDENT=", "DLCx=", "Typo=", "Variant=", "Muxer=", "CycleTimeFast=", "Titlepage=")


def stmt_kind(fmt, line, kind):
    """statement kind of an inserted line, fine enough that one repair corresponds to a set of keys"""
    l = line.strip()
    if fmt == "dbc":
        if kind == "unknown":
            return "other"
        tok = dbc_first_token(l)
        if tok not in DBC_KEYWORDS:
            return "other"
        if tok == "BA_":
            m = re.match(r'BA_ +"([^"]*)', l)
            name = m.group(1) if m else ""
            if name in ("GenMsgCycleTime", "GenSigStartValue", "GenSigCycleTime"):
                return "BA_Gen"          # attributes the reader itself converts to numbers
            if name in ("VFrameFormat", "FrEnumAttr", "SigEnumAttr"):
                return "BA_enum"         # enumeration attributes (converted from index to label after reading)
        return tok
    if kind == "unknown":
        return "keyword-prefix" if l.startswith(SYM_PREFIX_KEYWORDS) else "other"
    if l.startswith("["):
        return "[frame]"
    key = re.split(r"[= ]", l, 1)[0]
    if key not in SYM_KEYS:
        return "other"
    if key in ("Var", "Mux") and re.search(r" (-[mh]|/)", l):
        return key + "(switch)"          # the malformed part is a switch behind the mandatory fields
    return key


def fkey(fmt, cls, line, kind):
    return "%s-%s:%s-%s" % (fmt, cls, stmt_kind(fmt, line, kind), kind)


def check_inserts(f, st, inserts):
    """loads the file with the given lines inserted; returns (violations, faulted_bytes); violations = (class, what, expected, observed)"""
    fmt = f["fmt"]
    ins = [(f["positions"][pi], l.encode("latin1")) for pi, _, l in inserts]
    data2 = insert_lines(f["lines"], ins, f["eol"])
    db, err = load(data2, fmt, f["opts"])
    kinds = sorted({k for _, k, _ in inserts})
    out = []
    if err:
        out.append(("typed-raises" if kinds == ["typed"] else "badline-raises",
                    "an exception escapes loads() of a %s file with inserted %s line(s)" % (fmt, "/".join(kinds)), "no exception", err))
        return out, data2
    if "typed" not in kinds:
        df = matgen.diff(st["nf"], nf_of(db))
        if df:
            out.append(("badline-changes-result", "inserted %s line(s) change what the reader returns" % "/".join(kinds),
                        "normal form of the clean file", [list(map(str, d)) for d in df[:4]]))
    if fmt == "sym":
        # "records statements that fail to parse": one entry for every inserted statement of a known kind inside a frame section that
        # cannot be parsed (truncated, wrong field type, undecodable).  Whether a reader also records an unknown keyword, an ignored
        # Type value or a bad line in the header / {ENUMS} part is not said: any number up to one per inserted line is accepted there.
        must = sum(1 for pi, k, l in inserts
                   if k in ("truncated", "wrongtype", "undecodable") and f["sections"][pi] == "frames"
                   and not l.startswith(SYM_LOAD_ERROR_EXEMPT))
        lo, hi = st["nerr"] + must, st["nerr"] + len(inserts)
        if not lo <= len(db.load_errors) <= hi:
            out.append(("badline-not-recorded", "load_errors does not hold one entry per statement that failed to parse",
                        "%d..%d" % (lo, hi), len(db.load_errors)))
    return out, data2


# ------------------------------------------------------------------------------------------------------------------
# worker side
# ------------------------------------------------------------------------------------------------------------------
_CACHE = {}


def file_state(fi):
    if fi not in _CACHE:
        f = FILES[fi]
        db, err = load(f["data"], f["fmt"], f["opts"])
        st = dict(err=err)
        if db is not None:
            st["nf"] = nf_of(db)
            st["nerr"] = len(db.load_errors)
            st["exp"] = dbc_expect(f, db) if f["fmt"] == "dbc" else sym_expect(f, db)
        _CACHE[fi] = st
    return _CACHE[fi]


def b64(b):
    return base64.b64encode(b).decode("ascii")


def work(item):
    """item = (task, file_index, payload).  Returns dict(viol=[...], n=cases, nontrivial=[hashes], counts={})"""
    task, fi, payload = item
    f = FILES[fi]
    fmt = f["fmt"]
    st = file_state(fi)
    res = dict(viol=[], n=0, nontrivial=[], counts={})

    def cnt(k, n=1):
        res["counts"][k] = res["counts"].get(k, 0) + n
    if st["err"]:
        return res
    if task == "ins":
        for inserts in payload:          # inserts: list of (position_index, kind, line)
            res["n"] += 1
            kinds = sorted({k for _, k, _ in inserts})
            cnt("%s-insert-%d" % (fmt, len(inserts)))
            for k in kinds:
                cnt("%s-kind-%s" % (fmt, k))
            if f["positions"][min(pi for pi, _, _ in inserts)] < len(f["lines"]):
                res["nontrivial"].append(hash((f["name"], tuple(inserts))))
            viol, data2 = check_inserts(f, st, inserts)
            if not viol:
                continue
            todo = []
            if len(inserts) > 1:
                # attribute the failure of a multiset to the inserted lines that fail on their own
                for one in inserts:
                    v1, d1 = check_inserts(f, st, [one])
                    todo += [(c, w, e, o, [one], d1) for c, w, e, o in v1]
            if not todo:
                todo = [(c, w, e, o, inserts, data2) for c, w, e, o in viol]
            for c, what, exp, obs, which, data in todo:
                if len(which) == 1:
                    key = fkey(fmt, c, which[0][2], which[0][1])
                else:
                    key = "%s-%s:multiset-only" % (fmt, c)        # fails only in combination
                inp = dict(file=f["name"], format=fmt, inserted=[dict(before_line=f["positions"][pi] + 1, kind=k, line=l) for pi, k, l in which],
                           faulted_file_b64=b64(data))
                res["viol"].append((key, what, inp, exp, obs))
    elif task == "cut":
        for cut in payload:
            bad, nobj = check_cut(f, st["exp"], cut)
            res["n"] += 1
            cnt("%s-cut" % fmt)
            cnt("%s-cut-objects-compared" % fmt, nobj)
            if nobj:
                res["nontrivial"].append(hash((f["name"], "cut", cut)))
            cutline = next((raw for (a0, _, e0, raw) in f["lines"] if a0 <= cut < e0), b"")
            cl = cutline.decode("latin1").strip()
            ck = (dbc_first_token(cl) if fmt == "dbc" else ("[frame]" if cl.startswith("[") else re.split(r"[= (]", cl, 1)[0])) or "end-of-file"
            if ck not in DBC_KEYWORDS and ck not in SYM_KEYS and ck not in ("[frame]", "end-of-file"):
                ck = "continuation-or-other"          # e.g. a continuation line of a multi-line CM_ / enum
            for suffix, what, exp, obs in bad:
                res["viol"].append(("%s-%s:%s-cut" % (fmt, suffix, ck), what, dict(file=f["name"], format=fmt, cut_after_bytes=cut,
                                                                        cut_file_b64=b64(f["data"][:cut])), exp, obs))
    return res


# ------------------------------------------------------------------------------------------------------------------
# the check
# ------------------------------------------------------------------------------------------------------------------
def chunks(l, n):
    for i in range(0, len(l), n):
        yield l[i:i + n]


def plan_file(fi, f, rng, thorough):
    """work items for one file"""
    items = []
    npos = len(f["positions"])
    if f["fmt"] == "dbc":
        ids = [d[0] for d in f["defs"]]
        ctx = dict(frame_ids=ids, sigs=[(d[0], s[1]) for d in f["defs"] for s in d[2]], ecus=f["ecus"],
                   fresh_id=max([i & 0x7FF for i in ids] + [0x100]) % 0x7FF + 1)
        while ctx["fresh_id"] in ids:
            ctx["fresh_id"] += 1
        bad = []
        for _ in range(3 if thorough else 2):      # several draws so that different existing objects are referred to
            bad += dbc_bad_lines(ctx, rng)
        bad = list(dict.fromkeys(bad)) + undecodable_lines("dbc", f["profile"], ctx)
    else:
        bad = sym_bad_lines({}, rng) + undecodable_lines("sym", f["profile"], {})
    f["nbad"] = len(bad)
    singles = []
    if thorough:
        for pi in range(npos):
            for k, l in bad:
                singles.append([(pi, k, l)])
    else:
        q = 10
        for pi in range(npos):
            for j in range(q):
                k, l = bad[(pi * q + j) % len(bad)]
                singles.append([(pi, k, l)])
        for k, l in bad:
            for pi in {0, npos - 1, rng.randrange(npos), rng.randrange(npos)}:
                singles.append([(pi, k, l)])
    multis = []
    for _ in range(3000 if thorough else 200):
        m = rng.choice([2, 2, 3, 4])
        multis.append([(rng.randrange(npos),) + bad[rng.randrange(len(bad))] for _ in range(m)])
    for c in chunks(singles + multis, 120):
        items.append(("ins", fi, c))
    n = len(f["data"])
    if thorough or n <= 12000:
        cuts = list(range(0, n + 1))
    else:
        cuts = sorted(set(range(0, n + 1, 5)) | set(range(0, 2500)) | {n - k for k in range(0, 400)})
    f["ncuts"] = len(cuts)
    f["allcuts"] = len(cuts) == n + 1
    for c in chunks(cuts, 150):
        items.append(("cut", fi, c))
    return items


WITNESS_DBC = (b'VERSION ""\n\nNS_ :\n\nBS_:\n\nBU_: E1\n\nBO_ 291 WitFrame: 8 E1\n SG_ WitSig : 0|8@1+ (1,0) [0|255] "" E1\n'
               b' SG_ WitSig2 : 8|8@1+ (1,0) [0|255] "" E1\n\nBA_DEF_ BO_ "GenMsgCycleTime" INT 0 65535;\n')
WITNESS_SYM = b'FormatVersion=5.0 // Do not edit this line!\nTitle="w"\n{ENUMS}\n{SENDRECEIVE}\n\n[WitFrame]\nID=123h\nType=Standard\nDLC=8\n'


def witnesses(chk):
    """the `_refuted` witnesses of props/C20.v rendered as text and replayed on the real readers (run first, like a corpus), and the
    witness that the excluded positions (inside a signal list) are excluded for a reason"""
    clean, err = load(WITNESS_DBC, "dbc")
    nf0 = nf_of(clean)
    for kind, line in (("dangling", 'SG_MUL_VAL_ 291 NoSuchSig WitSig 1-1;'), ("wrongtype", 'SG_MUL_VAL_ 291 WitSig2 WitSig 1-1, x-2;'),
                       ("wrongtype", 'VAL_ 291 WitSig 7 "Seven" x "Off";'), ("wrongtype", 'BA_ "GenMsgCycleTime" BO_ 291 abc;'),
                       ("typed", 'BA_ "GenMsgCycleTime" BO_ 291 "fast";')):
        data = WITNESS_DBC + line.encode() + b"\n"
        db, err = load(data, "dbc")
        chk.case(("witness", line), True)
        chk.count("witness-replays")
        inp = dict(file="witness.dbc", format="dbc", inserted=[dict(kind=kind, line=line)], faulted_file_b64=b64(data),
                   theorem="C20_dbc_orig_fail_before_mutation_refuted / C20_dbc_orig_post_total_refuted")
        if kind == "dangling":
            # a well-formed statement naming an object that does not exist is none of the property's fault kinds: observed, not judged
            chk.count("witness-dangling-" + ("raises" if err else ("changes-result" if matgen.diff(nf0, nf_of(db)) else "skipped")))
            continue
        if err:
            chk.violation(fkey("dbc", "typed-raises" if kind == "typed" else "badline-raises", line, kind),
                          "an exception escapes loads() (witness of the refuted theorem about the reader as found)", inp, "no exception", err)
        elif kind != "typed" and matgen.diff(nf0, nf_of(db)):
            chk.violation(fkey("dbc", "badline-changes-result", line, kind), "a failing statement has changed the matrix before failing (witness of the refuted "
                          "theorem about the reader as found)", inp, "normal form of the clean file",
                          [list(map(str, d)) for d in matgen.diff(nf0, nf_of(db))[:4]])
    # envelope: a failing statement between a BO_ line and its SG_ line may lose the signal (C20_dbc_insertion_inside_signal_list_refuted)
    data = WITNESS_DBC.replace(b" SG_ WitSig :", b'CM_ SG_ 999 WitSig "x";\n SG_ WitSig :')
    db, err = load(data, "dbc")
    lost = err is None and [s.name for f in db.frames for s in f.signals] == []
    chk.count("envelope-witness-inside-signal-list-loses-signals" if lost else "envelope-witness-not-reproduced")
    # (observation only: positions inside a signal list are outside the quantifier, a reader may well cope with them)
    clean, err = load(WITNESS_SYM + b"Var=WitSig unsigned 8,8\n", "sym")
    nf0 = nf_of(clean)
    for line, full in (("Mux=WitMux 0,4 zz", WITNESS_SYM + b"Mux=WitMux 0,4 zz\nVar=WitSig unsigned 8,8\n"),
                       ("Mux=WitMux 0,4 7 -m /f:abc", WITNESS_SYM + b"Var=WitSig unsigned 8,8\nMux=WitMux 0,4 7 -m /f:abc\n")):
        db, err = load(full, "sym")
        chk.case(("witness", line), True)
        chk.count("witness-replays")
        inp = dict(file="witness.sym", format="sym", inserted=[dict(kind="wrongtype", line=line)], faulted_file_b64=b64(full),
                   theorem="C20_sym_orig_refuted")
        if err:
            chk.violation(fkey("sym", "badline-raises", line, "wrongtype"), "an exception escapes loads() (witness of the refuted theorem about the reader as found)",
                          inp, "no exception", err)
        elif matgen.diff(nf0, nf_of(db)):
            chk.violation(fkey("sym", "badline-changes-result", line, "wrongtype"), "a failing Mux= line changes what follows (witness of the refuted theorem about "
                          "the reader as found)", inp, "normal form of the clean file",
                          [list(map(str, d)) for d in matgen.diff(nf0, nf_of(db))[:4]])


def run(chk):
    global FILES
    thorough = chk.tier == "thorough"
    chk.rule = ("files: canmatrix's own DBC output (all content classes of matgen incl. multi-line comments, extended multiplexing, long "
                "names, free signals, environment variables) and SYM output (what sym.py dump expresses) for seeded matrices, plus "
                "tests/files/dbc/*.dbc and tests/files/sym/*.sym; additionally files with non-ASCII text (2- and 3-byte UTF-8 characters in "
                "units, comments, value descriptions, string attributes) written and read with dbcExport/ImportEncoding=utf8, with "
                "dbcExport/ImportCommentEncoding=utf8 over iso-8859-1, and symExport/ImportEncoding=utf8 (every byte cut, so also the cuts "
                "inside a multi-byte character; fourth fault kind there: lines with bytes that are not text in the import encoding).  Faults: malformed lines (unknown keyword / truncated / wrong field type; "
                "each rejected by an independent strict line grammar, see dbc_bad_lines/sym_bad_lines) inserted at every admissible "
                "position (DBC: not inside a multi-line CM_ and not directly before an SG_ line; SYM: not inside an enum(...) continuation), "
                "multisets of 2..4, and every byte cut.  A line 'lies completely before the cut' when all bytes of its content (line "
                "terminator and trailing blanks aside) are before it; a DBC signal's defining lines are its frame's BO_ line and its SG_ "
                "line, a SYM frame's are the [name], ID= and Type= lines of its first section, a SYM signal's additionally its Var= "
                "line (the first Mux= line for the <frame>_MUX signal).  non-trivial = the (first) fault lies before the end of the file, "
                "resp. at least one object is complete before the cut; distinct by (file, fault)")
    ok = chk.build_and_audit()
    cm = core.import_impl()
    C = cm.canmatrix
    rng = chk.rng
    witnesses(chk)
    FILES = make_files(rng, 60 if thorough else 8, 60 if thorough else 8, C, (15, 10, 15) if thorough else (3, 2, 3))
    items = []
    for fi, f in enumerate(FILES):
        st = file_state(fi)
        chk.count("files-" + f["fmt"] + ("-generated" if f["generated"] else "-sample") + ("" if f["profile"] == "default" else "-" + f["profile"]))
        if st["err"]:
            chk.violation("%s-clean-raises" % f["fmt"], "a well-formed file does not load", dict(file=f["name"], file_b64=b64(f["data"])),
                          "no exception", st["err"])
            continue
        if f["generated"]:
            valid = dbc_strictly_valid if f["fmt"] == "dbc" else sym_strictly_valid
            in_cm = False
            for ln, (_, _, _, raw) in enumerate(f["lines"]):
                # continuation lines of multi-line statements are not statements of their own
                admissible = ln in set(f["positions"])
                if admissible and not valid(raw.decode("latin1")):
                    raise AssertionError("strict grammar rejects a line canmatrix wrote: %r" % raw)
            if st["exp"] is None:
                raise AssertionError("text tokenizer and reader disagree on the objects of generated file " + f["name"])
            if f["fmt"] == "sym" and st["nerr"]:
                chk.violation("sym-clean-load-errors", "canmatrix's own SYM output is read back with load errors",
                              dict(file=f["name"], file_b64=b64(f["data"])), 0, st["nerr"])
        elif st["exp"] is None:
            chk.notes.append("%s: text tokenizer and reader disagree on the object list; cut sweep checks 'no exception' only" % f["name"])
        items += plan_file(fi, f, rng, thorough)
        chk.count("positions-" + f["fmt"], len(f["positions"]))
    chk.extra["files"] = [dict(name=f["name"], bytes=len(f["data"]), lines=len(f["lines"]), insert_positions=len(f["positions"]),
                               bad_lines=f.get("nbad"), cuts=f.get("ncuts"), every_byte_cut=f.get("allcuts")) for f in FILES]
    chk.exhaustive = all(f.get("allcuts") for f in FILES) and thorough
    _CACHE.clear()
    known_keys = {k.get("key") for k in chk.known}
    ctx = multiprocessing.get_context("fork")
    with ctx.Pool(min(core.NPROC, 16)) as pool:
        for res in pool.imap_unordered(work, items, chunksize=1):
            chk.evaluations += res["n"]
            chk.nontrivial.update(res["nontrivial"])
            for k, n in res["counts"].items():
                chk.count(k, n)
            for key, what, inp, exp, obs in res["viol"]:
                chk.count("failing-" + key)
                # recorded findings are only counted by core; of any other class core keeps 50 in total: one replay per class
                if key in known_keys or chk.hist["failing-" + key] <= 1:
                    chk.violation(key, what, inp, exp, obs)
    f0 = FILES[0]
    chk.sample(dict(file=f0["name"], fault="line inserted before line %d" % (f0["positions"][3] + 1), line='BA_ "GenMsgCycleTime" BO_ 291 abc;',
                    expectation="same normal form as the clean file"))
    chk.sample(dict(file=f0["name"], fault="cut after byte %d" % (len(f0["data"]) // 2),
                    expectation="no exception; objects whose defining lines precede the cut as in the complete file"))
    tie(chk, ok, rng, thorough)


# ------------------------------------------------------------------------------------------------------------------
# TIE: the statement languages of model/LineFold.v against the real readers
# ------------------------------------------------------------------------------------------------------------------
TIE_DBC_FEATURES = dict(n_frames=(2, 4), mux="mixed", value_tables=True, comments=True, attributes=True, multi_senders=True,
                        cycle_times=True, initial_values=True, max_len=8, signal_groups=True, global_value_tables=True)
TIE_SYM_FEATURES = dict(n_frames=(2, 4), mux="mixed", value_tables=True, comments=True, cycle_times=True, unit_max=16, max_len=8)


class Interner(object):
    def __init__(self):
        self.code = {"GenMsgCycleTime": 1}
        self.text = {1: "GenMsgCycleTime"}

    def __call__(self, t):
        if t not in self.code:
            c = len(self.code) + 10
            self.code[t] = c
            self.text[c] = t
        return self.code[t]


def NUM(v):
    return [0, int(v)]


def STR(c):
    return [1, int(c)]


BAD = [2, 0]
_RE_BA_BO = re.compile(r'^BA_ +"([^"]+)" +BO_ +(\d+) +(.+?) *;$')
_RE_BA_SG = re.compile(r'^BA_ +"([^"]+)" +SG_ +(\d+) +(\S+) +(.+?) *;$')
_RE_CM_BO = re.compile(r'^CM_ +BO_ +(\d+) +"(.*)" *;$', re.S)
_RE_CM_SG = re.compile(r'^CM_ +SG_ +(\d+) +(\S+) +"(.*)" *;$', re.S)
_RE_VAL = re.compile(r'^VAL_ +(\d+) +(\S+) +(.*?) *;$')
_RE_MULVAL = re.compile(r'^SG_MUL_VAL_ +(\d+) +(\S+) +(\S+) +(.*?) *;$')
_RE_VALPAIR = re.compile(r'(-?\d+) +"([^"]*)"')


class Unsupported(Exception):
    pass


def dbc_tokenise(lines, I):
    """well-formed canmatrix DBC output -> model statements (everything that is not BO_/SG_/BA_ BO_|SG_/CM_ BO_|SG_/VAL_/SG_MUL_VAL_
    becomes an unknown line).  Returns list of (group, text)."""
    out = []
    for (_, _, _, raw) in lines:
        t = raw.decode("latin1").rstrip("\r\n")
        s = t.strip()
        g = [9, 0]
        m = _BO.match(s)
        if m:
            g = [1] + NUM(m.group(1)) + STR(I(m.group(2))) + NUM(m.group(3)) + STR(I(m.group(4)))
        elif s.startswith("SG_ "):
            m = _SG.match(s)
            if not m:
                raise Unsupported(s)
            mux = m.group(2)
            if mux is None:
                mf = [0] + BAD
            elif mux == "M":
                mf = [1] + STR(0)
            elif mux.endswith("M"):
                raise Unsupported(s)
            else:
                mf = [1] + NUM(mux[1:])
            g = [2] + STR(I(m.group(1))) + mf + NUM(m.group(3)) + NUM(m.group(4)) + NUM(m.group(5)) + NUM(1 if m.group(6) == "-" else 0) \
                + NUM(I(m.group(7).strip())) + NUM(I(m.group(8).strip()))
        elif s.startswith("CM_ ") and not _DBC_CM_END.search(raw.strip()):
            raise Unsupported("multi-line comment")
        elif _RE_BA_BO.match(s):
            m = _RE_BA_BO.match(s)
            v = m.group(3)
            g = [3, I(m.group(1))] + NUM(m.group(2)) + (STR(I(v)) if v.startswith('"') else NUM(I(v)))
        elif _RE_BA_SG.match(s):
            m = _RE_BA_SG.match(s)
            v = m.group(4)
            g = [4, I(m.group(1))] + NUM(m.group(2)) + STR(I(m.group(3))) + (STR(I(v)) if v.startswith('"') else NUM(I(v)))
        elif _RE_CM_BO.match(s):
            m = _RE_CM_BO.match(s)
            g = [5] + NUM(m.group(1)) + STR(I(m.group(2)))
        elif _RE_CM_SG.match(s):
            m = _RE_CM_SG.match(s)
            g = [6] + NUM(m.group(1)) + STR(I(m.group(2))) + STR(I(m.group(3)))
        elif _RE_VAL.match(s):
            m = _RE_VAL.match(s)
            g = [7, 1] + NUM(m.group(1)) + STR(I(m.group(2)))
            for k, lab in _RE_VALPAIR.findall(m.group(3)):
                g += NUM(k) + STR(I(lab))
        elif _RE_MULVAL.match(s):
            m = _RE_MULVAL.match(s)
            g = [8, 1] + NUM(m.group(1)) + STR(I(m.group(2))) + STR(I(m.group(3)))
            for r in m.group(4).split(","):
                a, b = r.strip().split("-")
                g += NUM(a) + NUM(b)
        else:
            m = re.match(r"^(BO_TX_BU_|SIG_GROUP_|SIG_VALTYPE_) +(\d+) ", s)
            if m:
                g = [10] + NUM(m.group(2))           # these statements leave the looked-up frame in the loop variable `frame`
        out.append((g, t))
    return out


def dbc_tie_inserts(ctx, I, rng):
    """statements to insert, as (group, text): malformed ones of the three kinds, dangling references, and VALID extra statements
    (they exercise the loop variable `frame`, which the model keeps as `cur`)"""
    fid = rng.choice(ctx["frame_ids"])
    sid, sname = rng.choice(ctx["sigs"])
    new = ctx["fresh_id"]
    ecu = "TieEcu"
    E, SN = STR(I(ecu)), STR(I(sname))
    one, zero = NUM(I("1")), NUM(I("0"))
    sg_ok = lambda name: [2] + STR(I(name)) + [0] + BAD + NUM(0) + NUM(8) + NUM(1) + NUM(0) + one + zero
    out = [
        ([9, 0], 'FOO_ 1 2 3;'),
        ([9, 0], 'BA_REL_ "X" BU_SG_REL_ %s SG_ %d %s 100;' % (ecu, sid, sname)),
        ([10] + NUM(fid), 'BO_TX_BU_ %d : %s;' % (fid, ecu)),
        ([10] + NUM(999), 'BO_TX_BU_ 999 : %s;' % ecu),
        ([10] + BAD, 'BO_TX_BU_ abc : %s;' % ecu),
        ([10] + NUM(sid), 'SIG_GROUP_ %d TieGroup 1 : %s;' % (sid, sname)),
        # BO_
        ([1] + NUM(new) + STR(I("TieFrame")) + NUM(8) + E, 'BO_ %d TieFrame: 8 %s' % (new, ecu)),
        ([1] + NUM(fid) + STR(I("TieDup")) + NUM(4) + E, 'BO_ %d TieDup: 4 %s' % (fid, ecu)),
        ([1] + BAD + STR(I("TieFrame")) + NUM(8) + E, 'BO_ abc TieFrame: 8 %s' % ecu),
        ([1] + NUM(new) + STR(I("TieFrame")) + BAD + E, 'BO_ %d TieFrame: x8 %s' % (new, ecu)),
        ([1] + NUM(new) + BAD + BAD + BAD, 'BO_ %d' % new),
        ([1] + NUM(new) + STR(I("TieFrame")) + BAD + BAD, 'BO_ %d TieFrame' % new),
        ([1] + NUM(new) + STR(I("TieFrame")) + NUM(8) + BAD, 'BO_ %d TieFrame: 8' % new),
        ([1] + NUM(5000) + STR(I("TieFrame")) + NUM(8) + E, 'BO_ 5000 TieFrame: 8 %s' % ecu),      # 11-bit identifier out of range
        # SG_
        (sg_ok("TieSig"), ' SG_ TieSig : 0|8@1+ (1,0) [0|255] "" Vector__XXX'),
        ([2] + STR(I("TieSigM")) + [1] + NUM(3) + NUM(9) + NUM(4) + NUM(0) + NUM(1) + one + zero,
         ' SG_ TieSigM m3 : 9|4@0- (1,0) [0|0] "" Vector__XXX'),
        ([2] + STR(I("TieSig")) + [0] + BAD + BAD + NUM(8) + NUM(1) + NUM(0) + one + zero, ' SG_ TieSig : x|8@1+ (1,0) [0|255] "" Vector__XXX'),
        ([2] + STR(I("TieSig")) + [0] + BAD + NUM(0) + BAD + NUM(1) + NUM(0) + one + zero, ' SG_ TieSig : 0|y@1+ (1,0) [0|255] "" Vector__XXX'),
        ([2] + STR(I("TieSig")) + [0] + BAD + NUM(0) + NUM(8) + NUM(1) + NUM(0) + BAD + zero, ' SG_ TieSig : 0|8@1+ (abc,0) [0|255] "" Vector__XXX'),
        ([2] + STR(I("TieSig")) + [0] + BAD + NUM(0) + NUM(8) + NUM(1) + NUM(0) + one + BAD, ' SG_ TieSig : 0|8@1+ (1,e) [0|255] "" Vector__XXX'),
        ([2] + STR(I("TieSig")) + [1] + BAD + NUM(0) + NUM(8) + NUM(1) + NUM(0) + one + zero, ' SG_ TieSig mX : 0|8@1+ (1,0) [0|255] "" Vector__XXX'),
        ([2] + STR(I("TieSig")) + [0] + BAD + NUM(0) + BAD + BAD + BAD + BAD + BAD, ' SG_ TieSig : 0|'),
        ([2] + STR(I("TieSig")) + [0] + BAD + NUM(0) + NUM(8) + NUM(1) + NUM(0) + one + BAD, ' SG_ TieSig : 0|8@1+ (1,'),
        ([2] + STR(I("TieSig")) + [0] + BAD + BAD + BAD + BAD + BAD + BAD + BAD, ' SG_ TieSig'),
        # BA_
        ([3, 1] + NUM(fid) + NUM(I("55")), 'BA_ "GenMsgCycleTime" BO_ %d 55;' % fid),
        # value present but neither number nor quoted string: the reader as it is stores it (known finding); tag 3 = other token
        ([3, 1] + NUM(fid) + [3, I("abc")], 'BA_ "GenMsgCycleTime" BO_ %d abc;' % fid),
        ([3, 1] + NUM(fid) + [3, I('"a')], 'BA_ "GenMsgCycleTime" BO_ %d "a;b' % fid),
        ([3, I("FrHexAttr")] + NUM(fid) + [3, I("xyz")], 'BA_ "FrHexAttr" BO_ %d xyz;' % fid),
        ([3, 1] + NUM(fid) + STR(I('"fast"')), 'BA_ "GenMsgCycleTime" BO_ %d "fast";' % fid),
        ([3, 1] + BAD + NUM(I("55")), 'BA_ "GenMsgCycleTime" BO_ abc 55;'),
        ([3, 1] + NUM(fid) + BAD, 'BA_ "GenMsgCycleTime" BO_ %d 55' % fid),
        ([3, 1] + NUM(fid) + BAD, 'BA_ "GenMsgCycleTime" BO_ %d' % fid),
        ([3, 1] + NUM(999) + NUM(I("55")), 'BA_ "GenMsgCycleTime" BO_ 999 55;'),
        ([3, I("FrHexAttr")] + NUM(fid) + NUM(I("77")), 'BA_ "FrHexAttr" BO_ %d 77;' % fid),
        ([4, I("SigFloatAttr")] + NUM(sid) + SN + NUM(I("2.5")), 'BA_ "SigFloatAttr" SG_ %d %s 2.5;' % (sid, sname)),
        ([4, I("SigFloatAttr")] + NUM(sid) + SN + [3, I("abc")], 'BA_ "SigFloatAttr" SG_ %d %s abc;' % (sid, sname)),
        ([4, I("SigFloatAttr")] + BAD + SN + NUM(I("2.5")), 'BA_ "SigFloatAttr" SG_ abc %s 2.5;' % sname),
        ([4, I("SigFloatAttr")] + NUM(sid) + STR(I("NoSuchSig")) + NUM(I("2.5")), 'BA_ "SigFloatAttr" SG_ %d NoSuchSig 2.5;' % sid),
        ([4, I("SigFloatAttr")] + NUM(sid) + SN + BAD, 'BA_ "SigFloatAttr" SG_ %d %s' % (sid, sname)),
        # CM_
        ([5] + NUM(fid) + STR(I("tie comment")), 'CM_ BO_ %d "tie comment";' % fid),
        ([5] + NUM(999) + STR(I("tie comment")), 'CM_ BO_ 999 "tie comment";'),
        ([5] + BAD + STR(I("tie comment")), 'CM_ BO_ abc "tie comment";'),
        ([5] + NUM(fid) + BAD, 'CM_ BO_ %d' % fid),
        ([6] + NUM(sid) + SN + STR(I("tie comment")), 'CM_ SG_ %d %s "tie comment";' % (sid, sname)),
        ([6] + NUM(999) + SN + STR(I("tie comment")), 'CM_ SG_ 999 %s "tie comment";' % sname),
        ([6] + NUM(sid) + STR(I("NoSuchSig")) + STR(I("tie comment")), 'CM_ SG_ %d NoSuchSig "tie comment";' % sid),
        ([6] + BAD + SN + STR(I("tie comment")), 'CM_ SG_ abc %s "tie comment";' % sname),
        ([6] + NUM(sid) + SN + BAD, 'CM_ SG_ %d %s' % (sid, sname)),
        # VAL_
        ([7, 1] + NUM(sid) + SN + NUM(7) + STR(I("Seven")), 'VAL_ %d %s 7 "Seven";' % (sid, sname)),
        ([7, 1] + NUM(sid) + SN + NUM(7) + STR(I("Seven")) + BAD + STR(I("Off")), 'VAL_ %d %s 7 "Seven" x "Off";' % (sid, sname)),
        ([7, 1] + NUM(sid) + SN + NUM(7) + BAD, 'VAL_ %d %s 7 "Trunc;Label' % (sid, sname)),
        ([7, 0] + NUM(sid) + SN + NUM(7) + STR(I("Seven")), 'VAL_ %d %s 7 "Seven"' % (sid, sname)),
        ([7, 1] + NUM(999) + SN + NUM(7) + STR(I("Seven")), 'VAL_ 999 %s 7 "Seven";' % sname),
        ([7, 1] + NUM(sid) + STR(I("NoSuchSig")) + NUM(7) + STR(I("Seven")), 'VAL_ %d NoSuchSig 7 "Seven";' % sid),
        ([7, 1] + BAD + SN + NUM(7) + STR(I("Seven")), 'VAL_ abc %s 7 "Seven";' % sname),
        # SG_MUL_VAL_
        ([8, 1] + NUM(sid) + SN + STR(I("TieMuxer")) + NUM(2) + NUM(3), 'SG_MUL_VAL_ %d %s TieMuxer 2-3;' % (sid, sname)),
        ([8, 1] + NUM(sid) + SN + STR(I("TieMuxer")) + NUM(2) + NUM(3) + BAD + NUM(5), 'SG_MUL_VAL_ %d %s TieMuxer 2-3, x-5;' % (sid, sname)),
        ([8, 1] + NUM(sid) + SN + STR(I("TieMuxer")) + BAD + BAD, 'SG_MUL_VAL_ %d %s TieMuxer a-b;' % (sid, sname)),
        ([8, 1] + NUM(sid) + STR(I("NoSuchSig")) + STR(I("TieMuxer")) + NUM(2) + NUM(3), 'SG_MUL_VAL_ %d NoSuchSig TieMuxer 2-3;' % sid),
        ([8, 1] + NUM(999) + SN + STR(I("TieMuxer")) + NUM(2) + NUM(3), 'SG_MUL_VAL_ 999 %s TieMuxer 2-3;' % sname),
        ([8, 0] + NUM(sid) + SN + STR(I("TieMuxer")) + NUM(2) + NUM(3), 'SG_MUL_VAL_ %d %s TieMuxer 2-3' % (sid, sname)),
        ([8, 1] + BAD + SN + STR(I("TieMuxer")) + NUM(2) + NUM(3), 'SG_MUL_VAL_ abc %s TieMuxer 2-3;' % sname),
    ]
    return out


def flip(b):
    return b - (b % 8) + 7 - (b % 8)


def parse_model_dbc(out):
    groups = core.parse_out(out)
    res = dict(cur=groups[0][1], frames=[], post=None)
    fr = sg = None
    for g in groups[1:]:
        t = g[0]
        if t == 10:
            fr = dict(id=g[1], ext=bool(g[2]), name=g[3], size=g[4], complex=bool(g[6]), comment=g[7], attrs={}, signals=[])
            res["frames"].append(fr)
        elif t == 11:
            fr["attrs"] = {g[i]: (g[i + 1], g[i + 2]) for i in range(1, len(g), 3)}
        elif t == 20:
            sg = dict(name=g[1], start=g[2], size=g[3], le=bool(g[4]), signed=bool(g[5]), factor=g[6], offset=g[7], mux=g[8], comment=g[9],
                      values={}, attrs={}, ranges=[])
            fr["signals"].append(sg)
        elif t == 21:
            sg["values"] = {g[i]: g[i + 1] for i in range(1, len(g), 2)}
        elif t == 22:
            sg["attrs"] = {g[i]: (g[i + 1], g[i + 2]) for i in range(1, len(g), 3)}
        elif t == 23:
            sg["ranges"] = [[g[i], g[i + 1]] for i in range(1, len(g), 2)]
        elif t == 30:
            res["post"] = g[1:]
    return res


def compare_dbc(model, db, err, I):
    """Differences between the model's final state and what the real reader returned, on what the property names: load succeeds or
    raises; frames by identifier and name; signals with name, placement, byte order, sign, factor, offset.  What well-formed
    statements attach (comments, attributes, value descriptions, multiplexing roles and ranges, cycle time) is the subject of the
    'as if the bad lines were absent' sentence and is tied relative to the clean file (attach_dbc / tie), not in its representation."""
    D = matgen.D
    if err:
        return ["reader raised " + err] if model["post"] != [-2] else []
    if model["post"] == [-2]:
        return ["model: post-processing raises, reader returned a matrix"]
    diffs = []
    txt = lambda c: I.text.get(c, "<%d>" % c)
    if len(model["frames"]) != len(db.frames):
        return ["frame count %d vs %d" % (len(model["frames"]), len(db.frames))]
    for k, (mf, rf) in enumerate(zip(model["frames"], db.frames)):
        where = "frame %d" % k
        got = (rf.arbitration_id.id, bool(rf.arbitration_id.extended), rf.name)
        exp = (mf["id"], mf["ext"], txt(mf["name"]))
        if got != exp:
            diffs.append("%s: %r vs %r" % (where, exp, got))
        if len(mf["signals"]) != len(rf.signals):
            diffs.append("%s signal count %d vs %d" % (where, len(mf["signals"]), len(rf.signals)))
            continue
        for ms, rs in zip(mf["signals"], rf.signals):
            raw_start = int(rs.start_bit) if rs.is_little_endian else flip(int(rs.start_bit))
            got = (rs.name, raw_start, int(rs.size), bool(rs.is_little_endian), bool(rs.is_signed), matgen._dec_str(rs.factor),
                   matgen._dec_str(rs.offset))
            exp = (txt(ms["name"]), ms["start"], ms["size"], ms["le"], ms["signed"], matgen._dec_str(D(txt(ms["factor"]))),
                   matgen._dec_str(D(txt(ms["offset"]))))
            if got != exp:
                diffs.append("%s signal %s: %r vs %r" % (where, rs.name, exp, got))
    return diffs


def attach_dbc(model):
    """everything of the model's final state that is not skeleton, as a comparable value (model side of the relative tie)"""
    return [(f["size"], f["complex"], f["comment"], sorted(f["attrs"].items()),
             [(x["mux"], x["comment"], sorted(x["values"].items()), sorted(x["attrs"].items()), x["ranges"]) for x in f["signals"]])
            for f in model["frames"]], model["post"]


# ---- SYM ----
def sym_tokenise(lines, I):
    out = []
    mode = "glob"
    for (_, _, _, raw) in lines:
        t = raw.decode("latin1").rstrip("\r\n")
        s = t.strip()
        g = [9, 0]
        if s.startswith("{ENUMS}"):
            mode = "enums"
        elif s.startswith("{SENDRECEIVE}") or s.startswith("{SEND}") or s.startswith("{RECEIVE}"):
            mode = "frames"
        elif mode == "enums" and s.startswith("enum") and not s.split("//")[0].strip().endswith(")"):
            raise Unsupported("multi-line enum")
        elif mode == "frames":
            g = sym_token(s, I)
        out.append((g, t, mode))
    return out


def sym_token(s, I):
    """one well-formed statement of a frame section -> model line"""
    body = s.split("//")[0].strip()
    if body.startswith("["):
        return [1, I(body.replace("[", "").replace("]", "").replace('"', "").strip()), 1]
    if body.startswith("ID="):
        return [2] + NUM(int(body[3:-1], 16)) + [1]
    if body.startswith("Type="):
        return [3] + (NUM(1) if body[5:] == "Extended" else NUM(0))
    if body.startswith("DLC="):
        return [4] + NUM(body[4:])
    if body.startswith("CycleTime="):
        return [5] + NUM(body[10:])
    if body.startswith("Var=") or body.startswith("Mux="):
        rest = body[4:]
        if rest.startswith('"'):
            name, rest = rest[1:].split('"', 1)
        else:
            name, rest = rest.split(" ", 1)
        toks = rest.split()
        mot = 1 if "-m" in toks else 0
        if body.startswith("Var="):
            a, b = toks[1].split(",")
            return [6] + STR(I(name)) + NUM(1 if toks[0] == "signed" else 0) + NUM(a) + NUM(b) + [mot, 1]
        a, b = toks[0].split(",")
        v = toks[1]
        v = int(v[:-1], 16) if v.endswith("h") else int(v)
        return [7] + STR(I(name)) + NUM(a) + NUM(b) + NUM(v) + [mot, 1]
    return [9, 0]


def sym_tie_inserts(I, rng):
    n = lambda t: STR(I(t))
    return [
        ([9, 0], "Len=8"), ([9, 0], "FooBar=1"), ([9, 0], "IDENT=1Ah"), ([9, 0], "DLCx=3"), ([9, 0], "Variant=2"),
        ([1, I("TieFrame"), 1], "[TieFrame]"), ([1, I("TieFrame"), 0], "[TieFrame"),
        ([2] + NUM(0x2A5) + [1], "ID=2A5h"), ([2] + NUM(0x2A5) + [0], "ID=2A5"), ([2] + BAD + [1], "ID=xyzh"), ([2] + BAD + [1], "ID="),
        ([3] + NUM(1), "Type=Extended"), ([3] + BAD, "Type=Ext"),
        ([4] + NUM(5), "DLC=5"), ([4] + BAD, "DLC=x"), ([4] + BAD, "DLC="),
        ([5] + NUM(70), "CycleTime=70"), ([5] + BAD, "CycleTime=fast"),
        ([6] + n("TieSig") + NUM(0) + NUM(3) + NUM(5) + [0, 1], "Var=TieSig unsigned 3,5"),
        ([6] + n("TieSigS") + NUM(1) + NUM(9) + NUM(4) + [1, 1], "Var=TieSigS signed 9,4 -m /f:2 /o:1"),
        ([6] + n("TieSig") + BAD + BAD + BAD + [0, 1], "Var=TieSig"),
        ([6] + n("TieSig") + NUM(0) + BAD + BAD + [0, 1], "Var=TieSig unsigned"),
        ([6] + n("TieSig") + NUM(0) + BAD + BAD + [0, 1], "Var=TieSig unsigned 8"),
        ([6] + n("TieSig") + NUM(0) + BAD + NUM(8) + [0, 1], "Var=TieSig unsigned a,8"),
        ([6] + n("TieSig") + NUM(0) + NUM(0) + BAD + [0, 1], "Var=TieSig unsigned 0,x"),
        ([6] + n("TieSig") + BAD + NUM(0) + NUM(8) + [0, 1], "Var=TieSig foo 0,8"),
        ([6] + n("TieSig") + NUM(0) + NUM(0) + NUM(8) + [0, 0], "Var=TieSig unsigned 0,8 /f:abc"),
        ([6] + n("TieSig") + NUM(0) + NUM(0) + NUM(8) + [1, 0], "Var=TieSig unsigned 0,8 -m /max:abc"),
        ([6] + n("TieSig") + NUM(0) + NUM(0) + NUM(8) + [0, 0], "Var=TieSig unsigned 0,8 /p:abc"),
        ([7] + n("TieMux") + NUM(0) + NUM(4) + NUM(9) + [0, 1], "Mux=TieMux 0,4 9"),
        ([7] + n("TieMuxH") + NUM(0) + NUM(4) + NUM(0x1B) + [0, 1], "Mux=TieMuxH 0,4 1Bh"),
        ([7] + n("TieMux") + NUM(0) + NUM(4) + STR(0) + [0, 1], "Mux=TieMux 0,4 zz"),
        ([7] + n("TieMux") + NUM(0) + NUM(4) + BAD + [0, 1], "Mux=TieMux 0,4"),
        ([7] + n("TieMux") + BAD + BAD + BAD + [0, 1], "Mux=TieMux"),
        ([7] + n("TieMux") + BAD + NUM(4) + NUM(9) + [0, 1], "Mux=TieMux a,4 9"),
        ([7] + n("TieMux") + NUM(0) + NUM(4) + NUM(9) + [1, 0], "Mux=TieMux 0,4 9 -m /f:abc"),
        ([7] + n("TieMux") + NUM(0) + NUM(4) + NUM(9) + [1, 0], "Mux=TieMux 0,4 9 -m /min:abc"),
    ]


def parse_model_sym(out):
    groups = core.parse_out(out)
    frames = []
    for g in groups[1:]:
        if g[0] == 10:
            frames.append(dict(name=g[1], id=g[2], ext=bool(g[3]), size=g[4], cycle=g[5],
                               mux={g[i]: g[i + 1] for i in range(6, len(g), 2)}, signals=[]))
        else:
            frames[-1]["signals"].append(g[1:])
    return groups[0], frames


def attach_sym(out):
    head, frames = parse_model_sym(out)
    return [(f["size"], f["cycle"], sorted(f["mux"].items()), [x[5] for x in f["signals"]]) for f in frames]


def compare_sym(out, db, err, I, fixed_errs=True):
    """as compare_dbc: success/exception, frames by name and identifier, signals with name, placement, byte order, sign; the number of
    load errors where the property fixes it.  DLC, cycle time, mux names and roles are tied relative to the clean file."""
    head, frames = parse_model_sym(out)
    if err:
        return [] if head[0] == 0 else ["reader raised " + err]
    if head[0] == 0:
        return ["model: the end-of-file step raises, reader returned a matrix"]
    diffs = []
    txt = lambda c: I.text.get(c, "<%d>" % c)
    if fixed_errs and head[1] != len(db.load_errors):
        diffs.append("load_errors %d vs %d" % (head[1], len(db.load_errors)))
    if len(frames) != len(db.frames):
        return diffs + ["frame count %d vs %d" % (len(frames), len(db.frames))]
    for mf, rf in zip(frames, db.frames):
        exp = (txt(mf["name"]), mf["id"], mf["ext"])
        got = (rf.name, rf.arbitration_id.id, bool(rf.arbitration_id.extended))
        if exp != got:
            diffs.append("frame %r vs %r" % (exp, got))
        if len(mf["signals"]) != len(rf.signals):
            diffs.append("frame %s signal count %d vs %d" % (rf.name, len(mf["signals"]), len(rf.signals)))
            continue
        for ms, rs in zip(mf["signals"], rf.signals):
            is_mux = ms[5] == -2
            name = (rf.name + "_MUX") if ms[0] <= -1000 else txt(ms[0])
            # byte order (and hence the start bit notation) of the <frame>_MUX signal is C06's subject: not compared
            exp = (name, ms[1] if not is_mux else None, ms[2], bool(ms[3]) if not is_mux else None, bool(ms[4]))
            got = (rs.name, int(rs.get_startbit()) if not is_mux else None, int(rs.size), bool(rs.is_little_endian) if not is_mux else None,
                   bool(rs.is_signed))
            if exp != got:
                diffs.append("frame %s signal %r vs %r" % (rf.name, exp, got))
    return diffs


def tie(chk, ok, rng, thorough):
    cm = core.import_impl()
    C = cm.canmatrix
    F = impl()
    if not ok:
        chk.ties["correspondence"] = "not run (build failed)"
        return
    cases = []          # (cmd, groups, fmt, text, info)
    n_files = 120 if thorough else 12
    per_file = 160 if thorough else 70
    for k in range(n_files):
        # ---- DBC ----
        db = matgen.gen_matrix(rng, C, **TIE_DBC_FEATURES)
        b = io.BytesIO()
        F.dump(db, b, "dbc")
        lines = split_lines(b.getvalue())
        I = Interner()
        try:
            toks = dbc_tokenise(lines, I)
        except Unsupported as e:
            chk.count("tie-dbc-file-outside-language")
            continue
        defs = dbc_defs(lines)
        ids = [d[0] for d in defs]
        ctx = dict(frame_ids=ids, sigs=[(d[0], s[1]) for d in defs for s in d[2]] or [(ids[0], "NoSig")], fresh_id=0x7F0 + k % 8)
        # Only what the property quantifies over is tied: malformed lines (rejected by the strict line grammar) at admissible
        # positions.  Valid extra statements, dangling references, positions inside a signal list and BA_ lines with a bare-word value
        # (recorded finding; judged by the search) are behaviour the property leaves open: neither generated nor compared.
        ins = [(g, t) for g, t in dbc_tie_inserts(ctx, I, rng)
               if not dbc_strictly_valid(t) and not (g[0] in (3, 4) and g[-2] == 3)]
        cases.append((2001, [g for g, _ in toks], "dbc", "\n".join(t for _, t in toks) + "\n", dict(file="tie-dbc-%d" % k, inserted=[]), I))
        for j in range(per_file):
            m = 1 if j < len(ins) else rng.choice([1, 2, 3])
            chosen = [ins[j]] if j < len(ins) else [ins[rng.randrange(len(ins))] for _ in range(m)]
            seq = list(toks)
            rec = []
            for g, t in chosen:
                adm = [q for q in range(len(seq) + 1) if q == len(seq) or seq[q][0][0] != 2]     # never directly before an SG_ line
                p = rng.choice(adm)
                seq.insert(p, (g, t))
                rec.append(t)
            cases.append((2001, [g for g, _ in seq], "dbc", "\n".join(t for _, t in seq) + "\n", dict(file="tie-dbc-%d" % k, inserted=rec), I))
        # ---- SYM ----
        db = matgen.gen_matrix(rng, C, **TIE_SYM_FEATURES)
        b = io.BytesIO()
        F.dump(db, b, "sym")
        lines = split_lines(b.getvalue())
        I = Interner()
        try:
            toks = sym_tokenise(lines, I)
        except Unsupported:
            chk.count("tie-sym-file-outside-language")
            continue
        # malformed lines only; `ID=<digits>` without the suffix h is left open by the property's reading (not malformed for sure)
        ins = [(g, t) for g, t in sym_tie_inserts(I, rng) if not sym_strictly_valid(t) and not re.match(r"^ID=[0-9A-Fa-f]+$", t)]
        first = min(i for i, (_, _, mode) in enumerate(toks) if mode == "frames")
        base = [(g, t) for g, t, _ in toks]
        cases.append((2003, [g for g, _ in base], "sym", "\n".join(t for _, t in base) + "\n", dict(file="tie-sym-%d" % k, inserted=[]), I))
        for j in range(per_file):
            chosen = [ins[j]] if j < len(ins) else [ins[rng.randrange(len(ins))] for _ in range(rng.choice([1, 2, 3]))]
            seq = list(base)
            rec = []
            for g, t in chosen:
                p = rng.randrange(first + 1, len(seq) + 1)      # inside the frame sections
                seq.insert(p, (g, t))
                rec.append(t)
            cases.append((2003, [g for g, _ in seq], "sym", "\n".join(t for _, t in seq) + "\n", dict(file="tie-sym-%d" % k, inserted=rec), I))
    lines_out = [core.fmt_case(cmd, groups if groups else [[9, 0]]) for cmd, groups, _, _, _, _ in cases]
    outs = core.run_model(lines_out)
    bad = 0
    clean = {}          # (format, file) -> (model attachments, real normal form) of the file without insertions
    for (cmd, groups, fmt, text, info, I), o in zip(cases, outs):
        db, err = load(text.encode("latin1"), fmt)
        chk.count("tie-%s-cases" % fmt)
        m_att = attach_dbc(parse_model_dbc(o)) if fmt == "dbc" else attach_sym(o)
        r_nf = nf_of(db) if db is not None else None
        if not info["inserted"]:
            clean[(fmt, info["file"])] = (m_att, r_nf)
        if fmt == "dbc":
            diffs = compare_dbc(parse_model_dbc(o), db, err, I)
        else:
            # the number of load errors is fixed by the property only for statements that fail to parse (not for unknown keywords
            # and ignored Type values, which a reader may or may not record)
            fixed_errs = all(t.startswith(("[", "ID=", "DLC=", "CycleTime=", "Var=", "Mux=")) for t in info["inserted"])
            diffs = compare_sym(o, db, err, I, fixed_errs)
        if info["inserted"] and r_nf is not None and (fmt, info["file"]) in clean and clean[(fmt, info["file"])][1] is not None:
            # 'as if the bad lines were absent', relative: model and reader must agree on WHETHER the faulted file reads like the clean one
            m_same = m_att == clean[(fmt, info["file"])][0]
            r_same = not matgen.diff(clean[(fmt, info["file"])][1], r_nf)
            if m_same != r_same:
                diffs.append("model: reads %s the clean file, reader: reads %s the clean file"
                             % ("like" if m_same else "unlike", "like" if r_same else "unlike"))
        chk.case(("tie", fmt, text), bool(info["inserted"]))
        if diffs:
            bad += 1
            chk.tie_break("linefold-" + fmt, dict(info, text_b64=b64(text.encode("latin1"))), o[:300], diffs[:4])
    chk.ties["correspondence"] = {"suite": "linefold (cmd 2001 dbc_step, 2003 sym_step) vs canmatrix.formats.loads on generated files with "
                                           "inserted valid, malformed and dangling statements at arbitrary statement boundaries",
                                  "cases": len(cases), "disagreements": bad}
    # in-Coq shard: the extracted driver's answers are re-computed by vm_compute
    idx = rng.sample(range(len(cases)), min(40, len(cases)))
    shard = [(cases[i][0], cases[i][1] if cases[i][1] else [[9, 0]], core.parse_out(outs[i])) for i in idx]
    mm, log = core.coq_shard(shard, "c20")
    chk.ties["vm_compute_shard"] = {"cases": len(shard), "mismatches": mm}
    if mm is None:
        chk.obligation_failures.append("in-Coq shard failed to evaluate")
        chk.build_log = log[-3000:]
    else:
        for i in mm:
            chk.tie_break("linefold-shard", shard[i][1][:5], "vm_compute differs from the extracted driver", shard[i][2][:5])
