"""C20: DBC and SYM readers tolerate bad lines and truncation without losing good content.

SEARCH (decides the property on the real readers): well-formed inputs = canmatrix's own DBC/SYM output for generated matrices plus
the sample files under tests/files; faults = single malformed lines of three kinds at every admissible position, multisets of up to 4,
every byte cut.  Oracles are written against the file text (independent line classifier below), never against the readers' own code.
TIE: generated DBC files are tokenised into the statement language of model/LineFold.v (cmd 2001..), the model fold is run on clean
and faulted line lists and its frame/signal skeleton is compared with what canmatrix.formats.loads returned.
"""
import base64
import io
import multiprocessing
import os
import re
import sys

import core
import matgen

LEVEL_NOTE = (
    "partial by design: the theorems (props/C20.v) are about the line fold of model/LineFold.v - generic fault isolation of "
    "`fold_left step'` with Fail carrying the partially mutated state, instantiated with a small DBC-like and a small SYM-like "
    "statement language that mirror the per-line try/except structure of dbc.py/sym.py load (BO_/SG_/BA_/CM_/VAL_/SG_MUL_VAL_/"
    "unknown; [frame]/ID/Type/DLC/Var/Mux/unknown).  The relation between bytes on disk and those statements (regexes, str.split, "
    "shlex-like splitting, Decimal/attrs converters, the other statement kinds, all of post-processing except the cycle-time "
    "conversion) is NOT proved; it is decided on the real code by the generative search of this harness (every admissible insertion "
    "position, every byte cut) and tied to the model by a differential run on frame/signal skeletons.")

# ------------------------------------------------------------------------------------------------------------------
# running the real readers
# ------------------------------------------------------------------------------------------------------------------
_F = None


class _Null(object):
    def write(self, s):
        return len(s)

    def flush(self):
        pass


_NULL = _Null()


def impl():
    global _F
    if _F is None:
        core.import_impl()
        import canmatrix.formats
        _F = canmatrix.formats
    return _F


def load(data, fmt):
    """returns (db, None) or (None, 'ExcType: text')"""
    F = impl()
    old = sys.stdout
    sys.stdout = _NULL
    try:
        return F.loads(data, fmt)[""], None
    except Exception as e:     # the property: nothing may escape
        import traceback
        tb = traceback.extract_tb(e.__traceback__)
        where = ""
        for fr in reversed(tb):
            if "canmatrix" in fr.filename:
                where = " at %s:%d" % (os.path.basename(fr.filename), fr.lineno)
                break
        return None, "%s: %s%s" % (type(e).__name__, str(e)[:120], where)
    finally:
        sys.stdout = old


def nf_of(db):
    n = matgen.normal_form(db)
    return n


def skel_sig(s):
    return (int(s.start_bit), int(s.size), bool(s.is_little_endian), bool(s.is_signed), matgen._dec_str(s.factor),
            matgen._dec_str(s.offset))


# ------------------------------------------------------------------------------------------------------------------
# line structure of a file (independent of the readers)
# ------------------------------------------------------------------------------------------------------------------
def split_lines(data):
    """list of (start, content_end, total_end, raw_line_bytes_incl_terminator); content_end excludes trailing \\r\\n and blanks"""
    out = []
    pos = 0
    n = len(data)
    while pos < n:
        j = data.find(b"\n", pos)
        end = n if j < 0 else j + 1
        raw = data[pos:end]
        ce = pos + len(raw.rstrip())
        out.append((pos, ce, end, raw))
        pos = end
    return out


_DBC_CM_END = re.compile(br'"\s*;\s*$')


def dbc_positions(lines):
    """indices p in 0..len(lines): a line may be inserted before line p (p = len: at the end).  Excluded: inside a multi-line
    CM_ statement, and directly before an SG_ line (i.e. between a BO_ line and its SG_ lines, or inside the signal list)."""
    ok = []
    in_cm = False
    for idx, (_, _, _, raw) in enumerate(lines):
        s = raw.strip()
        if not in_cm and not s.startswith(b"SG_ "):
            ok.append(idx)
        if in_cm:
            if _DBC_CM_END.search(s):
                in_cm = False
        elif s.startswith(b"CM_ ") and not _DBC_CM_END.search(s):
            in_cm = True
    if not in_cm:
        ok.append(len(lines))
    return ok


def sym_positions(lines):
    """insertion before line p is admissible unless p is a continuation line of a multi-line enum(...)"""
    ok = []
    in_enum = False
    section = "glob"
    secs = []          # section in force for a line inserted before p
    for idx, (_, _, _, raw) in enumerate(lines):
        s = raw.decode("latin1").strip()
        if not in_enum:
            ok.append(idx)
            secs.append(section)
        if s.startswith("{ENUMS}"):
            section = "enums"
        elif s.startswith("{SENDRECEIVE}") or s.startswith("{SEND}") or s.startswith("{RECEIVE}"):
            section = "frames"
        if section == "enums":
            t = s.split("//")[0].strip()
            if in_enum:
                if t.endswith(")"):
                    in_enum = False
            elif s.startswith("enum") and not t.endswith(")"):
                in_enum = True
    if not in_enum:
        ok.append(len(lines))
        secs.append(section)
    return ok, secs


def insert_lines(lines, inserts, eol=b"\n"):
    """inserts: list of (position, line_bytes) ; several lines at one position keep their list order"""
    by = {}
    for p, l in inserts:
        by.setdefault(p, []).append(l)
    out = []
    for idx in range(len(lines) + 1):
        for l in by.get(idx, ()):
            # the last line of a file may lack its terminator: complete it before appending
            if out and not out[-1].endswith(b"\n"):
                out[-1] = out[-1] + eol
            out.append(l + eol)
        if idx < len(lines):
            out.append(lines[idx][3])
    return b"".join(out)


# ------------------------------------------------------------------------------------------------------------------
# what a DBC / SYM file says, read off the text by an independent mini tokenizer (only the defining lines)
# ------------------------------------------------------------------------------------------------------------------
_BO = re.compile(r"^BO_ (\d+) (\S+?) *: *(\d+) (\S+)\s*$")
_SG = re.compile(r'^SG_ +(\S+) *(M|m\d+M?)? *: *(\d+)\|(\d+)@([01])([+-]) *\(([^,]+),([^)]+)\) *\[([^|]+)\|([^\]]+)\] +"(.*?)" *(.*)$')


def dbc_defs(lines):
    """[(frame_compound_id, bo_line_index, [(sg_line_index, short_name)])] in file order"""
    frames = []
    for idx, (_, _, _, raw) in enumerate(lines):
        s = raw.decode("latin1").strip()
        m = _BO.match(s)
        if m:
            frames.append((int(m.group(1)), idx, []))
            continue
        m = _SG.match(s)
        if m and frames:
            frames[-1][2].append((idx, m.group(1)))
        elif s and not s.startswith("SG_ ") and False:
            pass
    return frames


def sym_defs(lines):
    """sections in file order: dict(name, header, id_line, type_line, dlc_line, vars=[(line, name)], mux=(line) or None)"""
    secs = []
    mode = "glob"
    for idx, (_, _, _, raw) in enumerate(lines):
        s = raw.decode("latin1").strip()
        if s.startswith("{ENUMS}"):
            mode = "enums"
            continue
        if s.startswith("{SENDRECEIVE}") or s.startswith("{SEND}") or s.startswith("{RECEIVE}"):
            mode = "frames"
            continue
        if mode != "frames":
            continue
        if s.startswith("["):
            secs.append(dict(name=s.replace("[", "").replace("]", "").replace('"', "").strip(), header=idx, id=None, type=None,
                             dlc=None, vars=[], mux=None))
        elif secs:
            cur = secs[-1]
            if s.startswith("ID="):
                cur["id"] = idx
            elif s.startswith("Type="):
                cur["type"] = idx
            elif s.startswith("DLC="):
                cur["dlc"] = idx
            elif s.startswith("Mux="):
                cur["mux"] = idx
            elif s.startswith("Var="):
                body = s[4:]
                if body.startswith('"'):
                    name = body[1:].split('"', 1)[0]
                else:
                    name = body.split(" ", 1)[0]
                cur["vars"].append((idx, name))
    return secs


# ------------------------------------------------------------------------------------------------------------------
# malformed lines.  Each is malformed FOR SURE: it is rejected by the strict statement grammar below (Vector DBC file format
# document, resp. PEAK SYM 5 description), which is written here independently of the readers; `assert_malformed_*` re-checks
# every generated line against that grammar, so a truncation that happens to be a valid shorter statement can never be used.
# ------------------------------------------------------------------------------------------------------------------
_NUM = r"[+-]?(?:\d+\.?\d*|\.\d+)(?:[eE][+-]?\d+)?"
_STR = r'"(?:[^"\\]|\\.)*"'
_ID = r"[A-Za-z_][A-Za-z0-9_]*"
DBC_KEYWORDS = ["VERSION", "NS_", "BS_", "BU_", "VAL_TABLE_", "BO_", "SG_", "BO_TX_BU_", "EV_", "ENVVAR_DATA_", "SGTYPE_", "CM_",
                "BA_DEF_", "BA_DEF_DEF_", "BA_", "VAL_", "SIG_GROUP_", "SIG_VALTYPE_", "SG_MUL_VAL_", "BA_DEF_REL_", "BA_REL_",
                "BA_DEF_DEF_REL_", "BU_SG_REL_", "BU_EV_REL_", "BU_BO_REL_", "SIG_TYPE_REF_", "CAT_DEF_", "CAT_", "FILTER",
                "EV_DATA_", "SGTYPE_VAL_", "BA_DEF_SGTYPE_", "BA_SGTYPE_", "NS_DESC_", "SIGTYPE_VALTYPE_"]
DBC_STRICT = [re.compile(p) for p in [
    r"^VERSION +%s$" % _STR, r"^NS_ *:.*$", r"^BS_ *:.*$", r"^BU_ *:( +%s)* *$" % _ID,
    r"^VAL_TABLE_ +%s( +%s +%s)* *;$" % (_ID, _NUM, _STR),
    r"^BO_ +\d+ +%s *: *\d+ +%s$" % (_ID, _ID),
    r'^SG_ +%s( +(M|m\d+M?))? *: *\d+\|\d+@[01][+-] *\(%s,%s\) *\[%s\|%s\] +%s +%s( *, *%s)*$' % (_ID, _NUM, _NUM, _NUM, _NUM, _STR, _ID, _ID),
    r"^BO_TX_BU_ +\d+ *: *%s( *, *%s)* *;$" % (_ID, _ID),
    r"^EV_ +%s *: *[012] +\[%s\|%s\] +%s +%s +\d+ +%s +%s( *, *%s)* *;$" % (_ID, _NUM, _NUM, _STR, _NUM, _ID, _ID, _ID),
    r"^CM_ +((BU_|EV_) +%s +|BO_ +\d+ +|SG_ +\d+ +%s +)?\"" % (_ID, _ID),      # opener of a (possibly multi-line) comment
    r"^BA_DEF_ +((BU_|BO_|SG_|EV_) +)?%s +(INT +%s +%s|HEX +%s +%s|FLOAT +%s +%s|STRING|ENUM +%s( *, *%s)*) *;$" % (_STR, _NUM, _NUM, _NUM, _NUM, _NUM, _NUM, _STR, _STR),
    r"^BA_DEF_DEF_ +%s +(%s|%s) *;$" % (_STR, _NUM, _STR),
    r"^BA_ +%s +((BU_|EV_) +%s +|BO_ +\d+ +|SG_ +\d+ +%s +)?(%s|%s) *;$" % (_STR, _ID, _ID, _NUM, _STR),
    r"^VAL_ +(\d+ +)?%s( +%s +%s)* *;$" % (_ID, _NUM, _STR),
    r"^SIG_GROUP_ +\d+ +%s +\d+ *:( +%s)* *;$" % (_ID, _ID),
    r"^SIG_VALTYPE_ +\d+ +%s *: *[0123] *;$" % _ID,
    r"^SG_MUL_VAL_ +\d+ +%s +%s +\d+-\d+( *, *\d+-\d+)* *;$" % (_ID, _ID),
]]


def dbc_strictly_valid(line):
    s = line.strip()
    if not s:
        return True
    return any(p.match(s) for p in DBC_STRICT)


def dbc_first_token(line):
    return re.split(r"[ :]", line.strip(), 1)[0]


def dbc_bad_lines(ctx, rng):
    """ctx: dict(frame_ids=[compound ids in the file], sigs=[(id, short signal name)], ecus=[names], fresh_id).
    Returns list of (kind, line) with kind in unknown|truncated|wrongtype.  Lines that refer to objects use objects of the file
    (so that a reader which half-applies them is noticed) and fresh names otherwise."""
    fid = ctx["frame_ids"][rng.randrange(len(ctx["frame_ids"]))] if ctx["frame_ids"] else 291
    sid, sname = ctx["sigs"][rng.randrange(len(ctx["sigs"]))] if ctx["sigs"] else (fid, "NoSig")
    ecu = ctx["ecus"][rng.randrange(len(ctx["ecus"]))] if ctx["ecus"] else "NoEcu"
    new = ctx["fresh_id"]
    unknown = [
        'FOO_ 1 2 3;',
        'XX_UNKNOWN "text";',
        'Unknown statement without any structure',
        'bo_ %d lowercase_kw: 8 %s' % (new, ecu),
        'BO_%d NoSpaceAfterKw: 8 %s' % (new, ecu),
        'SG_X Sx : 0|8@1+ (1,0) [0|0] "" %s' % ecu,
        'BA_REL_ "GenSigTimeoutTime" BU_SG_REL_ %s SG_ %d %s 100;' % (ecu, sid, sname),
        'BA_DEF_REL_ BU_SG_REL_ "GenSigTimeoutTime" INT 0 65535;',
        'SGTYPE_ SomeType : 8@1+ (1,0) [0|0] "" 0 ,VtState ;',
        'SIG_TYPE_REF_ %d %s : SomeType;' % (sid, sname),
        'ENVVAR_DATA_ SomeVar: 4;',
        'CAT_DEF_ 1 Cat 2;',
        'FILTER 1 CAT_ 2 BU_ %s;' % ecu,
        '#pragma once',
        '%d %s' % (fid, sname),
    ]
    truncated = [
        'BO_ %d' % new,
        'BO_ %d TruncFrame' % new,
        'BO_ %d TruncFrame:' % new,
        'BO_ %d TruncFrame: 8' % new,
        'BO_ %d' % fid,                              # prefix of an existing frame's line
        ' SG_ TruncSig',
        ' SG_ TruncSig :',
        ' SG_ TruncSig : 8|',
        ' SG_ TruncSig : 8|8@1',
        ' SG_ TruncSig : 8|8@1+ (1,',
        ' SG_ TruncSig : 8|8@1+ (1,0) [0|',
        ' SG_ TruncSig : 8|8@1+ (1,0) [0|255] "un',
        ' SG_ %s : 8|8@1+ (1,0) [0|' % sname,
        ' SG_ TruncSig m1 : 8|8@1+ (1,0)',
        'BO_TX_BU_ %d : %s' % (fid, ecu),
        'BO_TX_BU_ %d' % fid,
        'CM_ SG_ %d' % sid,
        'CM_ SG_ %d %s' % (sid, sname),
        'CM_ BO_ %d' % fid,
        'CM_ BU_ %s' % ecu,
        'BA_ "GenMsgCyc',
        'BA_ "GenMsgCycleTime"',
        'BA_ "GenMsgCycleTime" BO_',
        'BA_ "GenMsgCycleTime" BO_ %d' % fid,
        'BA_ "GenMsgCycleTime" BO_ %d 55' % fid,
        'BA_ "GenSigStartValue" SG_ %d' % sid,
        'BA_ "GenSigStartValue" SG_ %d %s' % (sid, sname),
        'BA_ "GenSigStartValue" SG_ %d %s 3' % (sid, sname),
        'BA_ "EcuIntAttr" BU_ %s' % ecu,
        'BA_ "EcuIntAttr" BU_ %s 9' % ecu,
        'BA_ "NetIntAttr" 12',
        'BA_DEF_ BO_ "TruncDef" INT 0',
        'BA_DEF_ BO_ "TruncDef"',
        'BA_DEF_ SG_ "TruncDef" ENUM "a","b"',
        'BA_DEF_  "TruncDef" INT 0 1',
        'BA_DEF_DEF_ "FrHexAttr"',
        'BA_DEF_DEF_ "FrHexAttr" 33',
        'VAL_ %d' % sid,
        'VAL_ %d %s' % (sid, sname),
        'VAL_ %d %s 0 "TruncLabel" 1' % (sid, sname),
        'VAL_ %d %s 0 "TruncLabel" 1 "Tr' % (sid, sname),
        'VAL_ %d %s 7 "TruncLabel"' % (sid, sname),
        'VAL_TABLE_ TruncTable 0 "a" 1 "b"',
        'VAL_TABLE_ VtState 0 "Trunc"',
        'SIG_GROUP_ %d TruncGroup 1' % fid,
        'SIG_GROUP_ %d TruncGroup 1 : %s' % (sid, sname),
        'SIG_VALTYPE_ %d %s' % (sid, sname),
        'SIG_VALTYPE_ %d %s : 1' % (sid, sname),
        'SG_MUL_VAL_ %d %s' % (sid, sname),
        'SG_MUL_VAL_ %d %s %s' % (sid, sname, sname),
        'SG_MUL_VAL_ %d %s %s 1-1' % (sid, sname, sname),
        'EV_ TruncEnv: 0 [0|',
        'EV_ TruncEnv: 0 [0|100] "" 0 3 DUMMY_NODE_VECTOR0',
    ]
    wrongtype = [
        'BO_ abc WrongFrame: 8 %s' % ecu,
        'BO_ 0x%x WrongFrame: 8 %s' % (new, ecu),
        'BO_ %d.5 WrongFrame: 8 %s' % (new, ecu),
        'BO_ %d WrongFrame: eight %s' % (new, ecu),
        'BO_ %d WrongFrame: 8.0 %s' % (new, ecu),
        ' SG_ WrongSig : x|8@1+ (1,0) [0|255] "" %s' % ecu,
        ' SG_ WrongSig : 8|y@1+ (1,0) [0|255] "" %s' % ecu,
        ' SG_ WrongSig : 8|8@z+ (1,0) [0|255] "" %s' % ecu,
        ' SG_ WrongSig : 8|8@1+ (abc,0) [0|255] "" %s' % ecu,
        ' SG_ WrongSig : 8|8@1+ (e,0) [0|255] "" %s' % ecu,
        ' SG_ WrongSig : 8|8@1+ (1,E) [0|255] "" %s' % ecu,
        ' SG_ WrongSig : 8|8@1+ (1,0) [e|255] "" %s' % ecu,
        ' SG_ WrongSig : 8|8@1+ (1,0) [0|E-] "" %s' % ecu,
        ' SG_ WrongSig : 8|8@1+ (1,0) [lo|hi] "" %s' % ecu,
        ' SG_ WrongSig mX : 8|8@1+ (1,0) [0|255] "" %s' % ecu,
        ' SG_ WrongSig m1x : 8|8@1+ (1,0) [0|255] "" %s' % ecu,
        ' SG_ %s : x|8@1+ (1,0) [0|255] "" %s' % (sname, ecu),
        'BO_TX_BU_ abc : %s;' % ecu,
        'CM_ BO_ abc "comment for a frame id that is not a number";',
        'CM_ SG_ abc %s "comment for a frame id that is not a number";' % sname,
        'BA_ "GenMsgCycleTime" BO_ abc 5;',
        'BA_ "GenSigStartValue" SG_ abc %s 5;' % sname,
        'BA_ "GenMsgCycleTime" BO_ %d abc;' % fid,
        'BA_ "GenSigStartValue" SG_ %d %s abc;' % (sid, sname),
        'BA_ "GenSigCycleTime" SG_ %d %s abc;' % (sid, sname),
        'BA_ "VFrameFormat" BO_ %d abc;' % fid,
        'BA_ "NetIntAttr" abc;',
        'VAL_ abc %s 0 "WrongLabel";' % sname,
        'VAL_ %d %s x "WrongLabel";' % (sid, sname),
        'VAL_ %d %s 7 "WrongLabel" x "WrongLabel2";' % (sid, sname),
        'VAL_TABLE_ WrongTable x "a" 1 "b";',
        'VAL_TABLE_ VtState x "a";',
        'SIG_GROUP_ abc WrongGroup 1 : %s;' % sname,
        'SIG_VALTYPE_ abc %s : 1;' % sname,
        'SG_MUL_VAL_ abc %s %s 1-1;' % (sname, sname),
        'SG_MUL_VAL_ %d %s %s a-b;' % (sid, sname, sname),
        'SG_MUL_VAL_ %d %s %s 1-1, x-2;' % (sid, sname, sname),
        'SG_MUL_VAL_ %d %s %s 1;' % (sid, sname, sname),
        'EV_ WrongEnv: x [0|100] "" 0 3 DUMMY_NODE_VECTOR0 Vector__XXX;',
        'EV_ WrongEnv: 0 [0|100] "" 0 abc DUMMY_NODE_VECTOR0 Vector__XXX;',
        'BA_DEF_DEF_ "FrHexAttr" abc;',
        'BA_DEF_ BO_ "WrongDef" INT a b;',
    ]
    out = [("unknown", l) for l in unknown] + [("truncated", l) for l in truncated] + [("wrongtype", l) for l in wrongtype]
    for kind, l in out:
        assert not dbc_strictly_valid(l), ("generated bad line is valid DBC", l)
        tok = dbc_first_token(l)
        if kind == "unknown":
            assert tok not in ("BO_", "SG_", "CM_", "BA_", "VAL_", "BA_DEF_", "BA_DEF_DEF_", "VAL_TABLE_", "BU_", "BO_TX_BU_", "EV_",
                               "SIG_GROUP_", "SIG_VALTYPE_", "SG_MUL_VAL_"), l
        else:
            assert tok in DBC_KEYWORDS, l
    return out


# ---- SYM (PEAK symbol file, format version 5 as written by canmatrix) ----
_SYM_CMT = r"(\s*//.*)?$"
_SYM_WORD = r'(?:"[^"]*"|[^"\s]+)'
_SYM_SW = r'(?: +(?:-m|-h|/(?:u|ln):%s|/(?:f|o|min|max|d):%s|/p:\d+|/e:%s))*' % (_SYM_WORD, _NUM, _ID)
SYM_KEYS = ["FormatVersion", "Title", "ID", "Type", "DLC", "Len", "CycleTime", "Var", "Mux", "Sig", "Timeout", "MinInterval", "Color",
            "BRS", "enum", "Enum", "UniqueVariables", "FloatDecimalPlaces"]
SYM_STRICT = [re.compile(p) for p in [
    r"^FormatVersion=\d+\.\d+" + _SYM_CMT, r'^Title="[^"]*"' + _SYM_CMT, r"^\{(ENUMS|SIGNALS|SEND|RECEIVE|SENDRECEIVE)\}" + _SYM_CMT,
    r"^//.*$",
    r'^\[(?:"[^"\]]+"|[^"\]\s]+)\]' + _SYM_CMT,
    r"^ID=[0-9A-Fa-f]+h(-[0-9A-Fa-f]+h)?" + _SYM_CMT,
    r"^Type=(Standard|Extended|FDStandard|FDExtended)" + _SYM_CMT,
    r"^(DLC|CycleTime)=\d+" + _SYM_CMT,
    r'^Var=(?:"[^"]+"|\S+) (?:unsigned|signed|bit|raw|float|double|char|string|%s) \d+,\d+' % _ID + _SYM_SW + _SYM_CMT,
    r'^Mux=(?:"[^"]+"|\S+) \d+,\d+ (?:\d+|[0-9A-Fa-f]+h)' + _SYM_SW + r" ?" + _SYM_CMT,
    r"^enum ",                                                   # opener of a (possibly multi-line) enum
]]


def sym_strictly_valid(line):
    s = line.strip()
    return (not s) or any(p.match(s) for p in SYM_STRICT)


def sym_bad_lines(ctx, rng):
    """kinds: unknown | truncated | wrongtype; `statement` (3rd component) tells whether the line is a statement of a kind the
    reader must TRY to parse inside a frame section (then its failure has to be recorded in load_errors)."""
    unknown = [
        "Len=8", "Timeout=250", "MinInterval=10", "Color=FF8000h", "BRS=1", "FooBar=1", "Unknown statement without any structure",
        "XVar=Sx unsigned 0,8", "Sig=SomeSig 8", "var=lowercase unsigned 0,8", "id=1FFh", "<Frame>",
        # keywords that merely share a prefix with a known one
        "IDENT=1Ah", "DLCx=3", "Typo=Extended", "Variant=2", "Muxer=1", "CycleTimeFast=7", "Titlepage=1",
    ]
    truncated = [
        "[TruncFrame", '["Trunc Frame', "ID=", "ID=1F", "ID=1", "DLC=", "CycleTime=", "Type=", "Type=Ext",
        "Var=", "Var=TruncSig", "Var=TruncSig unsigned", "Var=TruncSig unsigned 8", "Var=TruncSig unsigned 8,",
        "Var=TruncSig unsigned 8,8 /f:", "Var=TruncSig unsigned 8,8 /f", "Var=TruncSig unsigned 8,8 -m /u:km/h /o:", 'Var="Trunc Sig',
        'Var=TruncSig unsigned 8,8 /u:"un', "Var=TruncSig sig",
        "Mux=", "Mux=TruncMux", "Mux=TruncMux 0,", "Mux=TruncMux 0,4", "Mux=TruncMux 0",
    ]
    wrongtype = [
        "ID=xyzh", "ID=12.5h", "DLC=x", "DLC=8.5", "CycleTime=fast", "CycleTime=1e1",
        "Var=WrongSig unsigned a,b", "Var=WrongSig unsigned 0,x", "Var=WrongSig unsigned x,8", "Var=WrongSig 17 0,8",
        "Var=WrongSig unsigned 0,8 /f:abc", "Var=WrongSig unsigned 0,8 /o:abc", "Var=WrongSig unsigned 0,8 /min:abc",
        "Var=WrongSig unsigned 0,8 /max:abc", "Var=WrongSig unsigned 0,8 /d:abc", "Var=WrongSig unsigned 0,8 /p:abc",
        "Var=WrongSig signed 0,8 -m /f:1..2",
        "Mux=WrongMux 0,4 zz", "Mux=WrongMux a,b 1", "Mux=WrongMux 0,x 1", "Mux=WrongMux 0,4 7 /f:abc", "Mux=WrongMux 0,4 7 /o:abc",
        "Mux=WrongMux 0,4 7 /min:abc", "Mux=WrongMux 0,4 7 /max:abc", "Mux=WrongMux 0,4 1.5",
    ]
    out = [("unknown", l) for l in unknown] + [("truncated", l) for l in truncated] + [("wrongtype", l) for l in wrongtype]
    for kind, l in out:
        assert not sym_strictly_valid(l), ("generated bad line is valid SYM", l)
        key = re.split(r"[= ]", l.strip(), 1)[0]
        if kind == "unknown":
            assert key not in ("ID", "Type", "DLC", "CycleTime", "Var", "Mux", "enum", "Title") and not l.startswith("["), l
        else:
            assert key in SYM_KEYS or l.startswith("["), l
    return out
