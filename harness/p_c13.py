"""C13: comparison is sound and complete over the compared properties.
Search (on the implementation, oracle = direct transcription of the property): (1) a matrix against a deep copy and against
order-shuffled copies reports nothing; (2) every single edit of the catalogue, applied to a random object of a deep copy, is
reported at that object with the right kind for all 16 settings of the ignore options iff its category is not ignored, and
nothing else is reported - incl. texts that differ only in non-ASCII characters, case or blanks (texts are interned by exact
string, so distinct texts are distinct integers in the model); (3) related (0..3 edits + reordering) and unrelated pairs: reports nothing <=> agree_py; (4) swapping
the operands swaps additions and deletions (multisets of node paths); (5) cancompare: flags -> ignore dict.
Tie: the CompareResult tree (result, type, ref of every node) vs model/Compare.v:compare_db on the same pair (cmd 1301), in
canonical form on both sides: siblings sorted and "removed" read as "deleted", because the property fixes neither an order
among the nodes nor the spelling of a deletion; cli flags (cmd 1302)."""
import collections
import contextlib
import copy
import decimal
import io
import os
import shutil
import struct
import tempfile

import core

LEVEL_NOTE = ("theorems are about model/Compare.v (compare_db and the functions it calls, propagate_changes, cli flag mapping); "
              "texts are interned (equality only), numbers compared via float() enter as keys of their double value, str.strip of "
              "receiver names is applied by the harness; frame_by_id's memo is modelled as a scan (C10); dump_result's printing, "
              "the `changes` payload and the None->'' rewrite of frame comments on the operands are outside the model; the swap "
              "theorem on whole paths needs `coherent` (no identifier shared by differently named frames of the two matrices): a "
              "renamed frame is reported under the first operand's name (C13_swap_refuted_without_coherence); for such pairs the "
              "theorems are C13_unpaired_frames_reported and C13_swap_frames_added_deleted (no hypothesis), and the harness judges "
              "the swap law on the implementation with b's frame names mapped through the pairing")

D = decimal.Decimal
IGN_KEYS = ("comments", "attributes", "definitions", "valuetables")


def ign_dict(bits):
    d = {}
    if bits[0]:
        d["comment"] = "*"
    if bits[1]:
        d["ATTRIBUTE"] = "*"
    if bits[2]:
        d["DEFINE"] = "*"
    if bits[3]:
        d["VALUETABLES"] = True
    return d


ALL_IGN = [tuple((n >> i) & 1 for i in range(4)) for n in range(16)]


# --------------------------------------------------------------------------- interning / encoding
class Intern:
    def __init__(self):
        self.t = {"": 0}

    def __call__(self, s):
        if s is None:
            return -1
        if not isinstance(s, str):
            s = "\0" + repr(s)
        return self.t.setdefault(s, len(self.t))


def fkey(x):
    return struct.unpack("<Q", struct.pack("<d", float(x) + 0.0))[0]


def pairs(d, I, keyint=False):
    out = []
    for k, v in d.items():
        out += [int(k) if keyint else I(k), I(v)]
    return out


def enc_matrix(db, I):
    g = [[2] + pairs(db.attributes, I)]
    for which, dd in enumerate((db.global_defines, db.ecu_defines, db.frame_defines, db.signal_defines)):
        for name, d in dd.items():
            g.append([9, which, I(name), I(d.definition), I(d.defaultValue)])
    for name, tbl in db.value_tables.items():
        g.append([10, I(name)] + pairs(tbl, I, True))
    for e in db.ecus:
        g.append([1, I(e.name), int(e.comment is not None), I(e.comment) if e.comment is not None else 0])
        g.append([2] + pairs(e.attributes, I))
    for f in db.frames:
        g.append([8, I(f.name), f.arbitration_id.id, int(bool(f.arbitration_id.extended)), f.size,
                  int(f.comment is not None), I(f.comment) if f.comment is not None else 0])
        g.append([5] + [I(t) for t in f.transmitters])
        g.append([2] + pairs(f.attributes, I))
        for sg in f.signalGroups:
            g.append([6, I(sg.name), sg.id] + [I(s.name) for s in sg.signals])
        for s in f.signals:
            if s.multiplex is None:
                mk, mv = 0, 0
            elif s.multiplex == "Multiplexor":
                mk, mv = 1, 0
            else:
                mk, mv = 2, int(s.multiplex)
            g.append([7, I(s.name), s.start_bit, s.size, int(bool(s.is_little_endian)), int(bool(s.is_signed)),
                      fkey(s.factor), fkey(s.offset),
                      int(s.min is not None), fkey(s.min) if s.min is not None else 0,
                      int(s.max is not None), fkey(s.max) if s.max is not None else 0,
                      mk, mv, I(s.unit), int(s.comment is not None), I(s.comment) if s.comment is not None else 0])
            g.append([3] + [x for r in s.receivers for x in (I(r), I(r.strip()))])
            g.append([4] + pairs(s.values, I, True))
            g.append([2] + pairs(s.attributes, I))
    return g


RCODE = {"equal": 0, "changed": 1, "added": 2, "deleted": 3, "removed": 4, None: 5}
FIXED = {None: 0, "FRAME": 1, "SIGNAL": 2, "ecu": 3, "ECU": 4, "ATTRIBUTES": 5, "DefineList": 6, "ECU Defines": 7,
         "Frame Defines": 8, "Signal Defines": 9, "Valuetable": 11, "SignalGroup": 14, "SignalName": 15, "Definition": 18,
         "DefaultValue": 19, "Name": 21, "dlc": 22, "ID": 23, "Frame-Transmitter": 24, "Signalgroup": 25, "startbit": 26,
         "signalsize": 27, "factor": 28, "offset": 29, "min": 30, "max": 31, "is_little_endian": 32, "sign": 33,
         "multiplex": 34, "unit": 35, "comment": 36}
DEFLISTS = ("DefineList", "ECU Defines", "Frame Defines", "Signal Defines")


ROOT = "<root>"


def type_code(node, parent, I, below_root=False):
    t = node.type
    pt = ROOT if below_root else (parent.type if parent is not None else "<top>")
    try:
        if pt == "ATTRIBUTES":
            return [20, I(t), 0]
        if pt == "SignalGroup":
            if node.result == "changed" and not node.children:
                return [15, 0, 0] if t == "SignalName" else [100, 0, 0]     # a changed property of the group (members are only added/deleted)
            return [16, I(t), 0]
        if pt == "Valuetable":
            k = int(t.split(" ")[1])
            if node.result == "changed":
                old = node.ref[0]           # CompareResult("changed", type, [old, new]): the pair is passed as `ref`
                if t != "Value %s %s" % (k, str(old.encode("ascii", "ignore"))):
                    return [-2, 0, 0]
                return [13, k, I(old)]
            if t != "Value " + str(k):
                return [-2, 0, 0]
            return [12, k, 0]
        if pt in DEFLISTS and t.startswith("Define") and t not in ("Definition", "DefaultValue"):
            return [17, I(t[len("Define"):]), 0]
        if pt == ROOT and isinstance(t, str) and t.startswith("valuetable "):
            return [10, I(t[len("valuetable "):]), 0]
        if pt == "SIGNAL" and t.startswith("receiver "):
            return [37, I(t[len("receiver "):]), 0]
        if t not in FIXED and node.result == "changed" and not node.children:
            return [100, 0, 0]
        return [FIXED[t], 0, 0]
    except Exception:
        return [-2, 0, 0]


def ref_code(node, I, vtids):
    r = node.ref
    if hasattr(r, "name"):
        return I(r.name)
    if isinstance(r, str):
        return I(r)
    if id(r) in vtids:
        return I(vtids[id(r)])
    return -1


def enc_tree(res, I, vtids):
    out = []

    def go(n, parent, d):
        if d == 0:
            # the root: the property says nothing about its label, type or reference - only whether it marks a difference
            # (None and "equal" both mark none) is carried into the comparison with the model
            out.append([0, 5 if n.result in (None, "equal") else RCODE.get(n.result, -2), 0, 0, 0, -1])
        else:
            out.append([d, RCODE.get(n.result, -2)] + type_code(n, parent, I, below_root=(d == 1)) + [ref_code(n, I, vtids)])
        for c in n.children:
            go(c, n, d + 1)
    go(res, None, 0)
    return out


# type codes of childless "changed" nodes that name a scalar property of their parent object (incl. unknown labels: 100)
FIELD_CODES = {1, 4, 15, 18, 19, 21, 22, 23, 100} | set(range(26, 37))


def canon_tree(groups):
    """canonical form of an encoded answer for the model/implementation tie.  The property observes result, type and ref of
    every node and names three KINDS of report (addition, deletion, change): it fixes neither an order among sibling nodes nor
    the spelling of the kind.  So siblings are sorted and "removed" (4) is read as "deleted" (3) - on both sides."""
    if not groups or groups[0] != [1]:
        return tuple(map(tuple, groups))
    nodes_ = groups[1:]
    pos = [0]

    def build(depth):
        g = nodes_[pos[0]]
        pos[0] += 1
        kids = []
        while pos[0] < len(nodes_) and nodes_[pos[0]][0] == depth + 1:
            kids.append(build(depth + 1))
        r = 3 if g[1] == 4 else g[1]
        t = list(g[2:5])
        if r in (2, 3):
            kids = []               # whether the parts of an added / deleted object are listed below it is not fixed
        if t[0] == 3:
            t[0] = 4                # "ecu" / "ECU": spelling of a type label
        if r == 1 and not kids and t[0] in FIELD_CODES:
            t = [100, 0, 0]         # a changed property of the parent object: the label's wording is not fixed
        return (r,) + tuple(t) + tuple(g[5:]) + (tuple(sorted(kids)),)
    root = build(0)
    return (1, root) if pos[0] == len(nodes_) else tuple(map(tuple, groups))


# --------------------------------------------------------------------------- reading a report (search side)
def nodes(res):
    """yield (node, ancestors) for every node below the root"""
    def go(n, anc):
        for c in n.children:
            yield c, anc + [n]
            yield from go(c, anc + [n])
    return go(res, [])


def refname(n):
    return n.ref.name if hasattr(n.ref, "name") else None


def chain(node, anc):
    """names of the objects the node hangs under (consecutive repeats folded), own named ref last"""
    names = [refname(a) for a in anc[1:]] + [refname(node)]
    out = []
    for x in names:
        if x is not None and (not out or out[-1] != x):
            out.append(x)
    return out


def silent(res):
    return all(n.result == "equal" for n, _ in nodes(res))


def path_of(node, anc):
    return tuple((a.type, refname(a)) for a in anc[1:] + [node])


def kind_paths(res, kinds):
    return collections.Counter(path_of(n, anc) for n, anc in nodes(res) if n.result in kinds)


def brief_tree(res):
    return [(len(anc), n.result, n.type, refname(n)) for n, anc in nodes(res) if n.result != "equal"][:12]


# --------------------------------------------------------------------------- independent oracle: agree
def feq(x, y):
    if x is None or y is None:
        return x is None and y is None
    return float(x) == float(y)


def ctext(c):
    return "" if c is None else c


def defs_of(dd):
    return {k: (d.definition, d.defaultValue) for k, d in dd.items()}


def by_name(objs):
    out = {}
    for o in objs:
        out.setdefault(o.name, o)
    return out


LENIENT = [False]      # classification aid only: signal comments count as equal when one of them is missing


def signal_agree(bits, s1, s2):
    ok = (s1.start_bit == s2.start_bit and s1.size == s2.size and bool(s1.is_little_endian) == bool(s2.is_little_endian)
          and bool(s1.is_signed) == bool(s2.is_signed) and feq(s1.factor, s2.factor) and feq(s1.offset, s2.offset)
          and feq(s1.min, s2.min) and feq(s1.max, s2.max)
          and type(s1.multiplex) == type(s2.multiplex) and s1.multiplex == s2.multiplex and s1.unit == s2.unit
          and {r.strip() for r in s1.receivers} == {r.strip() for r in s2.receivers})
    if not bits[3]:
        ok = ok and dict(s1.values) == dict(s2.values)
    if not bits[0] and not (LENIENT[0] and (s1.comment is None or s2.comment is None)):
        ok = ok and ctext(s1.comment) == ctext(s2.comment)
    if not bits[1]:
        ok = ok and dict(s1.attributes) == dict(s2.attributes)
    return ok


def frame_agree(bits, f1, f2):
    ok = (f1.size == f2.size and f1.arbitration_id.id == f2.arbitration_id.id
          and bool(f1.arbitration_id.extended) == bool(f2.arbitration_id.extended)
          and set(f1.transmitters) == set(f2.transmitters))
    a, b = by_name(f1.signals), by_name(f2.signals)
    ok = ok and set(a) == set(b) and all(signal_agree(bits, a[n], b[n]) for n in a if n in b)
    ga, gb = by_name(f1.signalGroups), by_name(f2.signalGroups)
    ok = ok and set(ga) == set(gb) and all(
        ga[n].id == gb[n].id and {s.name for s in ga[n].signals} == {s.name for s in gb[n].signals} for n in ga if n in gb)
    if not bits[0]:
        ok = ok and ctext(f1.comment) == ctext(f2.comment)
    if not bits[1]:
        ok = ok and dict(f1.attributes) == dict(f2.attributes)
    return ok


def agree_py(bits, a, b):
    fa, fb = by_name(a.frames), by_name(b.frames)
    ok = set(fa) == set(fb) and all(frame_agree(bits, fa[n], fb[n]) for n in fa if n in fb)
    ea, eb = by_name(a.ecus), by_name(b.ecus)
    ok = ok and set(ea) == set(eb)
    for n in ea:
        if n in eb:
            if not bits[0]:
                ok = ok and ea[n].comment == eb[n].comment
            if not bits[1]:
                ok = ok and dict(ea[n].attributes) == dict(eb[n].attributes)
    if not bits[1]:
        ok = ok and dict(a.attributes) == dict(b.attributes)
    if not bits[2]:
        ok = ok and all(defs_of(x) == defs_of(y) for x, y in ((a.global_defines, b.global_defines), (a.ecu_defines, b.ecu_defines),
                                                            (a.frame_defines, b.frame_defines), (a.signal_defines, b.signal_defines)))
    if not bits[3]:
        ok = ok and {k: dict(v) for k, v in a.value_tables.items()} == {k: dict(v) for k, v in b.value_tables.items()}
    return bool(ok)


def failure_class(default, res, bits, a, b, missed):
    """name the failure class of a wrong verdict (the two classes repaired by fixes/C13_*.patch get their own key)"""
    if missed:
        LENIENT[0] = True
        try:
            if agree_py(bits, a, b):
                return "signal-comment-presence"
        finally:
            LENIENT[0] = False
        return default
    leaves = [n for n, _ in nodes(res) if n.result != "equal" and not n.children]
    if leaves and all(isinstance(n.type, str) and n.type.startswith("receiver ") and
                      n.type[len("receiver "):] != n.type[len("receiver "):].strip() for n in leaves):
        return "self-compare-blank-receiver"
    return default


def arbkey(f):
    return (f.arbitration_id.id, bool(f.arbitration_id.extended))


def coherent(a, b):
    return all(fa.name == fb.name for fa in a.frames for fb in b.frames if arbkey(fa) == arbkey(fb))


class Enc(list):
    """encoded answer; open_pairing: some frame pair has signals without partner by name on BOTH sides at one place
    (start, size, byte order, multiplexing) - whether such signals are one renamed signal or a deleted and an added one is not
    fixed by the property, so these answers are judged by the search (iff, swap) but not tied to the model"""
    open_pairing = False


def place_coincidence(a, b):
    def place(sg):
        return sg.start_bit, sg.size, bool(sg.is_little_endian), str(sg.multiplex)
    for fa in a.frames:
        for fb in b.frames:
            if fa.name == fb.name or arbkey(fa) == arbkey(fb):
                na, nb = {x.name for x in fa.signals}, {x.name for x in fb.signals}
                pa = {place(x) for x in fa.signals if x.name not in nb}
                if pa and pa & {place(x) for x in fb.signals if x.name not in na}:
                    return True
    return False


def names_unique(db):
    n = [f.name for f in db.frames]
    return len(n) == len(set(n))


def pair_frames(a, b):
    """the documented pairing rule as a relation: frames of one name; failing that - neither name occurs in the other
    matrix - frames of one identifier.  Returns [(frame of a, frame of b)]."""
    na, nb = {f.name for f in a.frames}, {f.name for f in b.frames}
    return [(fa, fb) for fa in a.frames for fb in b.frames
            if fa.name == fb.name or (fa.name not in nb and fb.name not in na and arbkey(fa) == arbkey(fb))]


def root_frames(res, kinds):
    """names of the frames reported directly below the root with one of the given results, in report order"""
    return [c.ref.name for c in res.children if c.type == "FRAME" and c.result in kinds and hasattr(c.ref, "signals")]


def envelope(db):
    """names identify objects, identifiers unique"""
    def uniq(l):
        return len(l) == len(set(l))
    return (uniq([f.name for f in db.frames]) and uniq([arbkey(f) for f in db.frames]) and uniq([e.name for e in db.ecus])
            and all(uniq([s.name for s in f.signals]) and uniq([g.name for g in f.signalGroups]) for f in db.frames))


# --------------------------------------------------------------------------- generator
ECUS = ["E%d" % i for i in range(6)]
RECV = ECUS + ["E1 ", " E4"]           # receiver names with surrounding white space occur as well
FRAMES = ["F%d" % i for i in range(9)]
SIGS = ["s%d" % i for i in range(8)]
GROUPS = ["G%d" % i for i in range(3)]
ATTRS = ["A%d" % i for i in range(4)]
DEFS = ["D%d" % i for i in range(4)]
VTS = ["T%d" % i for i in range(3)]
TEXTS = ["txt %d" % i for i in range(6)] + ["two\nlines", "two lines", "Open Door", "ge\u00f6ffnet", "\u9589", "20 \u00b5A",
                                              "caf\u00e9 au lait", "cafe\u0301 au lait", "\u6e29\u5ea6 high", "\u00d6lstand niedrig"]
UNITS = ["", "km/h", "V", "degC", "\u00b0C", "\u00b5A"]
NONASCII = ["\u00e9", "\u00f6", "\u00e4", "\u00b5", "\u00df", "\u9589", "\u958b", "\u6e29", "\u20ac", "\u0301"]   # 2- and 3-byte UTF-8


def near(rng, text, kind, count=None):
    """a non-empty text that differs from the non-empty `text` ONLY in the named respect, or None when not possible:
    nonascii: one non-ASCII character replaced by another / removed / inserted (same ASCII skeleton), or the
              precomposed e-acute exchanged with e + combining acute;  case: one ASCII letter in the other case;
    space: a blank added in front, behind or inside, or an inner blank doubled / turned into tab or newline"""
    if not isinstance(text, str) or not text:
        return None
    new, mode = None, None
    if kind == "nonascii":
        idx = [i for i, c in enumerate(text) if ord(c) > 127]
        modes = ["insert"] + (["swap", "swap"] if idx else []) + (["remove", "remove"] if idx and len(text) > 1 else [])
        if "\u00e9" in text or "e\u0301" in text:
            modes += ["compose", "compose"]
        mode = rng.choice(modes)
        if mode == "insert":
            i = rng.randrange(len(text) + 1)
            new = text[:i] + rng.choice(NONASCII) + text[i:]
        elif mode == "swap":
            i = rng.choice(idx)
            new = text[:i] + rng.choice([c for c in NONASCII if c != text[i]]) + text[i + 1:]
        elif mode == "remove":
            i = rng.choice(idx)
            new = text[:i] + text[i + 1:]
        else:
            new = text.replace("\u00e9", "e\u0301", 1) if "\u00e9" in text else text.replace("e\u0301", "\u00e9", 1)
        if mode != "compose":
            assert new.encode("ascii", "ignore") == text.encode("ascii", "ignore")
    elif kind == "case":
        idx = [i for i, c in enumerate(text) if c.isascii() and c.isalpha()]
        if not idx:
            return None
        i = rng.choice(idx)
        new, mode = text[:i] + text[i].swapcase() + text[i + 1:], "case"
        assert new.lower() == text.lower()
    elif kind == "space":
        inner = [i for i, c in enumerate(text) if c == " "]
        mode = rng.choice(["lead", "trail", "inner-add"] + (["inner-double", "inner-tab", "inner-newline"] if inner else []))
        if mode == "lead":
            new = " " + text
        elif mode == "trail":
            new = text + " "
        elif mode == "inner-add":
            i = rng.randrange(1, len(text)) if len(text) > 1 else 0
            new = text[:i] + " " + text[i:]
        else:
            i = rng.choice(inner)
            new = text[:i] + {"inner-double": "  ", "inner-tab": "\t", "inner-newline": "\n"}[mode] + text[i + 1:]
        assert "".join(new.split()) == "".join(text.split())
    if new is None or new == text or not new:
        return None
    if count is not None:
        count("near:%s/%s" % (kind, mode))
    return new


NEAR_KINDS = ("nonascii", "case", "space")
NUMS = ["1", "0.5", "0.1", "2", "-3.25", "1E+2", "100", "0.25", "7", "-1", "1000", "0.001", "1E+12", "-2.5E-9", "123456.789",
        "0.3333333333333333"]
DEFINITIONS = ["INT 0 100", "INT 0 65535", "STRING", "FLOAT 0 1", 'ENUM "a","b"', "HEX 0 255"]


def universe_id(i):
    return (0x100 + 7 * i, False) if i % 3 else (0x18FEF100 + 0x100 * i, True)


class Gen:
    def __init__(self, C, rng):
        self.C = C
        self.rng = rng
        self.blanks = False
        self.count = None

    def num(self, avoid=None):
        r = self.rng
        for _ in range(50):
            v = D(r.choice(NUMS)) if r.random() < 0.8 else D(r.randrange(-500, 500)) / D(r.choice([1, 4, 10]))
            if avoid is None or float(v) != float(avoid):
                return v
        return D(avoid) + 1

    def text(self, avoid=None):
        c = [t for t in TEXTS if t != avoid]
        return self.rng.choice(c)

    def attrs(self, obj, n):
        for k in self.rng.sample(ATTRS, n):
            obj.add_attribute(k, self.text())

    def signal(self, name):
        r, C = self.rng, self.C
        kw = dict(start_bit=r.randrange(0, 56), size=r.randrange(1, 17), is_little_endian=r.random() < 0.6,
                  is_signed=r.random() < 0.4, factor=self.num(avoid=0), offset=self.num(), unit=r.choice(UNITS))
        if r.random() < 0.6:
            kw["min"] = self.num()
            kw["max"] = self.num()
        if r.random() < 0.25:
            kw["multiplex"] = r.choice(["Multiplexor", 0, 1, 3])
        s = C.Signal(name, **kw)
        if r.random() < 0.6:
            s.add_comment(self.text())
        for e in r.sample(RECV if self.blanks else ECUS, r.randrange(0, 3)):
            if e.strip() not in [x.strip() for x in s.receivers]:
                s.add_receiver(e)
        for k in r.sample(range(-1, 6), r.randrange(0, 4)):
            s.add_values(k, self.text())
        self.attrs(s, r.randrange(0, 3))
        return s

    def frame(self, idx, arb=None):
        r, C = self.rng, self.C
        fid, ext = arb if arb is not None else universe_id(idx)
        f = C.Frame(FRAMES[idx], arbitration_id=C.ArbitrationId(fid, ext), size=r.choice([1, 2, 4, 8, 8, 8, 64]))
        for e in r.sample(ECUS, r.randrange(0, 3)):
            f.add_transmitter(e)
        x = r.random()
        if x < 0.7:
            f.add_comment(self.text())
        elif x < 0.8:
            f.comment = None
        self.attrs(f, r.randrange(0, 3))
        names = r.sample(SIGS, r.randrange(1, 6))
        for n in names:
            f.add_signal(self.signal(n))
        for gi, gname in enumerate(r.sample(GROUPS, r.randrange(0, 3))):
            f.add_signal_group(gname, r.randrange(1, 5), r.sample(names, r.randrange(1, len(names) + 1)))
        return f

    def matrix(self, frame_idx=None):
        r, C = self.rng, self.C
        self.blanks = r.random() < 0.15
        db = C.CanMatrix()
        for name in r.sample(ECUS, r.randrange(1, 5)):
            e = C.Ecu(name)
            if r.random() < 0.6:
                e.add_comment(self.text())
            self.attrs(e, r.randrange(0, 3))
            db.add_ecu(e)
        if frame_idx is None:
            frame_idx = r.sample(range(len(FRAMES) - 1), r.randrange(1, 6))     # the last name stays free for "add frame"
        for i in frame_idx:
            db.add_frame(self.frame(i))
        for adder in (db.add_global_defines, db.add_ecu_defines, db.add_frame_defines, db.add_signal_defines):
            for dn in r.sample(DEFS, r.randrange(0, 3)):
                adder(dn, r.choice(DEFINITIONS))
        for lst in (db.global_defines, db.ecu_defines, db.frame_defines, db.signal_defines):
            for dn in lst:
                if r.random() < 0.6:
                    lst[dn].set_default(self.text())
        self.attrs(db, r.randrange(0, 3))
        for t in r.sample(VTS, r.randrange(0, 3)):
            db.add_value_table(t, {k: self.text() for k in r.sample(range(0, 6), r.randrange(1, 4))})
        return db

    def shuffle(self, db):
        """reorder everything whose order is not a compared property"""
        r = self.rng

        def redict(d):
            items = list(d.items())
            r.shuffle(items)
            d.clear()
            d.update(items)
        r.shuffle(db.frames)
        r.shuffle(db.ecus)
        db._frames_dict_id_extend = {}
        for d in (db.attributes, db.global_defines, db.ecu_defines, db.frame_defines, db.signal_defines, db.value_tables):
            redict(d)
        for t in db.value_tables.values():
            redict(t)
        for e in db.ecus:
            redict(e.attributes)
        for f in db.frames:
            r.shuffle(f.signals)
            r.shuffle(f.transmitters)
            r.shuffle(f.signalGroups)
            redict(f.attributes)
            for g in f.signalGroups:
                r.shuffle(g.signals)
            for s in f.signals:
                r.shuffle(s.receivers)
                redict(s.attributes)
                redict(s.values)


# --------------------------------------------------------------------------- the edit catalogue
# every edit: f(gen, db) -> None (not applicable) | dict(cat, chain, kinds, anc=None, what)
#   cat: index into IGN_KEYS or None; chain: names of the objects concerned (outermost first);
#   kinds: acceptable result strings; anc: a node type that must occur on the way (containers without a name)
CHG, ADD, DEL = ("changed",), ("added",), ("deleted", "removed")


def pick_frame(g, db):
    return g.rng.choice(db.frames)


def pick_signal(g, db):
    f = pick_frame(g, db)
    return f, g.rng.choice(f.signals)


def sig_field(field, newval):
    def e(g, db):
        f, s = pick_signal(g, db)
        old = getattr(s, field)
        new = newval(g, s, old)
        if new is None:
            return None
        setattr(s, field, new)
        return dict(cat=None, chain=[f.name, s.name], kinds=CHG, what="signal %s %r -> %r" % (field, old, new))
    e.__name__ = "signal_" + field
    return e


def new_mux(g, s, old):
    return g.rng.choice([v for v in (None, "Multiplexor", 0, 1, 2, 3) if not (type(v) == type(old) and v == old)])


def dict_edits(prefix, cat, target, anc, key_pool, keyint=False):
    """add / delete / change of one entry of a dict-valued property; target(g, db) -> (chain, dict) or None"""
    def add(g, db):
        t = target(g, db)
        if t is None:
            return None
        ch, d = t
        free = [k for k in key_pool if k not in d]
        if not free:
            return None
        k = g.rng.choice(free)
        d[k] = g.text()
        return dict(cat=cat, chain=ch, kinds=ADD, anc=anc, what="%s add %r" % (prefix, k))

    def dele(g, db):
        t = target(g, db)
        if t is None or not t[1]:
            return None
        ch, d = t
        k = g.rng.choice(list(d))
        del d[k]
        return dict(cat=cat, chain=ch, kinds=DEL, anc=anc, what="%s delete %r" % (prefix, k))

    def chg(g, db):
        t = target(g, db)
        if t is None or not t[1]:
            return None
        ch, d = t
        k = g.rng.choice(list(d))
        d[k] = g.text(avoid=d[k])
        return dict(cat=cat, chain=ch, kinds=CHG, anc=anc, what="%s change %r" % (prefix, k))
    add.__name__, dele.__name__, chg.__name__ = prefix + "_add", prefix + "_delete", prefix + "_change"
    return [add, dele, chg]


def e_frame_add(g, db):
    used = {arbkey(f) for f in db.frames}
    idx = len(FRAMES) - 1
    if FRAMES[idx] in [f.name for f in db.frames] or universe_id(idx) in used:
        return None
    f = g.frame(idx)
    db.add_frame(f)
    return dict(cat=None, chain=[f.name], kinds=ADD, what="frame added")


def e_frame_delete(g, db):
    if len(db.frames) < 2:
        return None
    f = pick_frame(g, db)
    db.del_frame(f)
    return dict(cat=None, chain=[f.name], kinds=DEL, what="frame deleted")


def e_frame_rename(g, db):
    f = pick_frame(g, db)
    old = f.name
    if FRAMES[-1] in [x.name for x in db.frames]:
        return None
    f.name = FRAMES[-1]
    return dict(cat=None, chain=[old], kinds=CHG, what="frame renamed (same identifier)")


def e_frame_size(g, db):
    f = pick_frame(g, db)
    f.size = g.rng.choice([x for x in (1, 2, 3, 8, 12, 64) if x != f.size])
    return dict(cat=None, chain=[f.name], kinds=CHG, what="frame length")


def e_frame_id(g, db):
    f = pick_frame(g, db)
    used = {arbkey(x) for x in db.frames}
    ext = bool(f.arbitration_id.extended)
    for _ in range(20):
        nid = g.rng.randrange(1, 0x7F0) if not ext else g.rng.randrange(0x800, 0x1FFFFFFF)
        if (nid, ext) not in used:
            f.arbitration_id = g.C.ArbitrationId(nid, ext)
            db._frames_dict_id_extend = {}
            return dict(cat=None, chain=[f.name], kinds=CHG, what="frame identifier")
    return None


def e_frame_format(g, db):
    cands = [f for f in db.frames if f.arbitration_id.id < 0x800]
    used = {arbkey(x) for x in db.frames}
    cands = [f for f in cands if (f.arbitration_id.id, not f.arbitration_id.extended) not in used]
    if not cands:
        return None
    f = g.rng.choice(cands)
    f.arbitration_id = g.C.ArbitrationId(f.arbitration_id.id, not f.arbitration_id.extended)
    db._frames_dict_id_extend = {}
    return dict(cat=None, chain=[f.name], kinds=CHG, what="frame format (extended flag)")


def e_tx_add(g, db):
    f = pick_frame(g, db)
    free = [e for e in ECUS if e not in f.transmitters]
    f.add_transmitter(g.rng.choice(free))
    return dict(cat=None, chain=[f.name], kinds=ADD, what="sender added")


def e_tx_remove(g, db):
    cands = [f for f in db.frames if f.transmitters]
    if not cands:
        return None
    f = g.rng.choice(cands)
    f.del_transmitter(g.rng.choice(f.transmitters))
    return dict(cat=None, chain=[f.name], kinds=DEL, what="sender removed")


def e_frame_comment(g, db):
    cands = [f for f in db.frames if f.comment]
    if not cands:
        return None
    f = g.rng.choice(cands)
    f.add_comment(g.text(avoid=f.comment))
    return dict(cat=0, chain=[f.name], kinds=CHG, what="frame comment")


def e_signal_add(g, db):
    f = pick_frame(g, db)
    free = [n for n in SIGS if n not in [s.name for s in f.signals]]
    if not free:
        return None
    s = g.signal(g.rng.choice(free))
    f.add_signal(s)
    return dict(cat=None, chain=[f.name, s.name], kinds=ADD, what="signal added")


def e_signal_delete(g, db):
    # a signal that is member of a group would also change the group (a second edit): only free signals
    cands = [(f, s) for f in db.frames if len(f.signals) > 1 for s in f.signals
             if not any(s in grp.signals for grp in f.signalGroups)]
    if not cands:
        return None
    f, s = g.rng.choice(cands)
    f.signals.remove(s)
    return dict(cat=None, chain=[f.name, s.name], kinds=DEL, what="signal deleted")


def e_group_add(g, db):
    f = pick_frame(g, db)
    free = [n for n in GROUPS if n not in [x.name for x in f.signalGroups]]
    if not free:
        return None
    n = g.rng.choice(free)
    f.add_signal_group(n, 1, [f.signals[0].name])
    return dict(cat=None, chain=[f.name, n], kinds=ADD, what="signal group added")


def pick_group(g, db):
    cands = [(f, x) for f in db.frames for x in f.signalGroups]
    return g.rng.choice(cands) if cands else None


def e_group_delete(g, db):
    t = pick_group(g, db)
    if t is None:
        return None
    f, grp = t
    f.signalGroups.remove(grp)
    return dict(cat=None, chain=[f.name, grp.name], kinds=DEL, what="signal group deleted")


def e_group_id(g, db):
    t = pick_group(g, db)
    if t is None:
        return None
    f, grp = t
    grp.id += 1
    return dict(cat=None, chain=[f.name, grp.name], kinds=CHG, what="signal group id")


def e_group_member_add(g, db):
    t = pick_group(g, db)
    if t is None:
        return None
    f, grp = t
    free = [s for s in f.signals if s not in grp.signals]
    if not free:
        return None
    grp.add_signal(g.rng.choice(free))
    return dict(cat=None, chain=[f.name, grp.name], kinds=ADD, what="signal group member added")


def e_group_member_remove(g, db):
    t = pick_group(g, db)
    if t is None or not t[1].signals:
        return None
    f, grp = t
    grp.del_signal(g.rng.choice(grp.signals))
    return dict(cat=None, chain=[f.name, grp.name], kinds=DEL, what="signal group member removed")


def e_signal_comment(g, db):
    cands = [(f, s) for f in db.frames for s in f.signals if s.comment]
    if not cands:
        return None
    f, s = g.rng.choice(cands)
    s.add_comment(g.text(avoid=s.comment))
    return dict(cat=0, chain=[f.name, s.name], kinds=CHG, what="signal comment (non-empty -> non-empty)")


def e_signal_comment_added(g, db):
    cands = [(f, s) for f in db.frames for s in f.signals if s.comment is None]
    if not cands:
        return None
    f, s = g.rng.choice(cands)
    s.add_comment(g.text())
    return dict(cat=0, chain=[f.name, s.name], kinds=CHG, what="signal comment added (None -> text)", key="signal-comment-presence")


def e_signal_comment_removed(g, db):
    cands = [(f, s) for f in db.frames for s in f.signals if s.comment]
    if not cands:
        return None
    f, s = g.rng.choice(cands)
    s.comment = None
    return dict(cat=0, chain=[f.name, s.name], kinds=CHG, what="signal comment removed (text -> None)", key="signal-comment-presence")


def e_receiver_add(g, db):
    f, s = pick_signal(g, db)
    have = {r.strip() for r in s.receivers}
    free = [e for e in ECUS if e not in have]
    s.add_receiver(g.rng.choice(free))
    return dict(cat=None, chain=[f.name, s.name], kinds=ADD, what="receiver added")


def e_receiver_remove(g, db):
    cands = [(f, s) for f in db.frames for s in f.signals if s.receivers]
    if not cands:
        return None
    f, s = g.rng.choice(cands)
    s.del_receiver(g.rng.choice(s.receivers))
    return dict(cat=None, chain=[f.name, s.name], kinds=DEL, what="receiver removed")


def e_ecu_add(g, db):
    free = [n for n in ECUS if n not in [e.name for e in db.ecus]]
    if not free:
        return None
    e = g.C.Ecu(g.rng.choice(free))
    db.add_ecu(e)
    return dict(cat=None, chain=[e.name], kinds=ADD, what="ECU added")


def e_ecu_delete(g, db):
    if len(db.ecus) < 2:
        return None
    e = g.rng.choice(db.ecus)
    db.ecus.remove(e)          # not del_ecu: that also edits senders and receivers (more than one change)
    return dict(cat=None, chain=[e.name], kinds=DEL, what="ECU deleted")


def e_ecu_comment(g, db):
    cands = [e for e in db.ecus if e.comment]
    if not cands:
        return None
    e = g.rng.choice(cands)
    e.add_comment(g.text(avoid=e.comment))
    return dict(cat=0, chain=[e.name], kinds=CHG, what="ECU comment")


def define_edits(which, attr, listtype):
    def lst(db):
        return getattr(db, attr)

    def add(g, db):
        free = [n for n in DEFS if n not in lst(db)]
        if not free:
            return None
        n = g.rng.choice(free)
        lst(db)[n] = g.C.Define(g.rng.choice(DEFINITIONS))
        return dict(cat=2, chain=[], kinds=ADD, anc=listtype, what="%s: define %s added" % (attr, n))

    def dele(g, db):
        if not lst(db):
            return None
        n = g.rng.choice(list(lst(db)))
        del lst(db)[n]
        return dict(cat=2, chain=[], kinds=DEL, anc=listtype, what="%s: define %s deleted" % (attr, n))

    def definition(g, db):
        if not lst(db):
            return None
        n = g.rng.choice(list(lst(db)))
        d = lst(db)[n]
        new = g.C.Define(g.rng.choice([x for x in DEFINITIONS if x != d.definition]))
        new.defaultValue = d.defaultValue
        lst(db)[n] = new
        return dict(cat=2, chain=[], kinds=CHG, anc=listtype, what="%s: definition of %s" % (attr, n))

    def default(g, db):
        if not lst(db):
            return None
        n = g.rng.choice(list(lst(db)))
        d = lst(db)[n]
        d.set_default(g.text(avoid=d.defaultValue))
        return dict(cat=2, chain=[], kinds=CHG, anc=listtype, what="%s: default of %s" % (attr, n))
    for fn, nm in ((add, "add"), (dele, "delete"), (definition, "definition"), (default, "default")):
        fn.__name__ = "%s_%s" % (attr, nm)
    return [add, dele, definition, default]


def e_vt_add(g, db):
    free = [n for n in VTS if n not in db.value_tables]
    if not free:
        return None
    n = g.rng.choice(free)
    db.add_value_table(n, {1: g.text()})
    return dict(cat=3, chain=[], kinds=ADD, what="value table %s added" % n)


def e_vt_delete(g, db):
    if not db.value_tables:
        return None
    n = g.rng.choice(list(db.value_tables))
    del db.value_tables[n]
    return dict(cat=3, chain=[], kinds=DEL, what="value table %s deleted" % n)


def catalogue():
    def num(fld):
        def newval(g, s, old):
            for _ in range(50):
                v = g.num(avoid=old)
                if fld != "factor" or float(v) != 0:
                    return v
            return None
        return sig_field(fld, newval)
    cat = [
        e_frame_add, e_frame_delete, e_frame_rename, e_frame_size, e_frame_id, e_frame_format, e_tx_add, e_tx_remove, e_frame_comment,
        e_signal_add, e_signal_delete, e_group_add, e_group_delete, e_group_id, e_group_member_add, e_group_member_remove,
        sig_field("start_bit", lambda g, s, old: old + g.rng.choice([1, 3, 8])),
        sig_field("size", lambda g, s, old: old + g.rng.choice([1, 2, 7])),
        sig_field("is_little_endian", lambda g, s, old: not old),
        sig_field("is_signed", lambda g, s, old: not old),
        num("factor"), num("offset"), num("min"), num("max"),
        sig_field("multiplex", new_mux),
        sig_field("unit", lambda g, s, old: g.rng.choice([u for u in UNITS if u != old])),
        e_signal_comment, e_signal_comment_added, e_signal_comment_removed, e_receiver_add, e_receiver_remove,
        e_ecu_add, e_ecu_delete, e_ecu_comment, e_vt_add, e_vt_delete,
    ]
    cat += dict_edits("signal_value", 3, lambda g, db: (lambda fs: ([fs[0].name, fs[1].name], fs[1].values))(pick_signal(g, db)),
                      "Valuetable", list(range(-2, 9)), True)
    cat += dict_edits("signal_attribute", 1, lambda g, db: (lambda fs: ([fs[0].name, fs[1].name], fs[1].attributes))(pick_signal(g, db)),
                      "ATTRIBUTES", ATTRS)
    cat += dict_edits("frame_attribute", 1, lambda g, db: (lambda f: ([f.name], f.attributes))(pick_frame(g, db)), "ATTRIBUTES", ATTRS)
    cat += dict_edits("ecu_attribute", 1, lambda g, db: (lambda e: ([e.name], e.attributes))(g.rng.choice(db.ecus)), "ATTRIBUTES", ATTRS)
    cat += dict_edits("global_attribute", 1, lambda g, db: ([], db.attributes), "ATTRIBUTES", ATTRS)
    cat += dict_edits("global_valuetable_value", 3,
                      lambda g, db: ([], db.value_tables[g.rng.choice(list(db.value_tables))]) if db.value_tables else None,
                      "Valuetable", list(range(0, 9)), True)
    for which, (attr, lt) in enumerate((("global_defines", "DefineList"), ("ecu_defines", "ECU Defines"),
                                        ("frame_defines", "Frame Defines"), ("signal_defines", "Signal Defines"))):
        cat += define_edits(which, attr, lt)
    return cat


# --------------------------------------------------------------------------- texts that differ in one respect only
DEFATTRS = (("global_defines", "DefineList"), ("ecu_defines", "ECU Defines"), ("frame_defines", "Frame Defines"),
            ("signal_defines", "Signal Defines"))


def text_targets(db):
    """(label, cat, chain, anc, get, set) for every text-valued compared property of db"""
    out = []

    def item(label, cat, chain, anc, d, k):
        out.append((label, cat, chain, anc, lambda: d[k], lambda v: d.__setitem__(k, v)))

    def attrib(label, cat, chain, anc, o, name):
        out.append((label, cat, chain, anc, lambda: getattr(o, name), lambda v: setattr(o, name, v)))
    for f in db.frames:
        attrib("frame_comment", 0, [f.name], None, f, "comment")
        for k in f.attributes:
            item("frame_attribute_value", 1, [f.name], "ATTRIBUTES", f.attributes, k)
        for sg in f.signals:
            ch = [f.name, sg.name]
            attrib("signal_comment", 0, ch, None, sg, "comment")
            attrib("signal_unit", None, ch, None, sg, "unit")
            for k in sg.attributes:
                item("signal_attribute_value", 1, ch, "ATTRIBUTES", sg.attributes, k)
            for k in sg.values:
                item("signal_value_description", 3, ch, "Valuetable", sg.values, k)
    for e in db.ecus:
        attrib("ecu_comment", 0, [e.name], None, e, "comment")
        for k in e.attributes:
            item("ecu_attribute_value", 1, [e.name], "ATTRIBUTES", e.attributes, k)
    for k in db.attributes:
        item("global_attribute_value", 1, [], "ATTRIBUTES", db.attributes, k)
    for attr, lt in DEFATTRS:
        for d in getattr(db, attr).values():
            attrib(attr + "_definition_text", 2, [], lt, d, "definition")
            attrib(attr + "_default_text", 2, [], lt, d, "defaultValue")
    for t in db.value_tables.values():
        for k in t:
            item("global_value_description", 3, [], "Valuetable", t, k)
    return out


TEXT_LABELS = (["frame_comment", "frame_attribute_value", "signal_comment", "signal_unit", "signal_attribute_value",
                "signal_value_description", "ecu_comment", "ecu_attribute_value", "global_attribute_value",
                "global_value_description"] + [a + sfx for a, _ in DEFATTRS for sfx in ("_definition_text", "_default_text")])


def near_text_edit(label, kind):
    def e(g, db):
        cands = [t for t in text_targets(db) if t[0] == label and isinstance(t[4](), str) and t[4]()]
        g.rng.shuffle(cands)
        for _, cat, chain, anc, get, put in cands:
            old = get()
            new = near(g.rng, old, kind, g.count)
            if new is not None:
                put(new)
                return dict(cat=cat, chain=chain, kinds=CHG, anc=anc, few=True,
                            what="%s: %r -> %r (differs only in %s)" % (label, old, new, kind))
        return None
    e.__name__ = "near_%s_%s" % (label, kind)
    return e


def near_name_edits(kind):
    """objects / entries whose NAME differs from an existing one only in `kind`: they are other objects"""
    def pick_near(g, names):
        names = [n for n in names]
        g.rng.shuffle(names)
        for n in names:
            new = near(g.rng, n, kind, g.count)
            if new is not None and new not in names:
                return n, new
        return None

    def frame_rename(g, db):
        t = pick_near(g, [f.name for f in db.frames])
        if t is None:
            return None
        db.frame_by_name(t[0]).name = t[1]
        return dict(cat=None, chain=[t[0]], kinds=CHG, few=True, what="frame renamed %r -> %r" % t)

    def signal_add(g, db):
        f = pick_frame(g, db)
        t = pick_near(g, [x.name for x in f.signals])
        if t is None:
            return None
        f.add_signal(g.signal(t[1]))
        return dict(cat=None, chain=[f.name, t[1]], kinds=ADD, few=True, what="signal %r added next to %r" % (t[1], t[0]))

    def ecu_add(g, db):
        t = pick_near(g, [x.name for x in db.ecus])
        if t is None:
            return None
        db.ecus.append(g.C.Ecu(t[1]))
        return dict(cat=None, chain=[t[1]], kinds=ADD, few=True, what="ECU %r added next to %r" % (t[1], t[0]))

    def tx_add(g, db):
        cands = [f for f in db.frames if f.transmitters]
        if not cands:
            return None
        f = g.rng.choice(cands)
        t = pick_near(g, f.transmitters)
        if t is None:
            return None
        f.transmitters.append(t[1])
        return dict(cat=None, chain=[f.name], kinds=ADD, few=True, what="sender %r added next to %r" % (t[1], t[0]))

    def receiver_add(g, db):
        cands = [(f, x) for f in db.frames for x in f.signals if x.receivers]
        if not cands:
            return None
        f, sg = g.rng.choice(cands)
        t = pick_near(g, sg.receivers)
        if t is None or t[1].strip() in [r.strip() for r in sg.receivers]:
            return None           # receivers are compared without surrounding blanks: such a variant is the same receiver
        sg.receivers.append(t[1])
        return dict(cat=None, chain=[f.name, sg.name], kinds=ADD, few=True, what="receiver %r added next to %r" % (t[1], t[0]))

    def attribute_add(g, db):
        cands = [(f, x) for f in db.frames for x in f.signals if x.attributes]
        if not cands:
            return None
        f, sg = g.rng.choice(cands)
        t = pick_near(g, list(sg.attributes))
        if t is None:
            return None
        sg.attributes[t[1]] = sg.attributes[t[0]]
        return dict(cat=1, chain=[f.name, sg.name], kinds=ADD, anc="ATTRIBUTES", few=True,
                    what="signal attribute %r added next to %r (same value)" % (t[1], t[0]))

    def define_add(g, db):
        cands = [(a, lt) for a, lt in DEFATTRS if getattr(db, a)]
        if not cands:
            return None
        a, lt = g.rng.choice(cands)
        t = pick_near(g, list(getattr(db, a)))
        if t is None:
            return None
        getattr(db, a)[t[1]] = copy.deepcopy(getattr(db, a)[t[0]])
        return dict(cat=2, chain=[], kinds=ADD, anc=lt, few=True, what="%s: define %r added next to %r" % (a, t[1], t[0]))

    def vt_add(g, db):
        t = pick_near(g, list(db.value_tables))
        if t is None:
            return None
        db.value_tables[t[1]] = dict(db.value_tables[t[0]])
        return dict(cat=3, chain=[], kinds=ADD, few=True, what="value table %r added next to %r (same content)" % (t[1], t[0]))
    out = [frame_rename, signal_add, ecu_add, tx_add, receiver_add, attribute_add, define_add, vt_add]
    for fn in out:
        fn.__name__ = "nearname_%s_%s" % (fn.__name__, kind)
    return out


# --------------------------------------------------------------------------- numbers at the edge of "differ as doubles"
NUM_EDGE_KINDS = ("ulp-up", "ulp-down", "rel-2^-40", "rel-1e-10", "rel-2^-33")


def near_num(rng, old, kind):
    """a Decimal whose double value differs from float(old) by the smallest amounts: the neighbouring double in either
    direction, or a relative step of 2^-40 / 1e-10 / 2^-33 (from 0: the smallest subnormal resp. 1e-300).  None if the
    double value would not change or leave the finite range."""
    import math
    x = float(old)
    if kind == "ulp-up":
        y = math.nextafter(x, math.inf)
    elif kind == "ulp-down":
        y = math.nextafter(x, -math.inf)
    elif x == 0.0:
        y = rng.choice([5e-324, -5e-324, 1e-300])
    else:
        y = x * (1 + {"rel-2^-40": 2.0 ** -40, "rel-1e-10": 1e-10, "rel-2^-33": 2.0 ** -33}[kind] * rng.choice([1, -1]))
    if y == x or math.isinf(y) or math.isnan(y):
        return None
    new = D(y)                      # exact: float(new) == y
    assert float(new) == y and float(new) != x
    return new


def num_edge_edit(field, kind):
    def e(g, db):
        f, sg = pick_signal(g, db)
        old = getattr(sg, field)
        if old is None:
            return None
        new = near_num(g.rng, old, kind)
        if new is None or (field == "factor" and float(new) == 0):
            return None
        setattr(sg, field, new)
        g.count("numeric-edge:%s" % kind)
        return dict(cat=None, chain=[f.name, sg.name], kinds=CHG, few=True, key="numeric-edge-edit",
                    what="signal %s: %r -> %r (doubles %r -> %r, %s)" % (field, old, new, float(old), float(new), kind))
    e.__name__ = "numedge_%s_%s" % (field, kind)
    return e


def near_catalogue():
    cat = [near_text_edit(label, kind) for label in TEXT_LABELS for kind in NEAR_KINDS]
    cat += [num_edge_edit(field, kind) for field in ("factor", "offset", "min", "max") for kind in NUM_EDGE_KINDS]
    for kind in NEAR_KINDS:
        cat += near_name_edits(kind)
    return cat


# edits that keep agreement: a different Decimal with the same double value
def e_same_double(g, db):
    f, s = pick_signal(g, db)
    fld = g.rng.choice(["factor", "offset", "min", "max"])
    old = getattr(s, fld)
    new = old + D("1E-40") if old != 0 else D("-0")
    if float(new) != float(old):
        return None
    setattr(s, fld, new)
    return dict(what="signal %s: other Decimal, same double" % fld)


# --------------------------------------------------------------------------- the check
def run(chk):
    chk.rule = ("random matrices built through the canmatrix API (1..4 ECUs, 1..5 frames, 1..5 signals each, attributes, four define lists "
                "with defaults, value tables, signal groups, comments incl. None/empty, receivers incl. names with surrounding blanks; names "
                "from small pools so that pairs overlap); per matrix: deep copy, shuffled copy, every applicable edit of the catalogue "
                "(~75 edits) x all 16 ignore settings, every text-valued compared property (value descriptions, comments, units, attribute "
                "values, define definitions and defaults) edited between non-empty texts that differ ONLY in non-ASCII characters (2-/3-byte "
                "UTF-8: one replaced, removed or inserted; precomposed vs combining), only in the case of one letter, or only in blanks "
                "(leading, trailing, inner, tab, newline), and objects/entries added whose NAME differs from an existing one in that way "
                "(4 ignore settings each), factor/offset/min/max edited to the neighbouring double (either direction) and by relative steps of "
                "2^-40, 1e-10, 2^-33 at magnitudes from 1e-9 to 1e12 and from 0 (key numeric-edge-edit), same-double Decimal edits, related pairs (0..3 edits + shuffle), unrelated pairs "
                "(incl. an identifier reused under another name), crosswise pairs (frame names and identifiers drawn independently "
                "from pools of 5: equal and different frame counts, several frames meeting one frame, also duplicates inside a "
                "matrix) judged with a transcription of the pairing rule, operands swapped, 8 cancompare flag sets on dumped "
                "DBC files. non-trivial = the pair differs in at least one compared property or is reordered; distinct by (encoded pair, ignore)")
    ok = chk.build_and_audit()
    chk.assumptions += [
        "envelope of the theorems (visible hypotheses): frame and ECU names unique per matrix, signal and signal-group names unique per "
        "frame, dict keys unique (wf_matrix); `coherent a b` for the swap theorem on whole paths (refuted without: "
        "C13_swap_refuted_without_coherence - a renamed frame); C13_unpaired_frames_reported and C13_swap_frames_added_deleted "
        "hold for any two matrices",
        "judged on pairs with crosswise name/identifier collisions (unique names and identifiers per matrix): reports nothing <=> "
        "agree; the frames reported deleted/added are exactly those the pairing rule (by name, else - neither name known to the "
        "other matrix - by identifier) leaves alone; every pair compared once; additions and deletions swap with the operands as "
        "multisets of paths, b's frame names mapped through the pairing.  Judged on pairs with duplicate names or identifiers "
        "inside a matrix: unpaired frames are reported, root-level added/deleted frame lists swap, tree tied to the model; NOT "
        "judged there: the iff and the swap law below the frame level",
        "the model follows compare_db as repaired by fixes/C13_frame_pairing.patch",
        "normal form of model/Compare.v: texts interned as integers (equality only), factor/offset/min/max as bit patterns of float(x) with "
        "-0.0 = 0.0 (NaN excluded), receivers as (name, name.strip()), extended multiplexing / is_float / frame receivers are not read by "
        "compare.py and not part of the normal form",
        "the model follows compare_signal as repaired by fixes/C13_signal_comment.patch and fixes/C13_receiver_strip.patch",
    ]
    cm = core.import_impl()
    C = cm.canmatrix
    import canmatrix.compare as cmp
    import canmatrix.formats
    import canmatrix.cli.compare as clicmp
    rng = chk.rng
    thorough = chk.tier == "thorough"
    gen = Gen(C, rng)
    gen.count = chk.count
    CAT = catalogue() + near_catalogue()
    n_mat = 30 if not thorough else 300
    tie_budget_per_edit = 2 if not thorough else 4
    lines, expect, info = [], [], []

    def compare(a, b, bits):
        """run the implementation; returns (result tree | None when it raised TypeError, encoded case, encoded tree).
        compare_frame rewrites a None frame comment to "" on its operands: encoded first, restored afterwards."""
        I = Intern()
        case = [list(bits)] + enc_matrix(a, I) + [[99]] + enc_matrix(b, I)
        vtids = {id(t): n for n, t in a.value_tables.items()}
        nonec = [f for db in (a, b) for f in db.frames if f.comment is None]
        try:
            res = cmp.compare_db(a, b, ign_dict(bits))
            enc = Enc([[1]] + enc_tree(res, I, vtids))
            enc.open_pairing = place_coincidence(a, b)
        except TypeError:
            res, enc = None, [[0]]
        for f in nonec:
            f.comment = None
        return res, case, enc, None

    def tie(case, enc, inf):
        if getattr(enc, "open_pairing", False):
            chk.count("tie-skipped: partnerless signals at one place on both sides (pairing of signals not fixed)")
            return
        chk.count("tie-cases")
        lines.append(core.fmt_case(1301, case))
        expect.append(enc)
        info.append(inf)

    def describe(a, b, bits, extra=None):
        I = Intern()
        d = dict(ignore={k: bool(v) for k, v in zip(IGN_KEYS, bits)}, a=enc_matrix(a, I), b=enc_matrix(b, I),
                 texts={v: k for k, v in I.t.items()},
                 encoding="groups as in coq/model/Run_C13.v (tag first); texts interned, numbers as IEEE-754 bit patterns")
        if extra:
            d.update(extra)
        return d

    def check_swap(a, b, bits, tag):
        """frame pairing and the swap law.  Judged for every pair of matrices with unique frame names and identifiers:
        (i) the frames that the pairing rule leaves alone are exactly the frames reported deleted (of a) / added (of b), every
        pair is compared once; (ii) additions of compare(b, a) = deletions of compare(a, b) and vice versa, as multisets of
        node paths, the frame names of b being mapped through the pairing (a renamed frame is reported under the first
        operand's name).  For matrices with duplicate names / identifiers only: unpaired frames are reported, and the
        root-level lists of added and deleted frames swap."""
        r1, _, _, _ = compare(a, b, bits)
        r2, _, _, _ = compare(b, a, bits)
        if r1 is None or r2 is None:
            return
        pairs = pair_frames(a, b)
        inco = not coherent(a, b)
        key = "frame-pairing" if inco else "swap"
        pa, pb = {id(x) for x, _ in pairs}, {id(y) for _, y in pairs}
        lone_a = [f.name for f in a.frames if id(f) not in pa]
        lone_b = [f.name for f in b.frames if id(f) not in pb]
        chk.count("pairing-%s-%s" % (tag, "crosswise" if inco else "by-name"))
        inp = describe(a, b, bits, dict(paired=[(x.name, y.name) for x, y in pairs]))
        # unconditional: frames added/deleted swap as lists; unpaired frames are reported
        if (sorted(root_frames(r2, ("added",))) != sorted(root_frames(r1, ("deleted", "removed")))
                or sorted(root_frames(r1, ("added",))) != sorted(root_frames(r2, ("deleted", "removed")))):
            chk.violation(key, "the frames reported added and deleted do not swap with the operands", inp,
                          dict(deleted_ab=root_frames(r1, ("deleted", "removed")), added_ab=root_frames(r1, ("added",))),
                          dict(added_ba=root_frames(r2, ("added",)), deleted_ba=root_frames(r2, ("deleted", "removed"))))
        miss = ([n for n in lone_a if n not in root_frames(r1, ("deleted", "removed"))] + [n for n in lone_b if n not in root_frames(r1, ("added",))])
        if miss:
            chk.violation(key, "a frame that is paired with no frame of the other matrix (by name, else by identifier) is not reported "
                          "as deleted resp. added", inp, dict(deleted=lone_a, added=lone_b),
                          dict(deleted=root_frames(r1, ("deleted", "removed")), added=root_frames(r1, ("added",))))
        if not (envelope(a) and envelope(b)):
            chk.count("pairing-judged-partially (duplicate names or identifiers)")
            return
        if sorted(root_frames(r1, ("deleted", "removed"))) != sorted(lone_a) or sorted(root_frames(r1, ("added",))) != sorted(lone_b):
            chk.violation(key, "the frames reported deleted / added are not exactly the frames without partner", inp,
                          dict(deleted=sorted(lone_a), added=sorted(lone_b)),
                          dict(deleted=root_frames(r1, ("deleted", "removed")), added=root_frames(r1, ("added",))))
        compared = sorted(c.ref.name for c in r1.children if c.type == "FRAME" and c.result not in ("deleted", "added"))
        if compared != sorted(x.name for x, _ in pairs):
            chk.violation(key, "not every pair of frames is compared exactly once", inp, sorted(x.name for x, _ in pairs), compared)
        # the swap law on whole paths, frame names of b mapped through the pairing
        to_a = {y.name: x.name for x, y in pairs}

        def mapped(counter):
            out = collections.Counter()
            for path, n in counter.items():
                # the frame's own node and its ATTRIBUTES node refer to the first operand's frame
                fr = bool(path) and path[0][0] == "FRAME"
                out[tuple((t, to_a.get(r, r)) if fr and (t, i) in (("FRAME", 0), ("ATTRIBUTES", 1)) else (t, r)
                          for i, (t, r) in enumerate(path))] += n
            return out
        good = (mapped(kind_paths(r2, ("added",))) == kind_paths(r1, ("deleted", "removed"))
                and kind_paths(r1, ("added",)) == mapped(kind_paths(r2, ("deleted", "removed"))))
        chk.count("swap-checked-" + tag + ("-crosswise" if inco else ""))
        if not good:
            chk.violation(key, "swapping the operands does not swap additions and deletions", inp,
                          sorted(map(str, kind_paths(r1, ("deleted", "removed")).elements())),
                          sorted(map(str, mapped(kind_paths(r2, ("added",))).elements())))

    def check_iff(a, b, tag, all_bits=False, tie_n=1):
        """reports nothing <=> agree, for the chosen ignore settings"""
        settings = ALL_IGN if all_bits else rng.sample(ALL_IGN, 4)
        tie_pick = set(rng.sample(range(len(settings)), min(tie_n, len(settings))))
        for j, bits in enumerate(settings):
            res, case, enc, _ = compare(a, b, bits)
            exp = agree_py(bits, a, b)
            chk.case((tag, str(case)), not exp or tag != "copy")
            if res is None:
                chk.violation("compare-raises", "compare_db raised TypeError", describe(a, b, bits))
                continue
            if silent(res) != exp:
                what = ("compare_db reports a difference although the matrices agree on every compared property" if exp else
                        "compare_db reports nothing although the matrices differ in a compared property")
                chk.violation(failure_class("iff-" + tag + ("-false-alarm" if exp else "-missed"), res, bits, a, b, not exp),
                              what, describe(a, b, bits), exp,
                              dict(silent=silent(res), report=brief_tree(res)))
            if (res.result in (None, "equal")) != silent(res):
                chk.violation("root-result", "the root is marked as a difference although nothing is reported, or not marked although "
                              "something is (unmarked = result None or 'equal')", describe(a, b, bits), silent(res), res.result)
            # the same coherence one level down: an object whose sub-tree reports a difference is itself reported as
            # changed (a reader of the tree or of cancompare's output stops at nodes marked equal)
            hidden = [(n.type, refname(n)) for n, _ in nodes(res)
                      if n.result in (None, "equal") and any(d.result not in (None, "equal") for d, _ in nodes(n))]
            if hidden:
                chk.violation("inner-node-result", "an object is marked equal although a difference is reported below it",
                              describe(a, b, bits), [], hidden[:6])
            if j in tie_pick:
                tie(case, enc, dict(tag=tag, ignore=bits))

    # ---- fixed regression inputs first (the two repaired defects) ----
    def fixed_inputs():
        db = C.CanMatrix()
        f = C.Frame("F0", arbitration_id=C.ArbitrationId(0x100, False), size=8)
        s = C.Signal("s0", start_bit=0, size=8)
        s.add_receiver("E1 ")
        f.add_signal(s)
        db.add_frame(f)
        res, case, enc, _ = compare(db, copy.deepcopy(db), (0, 0, 0, 0))
        chk.case(("fixed-self-blank-receiver",), True)
        if not silent(res):
            chk.violation("self-compare-blank-receiver", "a matrix compared with a copy of itself reports a difference "
                          "(receiver name with surrounding white space)", describe(db, db, (0, 0, 0, 0)), "nothing", brief_tree(res))
        tie(case, enc, dict(tag="fixed-self-blank-receiver"))
        db2 = copy.deepcopy(db)
        db2.frames[0].signals[0].receivers[:] = []
        db3 = copy.deepcopy(db2)
        db3.frames[0].signals[0].add_comment("txt 1")
        for x, y in ((db2, db3), (db3, db2)):
            res, case, enc, _ = compare(x, y, (0, 0, 0, 0))
            chk.case(("fixed-comment-presence", x is db2), True)
            if silent(res):
                chk.violation("signal-comment-presence", "a signal comment that is added or removed is not reported",
                              describe(x, y, (0, 0, 0, 0)), "changed comment at F0/s0", "nothing reported")
            tie(case, enc, dict(tag="fixed-comment-presence"))
    fixed_inputs()

    # ---- per matrix: copy, shuffle, edits, pairs ----
    applied = collections.Counter()
    for mi in range(n_mat):
        a = gen.matrix()
        assert envelope(a)
        chk.count("frames=%d" % len(a.frames))
        chk.count("signals=%d" % sum(len(f.signals) for f in a.frames))
        if mi < 3:
            chk.sample(dict(matrix=enc_matrix(a, Intern())[:12], note="first groups of a generated matrix (Run_C13 encoding)"))
        # (1) self / copy / reordered copy
        b = copy.deepcopy(a)
        check_iff(a, b, "copy", all_bits=True, tie_n=2)
        res, _, _, _ = compare(a, a, (0, 0, 0, 0))
        if res is None or not silent(res):
            chk.violation(failure_class("self-compare", res, (0, 0, 0, 0), a, a, False) if res is not None else "self-compare",
                          "a matrix compared with itself reports a difference", describe(a, a, (0, 0, 0, 0)))
        sh = copy.deepcopy(a)
        gen.shuffle(sh)
        check_iff(a, sh, "reordered", all_bits=True, tie_n=2)
        check_swap(a, sh, (0, 0, 0, 0), "reordered")
        # same double, other Decimal
        b = copy.deepcopy(a)
        if e_same_double(gen, b) is not None:
            check_iff(a, b, "same-double", tie_n=1)
        # (2) the catalogue
        for edit in CAT:
            b = copy.deepcopy(a)
            e = edit(gen, b)
            if e is None:
                chk.count("edit-not-applicable")
                continue
            applied[edit.__name__] += 1
            if not envelope(b):
                continue
            if e.get("few"):
                # near-text edits: nothing ignored, only the edit's category ignored, everything else ignored, one random setting
                c = e["cat"]
                settings = [(0, 0, 0, 0), tuple(int(i == c) for i in range(4)), tuple(int(i != c) for i in range(4)), rng.choice(ALL_IGN)]
                tie_pick = {rng.randrange(0, 4)}
            else:
                settings = ALL_IGN
                tie_pick = set(rng.sample(range(16), tie_budget_per_edit))
            for j, bits in enumerate(settings):
                res, case, enc, _ = compare(a, b, bits)
                ignored = e["cat"] is not None and bits[e["cat"]]
                chk.case((edit.__name__, str(case)), not ignored)
                inp = describe(a, b, bits, dict(edit=edit.__name__, what=e["what"]))
                if res is None:
                    chk.violation("compare-raises", "compare_db raised TypeError", inp)
                    continue
                key = e.get("key")
                if ignored:
                    if not silent(res):
                        chk.violation(key or failure_class("ignored-edit-reported", res, bits, a, b, False), "an edit of an ignored category is reported: " + e["what"], inp,
                                      "nothing", brief_tree(res))
                else:
                    hits, stray = [], []
                    for n, anc in nodes(res):
                        if n.result == "equal" or n.children:
                            continue
                        ch = chain(n, anc)
                        under = ch[:len(e["chain"])] == e["chain"]
                        if under and n.result in e["kinds"] and (e.get("anc") is None or e["anc"] in [x.type for x in anc]):
                            hits.append(n)
                        elif not under or n.result not in e["kinds"]:
                            stray.append((n.result, n.type, ch))
                    if not hits:
                        chk.violation(key or "edit-not-reported", "a single edit is not reported at the object concerned with the right "
                                      "kind: " + e["what"], inp, dict(chain=e["chain"], kinds=e["kinds"], under=e.get("anc")), brief_tree(res))
                    elif stray:
                        blank = all(t.startswith("receiver ") and t[9:] != t[9:].strip() for _, t, _ in stray)
                        chk.violation("self-compare-blank-receiver" if blank else (key or "edit-collateral"),
                                      "a single edit produces reports elsewhere or of another kind: " + e["what"],
                                      inp, dict(chain=e["chain"], kinds=e["kinds"]), stray[:6])
                    if agree_py(bits, a, b):
                        chk.violation("oracle", "harness: catalogue edit left the pair in agreement", inp)
                if j in tie_pick:
                    tie(case, enc, dict(edit=edit.__name__, ignore=bits))
            if rng.random() < 0.3:
                check_swap(a, b, rng.choice(ALL_IGN), "edit")
        # (3) related pairs: 0..3 edits then reordering
        for _ in range(3):
            b = copy.deepcopy(a)
            for _k in range(rng.randrange(0, 4)):
                rng.choice(CAT)(gen, b)
            gen.shuffle(b)
            if not envelope(b):
                continue
            check_iff(a, b, "related", tie_n=2)
            bits = rng.choice(ALL_IGN)
            check_swap(a, b, bits, "related")
        # unrelated pairs
        for _ in range(3):
            b = gen.matrix()
            inco = rng.random() < 0.25 and len(b.frames) >= 1 and len(a.frames) >= 1
            if inco:
                # a frame of b takes over the identifier of a differently named frame of a (tagged: outside the swap claim)
                fa = rng.choice(a.frames)
                fb = rng.choice(b.frames)
                if fb.name != fa.name and arbkey(fa) not in {arbkey(x) for x in b.frames}:
                    fb.arbitration_id = C.ArbitrationId(*arbkey(fa))
                    b._frames_dict_id_extend = {}
            if not envelope(b):
                continue
            chk.count("unrelated-coherent" if coherent(a, b) else "unrelated-incoherent")
            check_iff(a, b, "unrelated", tie_n=2)
            check_swap(a, b, rng.choice(ALL_IGN), "unrelated")
            check_iff(b, a, "unrelated", tie_n=1)
        # crosswise pairs: frame names AND identifiers drawn independently from small shared pools, equal and different frame
        # counts, several frames of one matrix meeting the same frame of the other by name resp. by identifier
        for k in range(5):
            dups = k == 4            # last one: duplicate names / identifiers inside a matrix are allowed (judged partially)
            na = rng.randrange(1, 5)
            nb = na if rng.random() < 0.5 else rng.randrange(1, 5)
            pair = []
            for n in (na, nb):
                if dups:
                    ns = [rng.randrange(5) for _ in range(n)]
                    arbs = [universe_id(rng.randrange(5)) for _ in range(n)]
                else:
                    ns = rng.sample(range(5), n)
                    arbs = [universe_id(i) for i in rng.sample(range(5), n)]
                db = C.CanMatrix()
                for ni, arb in zip(ns, arbs):
                    db.add_frame(gen.frame(ni, arb=arb))
                pair.append(db)
            ca, cb = pair
            chk.count("crosswise-pair-%s%s" % ("dup-" if dups else "", "same-count" if na == nb else "other-count"))
            landing = collections.Counter(id(y) for _, y in pair_frames(ca, cb))
            if any(v > 1 for v in landing.values()):
                chk.count("crosswise-pair-several-frames-on-one")
            bits = rng.choice(ALL_IGN)
            if dups:
                res, case, enc, _ = compare(ca, cb, bits)
                chk.case(("crosswise-dup", str(case)), True)
                if res is not None:
                    tie(case, enc, dict(tag="crosswise-dup", ignore=bits))
            else:
                check_iff(ca, cb, "crosswise", tie_n=2)
            check_swap(ca, cb, bits, "crosswise")
        # limits absent: the comparison raises (model: None)
        if mi % 10 == 0:
            b = copy.deepcopy(a)
            f, s = pick_signal(gen, b)
            s.calc_min_for_none = False
            s.min = None
            res, case, enc, _ = compare(a, b, (0, 0, 0, 0))
            chk.count("limit-none-raises" if res is None else "limit-none-no-raise")
            tie(case, enc, dict(tag="min None"))
    for k, v in sorted(applied.items()):
        chk.count("edit:" + k, v)
    never = [e.__name__ for e in CAT if not applied[e.__name__]]
    if never:
        chk.notes.append("edits never applicable in this run: " + ", ".join(never))
        if not thorough and len(never) > 6 or thorough and never:
            chk.obligation_failures.append("edit catalogue not exercised: " + ", ".join(never))

    # ---- (5) cancompare: flags -> ignore ----
    def run_cli(args):
        """cancompare's stdout and the ignore dict it hands to compare_db (observed by wrapping the library function)"""
        seen = []
        orig = cmp.compare_db

        def spy(d1, d2, ignore=None):
            seen.append(dict(ignore or {}))
            return orig(d1, d2, ignore)
        buf = io.StringIO()
        cmp.compare_db = spy
        try:
            with contextlib.redirect_stdout(buf):
                clicmp.cli_compare.main(args, standalone_mode=False)
        finally:
            cmp.compare_db = orig
        ign = seen[0] if seen else None
        obs = None if ign is None else [int("comment" in ign), int(ign.get("ATTRIBUTE") == "*"), int(ign.get("DEFINE") == "*"),
                                        int(bool(ign.get("VALUETABLES")))]
        return buf.getvalue(), obs

    def run_lib(p1, p2, ign):
        d1 = canmatrix.formats.loadp_flat(p1)
        d2 = canmatrix.formats.loadp_flat(p2)
        buf = io.StringIO()
        with contextlib.redirect_stdout(buf):
            cmp.dump_result(cmp.compare_db(d1, d2, ign))
        return buf.getvalue()

    tmp = tempfile.mkdtemp(prefix="c13_")
    try:
        n_cli = 3 if not thorough else 12
        for ci in range(n_cli):
            base = C.CanMatrix()
            base.add_ecu(C.Ecu("E0"))
            base.add_ecu(C.Ecu("E1"))
            base.add_frame_defines("A0", "STRING")
            f = C.Frame("F0", arbitration_id=C.ArbitrationId(0x100 + ci, False), size=8)
            f.add_transmitter("E0")
            f.add_comment("frame text")
            f.add_attribute("A0", "one")
            for k in range(2):
                s = C.Signal("s%d" % k, start_bit=8 * k, size=8, is_signed=False)
                s.add_comment("signal text %d" % k)
                s.add_receiver("E1")
                s.add_values(1, "on")
                f.add_signal(s)
            base.add_frame(f)
            variants = {"none": lambda d: None,
                        "comment": lambda d: d.frames[0].signals[1].add_comment("other text"),
                        "attribute": lambda d: d.frames[0].add_attribute("A0", "two"),
                        "valuetable": lambda d: d.frames[0].signals[0].add_values(1, "off"),
                        "layout": lambda d: setattr(d.frames[0].signals[0], "size", 7)}
            p1 = os.path.join(tmp, "a%d.dbc" % ci)
            with open(p1, "wb") as fh:
                canmatrix.formats.dump(base, fh, "dbc")
            for vname, mod in variants.items():
                d = copy.deepcopy(base)
                mod(d)
                p2 = os.path.join(tmp, "b%d_%s.dbc" % (ci, vname))
                with open(p2, "wb") as fh:
                    canmatrix.formats.dump(d, fh, "dbc")
                for c in (0, 1):
                    for at in (0, 1):
                        for t in (0, 1):
                            args = ["-s"] + (["-c"] if c else []) + (["-a"] if at else []) + (["-t"] if t else []) + [p1, p2]
                            got, obs = run_cli(args)
                            bits = (1 - c, 1 - at, 0, t)      # documented: -c/-a switch checks on, -t switches value tables off
                            want = run_lib(p1, p2, ign_dict(bits))
                            chk.case(("cli", ci, vname, c, at, t), vname != "none")
                            chk.count("cli")
                            inp = dict(flags=args[:-2], edit=vname)
                            if got != want or obs != list(bits):
                                chk.violation("cli-flag-mapping", "cancompare flags do not select the documented ignore settings", inp,
                                              want[:300], got[:300])
                            visible = {"none": False, "comment": bool(c), "attribute": bool(at), "valuetable": not t, "layout": True}[vname]
                            if bool(got.strip()) != visible:
                                chk.violation("cli-flag-effect", "cancompare output does not show exactly the differences its flags ask for",
                                              inp, "output" if visible else "no output", got[:300])
                            lines.append(core.fmt_case(1302, [[c, at, t]]))
                            expect.append([obs if obs is not None else [-1]])
                            info.append(dict(cli=(c, at, t)))
    finally:
        shutil.rmtree(tmp, ignore_errors=True)

    chk.sample(dict(edit="signal factor 0.1 -> 0.5 in frame F3/signal s2", expect="changed 'factor' under FRAME F3 / SIGNAL s2, for all 16 ignore settings"))
    chk.sample(dict(edit="signal attribute A1 deleted", expect="deleted 'A1' under ATTRIBUTES of the signal iff attributes are not ignored"))

    if not ok:
        chk.ties["correspondence"] = "not run (build failed)"
        return
    out = core.run_model(lines)
    bad = 0
    parsed = []
    for inf, exp, o in zip(info, expect, out):
        got = core.parse_out(o)
        parsed.append(got)
        if canon_tree(got) != canon_tree(exp):
            bad += 1
            key = lambda g: sorted(tuple([3 if x[1] == 4 else x[1]] + x[2:]) for x in g[1:]) if g and g[0] == [1] else g
            only_m = [x for x in key(got) if x not in key(exp)][:3] if got and got[0] == [1] and exp and exp[0] == [1] else got[:3]
            only_i = [x for x in key(exp) if x not in key(got)][:3] if got and got[0] == [1] and exp and exp[0] == [1] else exp[:3]
            chk.tie_break("compare", dict(inf, note="nodes (result, type, arg1, arg2, ref) on one side only; sibling order and "
                                                    "the spelling removed/deleted are not compared"), only_m, only_i)
    if os.environ.get("C13_DEBUG"):
        for t in chk.tie_breaks[:int(os.environ["C13_DEBUG"])]:
            print("TIE", t["case"], "\n   model", t["model"], "\n   impl ", t["impl"])
    chk.ties["correspondence"] = {"suite": "compare_db tree (cmd 1301; siblings sorted, removed = deleted) + cli flags (1302)", "cases": len(lines), "disagreements": bad}
    idx = rng.sample(range(len(lines)), min(150, len(lines)))
    shard = []
    for i in idx:
        c, groups = lines[i].split(" ", 1)
        # vm_compute vs the extracted driver, exactly; the driver's answers are compared with the implementation above (canonical form)
        shard.append((int(c, 16), core.parse_out(groups), parsed[i]))
    mm, log = core.coq_shard(shard, "c13", timeout=900)
    chk.ties["vm_compute_shard"] = {"cases": len(shard), "mismatches": mm, "compares": "in-Coq vm_compute vs extracted driver (exact)"}
    if mm is None:
        chk.obligation_failures.append("in-Coq shard failed to evaluate")
        chk.build_log = log[-3000:]
    else:
        for i in mm:
            chk.tie_break("compare-shard", info[idx[i]], "vm_compute differs", shard[i][2][:3])
